(* TracingFullP.v — theorems about Model/TracingFull.v, the composition of the forwarding protocol (Tracing.v) and the
   attribution model (TracingAttr.v): a log is delivered to the scenario attempt that emitted it, exactly once, before
   its step's result.
    1-2.  what one step does; (P) `projection`: a run of the layer is a run of `Tracing.texec` (`fproj`);
    3.    the structural invariant `sinv` (the runner's order: `i_live`);
    4.    `still_registered_while_queued`: the registration hypothesis of `TracingAttrP.attribution` is a CONSEQUENCE;
    5-7.  (T) THE COMPOSED THEOREM: `delivered_or_queued_once`, `delivered_at_most_once_to_emitter`,
          `delivered_once_before_result`, `delivered_before_finish`;
    8.    `emit_resolves_to_attempt`, `logs_before_result_full` (the protocol theorem through the projection);
    9.    (N) `nested_delivery`;
    10.   (E) examples by `vm_compute`, witnesses for the hypotheses;
    11.   `attribution_hypotheses_at_delivery`; (P') `projection_attr`: the table and the registry are those of
          `TracingAttr.arun` on a `shaped` record stream (`frecs`);
    12.   what remains outside. *)
From CV Require Import Model.Base Model.Events Model.Tracing Model.TracingAttr Model.TracingFull.
From CV Require Import Proofs.BaseP Proofs.TracingP Proofs.TracingP2 Proofs.TracingAttrP.
From Coq Require Import Lia.

(* ---------------------------------------------------------------------------------------------------------------- *)
(* 0. utilities                                                                                                     *)
(* ---------------------------------------------------------------------------------------------------------------- *)
Lemma dec_enc k : dec (enc k) = k.
Proof.
  destruct k as [id|]; [|reflexivity]. unfold enc, dec.
  destruct (id + 1 =? 0) eqn:E; [apply N.eqb_eq in E; lia|]. f_equal. lia.
Qed.

Lemma in_snoc {A} (x l : A) ls : In x (ls ++ [l]) <-> In x ls \/ x = l.
Proof.
  split.
  - intros H. apply in_app_or in H as [H|[H|[]]]; [left; exact H|right; symmetry; exact H].
  - intros [H|H]; apply in_or_app; [left; exact H|right; left; symmetry; exact H].
Qed.

Ltac snoc H := apply in_snoc in H; destruct H as [H|H]; [|try discriminate H].

Lemma new_span_eq t x p io : new_span t x p io = (x, mk_span p io) :: t.
Proof. destruct io as [k|]; [|reflexivity]. unfold new_span. cbn. rewrite N.eqb_refl. reflexivity. Qed.

Lemma rec_wf_new t x p : rec_wf t (ANewSpan x p) = true ->
  alookup x t = None /\ (forall q, p = Some q -> alookup q t <> None).
Proof.
  cbn. intros H. apply andb_true_iff in H as [H1 H2]. split.
  - destruct (alookup x t); [discriminate|reflexivity].
  - intros q ->. destruct (alookup q t); [discriminate|discriminate].
Qed.

Lemma wf_cons t x p io : wf_tbl t -> rec_wf t (ANewSpan x p) = true -> wf_tbl ((x, mk_span p io) :: t).
Proof.
  intros W H. apply rec_wf_new in H as [H1 H2]. cbn. split; [exact H1|]. split; [|exact W].
  intros q E. apply H2. exact E.
Qed.

Lemma alookup_cons_keep {V} (x y : N) (v : V) t : alookup x t <> None -> alookup y t = None ->
  alookup x ((y, v) :: t) = alookup x t.
Proof. apply alookup_cons_other. Qed.

Lemma alookup_cons_some {V} (x y : N) (v w : V) t : alookup x t = Some w -> alookup y t = None ->
  alookup x ((y, v) :: t) = Some w.
Proof. intros H1 H2. rewrite alookup_cons_other; [exact H1|rewrite H1; discriminate|exact H2]. Qed.

Lemma alookup_cons_ne {V} (x y : N) (v : V) t : alookup x t <> None -> alookup x ((y, v) :: t) <> None.
Proof. intros H. cbn. destruct (x =? y); [discriminate|exact H]. Qed.

Lemma top_span_cons t y s a k : wf_tbl t -> alookup y t = None -> top_span t a k -> top_span ((y, s) :: t) a k.
Proof.
  intros W Hy (sa & Ha & Hk & Hup). exists sa. split; [eapply alookup_cons_some; eauto|]. split; [exact Hk|].
  destruct (sp_parent sa) as [q|] eqn:Ep; [|reflexivity].
  rewrite lookup_cons; [exact Hup|exact W|exact Hy|]. eapply wf_parent_in; eauto.
Qed.

Lemma below_cons t y s u v : alookup y t = None -> below t u v -> below ((y, s) :: t) u v.
Proof.
  intros Hy Hb. induction Hb as [u|u su p a Hu Hp Hpa IH]; [apply below_refl|].
  eapply below_up; [eapply alookup_cons_some; eauto|exact Hp|exact IH].
Qed.

Lemma below_b_sound : forall f t y x, below_b f t y x = true -> below t y x /\ alookup x t <> None.
Proof.
  induction f as [|f IH]; intros t y x H; [discriminate|]. cbn [below_b] in H.
  destruct (alookup y t) as [s|] eqn:Ey; [|discriminate].
  apply orb_prop in H as [H|H].
  - apply N.eqb_eq in H. subst x. split; [apply below_refl|rewrite Ey; discriminate].
  - destruct (sp_parent s) as [p|] eqn:Ep; [|discriminate]. destruct (IH _ _ _ H) as [B X].
    split; [eapply below_up; eauto|exact X].
Qed.

Lemma memN_cons x y l : memN x (y :: l) = (x =? y) || memN x l.
Proof. reflexivity. Qed.

Lemma fmsgs_app a b : fmsgs (a ++ b) = fmsgs a ++ fmsgs b.
Proof. unfold fmsgs. apply flat_map_app. Qed.
Lemma in_fmsgs m ls : In m (fmsgs ls) <-> exists y x, In (FEmit m y x) ls.
Proof.
  unfold fmsgs. rewrite in_flat_map. split.
  - intros (l & Hl & Hm). destruct l; cbn in Hm; try contradiction. destruct Hm as [->|[]]. eauto.
  - intros (y & x & H). exists (FEmit m y x). split; [exact H|left; reflexivity].
Qed.
Lemma dels_app m a b : dels m (a ++ b) = dels m a ++ dels m b.
Proof. unfold dels. apply filter_app. Qed.

Lemma NoDup_app_r {A} (a b : list A) : NoDup (a ++ b) -> NoDup b.
Proof. induction a as [|x a IH]; [auto|]. cbn. intros H. inversion H; auto. Qed.
Lemma NoDup_app_l {A} (a b : list A) : NoDup (a ++ b) -> NoDup a.
Proof.
  induction a as [|x a IH]; [constructor|]. cbn. intros H. inversion H as [|? ? Hn Hd]; subst.
  constructor; [|apply IH; exact Hd]. intros Hin. apply Hn. apply in_or_app. left. exact Hin.
Qed.

(* unique message ids: a message is logged by one label only *)
Lemma fmsgs_unique : forall ls m y x y' x', NoDup (fmsgs ls) ->
  In (FEmit m y x) ls -> In (FEmit m y' x') ls -> y = y' /\ x = x'.
Proof.
  induction ls as [|l ls IH]; intros m y x y' x' ND H1 H2; [contradiction|].
  change (l :: ls) with ([l] ++ ls) in ND. rewrite fmsgs_app in ND.
  destruct H1 as [H1|H1], H2 as [H2|H2].
  - subst l. inversion H2. auto.
  - subst l. cbn in ND. inversion ND as [|? ? Hn _]. exfalso. apply Hn. apply in_fmsgs. eauto.
  - subst l. cbn in ND. inversion ND as [|? ? Hn _]. exfalso. apply Hn. apply in_fmsgs. eauto.
  - apply (IH m); [|exact H1|exact H2]. apply NoDup_app_r in ND. exact ND.
Qed.

(* ---------------------------------------------------------------------------------------------------------------- *)
(* 1. what one step of the layer does                                                                               *)
(* ---------------------------------------------------------------------------------------------------------------- *)
Lemma run_base_spec s b s' o : run_base s b = Some (s', o) ->
  exists b' bo, tstep (f_base s) b = Some (b', bo) /\
    s' = mk_fs b' (f_tbl s) (f_reg s) (f_att s) (f_steps s)
               (match b with TResult x => x :: f_done s | _ => f_done s end) /\
    o = flat_map (deliver (f_reg s)) bo.
Proof.
  unfold run_base. destruct (tstep (f_base s) b) as [[b' bo]|]; [|discriminate].
  intros H. inversion H; subst. eauto.
Qed.

Lemma fstep_attempt s sid sc rt a p s' o : fstep s (FAttempt sid sc rt a p) = Some (s', o) ->
  alookup sid (f_att s) = None /\ rec_wf (f_tbl s) (ANewSpan a p) = true /\ scope_lookup (f_tbl s) p = None /\
  s' = mk_fs (f_base s) ((a, mk_span p (Some sid)) :: f_tbl s) (reg_insert sid sc rt (f_reg s))
             ((sid, a) :: f_att s) (f_steps s) (f_done s) /\ o = [].
Proof.
  cbn [fstep]. rewrite new_span_eq.
  destruct (alookup sid (f_att s)); cbn [is_some negb andb]; [discriminate|].
  destruct (rec_wf (f_tbl s) (ANewSpan a p)) eqn:W; cbn [andb]; [|discriminate].
  destruct (scope_lookup (f_tbl s) p) eqn:L; cbn [is_some negb]; [discriminate|].
  intros H. inversion H; subst. auto.
Qed.

Lemma fstep_stepspan s x sid s' o : fstep s (FStepSpan x sid) = Some (s', o) ->
  exists a, alookup sid (f_att s) = Some a /\ alookup sid (f_reg s) <> None /\
    rec_wf (f_tbl s) (ANewSpan x (Some a)) = true /\
    s' = mk_fs (f_base s) ((x, mk_span (Some a) None) :: f_tbl s) (f_reg s) (f_att s)
               ((x, sid) :: f_steps s) (f_done s) /\ o = [].
Proof.
  cbn [fstep]. destruct (alookup sid (f_att s)) as [a|]; [|discriminate]. rewrite new_span_eq.
  destruct (alookup sid (f_reg s)); cbn [is_some andb]; [|discriminate].
  destruct (rec_wf (f_tbl s) (ANewSpan x (Some a))) eqn:W; [|discriminate].
  intros H. inversion H; subst. exists a. split; [reflexivity|]. split; [discriminate|]. split; [exact W|]. split; reflexivity.
Qed.

Lemma fstep_span s y p io s' o : fstep s (FSpan y p io) = Some (s', o) ->
  rec_wf (f_tbl s) (ANewSpan y p) = true /\
  s' = mk_fs (f_base s) ((y, mk_span p io) :: f_tbl s) (f_reg s) (f_att s) (f_steps s) (f_done s) /\ o = [].
Proof.
  cbn [fstep]. rewrite new_span_eq. destruct (rec_wf (f_tbl s) (ANewSpan y p)) eqn:W; [|discriminate].
  intros H. inversion H; subst. auto.
Qed.

Lemma fstep_emit s m y x s' o : fstep s (FEmit m y x) = Some (s', o) ->
  below (f_tbl s) y x /\ alookup x (f_tbl s) <> None /\
  run_base s (TEmit (enc (scope_lookup (f_tbl s) (Some y))) m x) = Some (s', o).
Proof.
  cbn [fstep]. destruct (below_b (length (f_tbl s)) (f_tbl s) y x) eqn:B; [|discriminate].
  apply below_b_sound in B as [B X]. auto.
Qed.

Lemma fstep_base s b s' o : fstep s (FBase b) = Some (s', o) ->
  (forall k m x, b <> TEmit k m x) /\ run_base s b = Some (s', o).
Proof. cbn [fstep]. destruct b; try discriminate; intros H; (split; [intros; discriminate|exact H]). Qed.

Lemma steps_done_spec s sid : steps_done s sid = true ->
  forall x, alookup x (f_steps s) = Some sid -> memN x (f_done s) = true.
Proof.
  unfold steps_done. rewrite forallb_forall. intros H x Hx. apply alookup_In in Hx.
  specialize (H _ Hx). cbn in H. rewrite N.eqb_refl in H. exact H.
Qed.

Lemma fstep_finish s sid s' o : fstep s (FFinish sid) = Some (s', o) ->
  alookup sid (f_reg s) <> None /\
  (forall x, alookup x (f_steps s) = Some sid -> memN x (f_done s) = true) /\
  s' = mk_fs (f_base s) (f_tbl s) (reg_remove sid (f_reg s)) (f_att s) (f_steps s) (f_done s) /\ o = [].
Proof.
  cbn [fstep]. destruct (alookup sid (f_reg s)); cbn [is_some andb]; [|discriminate].
  destruct (steps_done s sid) eqn:D; [|discriminate]. intros H. inversion H; subst.
  split; [discriminate|]. split; [apply steps_done_spec; exact D|auto].
Qed.

(* ---------------------------------------------------------------------------------------------------------------- *)
(* 2. (P) projection onto the protocol                                                                              *)
(* ---------------------------------------------------------------------------------------------------------------- *)
Definition tres (o : list tout) : list N := flat_map (fun e => match e with TRes x => [x] | TLog _ _ => [] end) o.
Definition fres (o : list fout) : list N := flat_map (fun e => match e with FRes x => [x] | FDeliver _ _ _ => [] end) o.
Lemma tres_app a b : tres (a ++ b) = tres a ++ tres b. Proof. apply flat_map_app. Qed.
Lemma fres_app a b : fres (a ++ b) = fres a ++ fres b. Proof. apply flat_map_app. Qed.

Lemma fres_deliver r bo : fres (flat_map (deliver r) bo) = tres bo.
Proof.
  induction bo as [|e bo IH]; [reflexivity|]. cbn [flat_map]. rewrite fres_app, IH.
  change (e :: bo) with ([e] ++ bo). rewrite tres_app. f_equal. destruct e as [k m|x]; [|reflexivity].
  cbn. rewrite ?app_nil_r. induction (recipients r (dec k)) as [|z l IHl]; [reflexivity|exact IHl].
Qed.

Lemma in_deliver r bo sc rt m : In (FDeliver sc rt m) (flat_map (deliver r) bo) ->
  exists k, In (TLog k m) bo /\ In (sc, rt) (recipients r (dec k)).
Proof.
  intros H. apply in_flat_map in H as (e & He & H). destruct e as [k m'|x]; cbn in H.
  - apply in_map_iff in H as ([sc' rt'] & E & Hin). inversion E; subst. eauto.
  - destruct H as [H|[]]. discriminate.
Qed.

(* one step *)
Lemma fstep_projects s l s' o : fstep s l = Some (s', o) ->
  match base_of s l with
  | [b] => exists bo, tstep (f_base s) b = Some (f_base s', bo) /\ o = flat_map (deliver (f_reg s)) bo
  | _ => f_base s' = f_base s /\ o = []
  end.
Proof.
  intros H. destruct l as [sid sc rt a p|x sid|y p io|m y x|b|sid]; cbn [base_of].
  - apply fstep_attempt in H as (_ & _ & _ & -> & ->). auto.
  - apply fstep_stepspan in H as (a & _ & _ & _ & -> & ->). auto.
  - apply fstep_span in H as (_ & -> & ->). auto.
  - apply fstep_emit in H as (_ & _ & H). apply run_base_spec in H as (b' & bo & T & -> & ->). eauto.
  - apply fstep_base in H as (_ & H). apply run_base_spec in H as (b' & bo & T & -> & ->). eauto.
  - apply fstep_finish in H as (_ & _ & -> & ->). auto.
Qed.

(* (P) a run of the layer IS a run of the protocol: same protocol state, the same result events in the same order, and
   every delivery is the forwarding of a log of the protocol to one of the recipients of its resolved id *)
Theorem fexec_projects : forall ls s s' out, fexec s ls = Some (s', out) ->
  exists bout, texec (f_base s) (fproj s ls) = Some (f_base s', bout) /\ fres out = tres bout /\
    (forall sc rt m, In (FDeliver sc rt m) out -> exists k, In (TLog k m) bout).
Proof.
  induction ls as [|l t IH]; intros s s' out H; cbn [fexec] in H.
  - inversion H; subst. exists []. cbn. split; [reflexivity|]. split; [reflexivity|]. intros ? ? ? [].
  - destruct (fstep s l) as [[s1 o1]|] eqn:S1; [|discriminate].
    destruct (fexec s1 t) as [[s2 o2]|] eqn:S2; [|discriminate]. inversion H; subst.
    destruct (IH _ _ _ S2) as (bo2 & T2 & R2 & D2). cbn [fproj]. rewrite S1.
    pose proof (fstep_projects _ _ _ _ S1) as P.
    destruct (base_of s l) as [|b [|b2 bs]] eqn:BE.
    + destruct P as [EB ->]. exists bo2. cbn [app]. rewrite <- EB. split; [exact T2|]. split; [exact R2|exact D2].
    + destruct P as (bo & T1 & ->). exists (bo ++ bo2). cbn [app texec]. rewrite T1, T2.
      split; [reflexivity|]. split; [rewrite fres_app, tres_app, fres_deliver, R2; reflexivity|].
      intros sc rt m Hin. apply in_app_or in Hin as [Hin|Hin].
      * apply in_deliver in Hin as (k & Hk & _). exists k. apply in_or_app. left. exact Hk.
      * destruct (D2 _ _ _ Hin) as (k & Hk). exists k. apply in_or_app. right. exact Hk.
    + exfalso. destruct l; discriminate BE.
Qed.

Corollary projection ls s out : fexec finit ls = Some (s, out) ->
  exists bout, texec tinit (fproj finit ls) = Some (f_base s, bout) /\ fres out = tres bout /\
    (forall sc rt m, In (FDeliver sc rt m) out -> exists k, In (TLog k m) bout).
Proof. apply fexec_projects. Qed.

(* ---------------------------------------------------------------------------------------------------------------- *)
(* 3. the structural invariant of the layer                                                                         *)
(* ---------------------------------------------------------------------------------------------------------------- *)
Lemma tstep_released_mono s l s' o : spans_ok s -> tstep s l = Some (s', o) ->
  incl_b (t_released s) (t_released s') /\
  match l with TResult x => memN x (t_released s') = true | _ => True end.
Proof.
  intros OK H. destruct l as [sc m x|x|x| |x]; cbn [tstep] in H.
  - destruct (memN x (t_closed s)); [discriminate|]. inversion H; subst. split; [intros z Hz; exact Hz|exact I].
  - destruct (memN x (t_closed s)); [discriminate|]. inversion H; subst. split; [intros z Hz; exact Hz|exact I].
  - inversion H; subst. split; [intros z Hz; exact Hz|exact I].
  - assert (LT : (length (t_logs s) < S (length (t_logs s)))%nat) by lia.
    destruct (fwd_loop_spec (S (length (t_logs s))) s OK LT) as (_ & _ & RL & _ & _).
    destruct (fwd_loop (S (length (t_logs s))) s) as [s2 o2]. inversion H; subst. cbn [fst] in RL. split; [exact RL|exact I].
  - destruct (memN x (t_released s)) eqn:R; [|discriminate]. inversion H; subst. split; [intros z Hz; exact Hz|exact R].
Qed.

Record sinv (ls : list flabel) (s : fstate) (out : list fout) : Prop := mk_sinv {
  i_base : exists bls bout, inv bls (f_base s) bout;
  i_wf : wf_tbl (f_tbl s);
  (* the span of an attempt is a span with the attempt's id and no id'd span above it *)
  i_att : forall sid a, alookup sid (f_att s) = Some a -> top_span (f_tbl s) a sid;
  i_regatt : forall sid, alookup sid (f_att s) = None -> alookup sid (f_reg s) = None;
  (* a step / hook span lies below the span of its attempt *)
  i_step : forall x sid, alookup x (f_steps s) = Some sid ->
    exists a, alookup sid (f_att s) = Some a /\ below (f_tbl s) x a /\ alookup x (f_tbl s) <> None;
  (* THE RUNNER'S ORDER: an attempt whose id is gone has had the results of all its steps and hooks *)
  i_live : forall x sid, alookup x (f_steps s) = Some sid ->
    memN x (f_done s) = true \/ alookup sid (f_reg s) <> None;
  i_done : forall x, memN x (f_done s) = true -> memN x (t_released (f_base s)) = true;
  l_att : forall sid sc rt a p, In (FAttempt sid sc rt a p) ls ->
    alookup sid (f_att s) = Some a /\ (alookup sid (f_reg s) = None \/ alookup sid (f_reg s) = Some (sc, rt));
  l_step : forall x sid, In (FStepSpan x sid) ls -> alookup x (f_steps s) = Some sid;
  l_emit : forall m y x, In (FEmit m y x) ls -> alookup x (f_tbl s) <> None;
  l_fin : forall sid, In (FFinish sid) ls -> alookup sid (f_reg s) = None /\ alookup sid (f_att s) <> None;
  (* a queued log was logged by a label of the run, and carries the id of the attempt of its step / hook span *)
  q_src : forall lg, In lg (t_logs (f_base s)) ->
    (exists y, In (FEmit (l_msg lg) y (l_span lg)) ls) /\
    (forall sid, alookup (l_span lg) (f_steps s) = Some sid -> l_scen lg = sid + 1);
  o_src : forall sc rt m, In (FDeliver sc rt m) out -> In m (fmsgs ls) }.

Lemma sinv_init : sinv [] finit [].
Proof.
  constructor; cbn; try (intros; discriminate); try (intros; contradiction).
  - exists [], []. exact init_inv.
  - exact I.
  - intros; reflexivity.
Qed.

Ltac sfields := cbn [f_base f_tbl f_reg f_att f_steps f_done].

Lemma sinv_span ls s out y p io :
  sinv ls s out -> rec_wf (f_tbl s) (ANewSpan y p) = true ->
  sinv (ls ++ [FSpan y p io])
       (mk_fs (f_base s) ((y, mk_span p io) :: f_tbl s) (f_reg s) (f_att s) (f_steps s) (f_done s)) (out ++ []).
Proof.
  intros [Ib Iw Ia Ira Is Il Id La Ls Le Lf Q O] W. pose proof (rec_wf_new _ _ _ W) as [Hy _].
  constructor; sfields.
  - exact Ib.
  - apply wf_cons; assumption.
  - intros sid a H. apply top_span_cons; auto.
  - exact Ira.
  - intros x sid H. destruct (Is _ _ H) as (a & A1 & A2 & A3). exists a. split; [exact A1|].
    split; [apply below_cons; assumption|apply alookup_cons_ne; exact A3].
  - exact Il.
  - exact Id.
  - intros sid sc rt a p0 H. snoc H. eapply La; eauto.
  - intros x sid H. snoc H. eapply Ls; eauto.
  - intros m y0 x H. snoc H. apply alookup_cons_ne. eapply Le; eauto.
  - intros sid H. snoc H. eapply Lf; eauto.
  - intros lg H. destruct (Q lg H) as [(y0 & Q1) Q2]. split; [exists y0; apply in_snoc; left; exact Q1|exact Q2].
  - rewrite app_nil_r. intros sc rt m H. rewrite fmsgs_app. apply in_or_app. left. eapply O; eauto.
Qed.

Lemma sinv_stepspan ls s out x sid a :
  sinv ls s out -> alookup sid (f_att s) = Some a -> alookup sid (f_reg s) <> None ->
  rec_wf (f_tbl s) (ANewSpan x (Some a)) = true ->
  sinv (ls ++ [FStepSpan x sid])
       (mk_fs (f_base s) ((x, mk_span (Some a) None) :: f_tbl s) (f_reg s) (f_att s) ((x, sid) :: f_steps s) (f_done s))
       (out ++ []).
Proof.
  intros [Ib Iw Ia Ira Is Il Id La Ls Le Lf Q O] A R W. pose proof (rec_wf_new _ _ _ W) as [Hx _].
  assert (NS : alookup x (f_steps s) = None).
  { destruct (alookup x (f_steps s)) as [sid0|] eqn:E; [|reflexivity].
    destruct (Is _ _ E) as (a0 & _ & _ & X). congruence. }
  constructor; sfields.
  - exact Ib.
  - apply wf_cons; assumption.
  - intros sid0 a0 H. apply top_span_cons; auto.
  - exact Ira.
  - intros x0 sid0 H. cbn [alookup] in H. destruct (x0 =? x) eqn:E.
    + apply N.eqb_eq in E. subst x0. inversion H; subst sid0. exists a. split; [exact A|]. split.
      * eapply (below_up _ x (mk_span (Some a) None) a a); [cbn; rewrite N.eqb_refl; reflexivity|reflexivity|apply below_refl].
      * cbn. rewrite N.eqb_refl. discriminate.
    + destruct (Is _ _ H) as (a0 & A1 & A2 & A3). exists a0. split; [exact A1|].
      split; [apply below_cons; assumption|apply alookup_cons_ne; exact A3].
  - intros x0 sid0 H. cbn [alookup] in H. destruct (x0 =? x) eqn:E.
    + inversion H; subst sid0. right. exact R.
    + eapply Il; eauto.
  - exact Id.
  - intros sid0 sc rt a0 p0 H. snoc H. eapply La; eauto.
  - intros x0 sid0 H. snoc H.
    + pose proof (Ls _ _ H) as H1. cbn [alookup]. destruct (x0 =? x) eqn:E; [|exact H1].
      apply N.eqb_eq in E. subst x0. congruence.
    + inversion H; subst. cbn [alookup]. rewrite N.eqb_refl. reflexivity.
  - intros m y0 x0 H. snoc H. apply alookup_cons_ne. eapply Le; eauto.
  - intros sid0 H. snoc H. eapply Lf; eauto.
  - intros lg H. destruct (Q lg H) as [(y0 & Q1) Q2]. split; [exists y0; apply in_snoc; left; exact Q1|].
    intros sid0 H0. cbn [alookup] in H0. destruct (l_span lg =? x) eqn:E; [|apply Q2; exact H0].
    apply N.eqb_eq in E. exfalso. apply (Le _ _ _ Q1). rewrite E. exact Hx.
  - rewrite app_nil_r. intros sc rt m H. rewrite fmsgs_app. apply in_or_app. left. eapply O; eauto.
Qed.

Lemma sinv_attempt ls s out sid sc rt a p :
  sinv ls s out -> alookup sid (f_att s) = None -> rec_wf (f_tbl s) (ANewSpan a p) = true ->
  scope_lookup (f_tbl s) p = None ->
  sinv (ls ++ [FAttempt sid sc rt a p])
       (mk_fs (f_base s) ((a, mk_span p (Some sid)) :: f_tbl s) (reg_insert sid sc rt (f_reg s))
              ((sid, a) :: f_att s) (f_steps s) (f_done s)) (out ++ []).
Proof.
  intros [Ib Iw Ia Ira Is Il Id La Ls Le Lf Q O] NA W UP. pose proof (rec_wf_new _ _ _ W) as [Ha Hp].
  assert (NE : forall sid0 v, alookup sid0 (f_att s) = Some v -> (sid0 =? sid) = false).
  { intros sid0 v H. apply N.eqb_neq. intros ->. congruence. }
  constructor; sfields.
  - exact Ib.
  - apply wf_cons; assumption.
  - intros sid0 a0 H. cbn [alookup] in H. destruct (sid0 =? sid) eqn:E.
    + apply N.eqb_eq in E. subst sid0. inversion H; subst a0.
      exists (mk_span p (Some sid)). split; [cbn; rewrite N.eqb_refl; reflexivity|]. split; [reflexivity|].
      cbn [sp_parent]. destruct p as [q|]; [|reflexivity].
      rewrite lookup_cons; [exact UP|exact Iw|exact Ha|apply Hp; reflexivity].
    + apply top_span_cons; auto.
  - intros sid0 H. cbn [alookup] in H. rewrite alookup_reg_insert. destruct (sid0 =? sid); [discriminate|]. apply Ira. exact H.
  - intros x sid0 H. destruct (Is _ _ H) as (a0 & A1 & A2 & A3). exists a0.
    split; [cbn [alookup]; rewrite (NE _ _ A1); exact A1|].
    split; [apply below_cons; assumption|apply alookup_cons_ne; exact A3].
  - intros x sid0 H. destruct (Il _ _ H) as [D|R]; [left; exact D|right].
    rewrite alookup_reg_insert. destruct (sid0 =? sid); [discriminate|exact R].
  - exact Id.
  - intros sid0 sc0 rt0 a0 p0 H. snoc H.
    + destruct (La _ _ _ _ _ H) as [A1 A2]. cbn [alookup]. rewrite alookup_reg_insert, (NE _ _ A1). split; assumption.
    + inversion H; subst. cbn [alookup]. rewrite alookup_reg_insert, N.eqb_refl. split; [reflexivity|right; reflexivity].
  - intros x sid0 H. snoc H. eapply Ls; eauto.
  - intros m y0 x H. snoc H. apply alookup_cons_ne. eapply Le; eauto.
  - intros sid0 H. snoc H. destruct (Lf _ H) as [F1 F2].
    destruct (alookup sid0 (f_att s)) as [v|] eqn:E; [|congruence].
    cbn [alookup]. rewrite alookup_reg_insert, (NE _ _ E), E. split; [exact F1|discriminate].
  - intros lg H. destruct (Q lg H) as [(y0 & Q1) Q2]. split; [exists y0; apply in_snoc; left; exact Q1|exact Q2].
  - rewrite app_nil_r. intros sc0 rt0 m H. rewrite fmsgs_app. apply in_or_app. left. eapply O; eauto.
Qed.

Lemma sinv_finish ls s out sid :
  sinv ls s out -> alookup sid (f_reg s) <> None ->
  (forall x, alookup x (f_steps s) = Some sid -> memN x (f_done s) = true) ->
  sinv (ls ++ [FFinish sid])
       (mk_fs (f_base s) (f_tbl s) (reg_remove sid (f_reg s)) (f_att s) (f_steps s) (f_done s)) (out ++ []).
Proof.
  intros [Ib Iw Ia Ira Is Il Id La Ls Le Lf Q O] R SD.
  constructor; sfields.
  - exact Ib.
  - exact Iw.
  - exact Ia.
  - intros sid0 H. rewrite alookup_reg_remove. destruct (sid0 =? sid); [reflexivity|apply Ira; exact H].
  - exact Is.
  - intros x sid0 H. destruct (Il _ _ H) as [D|R0]; [left; exact D|].
    destruct (sid0 =? sid) eqn:E.
    + apply N.eqb_eq in E. subst sid0. left. apply SD. exact H.
    + right. rewrite alookup_reg_remove, E. exact R0.
  - exact Id.
  - intros sid0 sc rt a p H. snoc H. destruct (La _ _ _ _ _ H) as [A1 A2]. split; [exact A1|].
    rewrite alookup_reg_remove. destruct (sid0 =? sid); [left; reflexivity|exact A2].
  - intros x sid0 H. snoc H. eapply Ls; eauto.
  - intros m y x H. snoc H. eapply Le; eauto.
  - intros sid0 H. rewrite alookup_reg_remove. snoc H.
    + destruct (Lf _ H) as [F1 F2]. split; [destruct (sid0 =? sid); [reflexivity|exact F1]|exact F2].
    + inversion H; subst. rewrite N.eqb_refl. split; [reflexivity|]. intros E. apply R. apply Ira. exact E.
  - intros lg H. destruct (Q lg H) as [(y0 & Q1) Q2]. split; [exists y0; apply in_snoc; left; exact Q1|exact Q2].
  - rewrite app_nil_r. intros sc rt m H. rewrite fmsgs_app. apply in_or_app. left. eapply O; eauto.
Qed.

(* the steps that run the protocol: FEmit (the resolved id is queued) and FBase *)
Definition runs_as (s : fstate) (l : flabel) (b : tlabel) : Prop :=
  match l with
  | FBase b0 => b0 = b /\ (forall k m x, b <> TEmit k m x)
  | FEmit m y x => b = TEmit (enc (scope_lookup (f_tbl s) (Some y))) m x /\ below (f_tbl s) y x /\ alookup x (f_tbl s) <> None
  | _ => False
  end.

Lemma sinv_run_base ls s out l b s' o :
  sinv ls s out -> runs_as s l b -> run_base s b = Some (s', o) -> sinv (ls ++ [l]) s' (out ++ o).
Proof.
  intros [Ib Iw Ia Ira Is Il Id La Ls Le Lf Q O] RA H.
  apply run_base_spec in H as (b' & bo & T & -> & ->).
  destruct Ib as (bls & bout & Ib). pose proof (proj1 Ib) as OK.
  destruct (tstep_logs _ _ _ _ OK T) as [TL TQ].
  destruct (tstep_released_mono _ _ _ _ OK T) as [RM RR].
  assert (NL : forall X, In X (ls ++ [l]) -> In X ls \/ (X = l /\ exists m y x, l = FEmit m y x) \/ (X = l /\ exists b0, l = FBase b0)).
  { intros X HX. apply in_snoc in HX as [HX|HX]; [left; exact HX|right]. subst X.
    destruct l; try contradiction; [left|right]; split; eauto. }
  constructor; sfields.
  - exists (bls ++ [b]), (bout ++ bo). eapply tstep_inv; eauto.
  - exact Iw.
  - exact Ia.
  - exact Ira.
  - exact Is.
  - intros x sid H. destruct (Il _ _ H) as [D|R]; [left|right; exact R].
    destruct b; try exact D. rewrite memN_cons, D. apply orb_true_r.
  - intros x H.
    assert (C : memN x (f_done s) = true \/ match b with TResult z => x = z | _ => False end).
    { destruct b; auto. rewrite memN_cons in H. apply orb_prop in H as [H|H]; [right; apply N.eqb_eq; exact H|left; exact H]. }
    destruct C as [C|C]; [apply RM, Id, C|]. destruct b; try contradiction. subst x. exact RR.
  - intros sid sc rt a p H. destruct (NL _ H) as [H0|[(E & m & y & x & E2)|(E & b0 & E2)]]; [eapply La; eauto|congruence|congruence].
  - intros x sid H. destruct (NL _ H) as [H0|[(E & m & y & x0 & E2)|(E & b0 & E2)]]; [eapply Ls; eauto|congruence|congruence].
  - intros m y x H. destruct (NL _ H) as [H0|[(E & _)|(E & b0 & E2)]]; [eapply Le; eauto| |congruence].
    subst l. cbn [runs_as] in RA. apply RA.
  - intros sid H. destruct (NL _ H) as [H0|[(E & m & y & x0 & E2)|(E & b0 & E2)]]; [eapply Lf; eauto|congruence|congruence].
  - intros lg H. destruct (TQ lg H) as [H0|E].
    + destruct (Q lg H0) as [(y0 & Q1) Q2]. split; [exists y0; apply in_snoc; left; exact Q1|exact Q2].
    + subst b. destruct l as [| | |m y x|b0|]; try contradiction.
      * destruct RA as (E & B & X). injection E as E1 E2 E3. split; [exists y; apply in_snoc; right; rewrite E2, E3; reflexivity|].
        intros sid H1. rewrite E3 in H1. destruct (Is _ _ H1) as (a & A1 & A2 & _).
        assert (LK : scope_lookup (f_tbl s) (Some y) = Some sid).
        { apply (lookup_outermost_wins (f_tbl s) a sid y Iw (Ia _ _ A1)). eapply below_trans; eauto. }
        unfold scope_lookup in LK. rewrite E1, LK. reflexivity.
      * destruct RA as (_ & NE). exfalso. eapply NE. reflexivity.
  - intros sc rt m H. rewrite fmsgs_app. apply in_or_app. left. apply in_app_or in H as [H|H]; [eapply O; eauto|].
    apply in_deliver in H as (k & Hk & _). destruct (TL _ _ Hk) as (lg & Hq & _ & <-).
    destruct (Q lg Hq) as [(y0 & Q1) _]. apply in_fmsgs. eauto.
Qed.

Lemma sinv_step ls s out l s' o : sinv ls s out -> fstep s l = Some (s', o) -> sinv (ls ++ [l]) s' (out ++ o).
Proof.
  intros I H. destruct l as [sid sc rt a p|x sid|y p io|m y x|b|sid].
  - apply fstep_attempt in H as (A & W & U & -> & ->). apply sinv_attempt; assumption.
  - apply fstep_stepspan in H as (a & A & R & W & -> & ->). eapply sinv_stepspan; eassumption.
  - apply fstep_span in H as (W & -> & ->). apply sinv_span; assumption.
  - apply fstep_emit in H as (B & X & H). eapply sinv_run_base; [exact I| |exact H]. cbn. auto.
  - apply fstep_base in H as (NE & H). eapply sinv_run_base; [exact I| |exact H]. cbn. auto.
  - apply fstep_finish in H as (R & SD & -> & ->). apply sinv_finish; assumption.
Qed.

Lemma fexec_sinv : forall ls2 ls1 s out s' o,
  sinv ls1 s out -> fexec s ls2 = Some (s', o) -> sinv (ls1 ++ ls2) s' (out ++ o).
Proof.
  induction ls2 as [|l t IH]; intros ls1 s out s' o I H; cbn [fexec] in H.
  - inversion H; subst. rewrite !app_nil_r. exact I.
  - destruct (fstep s l) as [[s1 o1]|] eqn:S1; [|discriminate].
    destruct (fexec s1 t) as [[s2 o2]|] eqn:S2; [|discriminate]. inversion H; subst.
    replace (ls1 ++ l :: t) with ((ls1 ++ [l]) ++ t) by (rewrite <- app_assoc; reflexivity).
    rewrite app_assoc. eapply IH; [eapply sinv_step; eauto|exact S2].
Qed.

Corollary run_sinv ls s out : fexec finit ls = Some (s, out) -> sinv ls s out.
Proof. intros H. exact (fexec_sinv ls [] finit [] s out sinv_init H). Qed.

(* ---------------------------------------------------------------------------------------------------------------- *)
(* 4. THE REGISTRATION HYPOTHESIS OF `TracingAttrP.attribution` IS A CONSEQUENCE                                    *)
(* ---------------------------------------------------------------------------------------------------------------- *)
(* While a log of a step / hook span of attempt sid is still queued, sid is still registered — to the scenario and the
   retries it was registered with — and the queued log carries sid: whenever the forwarder runs, the log has exactly
   one recipient. Why: a queued log's span has not been released (the invariant behind `logs_before_result`), so its
   result event is not out, so `FFinish sid` has not been enabled. No uniqueness of messages is assumed. *)
Lemma sinv_queued_registered ls s out lg sid sc rt a p :
  sinv ls s out -> In lg (t_logs (f_base s)) ->
  In (FStepSpan (l_span lg) sid) ls -> In (FAttempt sid sc rt a p) ls ->
  l_scen lg = enc (Some sid) /\ alookup sid (f_reg s) = Some (sc, rt) /\
  recipients (f_reg s) (dec (l_scen lg)) = [(sc, rt)].
Proof.
  intros [Ib Iw Ia Ira Is Il Id La Ls Le Lf Q O] Hq HS HA.
  pose proof (Ls _ _ HS) as ST. destruct (Q lg Hq) as [_ Q2]. pose proof (Q2 _ ST) as SC.
  assert (R : alookup sid (f_reg s) = Some (sc, rt)).
  { destruct (La _ _ _ _ _ HA) as [_ [N|R]]; [|exact R]. exfalso.
    destruct (Il _ _ ST) as [D|R]; [|apply R; exact N].
    destruct Ib as (bls & bout & (_ & QB & _)). pose proof (Id _ D) as RL. rewrite (QB lg Hq) in RL. discriminate. }
  split; [exact SC|]. split; [exact R|]. rewrite SC. change (sid + 1) with (enc (Some sid)). rewrite dec_enc.
  apply recipients_registered. exact R.
Qed.

Theorem still_registered_while_queued ls s out lg sid sc rt a p :
  fexec finit ls = Some (s, out) -> In lg (t_logs (f_base s)) ->
  In (FStepSpan (l_span lg) sid) ls -> In (FAttempt sid sc rt a p) ls ->
  l_scen lg = enc (Some sid) /\ alookup sid (f_reg s) = Some (sc, rt) /\
  recipients (f_reg s) (dec (l_scen lg)) = [(sc, rt)].
Proof. intros H Hq HS HA. exact (sinv_queued_registered _ _ _ _ _ _ _ _ _ (run_sinv _ _ _ H) Hq HS HA). Qed.

(* ---------------------------------------------------------------------------------------------------------------- *)
(* 5. delivered + still queued = exactly one, to the emitting attempt                                               *)
(* ---------------------------------------------------------------------------------------------------------------- *)
(* message m was logged in a span gated by x, a step / hook span of the attempt sid of scenario sc with retries rt *)
Definition attributed (ls : list flabel) (m x sid sc : N) (rt : retr) : Prop :=
  (exists y, In (FEmit m y x) ls) /\ In (FStepSpan x sid) ls /\ (exists a p, In (FAttempt sid sc rt a p) ls).

Lemma attributed_snoc ls s out l s' o m x sid sc rt :
  sinv ls s out -> fstep s l = Some (s', o) -> attributed (ls ++ [l]) m x sid sc rt ->
  attributed ls m x sid sc rt \/
  ((exists y, l = FEmit m y x) /\ In (FStepSpan x sid) ls /\ exists a p, In (FAttempt sid sc rt a p) ls).
Proof.
  intros I H ((y & HE) & HS & (a & p & HA)).
  apply in_snoc in HA as [HA|HA].
  - apply in_snoc in HS as [HS|HS].
    + apply in_snoc in HE as [HE|HE].
      * left. split; [eauto|]. split; [exact HS|eauto].
      * right. split; [eauto|]. split; [exact HS|eauto].
    + exfalso. subst l. apply in_snoc in HE as [HE|HE]; [|discriminate].
      apply fstep_stepspan in H as (a0 & _ & _ & W & _). apply rec_wf_new in W as [W _].
      exact (l_emit _ _ _ I _ _ _ HE W).
  - exfalso. subst l. apply in_snoc in HS as [HS|HS]; [|discriminate].
    apply fstep_attempt in H as (NA & _). destruct (i_step _ _ _ I _ _ (l_step _ _ _ I _ _ HS)) as (a0 & A & _). congruence.
Qed.

Lemma filter_nil {A} (f : A -> bool) l : (forall x, In x l -> f x = false) -> filter f l = [].
Proof.
  induction l as [|z l IH]; intros H; [reflexivity|]. cbn. rewrite (H z (or_introl eq_refl)).
  apply IH. intros x Hx. apply H. right. exact Hx.
Qed.

Lemma dels_nil m out : (forall sc rt, ~ In (FDeliver sc rt m) out) -> dels m out = [].
Proof.
  intros H. apply filter_nil. intros [sc rt m'|x] Hin; [|reflexivity].
  destruct (m' =? m) eqn:E; [|reflexivity]. apply N.eqb_eq in E. subst m'. exfalso. exact (H _ _ Hin).
Qed.

Lemma dels_in m out sc rt : In (FDeliver sc rt m) out -> In (FDeliver sc rt m) (dels m out).
Proof. intros H. apply filter_In. split; [exact H|apply N.eqb_refl]. Qed.

Lemma dels_deliver_other r k m' m : (m' =? m) = false -> dels m (deliver r (TLog k m')) = [].
Proof.
  intros NE. apply dels_nil. intros sc rt H. cbn in H. apply in_map_iff in H as (e & E & _). inversion E. subst m'.
  rewrite N.eqb_refl in NE. discriminate.
Qed.

(* a forwarder run over a queue in which every log of message m has the one recipient (sc, rt) *)
Lemma dels_forward r m sc rt : forall q,
  (forall lg, In lg q -> l_msg lg = m -> recipients r (dec (l_scen lg)) = [(sc, rt)]) ->
  dels m (flat_map (deliver r) (map as_out q)) =
  map (fun _ => FDeliver sc rt m) (filter (fun lg => l_msg lg =? m) q).
Proof.
  induction q as [|lg q IH]; intros H; [reflexivity|]. cbn [map flat_map filter]. rewrite dels_app.
  rewrite IH by (intros lg' Hl; apply H; right; exact Hl).
  destruct (l_msg lg =? m) eqn:E.
  - apply N.eqb_eq in E. unfold as_out. cbn [deliver]. rewrite (H lg (or_introl eq_refl) E), E. cbn.
    rewrite N.eqb_refl. reflexivity.
  - unfold as_out. rewrite dels_deliver_other by exact E. reflexivity.
Qed.

Lemma deliver_no_log r bo m : (forall k m', ~ In (TLog k m') bo) -> dels m (flat_map (deliver r) bo) = [].
Proof.
  intros H. apply dels_nil. intros sc rt Hin. apply in_deliver in Hin as (k & Hk & _). exact (H _ _ Hk).
Qed.

Definition dinv (ls : list flabel) (s : fstate) (out : list fout) : Prop :=
  forall m x sid sc rt, NoDup (fmsgs ls) -> attributed ls m x sid sc rt ->
    dels m out ++ map (fun _ => FDeliver sc rt m) (queued m s) = [FDeliver sc rt m].

Lemma dinv_init : dinv [] finit [].
Proof. intros m x sid sc rt _ ((y & []) & _). Qed.

(* a queued log of an attributed message sits in the span it was logged for *)
Lemma queued_span ls s out m x sid sc rt lg :
  sinv ls s out -> NoDup (fmsgs ls) -> attributed ls m x sid sc rt ->
  In lg (t_logs (f_base s)) -> l_msg lg = m -> l_span lg = x.
Proof.
  intros I ND ((y & HE) & _) Hq Em. destruct (q_src _ _ _ I lg Hq) as [(y0 & Q1) _]. rewrite Em in Q1.
  destruct (fmsgs_unique _ _ _ _ _ _ ND HE Q1) as [_ E]. symmetry. exact E.
Qed.

Lemma dinv_step ls s out l s' o :
  sinv ls s out -> dinv ls s out -> fstep s l = Some (s', o) -> dinv (ls ++ [l]) s' (out ++ o).
Proof.
  intros I D H m x sid sc rt ND' AT'.
  rewrite fmsgs_app in ND'. pose proof (NoDup_app_l _ _ ND') as ND.
  destruct (attributed_snoc _ _ _ _ _ _ _ _ _ _ _ I H AT') as [AT|((y & ->) & HS & (a & p & HA))].
  - (* the message was logged earlier *)
    specialize (D m x sid sc rt ND AT). rewrite dels_app.
    pose proof (fstep_projects _ _ _ _ H) as P.
    destruct (base_of s l) as [|b [|b2 bs]] eqn:BE.
    + destruct P as [EB ->]. unfold queued. rewrite EB. cbn [dels filter]. rewrite app_nil_r. exact D.
    + destruct P as (bo & T & ->).
      destruct (i_base _ _ _ I) as (bls & bout & IB).
      destruct (tstep_queue _ _ _ _ (proj1 IB) T) as [(EO & EQ & _)|(_ & NO & EQ)].
      * (* a forwarder run *)
        unfold queued at 1. rewrite EQ. cbn [filter map]. rewrite app_nil_r, EO.
        rewrite (dels_forward (f_reg s) m sc rt); [exact D|].
        intros lg Hq Em. destruct AT as (AE & AS & (a & p & AA)).
        assert (Ex : l_span lg = x) by (eapply queued_span; eauto; split; eauto).
        rewrite <- Ex in AS. exact (proj2 (proj2 (sinv_queued_registered _ _ _ _ _ _ _ _ _ I Hq AS AA))).
      * rewrite (deliver_no_log _ _ _ NO), app_nil_r. unfold queued. rewrite EQ, filter_app.
        assert (EN : filter (fun lg => l_msg lg =? m) (emitted [b]) = []).
        { destruct l as [| | |m' y' x'|b0|]; try discriminate BE.
          - cbn in BE. inversion BE; subst b. cbn.
            destruct (m' =? m) eqn:E; [|reflexivity]. apply N.eqb_eq in E. subst m'. exfalso.
            cbn in ND'. apply NoDup_remove_2 in ND'. rewrite app_nil_r in ND'. apply ND'.
            apply in_fmsgs. destruct AT as ((y & HE) & _). eauto.
          - cbn in BE. inversion BE; subst b0. apply fstep_base in H as (NE & _).
            destruct b; try reflexivity. exfalso. eapply NE. reflexivity. }
        rewrite EN, app_nil_r. exact D.
    + exfalso. destruct l; discriminate BE.
  - (* the message is logged by this step *)
    cbn in ND'. apply NoDup_remove_2 in ND'. rewrite app_nil_r in ND'.
    apply fstep_emit in H as (_ & _ & H). apply run_base_spec in H as (b' & bo & T & -> & ->).
    cbn [tstep] in T. destruct (memN x (t_closed (f_base s))); [discriminate|]. inversion T; subst b' bo.
    cbn [flat_map]. rewrite app_nil_r. unfold queued. cbn [f_base t_logs]. rewrite filter_app.
    rewrite (dels_nil m out).
    + rewrite (filter_nil _ (t_logs (f_base s))).
      * cbn. rewrite N.eqb_refl. reflexivity.
      * intros lg Hq. destruct (l_msg lg =? m) eqn:E; [|reflexivity]. apply N.eqb_eq in E. exfalso. apply ND'.
        destruct (q_src _ _ _ I lg Hq) as [(y0 & Q1) _]. rewrite E in Q1. apply in_fmsgs. eauto.
    + intros sc' rt' Hin. apply ND'. eapply o_src; eauto.
Qed.

(* ---------------------------------------------------------------------------------------------------------------- *)
(* 6. ... and the one delivery precedes the result event                                                            *)
(* ---------------------------------------------------------------------------------------------------------------- *)
Lemma tstep_closed_mono s l s' o : spans_ok s -> tstep s l = Some (s', o) -> incl_b (t_closed s) (t_closed s').
Proof.
  intros OK H. destruct l as [sc m x|x|x| |x]; cbn [tstep] in H.
  - destruct (memN x (t_closed s)); [discriminate|]. inversion H; subst. intros z Hz; exact Hz.
  - destruct (memN x (t_closed s)); [discriminate|]. inversion H; subst. intros z Hz. cbn [t_closed].
    rewrite memN_cons, Hz. apply orb_true_r.
  - inversion H; subst. intros z Hz; exact Hz.
  - assert (LT : (length (t_logs s) < S (length (t_logs s)))%nat) by lia.
    destruct (fwd_loop_spec (S (length (t_logs s))) s OK LT) as (_ & CD & _ & _ & _).
    destruct (fwd_loop (S (length (t_logs s))) s) as [s2 o2]. inversion H; subst. cbn [fst] in CD. rewrite CD.
    intros z Hz; exact Hz.
  - destruct (memN x (t_released s)); [|discriminate]. inversion H; subst. intros z Hz; exact Hz.
Qed.

Lemma tstep_res s b s' bo x : spans_ok s -> tstep s b = Some (s', bo) -> In (TRes x) bo ->
  b = TResult x /\ bo = [TRes x] /\ s' = s /\ memN x (t_released s) = true.
Proof.
  intros OK H Hin. destruct b as [sc m z|z|z| |z]; cbn [tstep] in H.
  - destruct (memN z (t_closed s)); [discriminate|]. inversion H; subst. contradiction.
  - destruct (memN z (t_closed s)); [discriminate|]. inversion H; subst. contradiction.
  - inversion H; subst. contradiction.
  - exfalso. assert (LT : (length (t_logs s) < S (length (t_logs s)))%nat) by lia.
    destruct (fwd_loop_spec (S (length (t_logs s))) s OK LT) as (_ & _ & _ & _ & O).
    destruct (fwd_loop (S (length (t_logs s))) s) as [s2 o2]. inversion H; subst. cbn [snd] in O. rewrite O in Hin.
    apply in_map_iff in Hin as (lg & E & _). discriminate.
  - destruct (memN z (t_released s)) eqn:R; [|discriminate]. inversion H; subst.
    destruct Hin as [E|[]]. inversion E; subst. auto.
Qed.

Lemma in_deliver_res r bo x : In (FRes x) (flat_map (deliver r) bo) -> In (TRes x) bo.
Proof.
  intros H. apply in_flat_map in H as (e & He & H). destruct e as [k m|z]; cbn in H.
  - apply in_map_iff in H as (e & E & _). discriminate.
  - destruct H as [E|[]]. inversion E; subst. exact He.
Qed.

Definition binv (ls : list flabel) (s : fstate) (out : list fout) : Prop :=
  forall o1 x o2, out = o1 ++ FRes x :: o2 ->
    memN x (t_closed (f_base s)) = true /\
    forall m sid sc rt, NoDup (fmsgs ls) -> attributed ls m x sid sc rt -> dels m o1 = [FDeliver sc rt m].

Lemma binv_init : binv [] finit [].
Proof. intros o1 x o2 E. destruct o1; discriminate. Qed.

Lemma binv_step ls s out l s' o :
  sinv ls s out -> dinv ls s out -> binv ls s out -> fstep s l = Some (s', o) -> binv (ls ++ [l]) s' (out ++ o).
Proof.
  intros I D B H o1 x o2 E.
  destruct (i_base _ _ _ I) as (bls & bout & IB). pose proof (proj1 IB) as OK.
  pose proof (fstep_projects _ _ _ _ H) as P.
  symmetry in E. apply split_app in E as [(b0 & E1 & _)|(a' & -> & E2)].
  - (* an earlier result event *)
    destruct (B _ _ _ E1) as [CL BB].
    assert (CL' : memN x (t_closed (f_base s')) = true).
    { destruct (base_of s l) as [|b [|b2 bs]].
      - destruct P as [-> _]. exact CL.
      - destruct P as (bo & T & _). exact (tstep_closed_mono _ _ _ _ OK T _ CL).
      - destruct P as [-> _]. exact CL. }
    split; [exact CL'|]. intros m sid sc rt ND' AT'.
    rewrite fmsgs_app in ND'. pose proof (NoDup_app_l _ _ ND') as ND.
    destruct (attributed_snoc _ _ _ _ _ _ _ _ _ _ _ I H AT') as [AT|((y & ->) & _)]; [exact (BB _ _ _ _ ND AT)|].
    exfalso. apply fstep_emit in H as (_ & _ & H). apply run_base_spec in H as (b' & bo & T & _).
    cbn [tstep] in T. rewrite CL in T. discriminate.
  - (* the result event of this step *)
    assert (HR : In (FRes x) o) by (rewrite E2; apply in_or_app; right; left; reflexivity).
    destruct (base_of s l) as [|b [|b2 bs]] eqn:BE; try (destruct P as [_ ->]; contradiction).
    destruct P as (bo & T & EO). rewrite EO in HR. apply in_deliver_res in HR.
    destruct (tstep_res _ _ _ _ _ OK T HR) as (-> & -> & EB & RL). rewrite EO in E2. cbn in E2.
    assert (a' = []) as ->.
    { destruct a' as [|z a']; [reflexivity|]. cbn in E2. inversion E2 as [[Ez E3]]. destruct a'; discriminate E3. }
    assert (El : l = FBase (TResult x)).
    { destruct l; cbn in BE; try discriminate BE. inversion BE. reflexivity. }
    subst l. rewrite EB, app_nil_r.
    split; [apply (proj2 (proj2 OK)); exact RL|]. intros m sid sc rt ND' AT'.
    rewrite fmsgs_app in ND'. pose proof (NoDup_app_l _ _ ND') as ND.
    destruct (attributed_snoc _ _ _ _ _ _ _ _ _ _ _ I H AT') as [AT|((y & Ey) & _)]; [|discriminate Ey].
    specialize (D m x sid sc rt ND AT). unfold queued in D. rewrite filter_nil in D; [rewrite app_nil_r in D; exact D|].
    intros lg Hq. destruct (l_msg lg =? m) eqn:Em; [|reflexivity]. apply N.eqb_eq in Em. exfalso.
    pose proof (queued_span _ _ _ _ _ _ _ _ _ I ND AT Hq Em) as Ex.
    destruct IB as (_ & QB & _). specialize (QB lg Hq). rewrite Ex, RL in QB. discriminate.
Qed.

Definition finv (ls : list flabel) (s : fstate) (out : list fout) : Prop :=
  sinv ls s out /\ dinv ls s out /\ binv ls s out.

Lemma fexec_finv : forall ls2 ls1 s out s' o,
  finv ls1 s out -> fexec s ls2 = Some (s', o) -> finv (ls1 ++ ls2) s' (out ++ o).
Proof.
  induction ls2 as [|l t IH]; intros ls1 s out s' o I H; cbn [fexec] in H.
  - inversion H; subst. rewrite !app_nil_r. exact I.
  - destruct (fstep s l) as [[s1 o1]|] eqn:S1; [|discriminate].
    destruct (fexec s1 t) as [[s2 o2]|] eqn:S2; [|discriminate]. inversion H; subst.
    replace (ls1 ++ l :: t) with ((ls1 ++ [l]) ++ t) by (rewrite <- app_assoc; reflexivity).
    rewrite app_assoc. eapply IH; [|exact S2]. destruct I as (I & D & B).
    split; [eapply sinv_step; eauto|]. split; [eapply dinv_step; eauto|eapply binv_step; eauto].
Qed.

Corollary run_finv ls s out : fexec finit ls = Some (s, out) -> finv ls s out.
Proof. intros H. exact (fexec_finv ls [] finit [] s out (conj sinv_init (conj dinv_init binv_init)) H). Qed.

(* ---------------------------------------------------------------------------------------------------------------- *)
(* 7. (T) THE COMPOSED THEOREM                                                                                      *)
(* ---------------------------------------------------------------------------------------------------------------- *)
(* Throughout: a run of the layer from the initial state; unique message ids (`NoDup (fmsgs ls)`, executable); the event
   `FEmit m y x` was logged in a span y at or below x (enabledness of FEmit), x is a step / hook span of the attempt
   sid (`FStepSpan x sid`), and sid was registered for scenario sc with retries rt (`FAttempt sid sc rt a p`).
   `dels m out` is the list of ALL deliveries of message m in the output, whatever their scenario. *)

(* (T1) delivered + still queued = exactly one, and the delivery is `FDeliver sc rt m` *)
Theorem delivered_or_queued_once ls s out m y x sid sc rt a p :
  fexec finit ls = Some (s, out) -> NoDup (fmsgs ls) ->
  In (FEmit m y x) ls -> In (FStepSpan x sid) ls -> In (FAttempt sid sc rt a p) ls ->
  dels m out ++ map (fun _ => FDeliver sc rt m) (queued m s) = [FDeliver sc rt m].
Proof.
  intros H ND HE HS HA. destruct (run_finv _ _ _ H) as (_ & D & _).
  apply (D m x sid sc rt ND). split; [eauto|]. split; [exact HS|eauto].
Qed.

(* (T2) AT MOST ONCE, and to no other scenario / retries: in every run, finished or not *)
Theorem delivered_at_most_once_to_emitter ls s out m y x sid sc rt a p :
  fexec finit ls = Some (s, out) -> NoDup (fmsgs ls) ->
  In (FEmit m y x) ls -> In (FStepSpan x sid) ls -> In (FAttempt sid sc rt a p) ls ->
  (dels m out = [] \/ dels m out = [FDeliver sc rt m]) /\
  (forall sc' rt', In (FDeliver sc' rt' m) out -> sc' = sc /\ rt' = rt).
Proof.
  intros H ND HE HS HA. pose proof (delivered_or_queued_once _ _ _ _ _ _ _ _ _ _ _ H ND HE HS HA) as D.
  assert (C : dels m out = [] \/ dels m out = [FDeliver sc rt m]).
  { destruct (dels m out) as [|d [|d2 ds]]; [left; reflexivity| |].
    - right. cbn in D. inversion D. reflexivity.
    - exfalso. cbn in D. inversion D. }
  split; [exact C|]. intros sc' rt' Hin. apply dels_in in Hin.
  destruct C as [C|C]; rewrite C in Hin; [contradiction|]. destruct Hin as [E|[]]. inversion E. auto.
Qed.

(* exactly once as soon as nothing of it is queued, e.g. after any forwarder run *)
Corollary delivered_once_when_not_queued ls s out m y x sid sc rt a p :
  fexec finit ls = Some (s, out) -> NoDup (fmsgs ls) ->
  In (FEmit m y x) ls -> In (FStepSpan x sid) ls -> In (FAttempt sid sc rt a p) ls ->
  queued m s = [] -> dels m out = [FDeliver sc rt m].
Proof.
  intros H ND HE HS HA Q. pose proof (delivered_or_queued_once _ _ _ _ _ _ _ _ _ _ _ H ND HE HS HA) as D.
  rewrite Q in D. cbn in D. rewrite app_nil_r in D. exact D.
Qed.

(* (T3) EXACTLY ONCE AND BEFORE THE RESULT: wherever `FRes x` stands in the output, the one delivery of m stands before
   it, it is `FDeliver sc rt m`, and nothing of m follows *)
Theorem delivered_once_before_result ls s out m y x sid sc rt a p o1 o2 :
  fexec finit ls = Some (s, out) -> NoDup (fmsgs ls) ->
  In (FEmit m y x) ls -> In (FStepSpan x sid) ls -> In (FAttempt sid sc rt a p) ls ->
  out = o1 ++ FRes x :: o2 ->
  dels m o1 = [FDeliver sc rt m] /\ dels m o2 = [] /\ dels m out = [FDeliver sc rt m].
Proof.
  intros H ND HE HS HA E. destruct (run_finv _ _ _ H) as (_ & _ & B).
  destruct (B _ _ _ E) as [_ BB].
  assert (D1 : dels m o1 = [FDeliver sc rt m]).
  { apply (BB m sid sc rt ND). split; [eauto|]. split; [exact HS|eauto]. }
  destruct (delivered_at_most_once_to_emitter _ _ _ _ _ _ _ _ _ _ _ H ND HE HS HA) as [C _].
  rewrite E, dels_app, D1 in C. cbn [dels filter] in C. fold (dels m o2) in C.
  assert (D2 : dels m o2 = []).
  { destruct C as [C|C]; [discriminate C|]. cbn in C. inversion C. reflexivity. }
  split; [exact D1|]. split; [exact D2|]. rewrite E, dels_app, D1. cbn [dels filter]. fold (dels m o2). rewrite D2. reflexivity.
Qed.

(* ---- runs cut at a label ---- *)
Lemma fexec_app_inv : forall a b s s' o, fexec s (a ++ b) = Some (s', o) ->
  exists s1 o1 o2, fexec s a = Some (s1, o1) /\ fexec s1 b = Some (s', o2) /\ o = o1 ++ o2.
Proof.
  induction a as [|l a IH]; intros b s s' o H.
  - exists s, [], o. auto.
  - cbn [app fexec] in H. destruct (fstep s l) as [[s0 o0]|] eqn:S0; [|discriminate].
    destruct (fexec s0 (a ++ b)) as [[s2 o2]|] eqn:S2; [|discriminate]. inversion H; subst.
    destruct (IH _ _ _ _ S2) as (s1 & o1 & o3 & A & B & ->).
    exists s1, (o0 ++ o1), o3. cbn [fexec]. rewrite S0, A. split; [reflexivity|]. split; [exact B|apply app_assoc].
Qed.

Lemma fexec_at pre l post s out : fexec finit (pre ++ l :: post) = Some (s, out) ->
  exists s0 o0 s1 o1, fexec finit pre = Some (s0, o0) /\ fstep s0 l = Some (s1, o1) /\ sinv pre s0 o0.
Proof.
  intros H. apply fexec_app_inv in H as (s0 & o0 & o2 & A & B & _). cbn [fexec] in B.
  destruct (fstep s0 l) as [[s1 o1]|] eqn:S1; [|discriminate]. exists s0, o0, s1, o1.
  split; [exact A|]. split; [exact S1|apply run_sinv; exact A].
Qed.

(* once `FFinish sid` has happened: no new attempt with that id, no new step / hook span for it, and no event can be
   logged for one of its step / hook spans (they are all closed) *)
Lemma after_finish_disabled ls s out sid :
  sinv ls s out -> In (FFinish sid) ls ->
  (forall sc rt a p, fstep s (FAttempt sid sc rt a p) = None) /\
  (forall x, fstep s (FStepSpan x sid) = None) /\
  (forall m y x, alookup x (f_steps s) = Some sid -> fstep s (FEmit m y x) = None).
Proof.
  intros I HF. destruct (l_fin _ _ _ I _ HF) as [F1 F2]. split; [|split].
  - intros sc rt a p. destruct (fstep s (FAttempt sid sc rt a p)) as [[s' o]|] eqn:E; [|reflexivity].
    apply fstep_attempt in E as (NA & _). contradiction.
  - intros x. destruct (fstep s (FStepSpan x sid)) as [[s' o]|] eqn:E; [|reflexivity].
    apply fstep_stepspan in E as (a & _ & R & _). contradiction.
  - intros m y x ST. destruct (fstep s (FEmit m y x)) as [[s' o]|] eqn:E; [|reflexivity]. exfalso.
    apply fstep_emit in E as (_ & _ & E). apply run_base_spec in E as (b' & bo & T & _).
    destruct (i_live _ _ _ I _ _ ST) as [D|R]; [|contradiction].
    destruct (i_base _ _ _ I) as (bls & bout & ((_ & _ & L) & _)).
    cbn [tstep] in T. rewrite (L _ (i_done _ _ _ I _ D)) in T. discriminate.
Qed.

(* (T4) NOT AFTER `FFinish sid`: in a run through `FFinish sid`, the event was logged before it, its one delivery
   `FDeliver sc rt m` stands in the output produced BEFORE `FFinish sid`, and nothing of m is delivered afterwards *)
Theorem delivered_before_finish l1 l2 s out m y x sid sc rt a p :
  let ls := l1 ++ FFinish sid :: l2 in
  fexec finit ls = Some (s, out) -> NoDup (fmsgs ls) ->
  In (FEmit m y x) ls -> In (FStepSpan x sid) ls -> In (FAttempt sid sc rt a p) ls ->
  exists s1 o1 o2, fexec finit l1 = Some (s1, o1) /\ out = o1 ++ o2 /\
    In (FEmit m y x) l1 /\ dels m o1 = [FDeliver sc rt m] /\ dels m o2 = [].
Proof.
  intros ls H ND HE HS HA. subst ls.
  (* a label that occurs after FFinish sid was enabled in a state reached through FFinish sid *)
  assert (CUT : forall X, In X (l1 ++ FFinish sid :: l2) -> X <> FFinish sid ->
            In X l1 \/ exists l2a s0 o0 s0' o', sinv (l1 ++ FFinish sid :: l2a) s0 o0 /\ fstep s0 X = Some (s0', o')).
  { intros X HX NX. apply in_app_or in HX as [HX|[HX|HX]]; [left; exact HX|congruence|right].
    apply in_split in HX as (l2a & l2b & ->).
    assert (E : l1 ++ FFinish sid :: l2a ++ X :: l2b = (l1 ++ FFinish sid :: l2a) ++ X :: l2b)
      by (rewrite <- app_assoc; reflexivity).
    rewrite E in H. apply fexec_at in H as (s0 & o0 & s0' & o' & _ & ST & I).
    exists l2a, s0, o0, s0', o'. split; [exact I|exact ST]. }
  assert (FIN : forall l2a, In (FFinish sid) (l1 ++ FFinish sid :: l2a))
    by (intros l2a; apply in_or_app; right; left; reflexivity).
  assert (HA1 : In (FAttempt sid sc rt a p) l1).
  { destruct (CUT _ HA) as [G|(l2a & s0 & o0 & s0' & o' & I & ST)]; [discriminate|exact G|].
    rewrite (proj1 (after_finish_disabled _ _ _ _ I (FIN l2a))) in ST. discriminate. }
  assert (HS1 : In (FStepSpan x sid) l1).
  { destruct (CUT _ HS) as [G|(l2a & s0 & o0 & s0' & o' & I & ST)]; [discriminate|exact G|].
    rewrite (proj1 (proj2 (after_finish_disabled _ _ _ _ I (FIN l2a)))) in ST. discriminate. }
  assert (HE1 : In (FEmit m y x) l1).
  { destruct (CUT _ HE) as [G|(l2a & s0 & o0 & s0' & o' & I & ST)]; [discriminate|exact G|].
    assert (HSp : In (FStepSpan x sid) (l1 ++ FFinish sid :: l2a)) by (apply in_or_app; left; exact HS1).
    rewrite (proj2 (proj2 (after_finish_disabled _ _ _ _ I (FIN l2a))) m y x (l_step _ _ _ I _ _ HSp)) in ST. discriminate. }
  pose proof H as H0. apply fexec_app_inv in H0 as (s1 & o1 & o2 & R1 & R2 & EO).
  exists s1, o1, o2. split; [exact R1|]. split; [exact EO|]. split; [exact HE1|].
  cbn [fexec] in R2. destruct (fstep s1 (FFinish sid)) as [[s1' of]|] eqn:SF; [|discriminate].
  apply fstep_finish in SF as (_ & SD & _).
  rewrite fmsgs_app in ND. pose proof (NoDup_app_l _ _ ND) as ND1.
  destruct (run_finv _ _ _ R1) as (I1 & D1 & _).
  assert (AT : attributed l1 m x sid sc rt) by (split; [eauto|]; split; [exact HS1|eauto]).
  assert (DO1 : dels m o1 = [FDeliver sc rt m]).
  { specialize (D1 m x sid sc rt ND1 AT). unfold queued in D1.
    rewrite filter_nil in D1; [rewrite app_nil_r in D1; exact D1|].
    intros lg Hq. destruct (l_msg lg =? m) eqn:Em; [|reflexivity]. apply N.eqb_eq in Em. exfalso.
    pose proof (queued_span _ _ _ _ _ _ _ _ _ I1 ND1 AT Hq Em) as Ex.
    pose proof (i_done _ _ _ I1 _ (SD _ (l_step _ _ _ I1 _ _ HS1))) as RL.
    destruct (i_base _ _ _ I1) as (bls & bout & (_ & QB & _)). specialize (QB lg Hq). rewrite Ex, RL in QB. discriminate. }
  split; [exact DO1|].
  rewrite <- fmsgs_app in ND.
  destruct (delivered_at_most_once_to_emitter _ _ _ _ _ _ _ _ _ _ _ H ND HE HS HA) as [C _].
  rewrite EO, dels_app, DO1 in C. destruct C as [C|C]; [discriminate C|]. cbn in C. inversion C. reflexivity.
Qed.

(* ---------------------------------------------------------------------------------------------------------------- *)
(* 8. what is queued IS the attempt's id; the protocol theorem `logs_before_result` through the projection          *)
(* ---------------------------------------------------------------------------------------------------------------- *)
Lemma fproj_app : forall a b s s1 o, fexec s a = Some (s1, o) -> fproj s (a ++ b) = fproj s a ++ fproj s1 b.
Proof.
  induction a as [|l a IH]; intros b s s1 o H; cbn [fexec] in H.
  - inversion H; subst. reflexivity.
  - destruct (fstep s l) as [[s0 o0]|] eqn:S0; [|discriminate].
    destruct (fexec s0 a) as [[s2 o2]|] eqn:S2; [|discriminate]. inversion H; subst.
    cbn [app fproj]. rewrite S0, (IH b _ _ _ S2), app_assoc. reflexivity.
Qed.

(* an event logged at or below a step / hook span of attempt sid — through user spans and nested scenario spans with
   their own ids — is queued in the protocol with the id sid *)
Theorem emit_resolves_to_attempt ls s out m y x sid :
  fexec finit ls = Some (s, out) -> In (FEmit m y x) ls -> In (FStepSpan x sid) ls ->
  In (TEmit (enc (Some sid)) m x) (fproj finit ls).
Proof.
  intros H HE HS. apply in_split in HE as (pre & post & ->).
  pose proof (fexec_at _ _ _ _ _ H) as (s0 & o0 & s1 & o1 & R0 & ST & I).
  assert (HSp : In (FStepSpan x sid) pre).
  { apply in_app_or in HS as [HS|[HS|HS]]; [exact HS|discriminate HS|exfalso].
    apply in_split in HS as (pa & pb & ->).
    assert (E : pre ++ FEmit m y x :: pa ++ FStepSpan x sid :: pb = (pre ++ FEmit m y x :: pa) ++ FStepSpan x sid :: pb)
      by (rewrite <- app_assoc; reflexivity).
    rewrite E in H. apply fexec_at in H as (s2 & o2 & s2' & o2' & _ & ST2 & I2).
    apply fstep_stepspan in ST2 as (a0 & _ & _ & W & _). apply rec_wf_new in W as [W _].
    apply (l_emit _ _ _ I2 m y x); [apply in_or_app; right; left; reflexivity|exact W]. }
  pose proof (l_step _ _ _ I _ _ HSp) as SX. destruct (i_step _ _ _ I _ _ SX) as (a & A1 & A2 & _).
  apply fstep_emit in ST as (B & _ & _).
  assert (LK : scope_lookup (f_tbl s0) (Some y) = Some sid).
  { apply (lookup_outermost_wins (f_tbl s0) a sid y (i_wf _ _ _ I) (i_att _ _ _ I _ _ A1)). eapply below_trans; eauto. }
  rewrite (fproj_app pre _ finit s0 o0 R0). apply in_or_app. right. cbn [fproj base_of]. rewrite LK. left. reflexivity.
Qed.

(* `Tracing.logs_before_result` for the layer: when the result event of x is enabled, the protocol has forwarded the
   log, tagged with the attempt's id *)
Corollary logs_before_result_full ls1 s1 out1 m y x sid s2 o :
  fexec finit ls1 = Some (s1, out1) -> fstep s1 (FBase (TResult x)) = Some (s2, o) ->
  In (FEmit m y x) ls1 -> In (FStepSpan x sid) ls1 ->
  exists bout, texec tinit (fproj finit ls1) = Some (f_base s1, bout) /\ In (TLog (enc (Some sid)) m) bout.
Proof.
  intros H R HE HS. destruct (projection _ _ _ H) as (bout & T & _). exists bout. split; [exact T|].
  apply fstep_base in R as (_ & R). apply run_base_spec in R as (b' & bo & TR & _).
  eapply logs_before_result; [exact T|eauto|]. eapply emit_resolves_to_attempt; eauto.
Qed.

(* ---------------------------------------------------------------------------------------------------------------- *)
(* 9. (N) nested runs                                                                                               *)
(* ---------------------------------------------------------------------------------------------------------------- *)
(* n is a nested `scenario` span with its OWN id k' (registered or not, even the id of another running scenario),
   created somewhere below the step span x of attempt sid; the event is logged in y at or below n. It is queued with the
   OUTER attempt's id, and delivered to (sc, rt) only, at most once, exactly once before `FRes x`. *)
Theorem nested_delivery ls s out m y x n q k' sid sc rt a p :
  fexec finit ls = Some (s, out) -> NoDup (fmsgs ls) ->
  In (FAttempt sid sc rt a p) ls -> In (FStepSpan x sid) ls ->
  In (FSpan n q (Some k')) ls -> below (f_tbl s) n x -> below (f_tbl s) y n ->
  In (FEmit m y x) ls ->
  In (TEmit (enc (Some sid)) m x) (fproj finit ls) /\
  scope_lookup (f_tbl s) (Some n) = Some sid /\ scope_lookup (f_tbl s) (Some y) = Some sid /\
  (dels m out = [] \/ dels m out = [FDeliver sc rt m]) /\
  (forall sc' rt', In (FDeliver sc' rt' m) out -> sc' = sc /\ rt' = rt) /\
  (forall o1 o2, out = o1 ++ FRes x :: o2 -> dels m o1 = [FDeliver sc rt m] /\ dels m o2 = []).
Proof.
  intros H ND HA HS HN Bn By HE. pose proof (run_sinv _ _ _ H) as I.
  destruct (i_step _ _ _ I _ _ (l_step _ _ _ I _ _ HS)) as (a0 & A1 & A2 & _).
  pose proof (i_att _ _ _ I _ _ A1) as TOP.
  split; [eapply emit_resolves_to_attempt; eauto|].
  split; [apply (lookup_outermost_wins _ a0 sid n (i_wf _ _ _ I) TOP); eapply below_trans; eauto|].
  split; [apply (lookup_outermost_wins _ a0 sid y (i_wf _ _ _ I) TOP); eapply below_trans; [exact By|]; eapply below_trans; eauto|].
  destruct (delivered_at_most_once_to_emitter _ _ _ _ _ _ _ _ _ _ _ H ND HE HS HA) as [C1 C2].
  split; [exact C1|]. split; [exact C2|]. intros o1 o2 E.
  destruct (delivered_once_before_result _ _ _ _ _ _ _ _ _ _ _ _ _ H ND HE HS HA E) as (D1 & D2 & _). auto.
Qed.

(* ---------------------------------------------------------------------------------------------------------------- *)
(* 10. (E) examples                                                                                                 *)
(* ---------------------------------------------------------------------------------------------------------------- *)
(* scenario 101: first attempt id 1 (retries 0/1, span 10, step span 11, user span 12 below it), retried as id 3
   (retries 1/0, span 30, step span 31); scenario 102 concurrently: id 2 (no retries, span 20, step span 21), with a
   NESTED scenario span 22 below its step carrying the id 1 — the id of the other running scenario — and the nested step
   span 23 below that. *)
Definition rt_a : retr := Some (0, 1).
Definition rt_b : retr := Some (1, 0).
Definition ex_full : list flabel :=
  [ FAttempt 1 101 rt_a 10 None; FAttempt 2 102 None 20 None;
    FStepSpan 11 1; FStepSpan 21 2;
    FEmit 1001 11 11; FSpan 12 (Some 11) None; FEmit 1002 12 11;
    FSpan 22 (Some 21) (Some 1); FSpan 23 (Some 22) None; FEmit 2001 23 21;
    FBase TFwd;
    FEmit 1003 12 11;
    FBase (TClose 11); FBase (TSub 11); FBase TFwd; FBase (TResult 11);
    FFinish 1;
    FAttempt 3 101 rt_b 30 None; FStepSpan 31 3; FEmit 1004 31 31;
    FBase (TClose 21); FBase (TSub 21); FBase TFwd; FBase (TResult 21); FFinish 2;
    FBase (TClose 31); FBase (TSub 31); FBase TFwd; FBase (TResult 31); FFinish 3 ].

Example ex_full_runs :
  match fexec finit ex_full with Some (s, out) => Some (out, f_reg s) | None => None end =
  Some ([ FDeliver 101 rt_a 1001; FDeliver 101 rt_a 1002; FDeliver 102 None 2001; FDeliver 101 rt_a 1003; FRes 11;
          FDeliver 101 rt_b 1004; FRes 21; FRes 31 ], []).
Proof. vm_compute. reflexivity. Qed.

(* the protocol run it projects to: the nested event 2001 is queued with id 2 (3 = 2 + 1), not with the nested id 1 *)
Example ex_full_projection :
  fproj finit ex_full =
  [ TEmit 2 1001 11; TEmit 2 1002 11; TEmit 3 2001 21; TFwd; TEmit 2 1003 11; TClose 11; TSub 11; TFwd; TResult 11;
    TEmit 4 1004 31; TClose 21; TSub 21; TFwd; TResult 21; TClose 31; TSub 31; TFwd; TResult 31 ].
Proof. vm_compute. reflexivity. Qed.

Example ex_full_unique : NoDup (fmsgs ex_full).
Proof.
  vm_compute. repeat (constructor; [cbn; intros H; repeat (destruct H as [H|H]; [discriminate|]); exact H|]). constructor.
Qed.

(* the theorems' hypotheses hold for the nested event 2001, and the conclusion is the non-trivial fact *)
Example ex_full_nested : forall s out, fexec finit ex_full = Some (s, out) ->
  dels 2001 out = [FDeliver 102 None 2001] /\ forall sc' rt', In (FDeliver sc' rt' 2001) out -> sc' = 102 /\ rt' = None.
Proof.
  intros s out H.
  assert (HE : In (FEmit 2001 23 21) ex_full) by (cbn; tauto).
  assert (HS : In (FStepSpan 21 2) ex_full) by (cbn; tauto).
  assert (HA : In (FAttempt 2 102 None 20 None) ex_full) by (cbn; tauto).
  split; [|exact (proj2 (delivered_at_most_once_to_emitter _ _ _ _ _ _ _ _ _ _ _ H ex_full_unique HE HS HA))].
  assert (E : exists o1 o2, out = o1 ++ FRes 21 :: o2).
  { pose proof ex_full_runs as R. rewrite H in R. inversion R as [[R1 R2]].
    exists [FDeliver 101 rt_a 1001; FDeliver 101 rt_a 1002; FDeliver 102 None 2001; FDeliver 101 rt_a 1003; FRes 11;
            FDeliver 101 rt_b 1004], [FRes 31]. reflexivity. }
  destruct E as (o1 & o2 & E).
  exact (proj2 (proj2 (delivered_once_before_result _ _ _ _ _ _ _ _ _ _ _ _ _ H ex_full_unique HE HS HA E))).
Qed.

(* `FFinish 1` before the result of step span 11 of attempt 1: REJECTED *)
Example ex_finish_before_result_rejected :
  fexec finit
    [ FAttempt 1 101 rt_a 10 None; FStepSpan 11 1; FEmit 1001 11 11;
      FBase (TClose 11); FBase (TSub 11); FBase TFwd; FFinish 1; FBase (TResult 11) ] = None
  /\ fexec finit
    [ FAttempt 1 101 rt_a 10 None; FStepSpan 11 1; FEmit 1001 11 11;
      FBase (TClose 11); FBase (TSub 11); FBase TFwd; FBase (TResult 11); FFinish 1 ]
     <> None.
Proof. split; [vm_compute; reflexivity|vm_compute; discriminate]. Qed.

(* ... and so is the review's witness (resolve to id 1, unregister id 1, then deliver): the log is still queued *)
Example ex_review_witness_rejected :
  fexec finit [ FAttempt 1 101 None 10 None; FAttempt 2 102 None 20 None; FStepSpan 11 1; FEmit 1001 11 11;
                FFinish 1; FBase TFwd ] = None.
Proof. vm_compute. reflexivity. Qed.

(* after `FFinish 1`: no new step span for attempt 1, no event in its step span, no second registration of id 1 *)
Example ex_after_finish_rejected :
  let pre := [ FAttempt 1 101 rt_a 10 None; FStepSpan 11 1; FBase (TClose 11); FBase (TSub 11); FBase TFwd;
               FBase (TResult 11); FFinish 1 ] in
  fexec finit (pre ++ [FStepSpan 13 1]) = None /\ fexec finit (pre ++ [FEmit 1001 11 11]) = None /\
  fexec finit (pre ++ [FAttempt 1 101 rt_b 30 None]) = None /\ fexec finit (pre ++ [FAttempt 3 101 rt_b 30 None]) <> None.
Proof. vm_compute. repeat split; try reflexivity. discriminate. Qed.

(* ---- the hypotheses are needed ---- *)
(* unique message ids: the SAME message id logged by two attempts is delivered to both scenarios *)
Example ex_unique_ids_needed :
  let ls := [ FAttempt 1 101 None 10 None; FAttempt 2 102 None 20 None; FStepSpan 11 1; FStepSpan 21 2;
              FEmit 1001 11 11; FEmit 1001 21 21; FBase TFwd ] in
  match fexec finit ls with Some (_, out) => Some (dels 1001 out) | None => None end
    = Some [FDeliver 101 None 1001; FDeliver 102 None 1001]
  /\ In (FEmit 1001 11 11) ls /\ In (FStepSpan 11 1) ls /\ In (FAttempt 1 101 None 10 None) ls /\ ~ NoDup (fmsgs ls).
Proof.
  cbv zeta. split; [vm_compute; reflexivity|]. split; [cbn; tauto|]. split; [cbn; tauto|]. split; [cbn; tauto|].
  cbn. intros ND. inversion ND as [|? ? Hn _]. apply Hn. left. reflexivity.
Qed.

(* `FStepSpan x sid`: an event gated by a span that is NOT a step / hook span of an attempt — here a root span outside
   every attempt — resolves to nothing and is BROADCAST to every registered scenario *)
Example ex_outside_attempt_broadcast :
  match fexec finit [ FAttempt 1 101 None 10 None; FAttempt 2 102 rt_a 20 None;
                      FSpan 90 None None; FEmit 1001 90 90; FBase TFwd ] with
  | Some (_, out) => Some out | None => None end = Some [FDeliver 102 rt_a 1001; FDeliver 101 None 1001].
Proof. vm_compute. reflexivity. Qed.

(* ---------------------------------------------------------------------------------------------------------------- *)
(* 11. the four hypotheses of `TracingAttrP.attribution` hold whenever a log waits to be forwarded                  *)
(* ---------------------------------------------------------------------------------------------------------------- *)
(* `attribution t reg a sid sc rt x : wf_tbl t -> top_span t a sid -> alookup sid reg = Some (sc, rt) -> below t x a -> ...`
   The third hypothesis was an ASSUMPTION about the run in TracingAttrP.v; here all four are facts about every reachable
   state in which a log of a step / hook span of the attempt is queued, and what the forwarder will look up
   (`dec (l_scen lg)`) is what `attribution` speaks about. *)
Theorem attribution_hypotheses_at_delivery ls s out lg sid sc rt a p :
  fexec finit ls = Some (s, out) -> In lg (t_logs (f_base s)) ->
  In (FStepSpan (l_span lg) sid) ls -> In (FAttempt sid sc rt a p) ls ->
  wf_tbl (f_tbl s) /\ top_span (f_tbl s) a sid /\ alookup sid (f_reg s) = Some (sc, rt) /\
  below (f_tbl s) (l_span lg) a /\
  dec (l_scen lg) = scope_lookup (f_tbl s) (Some (l_span lg)) /\
  recipients (f_reg s) (dec (l_scen lg)) = [(sc, rt)].
Proof.
  intros H Hq HS HA. pose proof (run_sinv _ _ _ H) as I.
  destruct (sinv_queued_registered _ _ _ _ _ _ _ _ _ I Hq HS HA) as (SC & R & RC).
  destruct (l_att _ _ _ I _ _ _ _ _ HA) as [A _].
  destruct (i_step _ _ _ I _ _ (l_step _ _ _ I _ _ HS)) as (a0 & A1 & A2 & _).
  assert (a0 = a) by congruence. subst a0.
  pose proof (i_att _ _ _ I _ _ A) as TOP.
  destruct (attribution _ _ _ _ _ _ _ (i_wf _ _ _ I) TOP R A2) as [LK _].
  split; [exact (i_wf _ _ _ I)|]. split; [exact TOP|]. split; [exact R|]. split; [exact A2|].
  split; [rewrite SC, dec_enc, LK; reflexivity|exact RC].
Qed.

(* ---------------------------------------------------------------------------------------------------------------- *)
(* 11b. (P') projection onto the attribution model                                                                  *)
(* ---------------------------------------------------------------------------------------------------------------- *)
Definition reg_step (r : regt) (rc : arec) : regt :=
  match rc with AReg sid sc rt => reg_insert sid sc rt r | AUnreg sid => reg_remove sid r | _ => r end.

Lemma a_reg_run : forall rs st, a_reg (fold_left astep rs st) = fold_left reg_step rs (a_reg st).
Proof. induction rs as [|r rs IH]; intros st; [reflexivity|]. cbn [fold_left]. rewrite IH. destruct r; reflexivity. Qed.

Lemma has_child_fresh : forall t a, wf_tbl t -> alookup a t = None -> has_child t a = false.
Proof.
  induction t as [|[z sz] t IH]; intros a W Ha; [reflexivity|]. destruct W as (F & P & W).
  cbn [alookup] in Ha. destruct (a =? z) eqn:E; [discriminate|].
  unfold has_child in *. cbn [existsb snd]. rewrite (IH a W Ha), orb_false_r.
  destruct (sp_parent sz) as [q|] eqn:Eq; [|reflexivity]. cbn. destruct (q =? a) eqn:E2; [|reflexivity].
  apply N.eqb_eq in E2. subst q. exfalso. exact (P a eq_refl Ha).
Qed.

(* a span created with its id: two well-shaped records *)
Lemma shaped_new_span t x p k : wf_tbl t -> rec_wf t (ANewSpan x p) = true ->
  all_steps shaped_chk t [ANewSpan x p; ASpanSid x k] = true.
Proof.
  intros W R. pose proof (rec_wf_new _ _ _ R) as [Hx Hp]. cbn [all_steps]. unfold shaped_chk at 1. rewrite R.
  cbn [sid_at_creation andb tbl_step]. unfold shaped_chk. cbn [rec_wf sid_at_creation alookup andb].
  rewrite N.eqb_refl. cbn [sp_sid is_some negb andb]. rewrite andb_true_r. apply negb_true_iff.
  unfold has_child. cbn [existsb snd sp_parent]. fold (has_child t x). rewrite (has_child_fresh t x W Hx), orb_false_r.
  destruct p as [q|]; [|reflexivity]. cbn. apply N.eqb_neq. intros ->. exact (Hp x eq_refl Hx).
Qed.

Lemma fstep_recs ls s out l s' o : sinv ls s out -> fstep s l = Some (s', o) ->
  f_tbl s' = fold_left tbl_step (recs_of s l) (f_tbl s) /\ f_reg s' = fold_left reg_step (recs_of s l) (f_reg s) /\
  all_steps shaped_chk (f_tbl s) (recs_of s l) = true.
Proof.
  intros I H. pose proof (i_wf _ _ _ I) as W. destruct l as [sid sc rt a p|x sid|y p io|m y x|b|sid]; cbn [recs_of].
  - apply fstep_attempt in H as (_ & R & _ & -> & _). cbn [f_tbl f_reg fold_left reg_step].
    rewrite <- (new_span_eq (f_tbl s) a p (Some sid)). split; [reflexivity|]. split; [reflexivity|].
    exact (shaped_new_span _ _ _ _ W R).
  - apply fstep_stepspan in H as (a & A & _ & R & -> & _). rewrite A. cbn [f_tbl f_reg fold_left reg_step tbl_step].
    split; [reflexivity|]. split; [reflexivity|]. cbn [all_steps]. unfold shaped_chk. rewrite R. reflexivity.
  - apply fstep_span in H as (R & -> & _). cbn [f_tbl f_reg]. rewrite <- (new_span_eq (f_tbl s) y p io).
    destruct io as [k|]; cbn [fold_left reg_step new_span].
    + split; [reflexivity|]. split; [reflexivity|]. exact (shaped_new_span _ _ _ _ W R).
    + split; [reflexivity|]. split; [reflexivity|]. cbn [all_steps]. unfold shaped_chk. rewrite R. reflexivity.
  - apply fstep_emit in H as (_ & _ & H). apply run_base_spec in H as (b' & bo & _ & -> & _). cbn. auto.
  - apply fstep_base in H as (_ & H). apply run_base_spec in H as (b' & bo & _ & -> & _). cbn. auto.
  - apply fstep_finish in H as (_ & _ & -> & _). cbn. auto.
Qed.

Lemma fexec_recs : forall ls2 ls1 s out s' o, sinv ls1 s out -> fexec s ls2 = Some (s', o) ->
  f_tbl s' = fold_left tbl_step (frecs s ls2) (f_tbl s) /\ f_reg s' = fold_left reg_step (frecs s ls2) (f_reg s) /\
  all_steps shaped_chk (f_tbl s) (frecs s ls2) = true.
Proof.
  induction ls2 as [|l t IH]; intros ls1 s out s' o I H; cbn [fexec] in H.
  - inversion H; subst. cbn. auto.
  - destruct (fstep s l) as [[s1 o1]|] eqn:S1; [|discriminate].
    destruct (fexec s1 t) as [[s2 o2]|] eqn:S2; [|discriminate]. inversion H; subst.
    destruct (fstep_recs _ _ _ _ _ _ I S1) as (T1 & R1 & A1).
    destruct (IH _ _ _ _ _ (sinv_step _ _ _ _ _ _ I S1) S2) as (T2 & R2 & A2).
    cbn [frecs]. rewrite S1, !fold_left_app, all_steps_app, <- T1, <- R1, A1. auto.
Qed.

(* (P') the span table and the registry of the layer ARE the table and the registry the attribution model computes from
   the record stream of the run, and that stream has the shape the theorems of TracingAttrP.v ask for *)
Theorem projection_attr ls s out : fexec finit ls = Some (s, out) ->
  shaped (frecs finit ls) = true /\ f_tbl s = tbl_of (frecs finit ls) /\ f_reg s = a_reg (arun (frecs finit ls)) /\
  f_tbl s = a_tbl (arun (frecs finit ls)).
Proof.
  intros H. destruct (fexec_recs ls [] finit [] s out sinv_init H) as (T & R & A).
  split; [exact A|]. split; [exact T|]. split; [unfold arun; rewrite a_reg_run; exact R|rewrite a_tbl_arun; exact T].
Qed.

Example ex_full_records : shaped (frecs finit ex_full) = true /\ attr_ok (frecs finit ex_full) = true.
Proof. vm_compute. split; reflexivity. Qed.

(* ---------------------------------------------------------------------------------------------------------------- *)
(* 12. WHAT REMAINS OUTSIDE                                                                                         *)
(* ---------------------------------------------------------------------------------------------------------------- *)
(* - The granularity of `TFwd`. One `FBase TFwd` is one run of the forwarder loop of Tracing.v: it drains the WHOLE queue,
     and the layer looks every drained log up in ONE registry, the registry of the state in which the run starts. That no
     `finish_scenario` / `start_scenarios` can fall between two logs of one forwarder run (in the real runner both happen
     in the same task as the loop) is an assumption of the model, not a theorem. What a finer-grained forwarder would
     need — the id is registered in EVERY reachable state in which the log is still queued — is
     `still_registered_while_queued`; a finer-grained model itself is not built here.
   - Logs emitted outside any attempt. `FEmit m y x` with x not a recorded step / hook span (`FStepSpan`) is allowed by the
     layer, resolves to whatever the table says (nothing for a root span without id) and is broadcast
     (`ex_outside_attempt_broadcast`); the theorems say nothing about such events (hypothesis `In (FStepSpan x sid) ls`).
     Likewise events logged by other threads that never enter a span of the attempt.
   - After-hook ordering. Step and hook spans are treated alike (`FStepSpan`); that the Started event of an After hook is
     emitted only after its logs (TracingStart.v / TracingP2.v, K20a) is not part of this layer, nor is the order of the
     hooks' result events relative to the steps' — only that ALL of them precede `FFinish sid`.
   - Span ids are never reused (`rec_wf`: a new span is fresh in the table), scenario ids are never reused (`f_att` keeps
     every id ever registered), and unique message ids are a hypothesis (`NoDup (fmsgs ls)`; `ex_unique_ids_needed`).
   - That the real runner creates step / hook spans directly below the attempt's span while the id is registered, and
     calls `finish_scenario` only after the results of all steps and hooks, are the enabledness rules of `FStepSpan` and
     `FFinish` — the runner's order, taken from the code, not proved about it. *)

Print Assumptions projection.
Print Assumptions projection_attr.
Print Assumptions still_registered_while_queued.
Print Assumptions attribution_hypotheses_at_delivery.
Print Assumptions delivered_or_queued_once.
Print Assumptions delivered_at_most_once_to_emitter.
Print Assumptions delivered_once_before_result.
Print Assumptions delivered_before_finish.
Print Assumptions emit_resolves_to_attempt.
Print Assumptions logs_before_result_full.
Print Assumptions nested_delivery.
