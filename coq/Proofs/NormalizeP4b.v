(* NormalizeP4b.v — C11 "sequential", part 2: general facts about the contract automaton (monotonicity of
   its tables along a run), list facts for the queue updates, and the static invariants of the buffer levels. *)
From CV Require Import Proofs.SchedP5.
From CV Require Import Model.Base Model.Events Model.Contract Model.Normalize
  Proofs.BaseP Proofs.NormalizeP Proofs.NormalizeP2 Proofs.NormalizeP3 Proofs.NormalizeP4.
From Coq Require Import Lia Permutation.

(* ====================================================================================== *)
(* the automaton: a Closed attempt stays Closed; keys are never removed                     *)
(* ====================================================================================== *)
Lemma cstep_closed_att seq c e c' k :
  cstep seq c e = Some c' -> lookup atkey_eqb k (c_atts c) = Some Closed -> lookup atkey_eqb k (c_atts c') = Some Closed.
Proof.
  unfold cstep. destruct (c_finished c); [discriminate|]. intros H L.
  destruct e as [| | | |f|f|f r|f r|f ro sc rt x]; try (apply guard_some in H as [_ <-]; exact L); try (inversion H; subst; exact L).
  destruct x; apply guard_some in H as [G <-]; try exact L; cbn [set_catts c_atts].
  - destruct (atkey_eqb k (f, ro, sc, rt)) eqn:E.
    + apply atkey_eqb_spec in E. subst k. exfalso.
      apply andb_prop in G as [G _]. apply andb_prop in G as [G _]. apply andb_prop in G as [G _]. apply andb_prop in G as [_ G].
      rewrite L in G. discriminate G.
    + rewrite (lookup_setk_other atkey_eqb atkey_eqb_spec); [exact L|]. intros ->.
      rewrite (proj2 (atkey_eqb_spec _ _) eq_refl) in E. discriminate.
  - destruct (atkey_eqb k (f, ro, sc, rt)) eqn:E.
    + apply atkey_eqb_spec in E. subst k. apply (lookup_setk_same atkey_eqb atkey_eqb_spec).
    + rewrite (lookup_setk_other atkey_eqb atkey_eqb_spec); [exact L|]. intros ->.
      rewrite (proj2 (atkey_eqb_spec _ _) eq_refl) in E. discriminate.
Qed.
Lemma crun_closed_att seq : forall o c c' k,
  crun seq c o = Some c' -> lookup atkey_eqb k (c_atts c) = Some Closed -> lookup atkey_eqb k (c_atts c') = Some Closed.
Proof.
  induction o as [|e o IH]; intros c c' k H L; cbn [crun] in H; [inversion H; subst; exact L|].
  destruct (cstep seq c e) as [c1|] eqn:S; [|discriminate]. exact (IH _ _ _ H (cstep_closed_att _ _ _ _ _ S L)).
Qed.

(* ====================================================================================== *)
(* list facts: the tail of an updated association list                                    *)
(* ====================================================================================== *)
Section TL.
  Context {K V : Type} (eqb : K -> K -> bool).
  Hypothesis eqb_spec : forall a b, eqb a b = true <-> a = b.

  Lemma in_tl {A} (x : A) l : In x (tl l) -> In x l.
  Proof. destruct l; [intros []|]. cbn. auto. Qed.

  Lemma in_tl_amodify k g (l : list (K * V)) k' v' : NoDup (keys l) ->
    In (k', v') (tl (amodify eqb k g l)) -> exists v, In (k', v) (tl l) /\ v' = if eqb k k' then g v else v.
  Proof.
    destruct l as [|[a b] t]; [intros _ []|]. intros ND. inversion ND as [|? ? NI ND']; subst.
    cbn [amodify]. destruct (eqb k a) eqn:E; cbn [tl].
    - intros H. exists v'. split; [exact H|]. apply eqb_spec in E. subst a.
      rewrite (eqb_false eqb eqb_spec); [reflexivity|]. intros ->. apply NI. exact (in_keys _ _ _ H).
    - intros H. apply (in_amodify eqb eqb_spec) in H; [exact H|exact ND'].
  Qed.

  Lemma in_tl_aupsert k g (l : list (K * V)) k' v' : NoDup (keys l) ->
    In (k', v') (tl (aupsert eqb k g l)) ->
    (exists v, In (k', v) (tl l) /\ v' = if eqb k k' then g (Some v) else v) \/
    (l <> [] /\ ~ In k (keys l) /\ k' = k /\ v' = g None).
  Proof.
    destruct l as [|[a b] t]; [intros _ []|]. intros ND. inversion ND as [|? ? NI ND']; subst.
    cbn [aupsert]. destruct (eqb k a) eqn:E; cbn [tl].
    - intros H. left. exists v'. split; [exact H|]. apply eqb_spec in E. subst a.
      rewrite (eqb_false eqb eqb_spec); [reflexivity|]. intros ->. apply NI. exact (in_keys _ _ _ H).
    - intros H. apply (in_aupsert eqb eqb_spec) in H; [|exact ND']. destruct H as [H|(NI2 & -> & ->)]; [left; exact H|].
      right. split; [discriminate|]. split; [|auto]. cbn [keys map fst In]. intros [X|X]; [|exact (NI2 X)].
      subst a. rewrite (eqb_rfl eqb eqb_spec) in E. discriminate.
  Qed.

  Lemma in_tl_snoc {A} (x y : A) l : In x (tl (l ++ [y])) -> In x (tl l) \/ (l <> [] /\ x = y).
  Proof.
    destruct l as [|a t]; [intros []|]. cbn [app tl]. intros H. apply in_app_or in H as [H|[H|[]]]; [left; exact H|].
    right. split; [discriminate|auto].
  Qed.
End TL.

(* ====================================================================================== *)
(* the static invariants                                                                  *)
(* ====================================================================================== *)
Definition pr_atts (l : list (akey * list aev)) : Prop := forall k es, In (k, es) l -> starts_started es = true.
Definition pr_item (ki : ikey * item) : Prop :=
  match ki with
  | (KRule _, IRule rq) => rq_init rq <> None /\ pr_atts (rq_atts rq)
  | (KScen _, IScen es) => starts_started es = true
  | _ => False
  end.
Definition pr_items (l : list (ikey * item)) : Prop := forall ki, In ki l -> pr_item ki.
Definition pr_feat (q : fqueue) : Prop := fq_init q <> None /\ pr_items (fq_items q).

Definition prev_ok {K} (c : cstate) (f : N) (ro : option N) (inj : akey -> K) (ks : list K) (k : akey) : Prop :=
  match prev_key f ro k with
  | Some pk => lookup atkey_eqb pk (c_atts c) = Some Closed \/ (exists k0, att_key f ro k0 = pk /\ kbefore ks (inj k0) (inj k))
  | None => True
  end.

Record atts_static (c : cstate) (f : N) (ro : option N) (l : list (akey * list aev)) : Prop := mk_atts_static {
  as_nodup : NoDup (keys l);
  as_shape : forall k es, In (k, es) l -> att_shape es = true;
  as_tail : forall k es, In (k, es) (tl l) -> starts_started es = true;
  as_fresh : forall k es, In (k, es) l -> starts_started es = true -> lookup atkey_eqb (att_key f ro k) (c_atts c) = None;
  as_head : forall k es, In (k, es) l -> starts_started es = false -> lookup atkey_eqb (att_key f ro k) (c_atts c) = Some Open;
  as_prev : forall k es, In (k, es) l -> prev_ok c f ro (fun x => x) (keys l) k }.

Definition atts_open (c : cstate) (f : N) (ro : option N) (l : list (akey * list aev)) : Prop :=
  forall k', lookup atkey_eqb k' (c_atts c) = Some Open ->
  exists k es, In (k, es) l /\ k' = att_key f ro k /\ starts_started es = false.

Lemma atts_inv_of_static c f ro l : atts_static c f ro l -> atts_open c f ro l -> atts_inv c f ro l.
Proof.
  intros [ND SH TL FR HD PV] OP. constructor; auto.
  - destruct l as [|[k es] t]; [exact I|]. intros SS. apply (HD k es); [left; reflexivity|exact SS].
  - intros k' L. destruct (OP k' L) as (k & es & Hin & -> & SS). destruct l as [|[k0 es0] t]; [destruct Hin|].
    destruct Hin as [Hin|Hin]; [inversion Hin; subst; auto|]. rewrite (TL k es Hin) in SS. discriminate.
Qed.
Lemma atts_static_of_inv c f ro l : atts_inv c f ro l -> atts_static c f ro l /\ atts_open c f ro l.
Proof.
  intros [ND SH TL FR HD OP PV]. split.
  - constructor; auto. intros k es Hin SS. destruct l as [|[k0 es0] t]; [destruct Hin|].
    destruct Hin as [Hin|Hin]; [inversion Hin; subst; exact (HD SS)|]. rewrite (TL k es Hin) in SS. discriminate.
  - intros k' L. specialize (OP k' L). destruct l as [|[k0 es0] t]; [destruct OP|]. destruct OP as [-> SS].
    exists k0, es0. split; [left; reflexivity|auto].
Qed.

(* transport along a change of the automaton state that does not touch the keys of this list *)
Lemma atts_static_agree c c' f ro l :
  (forall k, att_feat k = f -> att_rule k = ro -> lookup atkey_eqb k (c_atts c') = lookup atkey_eqb k (c_atts c)) ->
  atts_static c f ro l -> atts_static c' f ro l.
Proof.
  intros AG [ND SH TL FR HD PV].
  assert (AK : forall k, lookup atkey_eqb (att_key f ro k) (c_atts c') = lookup atkey_eqb (att_key f ro k) (c_atts c)).
  { intros k. apply AG; reflexivity. }
  constructor; auto.
  - intros k es H SS. rewrite AK. exact (FR k es H SS).
  - intros k es H SS. rewrite AK. exact (HD k es H SS).
  - intros k es H. specialize (PV k es H). unfold prev_ok in *. destruct (prev_key f ro k) as [pk|] eqn:PK; [|exact I].
    rewrite AG; [exact PV| |]; unfold prev_key in PK; destruct (snd k) as [[cur lft]|]; try discriminate;
      destruct (cur =? 0); try discriminate; inversion PK; reflexivity.
Qed.
