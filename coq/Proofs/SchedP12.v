(* SchedP12.v — two further facts about the scheduler model (Model/Sched.v).

   B. "Fills the free slots": an exact postcondition of `take_ready` (what is handed out is exactly the
      ready entries, in order, up to the limit; what is left is either behind an exhausted limit or still
      waiting), lifted to `get`, to a loop turn `loop_top`, and to the label `LTop`.

   A. Fail-fast and late starters: in a run with fail-fast and concurrency limit K, after a FINAL failure
      (a failed attempt with no retry left) the attempts that still start are exactly attempts that had
      been handed out (Dispatched) before the failure; there are at most K - 1 of them.

   No axioms. New definitions live here; Model/ and Check/ are untouched. *)
From CV Require Import Model.Base Model.Events Model.Sched
  Proofs.BaseP Proofs.SchedP Proofs.SchedP2 Proofs.SchedP5.
From CV Require Proofs.SchedP7.
From Coq Require Import Permutation Lia Arith.

(* ====================================================================================================== *)
(* B. fills the free slots                                                                                *)
(* ====================================================================================================== *)

(* an entry is ready at `now` when its retry delay (if any) has elapsed; otherwise it is waiting *)
Definition ready (now : N) (e : entry) : bool :=
  match left_until now e with None => true | Some _ => false end.
Definition waiting (now : N) (e : entry) : Prop := left_until now e <> None.
Definition take_opt {A} (n : option nat) (l : list A) : list A :=
  match n with Some k => firstn k l | None => l end.

Lemma ready_true now e : left_until now e = None -> ready now e = true.
Proof. unfold ready. intros ->. reflexivity. Qed.
Lemma ready_false now e lf : left_until now e = Some lf -> ready now e = false.
Proof. unfold ready. intros ->. reflexivity. Qed.

Lemma waiting_filter now l : Forall (waiting now) l -> filter (ready now) l = [].
Proof.
  induction 1 as [|e t He Ht IH]; [reflexivity|]. cbn [filter]. unfold waiting in He.
  destruct (left_until now e) as [lf|] eqn:LU; [|congruence]. rewrite (ready_false _ _ _ LU). exact IH.
Qed.
Lemma filter_nil_waiting now l : filter (ready now) l = [] -> Forall (waiting now) l.
Proof.
  induction l as [|e t IH]; intros H; [constructor|]. cbn [filter] in H.
  destruct (left_until now e) as [lf|] eqn:LU.
  - rewrite (ready_false _ _ _ LU) in H. constructor; [unfold waiting; rewrite LU; discriminate|apply IH, H].
  - rewrite (ready_true _ _ LU) in H. discriminate.
Qed.

(* the exact postcondition of take_ready *)
Theorem take_ready_post : forall l n now md a b m,
  take_ready n now md l = (a, b, m) ->
  a = take_opt n (filter (ready now) l) /\
  ((exists k, n = Some k /\ length a = k) \/ Forall (waiting now) b) /\
  Permutation l (a ++ b).
Proof.
  intros l n now md a b m H. split; [|split].
  - revert n md a b m H. induction l as [|e t IH]; intros n md a b m H; cbn [take_ready] in H.
    + inversion H; subst. destruct n as [k|]; cbn [take_opt filter]; [rewrite firstn_nil|]; reflexivity.
    + destruct n as [[|k]|].
      * inversion H; subst. reflexivity.
      * cbn [filter]. destruct (left_until now e) as [lf|] eqn:LU.
        -- rewrite (ready_false _ _ _ LU).
           destruct (take_ready (Some (S k)) now (min_opt md lf) t) as [[a' b'] m'] eqn:T. inversion H; subst.
           exact (IH _ _ _ _ _ T).
        -- rewrite (ready_true _ _ LU). cbn [option_map pred] in H.
           destruct (take_ready (Some k) now md t) as [[a' b'] m'] eqn:T. inversion H; subst.
           cbn [take_opt firstn]. f_equal. exact (IH _ _ _ _ _ T).
      * cbn [filter]. destruct (left_until now e) as [lf|] eqn:LU.
        -- rewrite (ready_false _ _ _ LU).
           destruct (take_ready None now (min_opt md lf) t) as [[a' b'] m'] eqn:T. inversion H; subst.
           exact (IH _ _ _ _ _ T).
        -- rewrite (ready_true _ _ LU). cbn [option_map] in H.
           destruct (take_ready None now md t) as [[a' b'] m'] eqn:T. inversion H; subst.
           cbn [take_opt]. f_equal. exact (IH _ _ _ _ _ T).
  - revert n md a b m H. induction l as [|e t IH]; intros n md a b m H; cbn [take_ready] in H.
    + inversion H; subst. right. constructor.
    + destruct n as [[|k]|].
      * inversion H; subst. left. exists 0%nat. split; reflexivity.
      * destruct (left_until now e) as [lf|] eqn:LU.
        -- destruct (take_ready (Some (S k)) now (min_opt md lf) t) as [[a' b'] m'] eqn:T. inversion H; subst.
           destruct (IH _ _ _ _ _ T) as [D|D]; [left; exact D|right].
           constructor; [unfold waiting; rewrite LU; discriminate|exact D].
        -- cbn [option_map pred] in H.
           destruct (take_ready (Some k) now md t) as [[a' b'] m'] eqn:T. inversion H; subst.
           destruct (IH _ _ _ _ _ T) as [(k0 & E & L)|D]; [left|right; exact D].
           exists (S k). split; [reflexivity|]. inversion E; subst. reflexivity.
      * destruct (left_until now e) as [lf|] eqn:LU.
        -- destruct (take_ready None now (min_opt md lf) t) as [[a' b'] m'] eqn:T. inversion H; subst.
           destruct (IH _ _ _ _ _ T) as [(k0 & E & _)|D]; [discriminate|right].
           constructor; [unfold waiting; rewrite LU; discriminate|exact D].
        -- cbn [option_map] in H.
           destruct (take_ready None now md t) as [[a' b'] m'] eqn:T. inversion H; subst.
           destruct (IH _ _ _ _ _ T) as [(k0 & E & _)|D]; [discriminate|right; exact D].
  - pose proof (take_ready_perm n now l md) as P. rewrite H in P. exact P.
Qed.

(* without a limit everything ready is handed out and everything left is waiting *)
Corollary take_ready_unlimited l now md a b m :
  take_ready None now md l = (a, b, m) -> a = filter (ready now) l /\ Forall (waiting now) b.
Proof.
  intros H. destruct (take_ready_post _ _ _ _ _ _ _ H) as (EA & [(k & E & _)|D] & _); [discriminate|].
  split; [exact EA|exact D].
Qed.

(* `get`: either (nothing runs and) the first ready serial entry is taken alone, or the batch is exactly the
   ready concurrent entries up to the limit, and then the limit is exhausted or only waiting entries remain *)
Theorem get_post n s batch qs qc md : n <> Some 0%nat -> get n s = (batch, qs, qc, md) ->
  (running s = [] /\ (exists e, batch = [e] /\ hd_error (filter (ready (now s)) (qS s)) = Some e) /\ qc = qC s)
  \/
  ((running s <> [] \/ filter (ready (now s)) (qS s) = []) /\ qs = qS s /\
   batch = take_opt n (filter (ready (now s)) (qC s)) /\
   ((exists k, n = Some k /\ length batch = k) \/ Forall (waiting (now s)) qc)).
Proof.
  intros NZ G. rewrite (get_unfold n s NZ) in G. destruct (is_nil (running s)) eqn:R.
  - destruct (take_ready (Some 1%nat) (now s) None (qS s)) as [[bs rs] md1] eqn:T1.
    destruct (take_ready_post _ _ _ _ _ _ _ T1) as (EA & _ & _). cbn [take_opt] in EA.
    destruct bs as [|b0 bs'].
    + destruct (take_ready n (now s) md1 (qC s)) as [[bc rc] md2] eqn:T2. inversion G; subst.
      destruct (take_ready_post _ _ _ _ _ _ _ T2) as (EA2 & D2 & _). right.
      split; [right; destruct (filter (ready (now s)) (qS s)); [reflexivity|discriminate]|].
      split; [reflexivity|]. split; assumption.
    + inversion G; subst. left. apply is_nil_true in R. split; [exact R|]. split; [|reflexivity].
      destruct (filter (ready (now s)) (qS s)) as [|x f']; [discriminate|]. cbn [firstn] in EA.
      inversion EA; subst. exists x. split; reflexivity.
  - destruct (take_ready n (now s) None (qC s)) as [[bc rc] md2] eqn:T2. inversion G; subst.
    destruct (take_ready_post _ _ _ _ _ _ _ T2) as (EA2 & D2 & _). right.
    split; [left; intros E; rewrite E in R; discriminate|]. split; [reflexivity|]. split; assumption.
Qed.

(* the loop turn: general form, with the "a ready serial entry runs alone" case excluded abstractly *)
Lemma loop_top_fills_gen s n : flow s = Cont n ->
  (n <> Some 0%nat -> running s = [] -> forall e,
     fst (fst (fst (get n s))) = [e] -> hd_error (filter (ready (now s)) (qS s)) = Some e -> False) ->
  flow (fst (loop_top s)) = Cont (Some 0%nat) \/ Forall (waiting (now s)) (qC (fst (loop_top s))).
Proof.
  intros F NS. unfold loop_top. rewrite F.
  change (match Cont n with Break => Some 0%nat | Cont k => k end) with n.
  destruct (get n s) as [[[batch qs] qc] md] eqn:G.
  assert (Z : n = Some 0%nat \/ n <> Some 0%nat) by (destruct n as [[|k]|]; auto; right; discriminate).
  destruct Z as [-> | NZ].
  - cbn [get] in G. inversion G; subst. left.
    destruct (is_nil (running s) && is_nil []); [destruct (pdone s && _)|]; cbn; try exact F; reflexivity.
  - destruct (get_post n s batch qs qc md NZ G) as [(R & (e & EB & HD) & _) | (_ & -> & EB & D)].
    + exfalso. apply (NS NZ R e); [cbn [fst]; exact EB|exact HD].
    + destruct D as [(k & EK & L) | W].
      * left. subst n. destruct batch as [|e0 bt]; [cbn in L; subst; congruence|].
        cbn [is_nil]. rewrite andb_false_r.
        destruct (start_scenarios (e0 :: bt) (fcount s) (rcount s)) as [[o fc] rc].
        cbn [fst flow upd sub_slots]. rewrite L, Nat.sub_diag. reflexivity.
      * right. destruct (is_nil (running s) && is_nil batch); [destruct (pdone s && _)|];
          [| |destruct (start_scenarios batch (fcount s) (rcount s)) as [[o fc] rc]]; cbn [fst qC upd]; exact W.
Qed.

(* B, state-based hypothesis: something is running, or no serial entry is ready *)
Theorem loop_top_fills s n : flow s = Cont n ->
  (running s <> [] \/ Forall (waiting (now s)) (qS s)) ->
  flow (fst (loop_top s)) = Cont (Some 0%nat) \/ Forall (waiting (now s)) (qC (fst (loop_top s))).
Proof.
  intros F H. apply (loop_top_fills_gen s n F). intros _ R e _ HD. destruct H as [H|H]; [exact (H R)|].
  rewrite (waiting_filter _ _ H) in HD. discriminate.
Qed.

(* B, as asked: the turn handed out only non-serial entries (or nothing) *)
Theorem loop_top_fills_batch s n : typed_ok s -> flow s = Cont n ->
  Forall (fun e => e_serial e = false) (fst (fst (fst (get n s)))) ->
  flow (fst (loop_top s)) = Cont (Some 0%nat) \/ Forall (waiting (now s)) (qC (fst (loop_top s))).
Proof.
  intros [TS _] F NB. apply (loop_top_fills_gen s n F). intros _ _ e EB HD. rewrite EB in NB.
  inversion NB as [|? ? SE _]; subst.
  assert (I : In e (filter (ready (now s)) (qS s))).
  { destruct (filter (ready (now s)) (qS s)) as [|x t]; [discriminate|]. inversion HD; subst. left; reflexivity. }
  apply filter_In in I as [I _]. rewrite Forall_forall in TS. rewrite (TS _ I) in SE. discriminate.
Qed.

(* what holds in the excluded case: nothing runs and a serial entry is ready -> it is handed out alone, the
   concurrent queue is untouched (ready concurrent entries may remain although slots are free) *)
Theorem loop_top_serial_case s n e : flow s = Cont n -> n <> Some 0%nat -> running s = [] ->
  hd_error (filter (ready (now s)) (qS s)) = Some e ->
  running (fst (loop_top s)) = [(e, Dispatched)] /\ qC (fst (loop_top s)) = qC s /\
  flow (fst (loop_top s)) = sub_slots (Cont n) 1 /\ pc (fst (loop_top s)) = Awaiting.
Proof.
  intros F NZ R HD. unfold loop_top. rewrite F.
  change (match Cont n with Break => Some 0%nat | Cont k => k end) with n.
  destruct (get n s) as [[[batch qs] qc] md] eqn:G.
  destruct (get_post n s batch qs qc md NZ G) as [(_ & (e' & EB & HD') & ->) | ([RN|FN] & _)].
  - rewrite HD in HD'. inversion HD'; subst e'. subst batch. cbn [is_nil]. rewrite andb_false_r.
    destruct (start_scenarios [e] (fcount s) (rcount s)) as [[o fc] rc].
    cbn [fst running qC flow pc upd]. rewrite R. repeat split; reflexivity.
  - contradiction.
  - rewrite FN in HD. discriminate.
Qed.

(* the label LTop: whatever the program counter, the loop turn it contains looks at the clock `now s` *)
Theorem step_top_fills c s s' o : typed_ok s -> step c s LTop = Some (s', o) ->
  (forall e, In (e, Dispatched) (running s') -> e_serial e = false) ->
  flow s' = Break \/ flow s' = Cont (Some 0%nat) \/ Forall (waiting (now s)) (qC s').
Proof.
  intros TY ST ND.
  assert (CORE : forall s0, typed_ok s0 -> now s0 = now s ->
            (forall e, In (e, Dispatched) (running (fst (loop_top s0))) -> e_serial e = false) ->
            flow (fst (loop_top s0)) = Break \/ flow (fst (loop_top s0)) = Cont (Some 0%nat) \/
            Forall (waiting (now s)) (qC (fst (loop_top s0)))).
  { intros s0 TY0 NOW ND0. destruct (flow s0) as [|n] eqn:F.
    - left. exact (proj1 (proj2 (loop_top_break s0 F))).
    - right. rewrite <- NOW. apply (loop_top_fills_gen s0 n F). intros NZ R e EB HD.
      destruct (loop_top_serial_case s0 n e F NZ R HD) as (RUN & _).
      assert (SE : e_serial e = false) by (apply ND0; rewrite RUN; left; reflexivity).
      assert (I : In e (filter (ready (now s0)) (qS s0))).
      { destruct (filter (ready (now s0)) (qS s0)) as [|x t]; [discriminate|]. inversion HD; subst. left; reflexivity. }
      apply filter_In in I as [I _]. destruct TY0 as [TS _]. rewrite Forall_forall in TS.
      rewrite (TS _ I) in SE. discriminate. }
  cbn [step] in ST. destruct (pc s).
  - set (s0 := mk_st _ _ _ _ _ _ _ _ _ _ _ _ true) in ST.
    specialize (CORE s0 TY eq_refl). destruct (loop_top s0) as [s1 o1]. inversion ST; subst. exact (CORE ND).
  - destruct (remove_ended (running s)) as [r|]; [|discriminate].
    destruct (drain _ _ _ _ _) as [[[o1 fl] fc] rc].
    set (s1 := upd s (qS s) (qC s) fl r [] fc rc (now s) Awaiting) in ST.
    specialize (CORE s1 TY eq_refl). destruct (loop_top s1) as [s2 o2]. inversion ST; subst. exact (CORE ND).
  - specialize (CORE s TY eq_refl). destruct (loop_top s) as [s2 o2]. inversion ST; subst. exact (CORE ND).
  - discriminate.
Qed.

(* ====================================================================================================== *)
(* A. fail-fast: after a final failure only attempts already handed out still start                       *)
(* ====================================================================================================== *)

Definition isD (x : entry * phase) : bool := match snd x with Dispatched => true | _ => false end.
Definition n_disp (l : list (entry * phase)) : nat := length (filter isD l).

Lemma n_disp_app a b : n_disp (a ++ b) = (n_disp a + n_disp b)%nat.
Proof. unfold n_disp. rewrite filter_app, app_length. reflexivity. Qed.
Lemma n_disp_le l : (n_disp l <= length l)%nat.
Proof. unfold n_disp. induction l as [|x t IH]; cbn; [lia|]. destruct (isD x); cbn; lia. Qed.

(* a final failure is pending in the channel *)
Definition trip (ms : list msg) : bool := existsb (fun m => m_failed m && negb (m_retried m)) ms.
(* the run is tripped: the flow is broken already, or it will be at the next loop turn, which must drain *)
Definition Tripped (s : st) : Prop := flow s = Break \/ (trip (msgs s) = true /\ pc s = Awaiting).

Lemma loop_top_tripped s : flow s = Break ->
  running (fst (loop_top s)) = running s /\ flow (fst (loop_top s)) = Break /\ n_started (snd (loop_top s)) = 0%nat.
Proof.
  intros F. destruct (loop_top_break s F) as (R & FB & _). split; [exact R|split; [exact FB|]].
  exact (proj1 (all_brk_edges _ (loop_top_brk s))).
Qed.

(* from a tripped state: every step keeps the state tripped, hands out nothing, and a Started event is paid for
   by one Dispatched entry *)
Lemma step_tripped c s l s' o : cf_fail_fast c = true -> Tripped s -> step c s l = Some (s', o) ->
  Tripped s' /\ (n_started o + n_disp (running s') = n_disp (running s))%nat.
Proof.
  intros FF T H. destruct l as [F|id| | |k|k x|k failed|d]; cbn [step] in H.
  - destruct (perrs s); [discriminate|]. inversion H; subst. unfold insert_feature, Tripped.
    destruct (pf s) as [[[[a b] c0] d0] e]. destruct (is_nil _); cbn [flow msgs pc running]; (split; [exact T|reflexivity]).
  - destruct (perrs s); [discriminate|]. destruct (pf s) as [[[[a b] c0] d0] e]. inversion H; subst.
    split; [exact T|reflexivity].
  - destruct (pdone s); [discriminate|]. destruct (pf s) as [[[[a b] c0] d0] e]. inversion H; subst.
    split; [exact T|reflexivity].
  - destruct (pc s) eqn:P.
    + assert (F : flow s = Break) by (destruct T as [F|[_ PA]]; [exact F|rewrite P in PA; discriminate]).
      set (s0 := mk_st _ _ _ _ _ _ _ _ _ _ _ _ true) in H.
      destruct (loop_top_tripped s0 F) as (R & FB & NS). destruct (loop_top s0) as [s1 o1]. inversion H; subst.
      cbn [fst snd] in *. split; [left; exact FB|]. rewrite R. cbn [running].
      change (n_started (EvStarted :: o1)) with (n_started o1). rewrite NS. reflexivity.
    + destruct (remove_ended (running s)) as [r|] eqn:RE; [|discriminate].
      pose proof (drain_flow (cf_fail_fast c) (msgs s) (add_slot (flow s)) (fcount s) (rcount s)) as DF.
      pose proof (drain_edges (cf_fail_fast c) (msgs s) (add_slot (flow s)) (fcount s) (rcount s)) as [D1 _].
      assert (FL : snd (fst (fst (drain (cf_fail_fast c) (msgs s) (add_slot (flow s)) (fcount s) (rcount s)))) = Break).
      { destruct T as [F|[TR _]].
        - rewrite F in *. cbn [add_slot] in *. destruct (drain _ _ _ _ _) as [[[o1 fl] fc] rc]. cbn. destruct DF; assumption.
        - rewrite FF. apply drain_trips. exact TR. }
      destruct (drain _ (msgs s) _ _ _) as [[[o1 fl] fc] rc]. cbn [fst snd] in *.
      set (s1 := upd s (qS s) (qC s) fl r [] fc rc (now s) Awaiting) in H.
      destruct (loop_top_tripped s1 FL) as (R & FB & NS). destruct (loop_top s1) as [s2 o2]. inversion H; subst.
      cbn [fst snd] in *. split; [left; exact FB|]. rewrite R. unfold s1, upd. cbn [running].
      rewrite n_started_app, D1, NS.
      destruct (SchedP7.remove_ended_shape _ _ RE) as (e0 & l1 & l2 & -> & ->). rewrite !n_disp_app. reflexivity.
    + assert (F : flow s = Break) by (destruct T as [F|[_ PA]]; [exact F|rewrite P in PA; discriminate]).
      destruct (loop_top_tripped s F) as (R & FB & NS). destruct (loop_top s) as [s1 o1]. inversion H; subst.
      cbn [fst snd] in *. split; [left; exact FB|]. rewrite R, NS. reflexivity.
    + discriminate.
  - destruct (set_phase k Dispatched Opened (running s)) as [[e r]|] eqn:SP; [|discriminate]. inversion H; subst.
    destruct (SchedP7.set_phase_shape _ _ _ _ _ _ SP) as (l1 & l2 & RUN & -> & _ & _).
    split; [exact T|]. unfold upd. cbn [running]. rewrite RUN, !n_disp_app.
    destruct (one_started (scen_ev e ScStarted) eq_refl) as [-> _].
    change (n_disp ((e, Opened) :: l2)) with (n_disp l2). change (n_disp ((e, Dispatched) :: l2)) with (S (n_disp l2)). lia.
  - destruct (is_middle x) eqn:M; [|discriminate]. destruct (find_open k (running s)) as [e|]; [|discriminate].
    inversion H; subst. destruct (one_middle e x M) as [-> _]. split; [exact T|reflexivity].
  - destruct (set_phase k Opened Ended (running s)) as [[e r]|] eqn:SP; [|discriminate].
    destruct (SchedP7.set_phase_shape _ _ _ _ _ _ SP) as (l1 & l2 & RUN & -> & _ & _).
    destruct (one_finished (scen_ev e ScFinished) eq_refl) as [F1 _].
    assert (ND : n_disp (l1 ++ (e, Ended) :: l2) = n_disp (running s)).
    { rewrite RUN, !n_disp_app. reflexivity. }
    assert (T' : forall m, flow s = Break \/ (trip (msgs s ++ [m]) = true /\ pc s = Awaiting)).
    { intros m. destruct T as [F|[TR PA]]; [left; exact F|right]. split; [|exact PA].
      unfold trip in *. rewrite existsb_app, TR. reflexivity. }
    destruct (next_try e failed (now s)) as [e'|]; [destruct (e_serial e')|]; inversion H; subst;
      unfold Tripped, upd; cbn [flow msgs pc running]; (split; [apply T'|rewrite F1, ND; reflexivity]).
  - inversion H; subst. split; [exact T|reflexivity].
Qed.

Lemma exec_from_tripped c : cf_fail_fast c = true -> forall ls s s' o,
  Tripped s -> exec_from c s ls = Some (s', o) ->
  Tripped s' /\ (n_started o + n_disp (running s') = n_disp (running s))%nat.
Proof.
  intros FF. induction ls as [|l t IH]; intros s s' o T H; cbn [exec_from] in H.
  - inversion H; subst. split; [exact T|reflexivity].
  - destruct (step c s l) as [[s1 o1]|] eqn:S1; [|discriminate].
    destruct (exec_from c s1 t) as [[s2 o2]|] eqn:S2; [|discriminate]. inversion H; subst.
    destruct (step_tripped _ _ _ _ _ FF T S1) as [T1 E1]. destruct (IH _ _ _ T1 S2) as [T2 E2].
    split; [exact T2|]. rewrite n_started_app. lia.
Qed.

(* the failing step itself: a FINAL failure (no retry left) leaves the state tripped; the failed attempt still
   occupies its place in `running`, so strictly fewer than `length running` entries are Dispatched *)
Lemma final_failure_trips c s1 k e r s' o :
  pc_ok s1 -> set_phase k Opened Ended (running s1) = Some (e, r) -> next_try e true (now s1) = None ->
  step c s1 (LAttEnd k true) = Some (s', o) ->
  Tripped s' /\ n_started o = 0%nat /\ n_disp (running s') = n_disp (running s1) /\
  (S (n_disp (running s1)) <= length (running s1))%nat.
Proof.
  intros PC SP NT H. cbn [step] in H. rewrite SP, NT in H. inversion H; subst. clear H.
  destruct (SchedP7.set_phase_shape _ _ _ _ _ _ SP) as (l1 & l2 & RUN & -> & _ & _).
  unfold Tripped, upd. cbn [flow msgs pc running]. split; [right; split|split; [|split]].
  - unfold trip. rewrite existsb_app. cbn. apply orb_true_r.
  - unfold pc_ok in PC. destruct (pc s1); try reflexivity; rewrite PC in RUN; destruct l1; discriminate.
  - exact (proj1 (one_finished (scen_ev e ScFinished) eq_refl)).
  - rewrite RUN, !n_disp_app. reflexivity.
  - rewrite RUN, n_disp_app, app_length. cbn [length]. change (n_disp ((e, Opened) :: l2)) with (n_disp l2).
    pose proof (n_disp_le l1). pose proof (n_disp_le l2). lia.
Qed.

Lemma slots_ok_bound K s : slots_ok (Some K) s -> (length (running s) <= K)%nat.
Proof. unfold slots_ok. destruct (flow s) as [|[m|]]; try contradiction; lia. Qed.

(* A, from any state satisfying the invariant `Inv` *)
Theorem failfast_late_starters_from c K s1 k l2 s tr2 :
  cf_fail_fast c = true -> Inv (Some K) s1 ->
  (forall e r, set_phase k Opened Ended (running s1) = Some (e, r) -> next_try e true (now s1) = None) ->
  exec_from c s1 (LAttEnd k true :: l2) = Some (s, tr2) ->
  (n_started tr2 + n_disp (running s) = n_disp (running s1))%nat /\
  (n_disp (running s1) <= K - 1)%nat /\ Tripped s.
Proof.
  intros FF (SL & _ & _ & PC) FIN H. cbn [exec_from] in H.
  destruct (step c s1 (LAttEnd k true)) as [[s2 o1]|] eqn:S1; [|discriminate].
  destruct (exec_from c s2 l2) as [[s3 o2]|] eqn:S2; [|discriminate]. inversion H; subst. clear H.
  assert (SP : exists e r, set_phase k Opened Ended (running s1) = Some (e, r)).
  { cbn [step] in S1. destruct (set_phase k Opened Ended (running s1)) as [[e r]|]; [|discriminate]. eauto. }
  destruct SP as (e & r & SP).
  destruct (final_failure_trips c s1 k e r s2 o1 PC SP (FIN _ _ SP) S1) as (T2 & N1 & D1 & LT).
  destruct (exec_from_tripped c FF l2 s2 s o2 T2 S2) as (T3 & E2).
  pose proof (slots_ok_bound _ _ SL) as B. rewrite n_started_app.
  split; [lia|]. split; [lia|exact T3].
Qed.

Lemma exec_from_app c : forall a s b s' o,
  exec_from c s (a ++ b) = Some (s', o) ->
  exists s1 o1 o2, exec_from c s a = Some (s1, o1) /\ exec_from c s1 b = Some (s', o2) /\ o = o1 ++ o2.
Proof.
  induction a as [|l t IH]; intros s b s' o H; cbn [app exec_from] in *.
  - exists s, [], o. split; [reflexivity|split; [exact H|reflexivity]].
  - destruct (step c s l) as [[s0 o0]|]; [|discriminate].
    destruct (exec_from c s0 (t ++ b)) as [[s2 o2]|] eqn:E; [|discriminate]. inversion H; subst.
    destruct (IH _ _ _ _ E) as (s1 & p1 & p2 & E1 & E2 & ->). rewrite E1.
    exists s1, (o0 ++ p1), p2. split; [reflexivity|split; [exact E2|apply app_assoc]].
Qed.

(* A, split form: the run up to the failure, then the failure and the rest *)
Theorem failfast_late_starters c K l1 k l2 s1 tr1 s tr2 :
  cf_fail_fast c = true -> cf_concurrency c = Some K ->
  exec c l1 = Some (s1, tr1) ->
  (forall e r, set_phase k Opened Ended (running s1) = Some (e, r) -> next_try e true (now s1) = None) ->
  exec_from c s1 (LAttEnd k true :: l2) = Some (s, tr2) ->
  (n_started tr2 <= K - 1)%nat /\
  (n_started tr2 + n_disp (running s) = n_disp (running s1))%nat /\ (n_disp (running s1) <= K - 1)%nat.
Proof.
  intros FF HK E1 FIN E2.
  assert (I : Inv (Some K) s1).
  { rewrite <- HK. exact (exec_from_inv (cf_concurrency c) c l1 _ _ _ (init_inv c) E1). }
  destruct (failfast_late_starters_from c K s1 k l2 s tr2 FF I FIN E2) as (A & B & _).
  split; [lia|split; assumption].
Qed.

(* A, whole-run form: the stream of a run that contains a final failure splits at that failure *)
Theorem failfast_late_starters_run c K l1 k l2 s tr :
  cf_fail_fast c = true -> cf_concurrency c = Some K ->
  exec c (l1 ++ LAttEnd k true :: l2) = Some (s, tr) ->
  exists s1 tr1 tr2,
    exec c l1 = Some (s1, tr1) /\ exec_from c s1 (LAttEnd k true :: l2) = Some (s, tr2) /\ tr = tr1 ++ tr2 /\
    ((forall e r, set_phase k Opened Ended (running s1) = Some (e, r) -> next_try e true (now s1) = None) ->
     (n_started tr2 <= K - 1 /\ n_started tr2 + n_disp (running s) = n_disp (running s1))%nat).
Proof.
  intros FF HK H. unfold exec in H. destruct (exec_from_app c _ _ _ _ _ H) as (s1 & tr1 & tr2 & E1 & E2 & ->).
  exists s1, tr1, tr2. split; [exact E1|split; [exact E2|split; [reflexivity|]]]. intros FIN.
  destruct (failfast_late_starters c K l1 k l2 s1 tr1 s tr2 FF HK E1 FIN E2) as (A & B & _). split; assumption.
Qed.

(* once tripped nothing is handed out any more: `running` never gains a Dispatched entry *)
Corollary tripped_no_dispatch c ls s s' o : cf_fail_fast c = true -> Tripped s ->
  exec_from c s ls = Some (s', o) -> (n_disp (running s') <= n_disp (running s))%nat.
Proof. intros FF T H. destruct (exec_from_tripped c FF ls s s' o T H) as [_ E]. lia. Qed.

(* ====================================================================================================== *)
(* Examples (vm_compute): the hypotheses of A and B hold non-trivially on concrete runs                   *)
(* ====================================================================================================== *)

Definition started_ids (tr : list ev) : list N :=
  flat_map (fun e => match e with EvScen _ _ s _ ScStarted => [s] | _ => [] end) tr.
Definition run_view (s : st) : list (N * phase) := map (fun x => (e_s (fst x), snd x)) (running s).

(* A: limit 3, fail-fast; four scenarios, three are handed out, #1 starts and fails finally (no retry); the
   other two handed-out attempts (#2, #3) still start, #4 never does: n_started = 2 = K - 1, the bound is tight *)
Module ExA.
  Definition sc (i : N) : sscen := mk_sscen i None false None.
  Definition F : sfeature := mk_sfeature 1 [sc 1; sc 2; sc 3; sc 4] 0 4.
  Definition c : cfg := mk_cfg (Some 3%nat) true.
  Definition l1 : list label := [LFeature F; LTop; LAttStart (1, 0)].
  Definition l2 : list label :=
    [LTop; LAttStart (2, 0); LAttStart (3, 0); LAttEnd (2, 0) false; LTop; LAttEnd (3, 0) false; LTop;
     LParserEnd; LTop].
  Definition r1 := exec c l1.
  Definition s1 : st := match r1 with Some (s, _) => s | None => init_st c end.
  Definition tr1 : list ev := match r1 with Some (_, o) => o | None => [] end.
  Definition r2 := exec_from c s1 (LAttEnd (1, 0) true :: l2).
  Definition s2 : st := match r2 with Some (s, _) => s | None => init_st c end.
  Definition tr2 : list ev := match r2 with Some (_, o) => o | None => [] end.

  Example prefix_runs : exec c l1 = Some (s1, tr1).
  Proof. vm_compute. reflexivity. Qed.
  Example suffix_runs : exec_from c s1 (LAttEnd (1, 0) true :: l2) = Some (s2, tr2).
  Proof. vm_compute. reflexivity. Qed.
  Example whole_runs : exec c (l1 ++ LAttEnd (1, 0) true :: l2) = Some (s2, tr1 ++ tr2).
  Proof. vm_compute. reflexivity. Qed.
  (* at the failure: #1 is open, #2 and #3 are handed out but not started, #4 is still queued *)
  Example at_failure : run_view s1 = [(1, Opened); (2, Dispatched); (3, Dispatched)] /\ map e_s (qC s1) = [4]
                       /\ n_disp (running s1) = 2%nat /\ flow s1 = Cont (Some 0%nat).
  Proof. vm_compute. repeat split; reflexivity. Qed.
  (* the failure is final *)
  Example failure_is_final :
    forall e r, set_phase (1, 0) Opened Ended (running s1) = Some (e, r) -> next_try e true (now s1) = None.
  Proof. intros e r H. vm_compute in H. inversion H; subst. reflexivity. Qed.
  (* what happens afterwards: exactly #2 and #3 start; #4 stays queued; the run finishes *)
  Example after_failure : started_ids tr2 = [2; 3] /\ n_started tr2 = 2%nat /\ map e_s (qC s2) = [4]
                          /\ running s2 = [] /\ flow s2 = Break /\ pc s2 = Done /\ last tr2 EvStarted = EvFinished.
  Proof. vm_compute. repeat split; reflexivity. Qed.
  Example whole_stream : started_ids (tr1 ++ tr2) = [1; 2; 3].
  Proof. vm_compute. reflexivity. Qed.
  (* the theorem applies to this run *)
  Example theorem_applies : (n_started tr2 <= 3 - 1 /\ n_started tr2 + n_disp (running s2) = n_disp (running s1))%nat.
  Proof.
    destruct (failfast_late_starters c 3%nat l1 (1, 0) l2 s1 tr1 s2 tr2 eq_refl eq_refl prefix_runs failure_is_final
                suffix_runs) as (A & B & _).
    split; assumption.
  Qed.

  (* contrast: the same failure with a retry left is NOT final: the flow is not broken and #4 is handed out *)
  Definition scr (i : N) : sscen := mk_sscen i None false (Some (1, None)).
  Definition F' : sfeature := mk_sfeature 1 [scr 1; sc 2; sc 3; sc 4] 0 4.
  Definition l1' : list label := [LFeature F'; LTop; LAttStart (1, 0)].
  Definition s1' : st := match exec c l1' with Some (s, _) => s | None => init_st c end.
  Definition r2' := exec_from c s1' [LAttEnd (1, 0) true; LTop].
  Example retried_failure_not_final :
    match set_phase (1, 0) Opened Ended (running s1') with
    | Some (e, _) => is_some (next_try e true (now s1'))
    | None => false
    end = true /\
    match r2' with Some (s, _) => (run_view s, is_break (flow s)) | None => ([], true) end
    = ([(2, Dispatched); (3, Dispatched); (1, Dispatched)], false).
  Proof. vm_compute. split; reflexivity. Qed.
End ExA.

(* B: limit 3, no fail-fast. Scenario #1 may be retried once after a delay of 100ns. *)
Module ExB.
  Definition sc (i : N) : sscen := mk_sscen i None false None.
  Definition scr (i : N) : sscen := mk_sscen i None false (Some (1, Some 100)).
  Definition c : cfg := mk_cfg (Some 3%nat) false.

  (* (1) more ready entries than free slots: the turn stops because the limit is exhausted *)
  Definition F1 : sfeature := mk_sfeature 1 [scr 1; sc 2; sc 3; sc 4; sc 5] 0 5.
  Definition la : list label := [LFeature F1; LTop; LAttStart (1, 0); LAttEnd (1, 0) true].
  Definition sa : st := match exec c la with Some (s, _) => s | None => init_st c end.
  Definition sa' : st := match step c sa LTop with Some (s, _) => s | None => sa end.
  (* before the turn: the retry of #1 waits at the head of the queue, #4 and #5 are ready behind it; one
     slot comes free. The turn skips the waiting entry, hands out #4, and no slot is left; #5 stays ready *)
  Example limit_exhausted :
    map e_s (qC sa) = [1; 4; 5] /\ map (ready (now sa)) (qC sa) = [false; true; true] /\
    is_some (step c sa LTop) = true /\
    run_view sa' = [(2, Dispatched); (3, Dispatched); (4, Dispatched)] /\
    flow sa' = Cont (Some 0%nat) /\ map e_s (qC sa') = [1; 5] /\ map (ready (now sa)) (qC sa') = [false; true].
  Proof. vm_compute. repeat split; reflexivity. Qed.

  (* (2) fewer ready entries than free slots: slots stay free, and everything left in the queue is waiting *)
  Definition F2 : sfeature := mk_sfeature 1 [scr 1; sc 2] 0 2.
  Definition lb : list label := [LFeature F2; LTop; LAttStart (1, 0); LAttEnd (1, 0) true].
  Definition sb : st := match exec c lb with Some (s, _) => s | None => init_st c end.
  Definition sb' : st := match step c sb LTop with Some (s, _) => s | None => sb end.
  Example slots_stay_free :
    is_some (step c sb LTop) = true /\ flow sb' = Cont (Some 2%nat) /\
    map e_s (qC sb') = [1] /\ map (left_until (now sb)) (qC sb') = [Some 100].
  Proof. vm_compute. repeat split; reflexivity. Qed.
  (* the theorem applies (the hypotheses hold), and of its three alternatives only the third is true here *)
  Example theorem_applies :
    flow sb' = Break \/ flow sb' = Cont (Some 0%nat) \/ Forall (waiting (now sb)) (qC sb').
  Proof.
    assert (E : exec c lb = Some (sb, match exec c lb with Some (_, o) => o | None => [] end))
      by (vm_compute; reflexivity).
    assert (ST : step c sb LTop = Some (sb', match step c sb LTop with Some (_, o) => o | None => [] end))
      by (vm_compute; reflexivity).
    pose proof (exec_from_inv (cf_concurrency c) c lb _ _ _ (init_inv c) E) as (_ & _ & TY & _).
    apply (step_top_fills c sb sb' _ TY ST).
    intros e H. vm_compute in H. destruct H as [H|[]]. inversion H; subst. reflexivity.
  Qed.
  (* later, once the delay has elapsed, the retry is handed out *)
  Definition sb2 : st :=
    match exec_from c sb' [LAttStart (2, 0); LAttEnd (2, 0) false; LTick 101; LTop] with
    | Some (s, _) => s | None => sb' end.
  Example retry_handed_out_later : run_view sb2 = [(1, Dispatched)] /\ qC sb2 = [] /\ flow sb2 = Cont (Some 2%nat).
  Proof. vm_compute. repeat split; reflexivity. Qed.

  (* (3) `loop_top_fills` directly on a Yielded state (flow = Cont (Some 3)): five ready entries, three slots *)
  Definition F3 : sfeature := mk_sfeature 2 [sc 6; sc 7; sc 8; sc 9] 0 4.
  Definition F0 : sfeature := mk_sfeature 1 [scr 1] 0 1.
  Definition lc : list label := [LFeature F0; LTop; LAttStart (1, 0); LAttEnd (1, 0) true; LTop; LFeature F3].
  Definition sy : st := match exec c lc with Some (s, _) => s | None => init_st c end.
  Example yielded_state :
    pc sy = Yielded /\ flow sy = Cont (Some 3%nat) /\ running sy = [] /\ qS sy = [] /\ now sy = 101 /\
    map e_s (qC sy) = [1; 6; 7; 8; 9] /\ map (ready (now sy)) (qC sy) = [true; true; true; true; true] /\
    run_view (fst (loop_top sy)) = [(1, Dispatched); (6, Dispatched); (7, Dispatched)] /\
    flow (fst (loop_top sy)) = Cont (Some 0%nat) /\ map e_s (qC (fst (loop_top sy))) = [8; 9].
  Proof. vm_compute. repeat split; reflexivity. Qed.
  Example loop_top_fills_applies :
    flow (fst (loop_top sy)) = Cont (Some 0%nat) \/ Forall (waiting (now sy)) (qC (fst (loop_top sy))).
  Proof. apply (loop_top_fills sy (Some 3%nat)); [vm_compute; reflexivity|right; vm_compute; constructor]. Qed.

  (* (4) the excluded case: nothing runs and a serial entry is ready -> it runs alone, ready concurrent
     entries stay queued although two slots are free *)
  Definition Fs : sfeature := mk_sfeature 3 [mk_sscen 10 None true None; sc 11; sc 12] 0 3.
  Definition ss : st := match exec c [LFeature Fs] with Some (s, _) => s | None => init_st c end.
  Definition ss' : st := match step c ss LTop with Some (s, _) => s | None => ss end.
  Example serial_preferred :
    run_view ss' = [(10, Dispatched)] /\ flow ss' = Cont (Some 2%nat) /\
    map e_s (qC ss') = [11; 12] /\ map (ready (now ss)) (qC ss') = [true; true].
  Proof. vm_compute. repeat split; reflexivity. Qed.
End ExB.
