(* FramingP.v — the framing clauses of the event stream that `Model/Contract.v`'s `contract` does not demand:
   exactly one ParsingFinished (before run-Finished), no parser error after it, its counters equal to what was
   actually received, and no empty Feature / Rule bracket.  A stricter executable predicate `framing_ok`, the
   theorem that every complete run of the scheduler model (Model/Sched.v) satisfies it, its prefix-closed parts
   for every reachable state, and the fail-fast clause of C08 about parser errors. *)
From CV Require Import Model.Base Model.Events Model.Contract Model.Sched
  Proofs.BaseP Proofs.SchedP Proofs.SchedP2 Proofs.SchedP3 Proofs.SchedP4 Proofs.SchedP5 Proofs.SchedP6
  Proofs.SchedP7 Proofs.SchedP8 Proofs.SchedP10 Proofs.SchedP12.
From CV Require Proofs.SchedP13.
From Coq Require Import Lia.

(* ================================================================================================ *)
(* 1. The predicate                                                                                   *)
(* ================================================================================================ *)

(* ---- 1a. the parser part: ParsingFinished once, before run-Finished, no parser error after it, and the
        parser_errors it announces = the parser errors of the stream ---- *)
Record pstate := mk_ps { p_pf : bool; p_fin : bool; p_nerr : N }.
Definition pinit : pstate := mk_ps false false 0.
Definition pstep (a : pstate) (e : ev) : option pstate :=
  if p_fin a then None else
  match e with
  | EvParsingFinished _ _ _ _ n =>
    if p_pf a then None else if n =? p_nerr a then Some (mk_ps true false (p_nerr a)) else None
  | EvParseErr _ => if p_pf a then None else Some (mk_ps false false (p_nerr a + 1))
  | EvFinished => if p_pf a then Some (mk_ps true true (p_nerr a)) else None
  | _ => Some a
  end.
Fixpoint prun (a : pstate) (es : list ev) : option pstate :=
  match es with [] => Some a | e :: t => match pstep a e with Some a' => prun a' t | None => None end end.

(* ---- 1b. the bracket part, generic in the key: an opened bracket remembers whether an event of one of its
        scenarios has been seen since; it may only be closed if so ---- *)
Section Br.
  Context {K : Type} (eqb : K -> K -> bool).
  Fixpoint blook (k : K) (l : list (K * bool)) : option bool :=
    match l with [] => None | (k', v) :: t => if eqb k k' then Some v else blook k t end.
  Definition bmark (k : K) (l : list (K * bool)) : list (K * bool) :=
    map (fun kv => if eqb k (fst kv) then (fst kv, true) else kv) l.
  Definition brem (k : K) (l : list (K * bool)) : list (K * bool) :=
    filter (fun kv => negb (eqb k (fst kv))) l.

  Context (opn cls tch : ev -> option K).
  Definition bstep (l : list (K * bool)) (e : ev) : option (list (K * bool)) :=
    match opn e with
    | Some k => Some ((k, false) :: l)
    | None =>
      match cls e with
      | Some k => match blook k l with Some true => Some (brem k l) | _ => None end
      | None => match tch e with Some k => Some (bmark k l) | None => Some l end
      end
    end.
  Fixpoint brun (l : list (K * bool)) (es : list ev) : option (list (K * bool)) :=
    match es with [] => Some l | e :: t => match bstep l e with Some l' => brun l' t | None => None end end.
End Br.

Definition f_opn (e : ev) : option N := match e with EvFeatS f => Some f | _ => None end.
Definition f_cls (e : ev) : option N := match e with EvFeatF f => Some f | _ => None end.
Definition f_tch (e : ev) : option N := match e with EvScen f _ _ _ _ => Some f | _ => None end.
Definition r_opn (e : ev) : option (N * N) := match e with EvRuleS f r => Some (f, r) | _ => None end.
Definition r_cls (e : ev) : option (N * N) := match e with EvRuleF f r => Some (f, r) | _ => None end.
Definition r_tch (e : ev) : option (N * N) := match e with EvScen f (Some r) _ _ _ => Some (f, r) | _ => None end.

Definition frun := brun N.eqb f_opn f_cls f_tch.
Definition rrun := brun rk_eqb r_opn r_cls r_tch.

(* every prefix of a run: clauses 2, 5 (as "a closing bracket is preceded by a scenario event inside it"),
   at most one ParsingFinished, the announced parser_errors = the errors seen *)
Definition framing_prefix (es : list ev) : bool :=
  is_some (prun pinit es) && is_some (frun [] es) && is_some (rrun [] es).
(* a complete run: moreover run-Finished is there (hence ParsingFinished before it) *)
Definition framing_ok (es : list ev) : bool :=
  match prun pinit es with Some a => p_fin a | None => false end
  && is_some (frun [] es) && is_some (rrun [] es).

(* ---- 1c. against the input: clause 3 (the parser errors are those delivered, once each, in order) and
        clause 4 (the counters of ParsingFinished are the sums over what was delivered) ---- *)
Definition feats_of (ls : list label) : list sfeature :=
  flat_map (fun l => match l with LFeature f => [f] | _ => [] end) ls.
Definition perrs_of (ls : list label) : list N :=
  flat_map (fun l => match l with LParseErr i => [i] | _ => [] end) ls.
Definition perrs_tr (es : list ev) : list N :=
  flat_map (fun e => match e with EvParseErr i => [i] | _ => [] end) es.
Definition counts_of (ls : list label) : N * N * N * N * N :=
  (N.of_nat (length (feats_of ls)), sumN sf_nrules (feats_of ls), sumN scens_of_feature (feats_of ls),
   sumN sf_nsteps (feats_of ls), N.of_nat (length (perrs_of ls))).
Definition tup5_eqb (x y : N * N * N * N * N) : bool :=
  let '(a, b, c, d, e) := x in let '(a', b', c', d', e') := y in
  (a =? a') && (b =? b') && (c =? c') && (d =? d') && (e =? e').
Definition inputs_ok (ls : list label) (es : list ev) : bool :=
  list_eqb N.eqb (perrs_tr es) (perrs_of ls) &&
  forallb (fun e => match e with EvParsingFinished a b c d n => tup5_eqb (a, b, c, d, n) (counts_of ls) | _ => true end) es.

(* the whole of it, for a complete run with input `ls` *)
Definition framing_ok_for (ls : list label) (es : list ev) : bool := framing_ok es && inputs_ok ls es.

(* ---- the three streams `contract` accepts are rejected ---- *)
Example contract_accepts_no_parsing_finished : contract [EvStarted; EvFinished] = true.
Proof. vm_compute. reflexivity. Qed.
Example framing_rejects_no_parsing_finished : framing_ok [EvStarted; EvFinished] = false.
Proof. vm_compute. reflexivity. Qed.

Example contract_accepts_late_parse_error :
  contract [EvStarted; EvParsingFinished 0 0 0 0 0; EvParseErr 1; EvFinished] = true.
Proof. vm_compute. reflexivity. Qed.
Example framing_rejects_late_parse_error :
  framing_ok [EvStarted; EvParsingFinished 0 0 0 0 0; EvParseErr 1; EvFinished] = false /\
  framing_prefix [EvStarted; EvParsingFinished 0 0 0 0 0; EvParseErr 1] = false.
Proof. vm_compute. auto. Qed.

Example contract_accepts_empty_brackets :
  contract [EvStarted; EvFeatS 1; EvRuleS 1 2; EvRuleF 1 2; EvFeatF 1; EvFinished] = true /\
  contract [EvStarted; EvParsingFinished 1 1 0 0 0; EvFeatS 1; EvRuleS 1 2; EvRuleF 1 2; EvFeatF 1; EvFinished] = true.
Proof. vm_compute. auto. Qed.
Example framing_rejects_empty_brackets :
  framing_ok [EvStarted; EvFeatS 1; EvRuleS 1 2; EvRuleF 1 2; EvFeatF 1; EvFinished] = false /\
  (* ... and not merely because ParsingFinished is missing there: *)
  framing_ok [EvStarted; EvParsingFinished 1 1 0 0 0; EvFeatS 1; EvRuleS 1 2; EvRuleF 1 2; EvFeatF 1; EvFinished] = false /\
  framing_prefix [EvStarted; EvFeatS 1; EvRuleS 1 2; EvRuleF 1 2] = false /\
  (* a scenario outside the rule does not fill the rule's bracket *)
  framing_prefix [EvStarted; EvFeatS 1; EvRuleS 1 2; EvScen 1 None 7 None ScStarted; EvRuleF 1 2] = false /\
  (* an empty feature bracket alone *)
  framing_prefix [EvStarted; EvFeatS 1; EvFeatF 1] = false /\
  (* a scenario of another feature does not fill it *)
  framing_prefix [EvStarted; EvFeatS 1; EvFeatS 2; EvScen 2 None 7 None ScStarted; EvFeatF 1] = false /\
  (* a scenario BEFORE the bracket does not fill it *)
  framing_prefix [EvStarted; EvFeatS 1; EvScen 1 None 7 None ScStarted; EvScen 1 None 7 None ScFinished; EvFeatF 1;
                  EvFeatS 1; EvFeatF 1] = false.
Proof. vm_compute. repeat split. Qed.
(* wrong parser_errors count / two ParsingFinished / something after run-Finished *)
Example framing_rejects_misc :
  framing_prefix [EvParseErr 4; EvStarted; EvParsingFinished 0 0 0 0 0] = false /\
  framing_prefix [EvParseErr 4; EvStarted; EvParsingFinished 0 0 0 0 1] = true /\
  framing_prefix [EvStarted; EvParsingFinished 0 0 0 0 0; EvParsingFinished 0 0 0 0 0] = false /\
  framing_prefix [EvStarted; EvParsingFinished 0 0 0 0 0; EvFinished; EvFeatS 1] = false.
Proof. vm_compute. repeat split. Qed.

(* ---- a non-trivial accepted run: a rule, a retried failing scenario, two concurrent attempts, a parser error ---- *)
Example framing_nonvacuous :
  let f := mk_sfeature 1 [mk_sscen 11 None false (Some (1, None)); mk_sscen 12 (Some 5) false None] 1 3 in
  let ls := [LParseErr 8; LFeature f; LTop; LAttStart (11, 0); LAttStart (12, 0); LAttEv (11, 0) (ScStep 7 StStarted);
             LAttEnd (11, 0) true; LParserEnd; LTop; LAttEnd (12, 0) false; LTop; LAttStart (11, 1);
             LAttEnd (11, 1) false; LTop] in
  match exec (mk_cfg (Some 2%nat) false) ls with
  | Some (s, tr) => (match pc s with Done => true | _ => false end, framing_ok tr, inputs_ok ls tr, framing_ok_for ls tr,
                     contract tr, N.of_nat (length tr))
  | None => (false, false, false, false, false, 0)
  end = (true, true, true, true, true, 15).
Proof. vm_compute. reflexivity. Qed.

(* ================================================================================================ *)
(* 2. Generic facts about the bracket automaton and the runner's counter maps                         *)
(* ================================================================================================ *)
Section BrFacts.
  Context {K : Type} (eqb : K -> K -> bool) (spec : forall a b, eqb a b = true <-> a = b).

  Lemma eqb_refl' k : eqb k k = true.
  Proof. apply spec. reflexivity. Qed.
  Lemma eqb_neq (k k' : K) : k <> k' -> eqb k k' = false.
  Proof. intros H. destruct (eqb k k') eqn:E; [apply spec in E; contradiction|reflexivity]. Qed.
  Lemma eqb_dec (k k' : K) : {k = k'} + {k <> k'}.
  Proof. destruct (eqb k k') eqn:E; [left; apply spec; exact E|right; intros X; apply spec in X; congruence]. Qed.

  Lemma blook_mark k g l :
    blook eqb g (bmark eqb k l) = if eqb k g then option_map (fun _ => true) (blook eqb g l) else blook eqb g l.
  Proof.
    induction l as [|[k' v] t IH]; cbn [bmark map blook fst]; [destruct (eqb k g); reflexivity|].
    fold (bmark eqb k t). destruct (eqb k k') eqn:E1; cbn [blook].
    - apply spec in E1. subst k'. destruct (eqb g k) eqn:E2.
      + apply spec in E2. subst g. rewrite eqb_refl'. reflexivity.
      + exact IH.
    - destruct (eqb g k') eqn:E2; [|exact IH].
      apply spec in E2. subst k'. rewrite E1. reflexivity.
  Qed.
  Lemma blook_rem k g l : blook eqb g (brem eqb k l) = if eqb k g then None else blook eqb g l.
  Proof.
    induction l as [|[k' v] t IH]; cbn [brem filter blook fst]; [destruct (eqb k g); reflexivity|].
    fold (brem eqb k t). destruct (eqb k k') eqn:E1; cbn [negb blook].
    - apply spec in E1. subst k'. rewrite IH. destruct (eqb k g) eqn:E2; [reflexivity|].
      rewrite (eqb_neq g k); [reflexivity|]. intros ->. rewrite eqb_refl' in E2. discriminate.
    - destruct (eqb g k') eqn:E2; [|exact IH]. apply spec in E2. subst k'. rewrite E1. reflexivity.
  Qed.

  Section Run.
    Context (opn cls tch : ev -> option K).
    Lemma brun_app l a b :
      brun eqb opn cls tch l (a ++ b) =
      match brun eqb opn cls tch l a with Some l' => brun eqb opn cls tch l' b | None => None end.
    Proof.
      revert l. induction a as [|e t IH]; intros l; cbn [app brun]; [reflexivity|].
      destruct (bstep eqb opn cls tch l e); [apply IH|reflexivity].
    Qed.
    Definition neutral (e : ev) : Prop := opn e = None /\ cls e = None /\ tch e = None.
    Lemma brun_neutral l es : (forall e, In e es -> neutral e) -> brun eqb opn cls tch l es = Some l.
    Proof.
      induction es as [|e t IH]; intros H; cbn [brun]; [reflexivity|].
      destruct (H e (or_introl eq_refl)) as (A & B & C). unfold bstep. rewrite A, B, C.
      apply IH. intros x Hx. apply H. right. exact Hx.
    Qed.

    (* what an accepted stream looks like: the meaning of the remembered flag *)
    Definition nobr (k : K) (es : list ev) : Prop := forall e, In e es -> opn e <> Some k /\ cls e <> Some k.
    Lemma nobr_snoc k es e : nobr k es -> opn e <> Some k -> cls e <> Some k -> nobr k (es ++ [e]).
    Proof.
      intros H A B x Hx. apply in_app_or in Hx as [Hx|[<-|[]]]; [apply H; exact Hx|split; assumption].
    Qed.
    Hypothesis excl : forall e k, opn e = Some k -> cls e = None.
    Lemma brun_meaning : forall es l, brun eqb opn cls tch [] es = Some l ->
      forall k b, blook eqb k l = Some b ->
      exists p1 x p2, es = p1 ++ x :: p2 /\ opn x = Some k /\ nobr k p2 /\
                      (b = true -> exists y, In y p2 /\ tch y = Some k).
    Proof.
      induction es as [|e es IH] using rev_ind; intros l H k b L.
      - cbn in H. inversion H; subst. discriminate L.
      - rewrite brun_app in H. destruct (brun eqb opn cls tch [] es) as [l0|] eqn:R0; [|discriminate].
        cbn [brun] in H. destruct (bstep eqb opn cls tch l0 e) as [l1|] eqn:S; [|discriminate]. inversion H; subst l1.
        assert (EXT : forall b0, blook eqb k l0 = Some b0 -> opn e <> Some k -> cls e <> Some k ->
                  (b = true -> b0 = true \/ tch e = Some k) ->
                  exists p1 x p2, es ++ [e] = p1 ++ x :: p2 /\ opn x = Some k /\ nobr k p2 /\
                                  (b = true -> exists y, In y p2 /\ tch y = Some k)).
        { intros b0 L0 NO NC HB. destruct (IH _ eq_refl _ _ L0) as (p1 & x & p2 & -> & Ox & NB & T).
          exists p1, x, (p2 ++ [e]). split; [rewrite <- app_assoc; reflexivity|]. split; [exact Ox|].
          split; [apply nobr_snoc; assumption|].
          intros Hb. destruct (HB Hb) as [B0|TE].
          - destruct (T B0) as (y & Hy & Ty). exists y. split; [apply in_or_app; left; exact Hy|exact Ty].
          - exists e. split; [apply in_or_app; right; left; reflexivity|exact TE]. }
        unfold bstep in S. destruct (opn e) as [k1|] eqn:O.
        + inversion S; subst l. cbn [blook] in L. destruct (eqb k k1) eqn:E.
          * apply spec in E. subst k1. inversion L; subst b. exists es, e, []. split; [reflexivity|]. split; [exact O|].
            split; [intros x []|discriminate].
          * apply (EXT b L).
            -- intros X; inversion X; subst. rewrite eqb_refl' in E. discriminate.
            -- rewrite (excl _ _ O). discriminate.
            -- auto.
        + destruct (cls e) as [k1|] eqn:C.
          * destruct (blook eqb k1 l0) as [[|]|] eqn:L1; try discriminate. inversion S; subst l.
            rewrite blook_rem in L. destruct (eqb k1 k) eqn:E; [discriminate|].
            apply (EXT b L); [discriminate| |auto].
            intros X; inversion X; subst. rewrite eqb_refl' in E. discriminate.
          * destruct (tch e) as [k1|] eqn:T.
            -- inversion S; subst l. rewrite blook_mark in L. destruct (eqb k1 k) eqn:E.
               ++ apply spec in E. subst k1. destruct (blook eqb k l0) as [b0|] eqn:L0; [|discriminate].
                  apply (EXT b0 eq_refl); [discriminate|discriminate|auto].
               ++ apply (EXT b L); [discriminate|discriminate|auto].
            -- inversion S; subst l. apply (EXT b L); [discriminate|discriminate|auto].
    Qed.

    (* NO EMPTY BRACKET: in an accepted stream a closing bracket has its opening bracket before it and, between
       the two, an event of one of its scenarios (and no other bracket event of the same key) *)
    Theorem bracket_not_empty pre x post k :
      brun eqb opn cls tch [] (pre ++ x :: post) <> None -> opn x = None -> cls x = Some k ->
      exists p1 y p2 z p3, pre = p1 ++ y :: p2 ++ z :: p3 /\ opn y = Some k /\ tch z = Some k /\
                           nobr k (p2 ++ z :: p3).
    Proof.
      intros H O C. rewrite brun_app in H. destruct (brun eqb opn cls tch [] pre) as [l|] eqn:R; [|congruence].
      cbn [brun] in H. unfold bstep in H. rewrite O, C in H.
      destruct (blook eqb k l) as [[|]|] eqn:L; try congruence.
      destruct (brun_meaning _ _ R _ _ L) as (p1 & y & p2 & -> & Oy & NB & T).
      destruct (T eq_refl) as (z & Hz & Tz). apply in_split in Hz as (q1 & q2 & ->).
      exists p1, y, q1, z, q2. auto.
    Qed.
  End Run.

  (* ---- the runner's counter maps (lookupN / setN / removeK) ---- *)
  Definition keys (fc : list (K * N)) : list K := map fst fc.
  Lemma lookupN_setN k v g fc : lookupN eqb g (setN eqb k v fc) = if eqb g k then Some v else lookupN eqb g fc.
  Proof.
    induction fc as [|[k' v'] t IH]; cbn [setN lookupN]; [reflexivity|].
    destruct (eqb k k') eqn:E1; cbn [lookupN].
    - apply spec in E1. subst k'. destruct (eqb g k); reflexivity.
    - destruct (eqb g k') eqn:E2; [|exact IH]. apply spec in E2. subst k'.
      rewrite (eqb_neq g k); [reflexivity|]. intros ->. rewrite eqb_refl' in E1. discriminate.
  Qed.
  Lemma lookupN_removeK k g fc : lookupN eqb g (removeK eqb k fc) = if eqb g k then None else lookupN eqb g fc.
  Proof.
    induction fc as [|[k' v'] t IH]; cbn [removeK lookupN]; [destruct (eqb g k); reflexivity|].
    destruct (eqb k k') eqn:E1; cbn [lookupN].
    - apply spec in E1. subst k'. rewrite IH. destruct (eqb g k); reflexivity.
    - destruct (eqb g k') eqn:E2; [|exact IH]. apply spec in E2. subst k'.
      rewrite (eqb_neq g k); [reflexivity|]. intros ->. rewrite eqb_refl' in E1. discriminate.
  Qed.
  Lemma lookupN_none k fc : lookupN eqb k fc = None <-> ~ In k (keys fc).
  Proof.
    induction fc as [|[k' v'] t IH]; cbn [lookupN keys map fst In]; [tauto|]. fold (keys t).
    destruct (eqb k k') eqn:E.
    - apply spec in E. subst k'. split; [discriminate|]. intros H. exfalso. apply H. left. reflexivity.
    - rewrite IH. split; [|tauto]. intros H [X|X]; [|tauto]. subst k'. rewrite eqb_refl' in E. discriminate.
  Qed.
  Lemma keys_setN_present k v fc : lookupN eqb k fc <> None -> keys (setN eqb k v fc) = keys fc.
  Proof.
    induction fc as [|[k' v'] t IH]; cbn [lookupN setN keys map fst]; [congruence|]. fold (keys t).
    destruct (eqb k k') eqn:E; cbn [map fst]; [reflexivity|]. intros H. fold (keys (setN eqb k v t)). rewrite IH; auto.
  Qed.
  Lemma keys_setN_absent k v fc : lookupN eqb k fc = None -> keys (setN eqb k v fc) = keys fc ++ [k].
  Proof.
    induction fc as [|[k' v'] t IH]; cbn [lookupN setN keys map fst app]; [reflexivity|]. fold (keys t).
    destruct (eqb k k') eqn:E; [discriminate|]. intros H. cbn [map fst]. fold (keys (setN eqb k v t)). rewrite IH; auto.
  Qed.
  Lemma keys_removeK k fc : keys (removeK eqb k fc) = filter (fun g => negb (eqb k g)) (keys fc).
  Proof.
    induction fc as [|[k' v'] t IH]; cbn [removeK keys map fst filter]; [reflexivity|]. fold (keys t).
    destruct (eqb k k'); cbn [negb map fst]; [exact IH|]. fold (keys (removeK eqb k t)). rewrite IH. reflexivity.
  Qed.
  Lemma nodup_setN k v fc : NoDup (keys fc) -> NoDup (keys (setN eqb k v fc)).
  Proof.
    intros H. destruct (lookupN eqb k fc) as [n|] eqn:L.
    - rewrite keys_setN_present; [exact H|congruence].
    - rewrite (keys_setN_absent _ _ _ L). apply NoDup_app_intro; [exact H|repeat constructor; intros []|].
      intros x Hx [<-|[]]. apply lookupN_none in L. contradiction.
  Qed.
  Lemma nodup_removeK k fc : NoDup (keys fc) -> NoDup (keys (removeK eqb k fc)).
  Proof. intros H. rewrite keys_removeK. apply NoDup_filter. exact H. Qed.

  (* the keys of the automaton = the keys of the counter map *)
  Definition KE (fc : list (K * N)) (l : list (K * bool)) : Prop :=
    forall k, lookupN eqb k fc = None <-> blook eqb k l = None.
  Lemma KE_open k v fc l : KE fc l -> KE (setN eqb k v fc) ((k, false) :: l).
  Proof.
    intros H g. rewrite lookupN_setN. cbn [blook]. destruct (eqb g k); [split; discriminate|apply H].
  Qed.
  Lemma KE_set k v fc l : lookupN eqb k fc <> None -> KE fc l -> KE (setN eqb k v fc) l.
  Proof.
    intros P H g. rewrite lookupN_setN. destruct (eqb g k) eqn:E; [|apply H].
    apply spec in E. subst g. split; [discriminate|]. intros X. apply H in X. contradiction.
  Qed.
  Lemma KE_rem k fc l : KE fc l -> KE (removeK eqb k fc) (brem eqb k l).
  Proof.
    intros H g. rewrite lookupN_removeK, blook_rem. destruct (eqb g k) eqn:E.
    - apply spec in E. subst g. rewrite eqb_refl'. tauto.
    - rewrite (eqb_neq k g); [apply H|]. intros ->. rewrite eqb_refl' in E. discriminate.
  Qed.
  Lemma KE_mark k fc l : KE fc l -> KE fc (bmark eqb k l).
  Proof.
    intros H g. rewrite blook_mark. destruct (eqb k g); [|apply H].
    rewrite (H g). destruct (blook eqb g l); cbn; split; congruence.
  Qed.
  Lemma mark_false k g l : blook eqb g (bmark eqb k l) = Some false -> blook eqb g l = Some false /\ g <> k.
  Proof.
    rewrite blook_mark. destruct (eqb k g) eqn:E.
    - destruct (blook eqb g l); cbn; discriminate.
    - intros H. split; [exact H|]. intros ->. rewrite eqb_refl' in E. discriminate.
  Qed.
  Lemma mark_self k l : blook eqb k (bmark eqb k l) <> Some false.
  Proof. rewrite blook_mark, eqb_refl'. destruct (blook eqb k l); cbn; discriminate. Qed.
  Lemma rem_mono k g b l : blook eqb g (brem eqb k l) = Some b -> blook eqb g l = Some b.
  Proof. rewrite blook_rem. destruct (eqb k g); [discriminate|auto]. Qed.

  (* closing everything that is left, at the end of the run *)
  Lemma close_all (opn cls tch : ev -> option K) (mk : K * N -> ev) :
    (forall kv, opn (mk kv) = None /\ cls (mk kv) = Some (fst kv)) ->
    forall fc l, NoDup (keys fc) -> (forall k, In k (keys fc) -> blook eqb k l = Some true) ->
    exists l', brun eqb opn cls tch l (map mk fc) = Some l' /\
               forall k, blook eqb k l' = if existsb (eqb k) (keys fc) then None else blook eqb k l.
  Proof.
    intros MK. induction fc as [|[k v] t IH]; intros l ND H; cbn [map brun keys fst existsb].
    - exists l. auto.
    - fold (keys t). destruct (MK (k, v)) as [A B]. unfold bstep. rewrite A, B. cbn [fst].
      rewrite (H k (or_introl eq_refl)). inversion ND as [|? ? NI ND']; subst.
      destruct (IH (brem eqb k l) ND') as (l' & R & L).
      { intros g Hg. rewrite blook_rem. rewrite (eqb_neq k g); [apply H; right; exact Hg|].
        intros ->. contradiction. }
      exists l'. split; [exact R|]. intros g. rewrite L, blook_rem. destruct (eqb g k) eqn:E; cbn [orb].
      + apply spec in E. subst g. rewrite eqb_refl'. destruct (existsb _ _); reflexivity.
      + rewrite (eqb_neq k g); [reflexivity|]. intros ->. rewrite eqb_refl' in E. discriminate.
  Qed.
End BrFacts.

(* ================================================================================================ *)
(* 3. What a loop turn emits and does, exactly                                                        *)
(* ================================================================================================ *)
Definition is_fr (e : ev) : bool :=
  match e with EvFeatS _ | EvFeatF _ | EvRuleS _ _ | EvRuleF _ _ => true | _ => false end.
Definition all_fr (o : list ev) : Prop := Forall (fun e => is_fr e = true) o.

Lemma all_fr_app a b : all_fr a -> all_fr b -> all_fr (a ++ b).
Proof. intros A B. apply Forall_app. split; assumption. Qed.
Lemma start_feats_fr fs : forall fc, all_fr (fst (start_feats fs fc)).
Proof.
  induction fs as [|f t IH]; intros fc; cbn [start_feats]; [constructor|].
  destruct (lookupN N.eqb f fc); [apply IH|].
  specialize (IH (setN N.eqb f 0 fc)). destruct (start_feats t _) as [o fc']. cbn in *. constructor; auto.
Qed.
Lemma start_rules_fr rs : forall rc, all_fr (fst (start_rules rs rc)).
Proof.
  induction rs as [|k t IH]; intros rc; cbn [start_rules]; [constructor|].
  destruct (lookupN rk_eqb k rc); [apply IH|].
  specialize (IH (setN rk_eqb k 0 rc)). destruct (start_rules t _) as [o rc']. cbn in *. constructor; auto.
Qed.
Lemma start_scenarios_fr batch fc rc : all_fr (fst (fst (start_scenarios batch fc rc))).
Proof.
  unfold start_scenarios.
  pose proof (start_feats_fr (dedup N.eqb (map e_f batch)) fc) as A.
  destruct (start_feats _ fc) as [o1 fc'].
  set (rks := flat_map _ batch).
  pose proof (start_rules_fr (dedup rk_eqb rks) rc) as B.
  destruct (start_rules _ rc) as [o2 rc']. cbn in *. apply all_fr_app; assumption.
Qed.
Lemma finish_all_fr fc rc : all_fr (finish_all fc rc).
Proof.
  unfold finish_all. apply all_fr_app.
  - induction rc as [|x t IH]; [constructor|]. cbn. constructor; auto.
  - induction fc as [|x t IH]; [constructor|]. cbn. constructor; auto.
Qed.
Lemma finish_msg_fr m fc rc : all_fr (fst (fst (finish_msg m fc rc))).
Proof.
  unfold finish_msg. destruct (m_retried m); [constructor|].
  destruct (m_r m) as [r|].
  - destruct (lookupN rk_eqb (m_f m, r) rc) as [n|].
    + destruct (n + 1 =? m_nr m); destruct (lookupN N.eqb (m_f m) fc) as [n2|];
        try destruct (n2 + 1 =? m_nf m); cbn; repeat constructor.
    + destruct (lookupN N.eqb (m_f m) fc) as [n2|]; try destruct (n2 + 1 =? m_nf m); cbn; repeat constructor.
  - destruct (lookupN N.eqb (m_f m) fc) as [n2|]; try destruct (n2 + 1 =? m_nf m); cbn; repeat constructor.
Qed.
Lemma drain_fr ff ms : forall fl fc rc, all_fr (fst (fst (fst (drain ff ms fl fc rc)))).
Proof.
  induction ms as [|m t IH]; intros fl fc rc; cbn [drain]; [constructor|].
  pose proof (finish_msg_fr m fc rc) as A. destruct (finish_msg m fc rc) as [[o fc1] rc1].
  specialize (IH (if ff && m_failed m && negb (m_retried m) then Break else fl) fc1 rc1).
  destruct (drain ff t _ fc1 rc1) as [[[o2 fl2] fc2] rc2]. cbn in *. apply all_fr_app; assumption.
Qed.

Lemma loop_top_full s s' o : loop_top s = (s', o) ->
  exists batch qs qc md, get (slots_of s) s = (batch, qs, qc, md) /\
    ( (running s = [] /\ batch = [] /\ fin_cond s = true /\
       s' = mk_st qs qc (pdone s) (perrs s) (flow s) (running s) (msgs s) [] [] (pf s) (now s) Done false /\
       o = finish_all (fcount s) (rcount s) ++ [EvFinished])
    \/ (running s = [] /\ batch = [] /\ fin_cond s = false /\
       s' = upd s qs qc (flow s) (running s) (msgs s) (fcount s) (rcount s)
                (match md with Some d => now s + d + 1 | None => now s end) Yielded /\ o = [])
    \/ (exists fc rc, start_scenarios batch (fcount s) (rcount s) = (o, fc, rc) /\
       s' = upd s qs qc (sub_slots (flow s) (length batch)) (running s ++ map (fun e => (e, Dispatched)) batch)
                (msgs s) fc rc (now s) Awaiting) ).
Proof.
  unfold loop_top, slots_of, fin_cond. intros H.
  destruct (get _ s) as [[[batch qs] qc] md]. exists batch, qs, qc, md. split; [reflexivity|].
  destruct (is_nil (running s) && is_nil batch) eqn:IDLE.
  - apply andb_prop in IDLE as [R B]. apply SchedP7.is_nil_true in R. apply SchedP7.is_nil_true in B.
    destruct (pdone s && (is_break (flow s) || is_nil (qS s) && is_nil (qC s))) eqn:C; inversion H; subst.
    + left. repeat split; auto.
    + right; left. repeat split; auto.
  - destruct (start_scenarios batch (fcount s) (rcount s)) as [[o' fc] rc]. inversion H; subst.
    right; right. exists fc, rc. auto.
Qed.

Lemma step_top_full c s s' o : step c s LTop = Some (s', o) ->
  exists s1 pre o2, loop_top s1 = (s', o2) /\ o = pre ++ o2 /\
   ( (pc s = NotBegun /\ s1 = nb_st s /\ pre = [EvStarted]) \/ (pc s = Yielded /\ s1 = s /\ pre = []) \/
     (pc s = Awaiting /\ exists r fl fc rc, remove_ended (running s) = Some r /\
        drain (cf_fail_fast c) (msgs s) (add_slot (flow s)) (fcount s) (rcount s) = (pre, fl, fc, rc) /\
        s1 = upd s (qS s) (qC s) fl r [] fc rc (now s) Awaiting) ).
Proof.
  cbn [step]. intros H. destruct (pc s) eqn:P.
  - destruct (loop_top _) as [s1 o1] eqn:LT. inversion H; subst.
    exists (nb_st s), [EvStarted], o1. split; [unfold nb_st; rewrite P; exact LT|]. split; [reflexivity|]. left. auto.
  - destruct (remove_ended (running s)) as [r|] eqn:RE; [|discriminate].
    destruct (drain (cf_fail_fast c) (msgs s) (add_slot (flow s)) (fcount s) (rcount s)) as [[[o1 fl] fc] rc] eqn:DR.
    destruct (loop_top _) as [s1 o2] eqn:LT. inversion H; subst.
    eexists _, o1, o2. split; [exact LT|]. split; [reflexivity|]. right; right. split; [reflexivity|].
    exists r, fl, fc, rc. auto.
  - assert (LT : loop_top s = (s', o)) by congruence.
    exists s, [], o. split; [exact LT|]. split; [reflexivity|]. right; left. auto.
  - discriminate.
Qed.

(* the output of a loop turn: brackets, and run-Started / run-Finished at its two ends *)
Lemma loop_top_out s s' o : loop_top s = (s', o) ->
  (all_fr o /\ pc s' <> Done) \/ (exists o', o = o' ++ [EvFinished] /\ all_fr o' /\ pc s' = Done /\ pdone s = true).
Proof.
  intros H. destruct (loop_top_full _ _ _ H) as (batch & qs & qc & md & G & [C|[C|C]]).
  - destruct C as (_ & _ & F & -> & ->). right. exists (finish_all (fcount s) (rcount s)).
    split; [reflexivity|]. split; [apply finish_all_fr|]. split; [reflexivity|].
    unfold fin_cond in F. apply andb_prop in F as [F _]. exact F.
  - destruct C as (_ & _ & _ & -> & ->). left. split; [constructor|discriminate].
  - destruct C as (fc & rc & SS & ->). left. split; [|discriminate].
    pose proof (start_scenarios_fr batch (fcount s) (rcount s)) as A. rewrite SS in A. exact A.
Qed.

(* ================================================================================================ *)
(* 4. The parser part holds along every run                                                           *)
(* ================================================================================================ *)
Lemma prun_app a x y : prun a (x ++ y) = match prun a x with Some a' => prun a' y | None => None end.
Proof.
  revert a. induction x as [|e t IH]; intros a; cbn [app prun]; [reflexivity|].
  destruct (pstep a e); [apply IH|reflexivity].
Qed.
Lemma prun_fr a o : p_fin a = false -> all_fr o -> prun a o = Some a.
Proof.
  intros F H. induction H as [|e t He Ht IH]; cbn [prun]; [reflexivity|].
  unfold pstep. rewrite F. destruct e; try discriminate He; exact IH.
Qed.

Definition PI (s : st) (a : pstate) : Prop :=
  p_pf a = pdone s /\ p_fin a = (match pc s with Done => true | _ => false end) /\
  (pdone s = false -> p_nerr a = snd (pf s)).

Lemma PI_same s s' a : PI s a -> pdone s' = pdone s -> pc s' = pc s -> snd (pf s') = snd (pf s) -> PI s' a.
Proof. intros (A & B & C) E1 E2 E3. unfold PI. rewrite E1, E2, E3. auto. Qed.

Lemma running_not_done K s : Inv K s -> running s <> [] -> pc s = Awaiting.
Proof.
  intros (_ & _ & _ & PC) R. unfold pc_ok in PC. destruct (pc s); try contradiction; reflexivity.
Qed.
Lemma set_phase_nonempty k a b l e r : set_phase k a b l = Some (e, r) -> l <> [].
Proof. destruct l; [discriminate|discriminate]. Qed.
Lemma find_open_nonempty k l e : find_open k l = Some e -> l <> [].
Proof. destruct l; [discriminate|discriminate]. Qed.

Lemma step_parser K c s l s' o a :
  Inv K s -> frame_ok s -> PI s a -> step c s l = Some (s', o) -> exists a', prun a o = Some a' /\ PI s' a'.
Proof.
  intros I [FA FB] (A & B & C) H.
  assert (ATT : running s <> [] -> p_fin a = false).
  { intros R. rewrite B, (running_not_done K s I R). reflexivity. }
  destruct l; cbn [step] in H.
  - destruct (perrs s) eqn:PE; [discriminate|]. inversion H; subst. exists a. split; [reflexivity|].
    apply (PI_same s); [repeat split; assumption| | |]; unfold insert_feature;
      destruct (pf s) as [[[[a0 b0] c0] d0] e0]; destruct (is_nil _); reflexivity.
  - destruct (perrs s) eqn:PE; [discriminate|].
    assert (PD : pdone s = false).
    { destruct (pdone s) eqn:Q; [|reflexivity]. discriminate (FA eq_refl). }
    assert (ND : p_fin a = false).
    { rewrite B. destruct (pc s) eqn:P; try reflexivity. rewrite (FB eq_refl) in PD. discriminate. }
    destruct (pf s) as [[[[a0 b0] c0] d0] e0] eqn:PF. inversion H; subst.
    cbn [prun]. unfold pstep. rewrite ND, A, PD. eexists. split; [reflexivity|].
    unfold PI; cbn [p_pf p_fin p_nerr pdone pc pf snd]. split; [rewrite ?PD; reflexivity|]. split.
    + rewrite <- B. symmetry. exact ND.
    + intros _. rewrite (C PD). reflexivity.
  - destruct (pdone s) eqn:PD; [discriminate|].
    assert (ND : p_fin a = false).
    { rewrite B. destruct (pc s) eqn:P; try reflexivity. discriminate (FB eq_refl). }
    destruct (pf s) as [[[[a0 b0] c0] d0] e0] eqn:PF. inversion H; subst.
    cbn [prun]. unfold pstep. rewrite ND, A, (C eq_refl). cbn [snd]. rewrite N.eqb_refl.
    eexists. split; [reflexivity|].
    unfold PI; cbn [p_pf p_fin p_nerr pdone pc pf snd]. split; [reflexivity|]. split; [|discriminate].
    rewrite <- B. symmetry. exact ND.
  - destruct (step_top_full _ _ _ _ H) as (s1 & pre & o2 & LT & -> & CASES).
    assert (ND : p_fin a = false).
    { rewrite B. destruct CASES as [(P & _)|[(P & _)|(P & _)]]; rewrite P; reflexivity. }
    assert (E1 : pdone s1 = pdone s /\ pf s1 = pf s).
    { destruct CASES as [(_ & -> & _)|[(_ & -> & _)|(_ & r & fl & fc & rc & _ & _ & ->)]]; split; reflexivity. }
    assert (PRE : prun a pre = Some a).
    { destruct CASES as [(_ & _ & ->)|[(_ & _ & ->)|(_ & r & fl & fc & rc & _ & DR & _)]].
      - cbn [prun]. unfold pstep. rewrite ND. reflexivity.
      - reflexivity.
      - apply prun_fr; [exact ND|]. pose proof (drain_fr (cf_fail_fast c) (msgs s) (add_slot (flow s)) (fcount s) (rcount s)) as X.
        rewrite DR in X. exact X. }
    rewrite prun_app, PRE. destruct E1 as [E1 E2].
    pose proof (loop_top_pf s1) as LP. rewrite LT in LP. cbn [fst] in LP.
    destruct (loop_top_cases _ _ _ LT) as (_ & _ & _ & _ & _ & _ & _ & PD' & _).
    destruct (loop_top_out _ _ _ LT) as [(FR & NDn)|(o' & -> & FR & DN & PD1)].
    + exists a. split; [apply prun_fr; assumption|]. unfold PI. rewrite PD', E1, LP, E2.
      split; [exact A|]. split; [|exact C]. rewrite ND. destruct (pc s'); try reflexivity. contradiction.
    + rewrite prun_app, (prun_fr _ _ ND FR). cbn [prun]. unfold pstep. rewrite ND, A, <- E1, PD1.
      eexists. split; [reflexivity|]. unfold PI; cbn [p_pf p_fin p_nerr]. rewrite PD', PD1, DN.
      split; [reflexivity|]. split; [reflexivity|discriminate].
  - destruct (set_phase _ _ _ _) as [[e r]|] eqn:SP; [|discriminate]. inversion H; subst.
    cbn [prun]. unfold pstep, scen_ev. rewrite (ATT (set_phase_nonempty _ _ _ _ _ _ SP)).
    exists a. split; [reflexivity|]. apply (PI_same s); [repeat split; assumption|reflexivity..].
  - destruct (is_middle x); [|discriminate]. destruct (find_open _ _) as [e|] eqn:FO; [|discriminate]. inversion H; subst.
    cbn [prun]. unfold pstep, scen_ev. rewrite (ATT (find_open_nonempty _ _ _ FO)).
    exists a. split; [reflexivity|]. repeat split; assumption.
  - destruct (set_phase _ _ _ _) as [[e r]|] eqn:SP; [|discriminate].
    destruct (next_try e failed (now s)) as [e'|]; [destruct (e_serial e')|]; inversion H; subst;
      cbn [prun]; unfold pstep, scen_ev; rewrite (ATT (set_phase_nonempty _ _ _ _ _ _ SP));
      (exists a; split; [reflexivity|]; apply (PI_same s); [repeat split; assumption|reflexivity..]).
  - inversion H; subst. exists a. split; [reflexivity|]. apply (PI_same s); [repeat split; assumption|reflexivity..].
Qed.

(* ================================================================================================ *)
(* 5. No empty Feature bracket, along every run                                                       *)
(* ================================================================================================ *)
Notation flook := (blook N.eqb).
Definition f_neutral := neutral f_opn f_cls f_tch.
Definition r_neutral := neutral r_opn r_cls r_tch.

Lemma frun_app l a b : frun l (a ++ b) = match frun l a with Some l' => frun l' b | None => None end.
Proof. apply brun_app. Qed.
Lemma frun_neutral l es : (forall e, In e es -> f_neutral e) -> frun l es = Some l.
Proof. apply brun_neutral. Qed.

Lemma start_feats_bf : forall fs fc l o fc',
  KE N.eqb fc l -> NoDup (keys fc) -> start_feats fs fc = (o, fc') ->
  exists l', frun l o = Some l' /\ KE N.eqb fc' l' /\ NoDup (keys fc') /\
             (forall f, flook f l' = Some false -> flook f l = Some false \/ In f fs).
Proof.
  induction fs as [|f t IH]; intros fc l o fc' HK ND H; cbn [start_feats] in H.
  - inversion H; subst. exists l. split; [reflexivity|]. split; [exact HK|]. split; [exact ND|]. intros f Hf. left. exact Hf.
  - destruct (lookupN N.eqb f fc) as [n|] eqn:L.
    + destruct (IH _ _ _ _ HK ND H) as (l' & R & HK' & ND' & B). exists l'. split; [exact R|]. split; [exact HK'|]. split; [exact ND'|].
      intros g Hg. destruct (B g Hg); [left; assumption|right; right; assumption].
    + destruct (start_feats t (setN N.eqb f 0 fc)) as [o1 fc1] eqn:S. inversion H; subst.
      destruct (IH _ ((f, false) :: l) _ _ (KE_open N.eqb N.eqb_eq f 0 fc l HK) (nodup_setN N.eqb N.eqb_eq f 0 fc ND) S)
        as (l' & R & HK' & ND' & B).
      exists l'. split; [exact R|]. split; [exact HK'|]. split; [exact ND'|].
      intros g Hg. destruct (B g Hg) as [X|X]; [|right; right; exact X].
      cbn [blook] in X. destruct (g =? f) eqn:E; [right; left; symmetry; apply N.eqb_eq; exact E|left; exact X].
Qed.

Lemma start_rules_neutral_f rs rc e : In e (fst (start_rules rs rc)) -> f_neutral e.
Proof. intros H. destruct (start_rules_evs _ _ _ H) as (k & -> & _). repeat split. Qed.
Lemma start_feats_neutral_r fs fc e : In e (fst (start_feats fs fc)) -> r_neutral e.
Proof. intros H. destruct (start_feats_evs _ _ _ H) as (k & -> & _). repeat split. Qed.

Lemma fin_feat_bf m fc l :
  KE N.eqb fc l -> NoDup (keys fc) -> flook (m_f m) l <> Some false ->
  exists l', frun l (fst (fin_feat m fc)) = Some l' /\ KE N.eqb (snd (fin_feat m fc)) l' /\
             NoDup (keys (snd (fin_feat m fc))) /\ (forall f b, flook f l' = Some b -> flook f l = Some b).
Proof.
  intros HK ND NF. unfold fin_feat. destruct (lookupN N.eqb (m_f m) fc) as [n|] eqn:L.
  - destruct (n + 1 =? m_nf m); cbn [fst snd].
    + assert (T : flook (m_f m) l = Some true).
      { destruct (flook (m_f m) l) as [[|]|] eqn:B; [reflexivity|contradiction|].
        apply HK in B. congruence. }
      cbn [frun brun]. unfold bstep. cbn [f_opn f_cls]. rewrite T. eexists. split; [reflexivity|].
      split; [apply (KE_rem N.eqb N.eqb_eq); exact HK|]. split; [apply (nodup_removeK N.eqb); exact ND|].
      intros f b. apply (rem_mono N.eqb N.eqb_eq).
    + exists l. split; [reflexivity|]. split; [apply (KE_set N.eqb N.eqb_eq); [congruence|exact HK]|].
      split; [apply (nodup_setN N.eqb N.eqb_eq); exact ND|auto].
  - exists l. cbn [fst snd]. split; [reflexivity|]. split; [exact HK|]. split; [exact ND|]. auto.
Qed.
Lemma fin_rule_neutral_f m rc e : In e (fst (fin_rule m rc)) -> f_neutral e.
Proof.
  unfold fin_rule. destruct (m_r m) as [r|]; [|intros []].
  destruct (lookupN rk_eqb (m_f m, r) rc) as [n|]; [|intros []].
  destruct (n + 1 =? m_nr m); [|intros []]. intros [<-|[]]. repeat split.
Qed.
Lemma fin_feat_neutral_r m fc e : In e (fst (fin_feat m fc)) -> r_neutral e.
Proof.
  unfold fin_feat. destruct (lookupN N.eqb (m_f m) fc) as [n|]; [|intros []].
  destruct (n + 1 =? m_nf m); [|intros []]. intros [<-|[]]. repeat split.
Qed.
Lemma finish_msg_retried m fc rc : m_retried m = true -> finish_msg m fc rc = ([], fc, rc).
Proof. intros R. unfold finish_msg. rewrite R. reflexivity. Qed.

Lemma finish_msg_bf m fc rc l o fc' rc' :
  KE N.eqb fc l -> NoDup (keys fc) -> flook (m_f m) l <> Some false -> finish_msg m fc rc = (o, fc', rc') ->
  exists l', frun l o = Some l' /\ KE N.eqb fc' l' /\ NoDup (keys fc') /\ (forall f b, flook f l' = Some b -> flook f l = Some b).
Proof.
  intros HK ND NF H. destruct (m_retried m) eqn:R.
  - rewrite (finish_msg_retried _ _ _ R) in H. inversion H; subst. exists l.
    split; [reflexivity|]. split; [exact HK|]. split; [exact ND|]. auto.
  - rewrite (finish_msg_split _ _ _ R) in H. inversion H; subst.
    rewrite frun_app, (frun_neutral l _ (fin_rule_neutral_f m rc)). apply fin_feat_bf; assumption.
Qed.

Lemma drain_bf ff : forall ms fl fc rc l o fl' fc' rc',
  KE N.eqb fc l -> NoDup (keys fc) -> (forall m, In m ms -> flook (m_f m) l <> Some false) ->
  drain ff ms fl fc rc = (o, fl', fc', rc') ->
  exists l', frun l o = Some l' /\ KE N.eqb fc' l' /\ NoDup (keys fc') /\ (forall f b, flook f l' = Some b -> flook f l = Some b).
Proof.
  induction ms as [|m t IH]; intros fl fc rc l o fl' fc' rc' HK ND NF H; cbn [drain] in H.
  - inversion H; subst. exists l. split; [reflexivity|]. split; [exact HK|]. split; [exact ND|]. auto.
  - destruct (finish_msg m fc rc) as [[o1 fc1] rc1] eqn:FM.
    destruct (drain ff t _ fc1 rc1) as [[[o2 fl2] fc2] rc2] eqn:DR. inversion H; subst.
    destruct (finish_msg_bf _ _ _ _ _ _ _ HK ND (NF m (or_introl eq_refl)) FM) as (l1 & R1 & HK1 & ND1 & M1).
    assert (NF1 : forall m', In m' t -> flook (m_f m') l1 <> Some false).
    { intros m' Hm' X. apply M1 in X. exact (NF m' (or_intror Hm') X). }
    destruct (IH _ _ _ l1 _ _ _ _ HK1 ND1 NF1 DR) as (l2 & R2 & HK2 & ND2 & M2).
    exists l2. rewrite frun_app, R1. split; [exact R2|]. split; [exact HK2|]. split; [exact ND2|]. auto.
Qed.

Lemma finish_all_bf fc rc l :
  KE N.eqb fc l -> NoDup (keys fc) -> (forall f, flook f l <> Some false) ->
  exists l', frun l (finish_all fc rc ++ [EvFinished]) = Some l' /\ forall f, flook f l' = None.
Proof.
  intros HK ND NF. unfold finish_all. rewrite !frun_app.
  rewrite frun_neutral; [|intros e He; apply in_map_iff in He as (kv & <- & _); repeat split].
  destruct (close_all N.eqb N.eqb_eq f_opn f_cls f_tch (fun kv => EvFeatF (fst kv)) (fun kv => conj eq_refl eq_refl) fc l ND)
    as (l' & R & L).
  { intros k Hk. destruct (flook k l) as [[|]|] eqn:B; [reflexivity|exfalso; exact (NF k B)|].
    apply HK in B. apply (lookupN_none N.eqb N.eqb_eq) in B. contradiction. }
  unfold frun in *. rewrite R. exists l'. split; [reflexivity|].
  intros f. rewrite L. destruct (existsb (N.eqb f) (keys fc)) eqn:E; [reflexivity|].
  apply HK. apply (lookupN_none N.eqb N.eqb_eq). intros I.
  assert (X : existsb (N.eqb f) (keys fc) = true) by (apply existsb_exists; exists f; split; [exact I|apply N.eqb_refl]).
  congruence.
Qed.

Definition BF (s : st) (l : list (N * bool)) : Prop :=
  KE N.eqb (fcount s) l /\ NoDup (keys (fcount s)) /\
  (forall f, flook f l = Some false -> exists e, In (e, Dispatched) (running s) /\ e_f e = f) /\
  (forall m, In m (msgs s) -> flook (m_f m) l <> Some false) /\
  (pc s <> Awaiting -> msgs s = []).

(* the attempt labels: a scenario event marks its feature *)
Lemma BF_att s l e s' p p' l1 l2 :
  BF s l -> running s = l1 ++ (e, p) :: l2 -> running s' = l1 ++ (e, p') :: l2 \/ (running s' = running s) ->
  fcount s' = fcount s -> pc s' = pc s -> pc s = Awaiting ->
  (forall m, In m (msgs s') -> In m (msgs s) \/ m_f m = e_f e) ->
  BF s' (bmark N.eqb (e_f e) l).
Proof.
  intros (HK & ND & B & C & D) RS RS' FC PC AW MS. unfold BF. rewrite FC, PC.
  split; [apply (KE_mark N.eqb N.eqb_eq); exact HK|]. split; [exact ND|]. split; [|split].
  - intros f Hf. apply (mark_false N.eqb N.eqb_eq) in Hf as [Hf NE]. destruct (B f Hf) as (x & Hx & Ex).
    exists x. split; [|exact Ex]. destruct RS' as [RS'|RS']; [|rewrite RS'; exact Hx].
    rewrite RS'. rewrite RS in Hx. apply in_app_or in Hx as [Hx|[Hx|Hx]].
    + apply in_or_app. left. exact Hx.
    + inversion Hx; subst. congruence.
    + apply in_or_app. right. right. exact Hx.
  - intros m Hm. destruct (MS m Hm) as [Hm'|E].
    + intros X. apply (mark_false N.eqb N.eqb_eq) in X as [X _]. exact (C m Hm' X).
    + rewrite E. apply (mark_self N.eqb N.eqb_eq).
  - intros X. contradiction.
Qed.

Lemma frun_scen l e x : frun l [scen_ev e x] = Some (bmark N.eqb (e_f e) l).
Proof. reflexivity. Qed.

Lemma step_feats K c s lab s' o l :
  Inv K s -> BF s l -> step c s lab = Some (s', o) -> exists l', frun l o = Some l' /\ BF s' l'.
Proof.
  intros I HB H. destruct lab; cbn [step] in H.
  - destruct (perrs s); [discriminate|]. inversion H; subst. exists l. split; [reflexivity|].
    destruct HB as (HK & ND & B & C & D). unfold BF, insert_feature.
    destruct (pf s) as [[[[a0 b0] c0] d0] e0]. destruct (is_nil _); cbn [fcount running msgs pc]; auto.
  - destruct (perrs s); [discriminate|]. destruct (pf s) as [[[[a0 b0] c0] d0] e0]. inversion H; subst.
    exists l. split; [reflexivity|]. exact HB.
  - destruct (pdone s); [discriminate|]. destruct (pf s) as [[[[a0 b0] c0] d0] e0]. inversion H; subst.
    exists l. split; [reflexivity|]. exact HB.
  - destruct HB as (HK & ND & B & C & D).
    destruct (step_top_full _ _ _ _ H) as (s1 & pre & o2 & LT & -> & CASES).
    (* up to the loop turn proper *)
    assert (PRE : exists l1, frun l pre = Some l1 /\ KE N.eqb (fcount s1) l1 /\ NoDup (keys (fcount s1)) /\
              (forall f, flook f l1 = Some false -> exists e, In (e, Dispatched) (running s1) /\ e_f e = f) /\
              msgs s1 = []).
    { destruct CASES as [(P & -> & ->)|[(P & -> & ->)|(P & r & fl & fc & rc & RE & DR & ->)]].
      - exists l. split; [reflexivity|]. cbn [nb_st fcount running msgs]. repeat (split; [assumption|]).
        apply D. rewrite P. discriminate.
      - exists l. split; [reflexivity|]. repeat (split; [assumption|]). apply D. rewrite P. discriminate.
      - destruct (drain_bf _ _ _ _ _ _ _ _ _ _ HK ND C DR) as (l1 & R1 & HK1 & ND1 & M1).
        exists l1. split; [exact R1|]. cbn [upd fcount running msgs]. split; [exact HK1|]. split; [exact ND1|].
        split; [|reflexivity]. intros f Hf. apply M1 in Hf. destruct (B f Hf) as (e & He & Ee).
        exists e. split; [|exact Ee]. destruct (SchedP7.remove_ended_shape _ _ RE) as (e0 & r1 & r2 & RS & ->).
        rewrite RS in He. apply in_app_or in He as [He|[He|He]]; [apply in_or_app; left; exact He|inversion He|
          apply in_or_app; right; exact He]. }
    destruct PRE as (l1 & R1 & HK1 & ND1 & B1 & MS1). rewrite frun_app, R1.
    destruct (loop_top_full _ _ _ LT) as (batch & qs & qc & md & G & [CS|[CS|CS]]).
    + destruct CS as (RN & _ & _ & -> & ->).
      destruct (finish_all_bf (fcount s1) (rcount s1) l1 HK1 ND1) as (l2 & R2 & L2).
      { intros f Hf. destruct (B1 f Hf) as (e & He & _). rewrite RN in He. destruct He. }
      exists l2. split; [exact R2|]. unfold BF; cbn [fcount running msgs pc].
      split; [intros k; cbn [lookupN]; rewrite L2; tauto|]. split; [constructor|].
      split; [intros f Hf; rewrite L2 in Hf; discriminate|]. split; [rewrite MS1; intros m []|intros _; exact MS1].
    + destruct CS as (_ & _ & _ & -> & ->). exists l1. split; [reflexivity|]. unfold BF; cbn [upd fcount running msgs pc].
      split; [exact HK1|]. split; [exact ND1|]. split; [exact B1|]. split; [rewrite MS1; intros m []|intros _; exact MS1].
    + destruct CS as (fc & rc & SS & ->). unfold start_scenarios in SS.
      destruct (start_feats (dedup N.eqb (map e_f batch)) (fcount s1)) as [of fc'] eqn:SF.
      set (rks := flat_map _ batch) in SS.
      pose proof (start_rules_neutral_f (dedup rk_eqb rks) (rcount s1)) as NR.
      destruct (start_rules (dedup rk_eqb rks) (rcount s1)) as [or rc'] eqn:SR. inversion SS; subst. cbn [fst] in NR.
      destruct (start_feats_bf _ _ _ _ _ HK1 ND1 SF) as (l2 & R2 & HK2 & ND2 & B2).
      exists l2. rewrite frun_app, R2. split; [apply frun_neutral; exact NR|].
      unfold BF; cbn [upd fcount running msgs pc]. split; [exact HK2|]. split; [exact ND2|].
      split; [|split; [rewrite MS1; intros m []|intros X; contradiction]].
      intros f Hf. destruct (B2 f Hf) as [X|X].
      * destruct (B1 f X) as (e & He & Ee). exists e. split; [apply in_or_app; left; exact He|exact Ee].
      * apply (proj1 (dedup_in N.eqb N.eqb_eq _ _)) in X. apply in_map_iff in X as (e & Ee & He).
        exists e. split; [|exact Ee]. apply in_or_app. right. apply in_map_iff. exists e. auto.
  - destruct (set_phase _ _ _ _) as [[e r]|] eqn:SP; [|discriminate]. inversion H; subst.
    rewrite frun_scen. eexists. split; [reflexivity|].
    destruct (SchedP7.set_phase_shape _ _ _ _ _ _ SP) as (r1 & r2 & RS & -> & _).
    apply (BF_att s l e) with (p := Dispatched) (p' := Opened) (l1 := r1) (l2 := r2); auto.
    + eapply running_not_done; [exact I|]. rewrite RS. destruct r1; discriminate.
  - destruct (is_middle x); [|discriminate]. destruct (find_open _ _) as [e|] eqn:FO; [|discriminate]. inversion H; subst s' o.
    rewrite frun_scen. eexists. split; [reflexivity|].
    destruct (SchedP7.find_open_in _ _ _ FO) as [IN _]. destruct (in_split _ _ IN) as (r1 & r2 & RS).
    apply (BF_att s l e) with (p := Opened) (p' := Opened) (l1 := r1) (l2 := r2); auto.
    + eapply running_not_done; [exact I|]. rewrite RS. destruct r1; discriminate.
  - destruct (set_phase _ _ _ _) as [[e r]|] eqn:SP; [|discriminate].
    destruct (SchedP7.set_phase_shape _ _ _ _ _ _ SP) as (r1 & r2 & RS & -> & _).
    assert (AW : pc s = Awaiting) by (eapply running_not_done; [exact I|]; rewrite RS; destruct r1; discriminate).
    destruct (next_try e failed (now s)) as [e'|]; [destruct (e_serial e')|]; inversion H; subst;
      rewrite frun_scen; (eexists; split; [reflexivity|]);
      apply (BF_att s l e) with (p := Opened) (p' := Ended) (l1 := r1) (l2 := r2); auto;
      cbn [upd msgs]; intros m Hm; (apply in_app_or in Hm as [Hm|[<-|[]]]; [left; exact Hm|right; reflexivity]).
  - inversion H; subst. exists l. split; [reflexivity|]. exact HB.
Qed.

(* ================================================================================================ *)
(* 6. No empty Rule bracket, along every run                                                          *)
(* ================================================================================================ *)
Notation rlook := (blook rk_eqb).

Lemma rrun_app l a b : rrun l (a ++ b) = match rrun l a with Some l' => rrun l' b | None => None end.
Proof. apply brun_app. Qed.
Lemma rrun_neutral l es : (forall e, In e es -> r_neutral e) -> rrun l es = Some l.
Proof. apply brun_neutral. Qed.

Lemma start_rules_br : forall rs rc l o rc',
  KE rk_eqb rc l -> NoDup (keys rc) -> start_rules rs rc = (o, rc') ->
  exists l', rrun l o = Some l' /\ KE rk_eqb rc' l' /\ NoDup (keys rc') /\
             (forall k, rlook k l' = Some false -> rlook k l = Some false \/ In k rs).
Proof.
  induction rs as [|f t IH]; intros rc l o rc' HK ND H; cbn [start_rules] in H.
  - inversion H; subst. exists l. split; [reflexivity|]. split; [exact HK|]. split; [exact ND|]. intros f Hf. left. exact Hf.
  - destruct (lookupN rk_eqb f rc) as [n|] eqn:L.
    + destruct (IH _ _ _ _ HK ND H) as (l' & R & HK' & ND' & B). exists l'. split; [exact R|]. split; [exact HK'|]. split; [exact ND'|].
      intros g Hg. destruct (B g Hg); [left; assumption|right; right; assumption].
    + destruct (start_rules t (setN rk_eqb f 0 rc)) as [o1 rc1] eqn:S. inversion H; subst.
      destruct (IH _ ((f, false) :: l) _ _ (KE_open rk_eqb rk_eqb_spec f 0 rc l HK) (nodup_setN rk_eqb rk_eqb_spec f 0 rc ND) S)
        as (l' & R & HK' & ND' & B).
      exists l'. split; [destruct f; exact R|]. split; [exact HK'|]. split; [exact ND'|].
      intros g Hg. destruct (B g Hg) as [X|X]; [|right; right; exact X].
      cbn [blook] in X. destruct (rk_eqb g f) eqn:E; [right; left; symmetry; apply rk_eqb_spec; exact E|left; exact X].
Qed.

Lemma fin_rule_br m rc l :
  KE rk_eqb rc l -> NoDup (keys rc) -> (forall r, m_r m = Some r -> rlook (m_f m, r) l <> Some false) ->
  exists l', rrun l (fst (fin_rule m rc)) = Some l' /\ KE rk_eqb (snd (fin_rule m rc)) l' /\
             NoDup (keys (snd (fin_rule m rc))) /\ (forall f b, rlook f l' = Some b -> rlook f l = Some b).
Proof.
  intros HK ND NF. unfold fin_rule. destruct (m_r m) as [r|] eqn:MR.
  2:{ exists l. cbn [fst snd]. split; [reflexivity|]. split; [exact HK|]. split; [exact ND|]. auto. }
  specialize (NF r eq_refl).
  destruct (lookupN rk_eqb (m_f m, r) rc) as [n|] eqn:L.
  - destruct (n + 1 =? m_nr m); cbn [fst snd].
    + assert (T : rlook (m_f m, r) l = Some true).
      { destruct (rlook (m_f m, r) l) as [[|]|] eqn:B; [reflexivity|contradiction|].
        apply HK in B. congruence. }
      cbn [rrun brun]. unfold bstep. cbn [r_opn r_cls]. rewrite T. eexists. split; [reflexivity|].
      split; [apply (KE_rem rk_eqb rk_eqb_spec); exact HK|]. split; [apply (nodup_removeK rk_eqb); exact ND|].
      intros f b. apply (rem_mono rk_eqb rk_eqb_spec).
    + exists l. split; [reflexivity|]. split; [apply (KE_set rk_eqb rk_eqb_spec); [congruence|exact HK]|].
      split; [apply (nodup_setN rk_eqb rk_eqb_spec); exact ND|auto].
  - exists l. cbn [fst snd]. split; [reflexivity|]. split; [exact HK|]. split; [exact ND|]. auto.
Qed.

Lemma finish_msg_br m fc rc l o fc' rc' :
  KE rk_eqb rc l -> NoDup (keys rc) -> (forall r, m_r m = Some r -> rlook (m_f m, r) l <> Some false) ->
  finish_msg m fc rc = (o, fc', rc') ->
  exists l', rrun l o = Some l' /\ KE rk_eqb rc' l' /\ NoDup (keys rc') /\ (forall f b, rlook f l' = Some b -> rlook f l = Some b).
Proof.
  intros HK ND NF H. destruct (m_retried m) eqn:R.
  - rewrite (finish_msg_retried _ _ _ R) in H. inversion H; subst. exists l.
    split; [reflexivity|]. split; [exact HK|]. split; [exact ND|]. auto.
  - rewrite (finish_msg_split _ _ _ R) in H. inversion H; subst.
    destruct (fin_rule_br m rc l HK ND NF) as (l' & R1 & HK' & ND' & M). exists l'.
    rewrite rrun_app, R1. split; [apply rrun_neutral; apply fin_feat_neutral_r|]. auto.
Qed.

Lemma drain_br ff : forall ms fl fc rc l o fl' fc' rc',
  KE rk_eqb rc l -> NoDup (keys rc) -> (forall m r, In m ms -> m_r m = Some r -> rlook (m_f m, r) l <> Some false) ->
  drain ff ms fl fc rc = (o, fl', fc', rc') ->
  exists l', rrun l o = Some l' /\ KE rk_eqb rc' l' /\ NoDup (keys rc') /\ (forall f b, rlook f l' = Some b -> rlook f l = Some b).
Proof.
  induction ms as [|m t IH]; intros fl fc rc l o fl' fc' rc' HK ND NF H; cbn [drain] in H.
  - inversion H; subst. exists l. split; [reflexivity|]. split; [exact HK|]. split; [exact ND|]. auto.
  - destruct (finish_msg m fc rc) as [[o1 fc1] rc1] eqn:FM.
    destruct (drain ff t _ fc1 rc1) as [[[o2 fl2] fc2] rc2] eqn:DR. inversion H; subst.
    destruct (finish_msg_br _ _ _ _ _ _ _ HK ND (fun r => NF m r (or_introl eq_refl)) FM) as (l1 & R1 & HK1 & ND1 & M1).
    assert (NF1 : forall m' r, In m' t -> m_r m' = Some r -> rlook (m_f m', r) l1 <> Some false).
    { intros m' r Hm' MR X. apply M1 in X. exact (NF m' r (or_intror Hm') MR X). }
    destruct (IH _ _ _ l1 _ _ _ _ HK1 ND1 NF1 DR) as (l2 & R2 & HK2 & ND2 & M2).
    exists l2. rewrite rrun_app, R1. split; [exact R2|]. split; [exact HK2|]. split; [exact ND2|]. auto.
Qed.

Lemma finish_all_br fc rc l :
  KE rk_eqb rc l -> NoDup (keys rc) -> (forall k, rlook k l <> Some false) ->
  exists l', rrun l (finish_all fc rc ++ [EvFinished]) = Some l' /\ forall k, rlook k l' = None.
Proof.
  intros HK ND NF. unfold finish_all. rewrite !rrun_app.
  destruct (close_all rk_eqb rk_eqb_spec r_opn r_cls r_tch (fun kv => EvRuleF (fst (fst kv)) (snd (fst kv)))) with (fc := rc) (l := l)
    as (l' & R & L).
  { intros [[a b] v]. split; reflexivity. }
  { exact ND. }
  { intros k Hk. destruct (rlook k l) as [[|]|] eqn:B; [reflexivity|exfalso; exact (NF k B)|].
    apply HK in B. apply (lookupN_none rk_eqb rk_eqb_spec) in B. contradiction. }
  unfold rrun in *. rewrite R.
  rewrite brun_neutral; [|intros e He; apply in_map_iff in He as (kv & <- & _); repeat split].
  exists l'. split; [reflexivity|].
  intros f. rewrite L. destruct (existsb (rk_eqb f) (keys rc)) eqn:E; [reflexivity|].
  apply HK. apply (lookupN_none rk_eqb rk_eqb_spec). intros I.
  assert (X : existsb (rk_eqb f) (keys rc) = true) by (apply existsb_exists; exists f; split; [exact I|apply rk_eqb_spec; reflexivity]).
  congruence.
Qed.

Definition BR (s : st) (l : list ((N * N) * bool)) : Prop :=
  KE rk_eqb (rcount s) l /\ NoDup (keys (rcount s)) /\
  (forall k, rlook k l = Some false -> exists e, In (e, Dispatched) (running s) /\ e_f e = fst k /\ e_r e = Some (snd k)) /\
  (forall m r, In m (msgs s) -> m_r m = Some r -> rlook (m_f m, r) l <> Some false) /\
  (pc s <> Awaiting -> msgs s = []).

Definition rmark (e : entry) (l : list ((N * N) * bool)) : list ((N * N) * bool) :=
  match e_r e with Some r => bmark rk_eqb (e_f e, r) l | None => l end.
Lemma rrun_scen l e x : rrun l [scen_ev e x] = Some (rmark e l).
Proof. unfold rmark, scen_ev. cbn. destruct (e_r e); reflexivity. Qed.

Lemma BR_att s l e s' p p' l1 l2 :
  BR s l -> running s = l1 ++ (e, p) :: l2 -> running s' = l1 ++ (e, p') :: l2 \/ (running s' = running s) ->
  rcount s' = rcount s -> pc s' = pc s -> pc s = Awaiting ->
  (forall m, In m (msgs s') -> In m (msgs s) \/ (m_f m = e_f e /\ m_r m = e_r e)) ->
  BR s' (rmark e l).
Proof.
  intros (HK & ND & B & C & D) RS RS' FC PC AW MS. unfold BR, rmark. rewrite FC, PC.
  assert (KEEP : forall x, In (x, Dispatched) (running s) -> (x, Dispatched) = (e, p) \/ In (x, Dispatched) (running s')).
  { intros x Hx. destruct RS' as [RS'|RS']; [|right; rewrite RS'; exact Hx].
    rewrite RS'. rewrite RS in Hx. apply in_app_or in Hx as [Hx|[Hx|Hx]].
    - right. apply in_or_app. left. exact Hx.
    - left. symmetry. exact Hx.
    - right. apply in_or_app. right. right. exact Hx. }
  destruct (e_r e) as [r0|] eqn:ER.
  - split; [apply (KE_mark rk_eqb rk_eqb_spec); exact HK|]. split; [exact ND|]. split; [|split].
    + intros k Hk. apply (mark_false rk_eqb rk_eqb_spec) in Hk as [Hk NE]. destruct (B k Hk) as (x & Hx & Ex & Rx).
      exists x. split; [|split; assumption]. destruct (KEEP x Hx) as [Q|Q]; [|exact Q].
      * exfalso. inversion Q; subst. apply NE. destruct k; cbn in *. congruence.
    + intros m r Hm MR. destruct (MS m Hm) as [Hm'|[E1 E2]].
      * intros X. apply (mark_false rk_eqb rk_eqb_spec) in X as [X _]. exact (C m r Hm' MR X).
      * rewrite E1. assert (r = r0) by congruence. subst r. apply (mark_self rk_eqb rk_eqb_spec).
    + intros X. contradiction.
  - split; [exact HK|]. split; [exact ND|]. split; [|split].
    + intros k Hk. destruct (B k Hk) as (x & Hx & Ex & Rx).
      exists x. split; [|split; assumption]. destruct (KEEP x Hx) as [Q|Q]; [|exact Q].
      exfalso. inversion Q; subst. congruence.
    + intros m r Hm MR. destruct (MS m Hm) as [Hm'|[E1 E2]]; [exact (C m r Hm' MR)|congruence].
    + intros X. contradiction.
Qed.

Lemma step_rules K c s lab s' o l :
  Inv K s -> BR s l -> step c s lab = Some (s', o) -> exists l', rrun l o = Some l' /\ BR s' l'.
Proof.
  intros I HB H. destruct lab; cbn [step] in H.
  - destruct (perrs s); [discriminate|]. inversion H; subst. exists l. split; [reflexivity|].
    destruct HB as (HK & ND & B & C & D). unfold BR, insert_feature.
    destruct (pf s) as [[[[a0 b0] c0] d0] e0]. destruct (is_nil _); cbn [rcount running msgs pc]; auto.
  - destruct (perrs s); [discriminate|]. destruct (pf s) as [[[[a0 b0] c0] d0] e0]. inversion H; subst.
    exists l. split; [reflexivity|]. exact HB.
  - destruct (pdone s); [discriminate|]. destruct (pf s) as [[[[a0 b0] c0] d0] e0]. inversion H; subst.
    exists l. split; [reflexivity|]. exact HB.
  - destruct HB as (HK & ND & B & C & D).
    destruct (step_top_full _ _ _ _ H) as (s1 & pre & o2 & LT & -> & CASES).
    assert (PRE : exists l1, rrun l pre = Some l1 /\ KE rk_eqb (rcount s1) l1 /\ NoDup (keys (rcount s1)) /\
              (forall k, rlook k l1 = Some false ->
                 exists e, In (e, Dispatched) (running s1) /\ e_f e = fst k /\ e_r e = Some (snd k)) /\
              msgs s1 = []).
    { destruct CASES as [(P & -> & ->)|[(P & -> & ->)|(P & r & fl & fc & rc & RE & DR & ->)]].
      - exists l. split; [reflexivity|]. cbn [nb_st rcount running msgs]. repeat (split; [assumption|]).
        apply D. rewrite P. discriminate.
      - exists l. split; [reflexivity|]. repeat (split; [assumption|]). apply D. rewrite P. discriminate.
      - destruct (drain_br _ _ _ _ _ _ _ _ _ _ HK ND C DR) as (l1 & R1 & HK1 & ND1 & M1).
        exists l1. split; [exact R1|]. cbn [upd rcount running msgs]. split; [exact HK1|]. split; [exact ND1|].
        split; [|reflexivity]. intros f Hf. apply M1 in Hf. destruct (B f Hf) as (e & He & Ee).
        exists e. split; [|exact Ee]. destruct (SchedP7.remove_ended_shape _ _ RE) as (e0 & r1 & r2 & RS & ->).
        rewrite RS in He. apply in_app_or in He as [He|[He|He]]; [apply in_or_app; left; exact He|inversion He|
          apply in_or_app; right; exact He]. }
    destruct PRE as (l1 & R1 & HK1 & ND1 & B1 & MS1). rewrite rrun_app, R1.
    destruct (loop_top_full _ _ _ LT) as (batch & qs & qc & md & G & [CS|[CS|CS]]).
    + destruct CS as (RN & _ & _ & -> & ->).
      destruct (finish_all_br (fcount s1) (rcount s1) l1 HK1 ND1) as (l2 & R2 & L2).
      { intros f Hf. destruct (B1 f Hf) as (e & He & _). rewrite RN in He. destruct He. }
      exists l2. split; [exact R2|]. unfold BR; cbn [rcount running msgs pc].
      split; [intros k; cbn [lookupN]; rewrite L2; tauto|]. split; [constructor|].
      split; [intros f Hf; rewrite L2 in Hf; discriminate|]. split; [rewrite MS1; intros m r []|intros _; exact MS1].
    + destruct CS as (_ & _ & _ & -> & ->). exists l1. split; [reflexivity|]. unfold BR; cbn [upd rcount running msgs pc].
      split; [exact HK1|]. split; [exact ND1|]. split; [exact B1|]. split; [rewrite MS1; intros m r []|intros _; exact MS1].
    + destruct CS as (fc & rc & SS & ->). unfold start_scenarios in SS.
      pose proof (start_feats_neutral_r (dedup N.eqb (map e_f batch)) (fcount s1)) as NR.
      destruct (start_feats (dedup N.eqb (map e_f batch)) (fcount s1)) as [of fc'] eqn:SF. cbn [fst] in NR.
      set (rks := flat_map (fun e => match e_r e with Some r => [(e_f e, r)] | None => [] end) batch) in SS.
      destruct (start_rules (dedup rk_eqb rks) (rcount s1)) as [or rc'] eqn:SR. inversion SS; subst.
      destruct (start_rules_br _ _ _ _ _ HK1 ND1 SR) as (l2 & R2 & HK2 & ND2 & B2).
      exists l2. rewrite rrun_app, (rrun_neutral l1 of NR). split; [exact R2|].
      unfold BR; cbn [upd rcount running msgs pc]. split; [exact HK2|]. split; [exact ND2|].
      split; [|split; [rewrite MS1; intros m r []|intros X; contradiction]].
      intros f Hf. destruct (B2 f Hf) as [X|X].
      * destruct (B1 f X) as (e & He & Ee). exists e. split; [apply in_or_app; left; exact He|exact Ee].
      * apply (proj1 (dedup_in rk_eqb rk_eqb_spec _ _)) in X. unfold rks in X.
        apply in_flat_map in X as (e & He & Hk). destruct (e_r e) as [r|] eqn:ER; [|destruct Hk].
        destruct Hk as [<-|[]]. exists e. cbn [fst snd]. split; [|auto].
        apply in_or_app. right. apply in_map_iff. exists e. auto.
  - destruct (set_phase _ _ _ _) as [[e r]|] eqn:SP; [|discriminate]. inversion H; subst.
    rewrite rrun_scen. eexists. split; [reflexivity|].
    destruct (SchedP7.set_phase_shape _ _ _ _ _ _ SP) as (r1 & r2 & RS & -> & _).
    apply (BR_att s l e) with (p := Dispatched) (p' := Opened) (l1 := r1) (l2 := r2); auto.
    + eapply running_not_done; [exact I|]. rewrite RS. destruct r1; discriminate.
  - destruct (is_middle x); [|discriminate]. destruct (find_open _ _) as [e|] eqn:FO; [|discriminate]. inversion H; subst s' o.
    rewrite rrun_scen. eexists. split; [reflexivity|].
    destruct (SchedP7.find_open_in _ _ _ FO) as [IN _]. destruct (in_split _ _ IN) as (r1 & r2 & RS).
    apply (BR_att s l e) with (p := Opened) (p' := Opened) (l1 := r1) (l2 := r2); auto.
    + eapply running_not_done; [exact I|]. rewrite RS. destruct r1; discriminate.
  - destruct (set_phase _ _ _ _) as [[e r]|] eqn:SP; [|discriminate].
    destruct (SchedP7.set_phase_shape _ _ _ _ _ _ SP) as (r1 & r2 & RS & -> & _).
    assert (AW : pc s = Awaiting) by (eapply running_not_done; [exact I|]; rewrite RS; destruct r1; discriminate).
    destruct (next_try e failed (now s)) as [e'|]; [destruct (e_serial e')|]; inversion H; subst;
      rewrite rrun_scen; (eexists; split; [reflexivity|]);
      apply (BR_att s l e) with (p := Opened) (p' := Ended) (l1 := r1) (l2 := r2); auto;
      cbn [upd msgs]; intros m Hm; (apply in_app_or in Hm as [Hm|[<-|[]]]; [left; exact Hm|right; split; reflexivity]).
  - inversion H; subst. exists l. split; [reflexivity|]. exact HB.
Qed.

(* ================================================================================================ *)
(* 7. A. Every run satisfies the predicate                                                            *)
(* ================================================================================================ *)
Lemma exec_from_framing c : forall ls s s' o a lf lr,
  Inv (cf_concurrency c) s -> frame_ok s -> PI s a -> BF s lf -> BR s lr -> exec_from c s ls = Some (s', o) ->
  exists a' lf' lr', prun a o = Some a' /\ frun lf o = Some lf' /\ rrun lr o = Some lr' /\
                     PI s' a' /\ BF s' lf' /\ BR s' lr'.
Proof.
  induction ls as [|l t IH]; intros s s' o a lf lr I F P1 P2 P3 H; cbn [exec_from] in H.
  - inversion H; subst. exists a, lf, lr. repeat (split; [first [reflexivity|assumption]|]). assumption.
  - destruct (step c s l) as [[s1 o1]|] eqn:S1; [|discriminate].
    destruct (exec_from c s1 t) as [[s2 o2]|] eqn:S2; [|discriminate]. inversion H; subst.
    destruct (step_parser _ _ _ _ _ _ _ I F P1 S1) as (a1 & R1 & Q1).
    destruct (step_feats _ _ _ _ _ _ _ I P2 S1) as (lf1 & R2 & Q2).
    destruct (step_rules _ _ _ _ _ _ _ I P3 S1) as (lr1 & R3 & Q3).
    destruct (IH _ _ _ _ _ _ (step_inv _ _ _ _ _ _ I S1) (step_frame _ _ _ _ _ F S1) Q1 Q2 Q3 S2)
      as (a2 & lf2 & lr2 & T1 & T2 & T3 & U).
    exists a2, lf2, lr2. rewrite prun_app, R1, frun_app, R2, rrun_app, R3. auto.
Qed.

Lemma PI_init c : PI (init_st c) pinit.
Proof. unfold PI, init_st; cbn. auto. Qed.
Lemma BF_init c : BF (init_st c) [].
Proof.
  unfold BF, init_st; cbn. split; [intros k; tauto|]. split; [constructor|]. split; [discriminate|]. split; [intros m []|auto].
Qed.
Lemma BR_init c : BR (init_st c) [].
Proof.
  unfold BR, init_st; cbn. split; [intros k; tauto|]. split; [constructor|]. split; [discriminate|]. split; [intros m r []|auto].
Qed.

(* the prefix-closed part, in EVERY reachable state *)
Theorem framing_prefix_holds c ls s tr : exec c ls = Some (s, tr) -> framing_prefix tr = true.
Proof.
  intros H. destruct (exec_from_framing c ls _ _ _ _ _ _ (init_inv c) (init_frame c) (PI_init c) (BF_init c) (BR_init c) H)
    as (a & lf & lr & R1 & R2 & R3 & _).
  unfold framing_prefix. rewrite R1, R2, R3. reflexivity.
Qed.

(* THE COMPLETE RUN: once the loop has ended the stream has its ParsingFinished before run-Finished, no parser
   error after it, the announced parser_errors, and no empty bracket *)
Theorem framing_ok_holds c ls s tr : exec c ls = Some (s, tr) -> pc s = Done -> framing_ok tr = true.
Proof.
  intros H D. destruct (exec_from_framing c ls _ _ _ _ _ _ (init_inv c) (init_frame c) (PI_init c) (BF_init c) (BR_init c) H)
    as (a & lf & lr & R1 & R2 & R3 & (_ & PF & _) & _).
  unfold framing_ok. rewrite R1, R2, R3, PF, D. reflexivity.
Qed.

(* ---- what the predicate says, in terms of the list ---- *)
Definition is_pf (e : ev) : bool := match e with EvParsingFinished _ _ _ _ _ => true | _ => false end.
Definition parser_ev (e : ev) : bool := match e with EvParsingFinished _ _ _ _ _ | EvParseErr _ => true | _ => false end.

Lemma perrs_tr_app a b : perrs_tr (a ++ b) = perrs_tr a ++ perrs_tr b.
Proof. apply flat_map_app. Qed.
Lemma perrs_tr_none es : (forall x, In x es -> parser_ev x = false) -> perrs_tr es = [].
Proof.
  induction es as [|e t IH]; intros H; [reflexivity|]. cbn [perrs_tr flat_map]. fold (perrs_tr t).
  rewrite IH; [|intros x Hx; apply H; right; exact Hx]. specialize (H e (or_introl eq_refl)). destruct e; try reflexivity; discriminate.
Qed.

Lemma prun_after_pf : forall es a a', prun a es = Some a' -> p_pf a = true ->
  p_pf a' = true /\ forall x, In x es -> parser_ev x = false.
Proof.
  induction es as [|e t IH]; intros a a' H P; cbn [prun] in H.
  - inversion H; subst. split; [exact P|intros x []].
  - destruct (pstep a e) as [a1|] eqn:S; [|discriminate]. unfold pstep in S. destruct (p_fin a); [discriminate|].
    rewrite P in S. destruct e; try discriminate; inversion S; subst a1;
      (destruct (IH _ _ H) as [A B]; [try exact P; reflexivity|]; split; [exact A|]; intros x [<-|Hx]; [reflexivity|apply B; exact Hx]).
Qed.
Lemma prun_before_pf : forall es a a', prun a es = Some a' -> p_pf a' = false ->
  p_pf a = false /\ p_nerr a' = p_nerr a + N.of_nat (length (perrs_tr es)) /\ forall x, In x es -> is_pf x = false.
Proof.
  induction es as [|e t IH]; intros a a' H P; cbn [prun] in H.
  - inversion H; subst. split; [exact P|]. split; [cbn; lia|intros x []].
  - destruct (pstep a e) as [a1|] eqn:S; [|discriminate]. destruct (IH _ _ H P) as (A & B & C).
    unfold pstep in S. destruct (p_fin a); [discriminate|].
    destruct e; try (inversion S; subst a1; split; [exact A|]; split; [exact B|]; intros x [<-|Hx]; [reflexivity|apply C; exact Hx]).
    + destruct (p_pf a); [discriminate|]. destruct (e =? p_nerr a); [|discriminate]. inversion S; subst a1. discriminate A.
    + destruct (p_pf a) eqn:PA; [discriminate|]. inversion S; subst a1. split; [reflexivity|]. split.
      * rewrite B. cbn [p_nerr perrs_tr flat_map app length]. fold (perrs_tr t). rewrite Nat2N.inj_succ. lia.
      * intros x [<-|Hx]; [reflexivity|apply C; exact Hx].
    + destruct (p_pf a); [|discriminate]. inversion S; subst a1. discriminate A.
Qed.

(* AT MOST ONE ParsingFinished; NO PARSER ERROR AFTER IT; ITS parser_errors = THE PARSER ERRORS OF THE STREAM *)
Theorem parser_part_meaning tr p a b c d e q :
  is_some (prun pinit tr) = true -> tr = p ++ EvParsingFinished a b c d e :: q ->
  (forall x, In x p -> is_pf x = false) /\ (forall x, In x q -> parser_ev x = false) /\
  e = N.of_nat (length (perrs_tr tr)).
Proof.
  intros H ->. rewrite prun_app in H. destruct (prun pinit p) as [a1|] eqn:R1; [|discriminate].
  cbn [prun] in H. destruct (pstep a1 (EvParsingFinished a b c d e)) as [a2|] eqn:S; [|discriminate].
  destruct (prun a2 q) as [a3|] eqn:R3; [|discriminate].
  unfold pstep in S. destruct (p_fin a1); [discriminate|]. destruct (p_pf a1) eqn:P1; [discriminate|].
  destruct (e =? p_nerr a1) eqn:E; [|discriminate]. inversion S; subst a2. apply N.eqb_eq in E.
  destruct (prun_before_pf _ _ _ R1 P1) as (_ & B & C). destruct (prun_after_pf _ _ _ R3 eq_refl) as (_ & Q).
  split; [exact C|]. split; [exact Q|].
  rewrite perrs_tr_app. cbn [perrs_tr flat_map]. fold (perrs_tr q). rewrite (perrs_tr_none q Q). cbn [app]. rewrite app_nil_r.
  rewrite E, B. reflexivity.
Qed.

Lemma prun_not_fin : forall es a a', prun a es = Some a' -> p_fin a' = false -> forall x, In x es -> x <> EvFinished.
Proof.
  induction es as [|e t IH]; intros a a' H P x Hx; cbn [prun] in H; [destruct Hx|].
  destruct (pstep a e) as [a1|] eqn:S; [|discriminate]. destruct Hx as [<-|Hx]; [|exact (IH _ _ H P x Hx)].
  intros ->. unfold pstep in S. destruct (p_fin a); [discriminate|]. destruct (p_pf a); [|discriminate]. inversion S; subst a1.
  destruct t as [|e2 t2]; cbn [prun] in H; [inversion H; subst; discriminate P|]. discriminate H.
Qed.
Lemma prun_fin_last : forall es a a', prun a es = Some a' -> p_fin a = false -> p_fin a' = true ->
  exists pre a1, es = pre ++ [EvFinished] /\ prun a pre = Some a1 /\ p_fin a1 = false /\ p_pf a1 = true.
Proof.
  induction es as [|e t IH]; intros a a' H P0 P; cbn [prun] in H.
  - inversion H; subst. congruence.
  - destruct (pstep a e) as [a1|] eqn:S; [|discriminate]. destruct (p_fin a1) eqn:F1.
    + assert (e = EvFinished /\ p_pf a = true) as [-> PA].
      { unfold pstep in S. rewrite P0 in S. destruct e; try (inversion S; subst a1; congruence).
        - destruct (p_pf a); [discriminate|]. destruct (_ =? _); [|discriminate]. inversion S; subst a1. discriminate F1.
        - destruct (p_pf a); [discriminate|]. inversion S; subst a1. discriminate F1.
        - destruct (p_pf a); [auto|discriminate]. }
      destruct t as [|e2 t2]; [|cbn [prun] in H; unfold pstep in H; rewrite F1 in H; discriminate H].
      exists [], a. auto.
    + destruct (IH _ _ H F1 P) as (pre & a2 & -> & R & F2 & P2). exists (e :: pre), a2. cbn [app prun]. rewrite S. auto.
Qed.
Lemma prun_pf_somewhere : forall es a a', prun a es = Some a' -> p_pf a = false -> p_pf a' = true ->
  exists p x q, es = p ++ x :: q /\ is_pf x = true.
Proof.
  induction es as [|e t IH]; intros a a' H P0 P; cbn [prun] in H.
  - inversion H; subst. congruence.
  - destruct (pstep a e) as [a1|] eqn:S; [|discriminate]. destruct (is_pf e) eqn:E.
    + exists [], e, t. auto.
    + assert (P1 : p_pf a1 = false).
      { unfold pstep in S. destruct (p_fin a); [discriminate|]. rewrite P0 in S.
        destruct e; try discriminate; inversion S; subst a1; auto. }
      destruct (IH _ _ H P1 P) as (p & x & q & -> & X). exists (e :: p), x, q. auto.
Qed.

(* THE SHAPE OF A COMPLETE STREAM: exactly one ParsingFinished, before the one run-Finished, which is the last item *)
Theorem complete_stream_shape tr : framing_ok tr = true ->
  exists p a b c d e q, tr = p ++ EvParsingFinished a b c d e :: q ++ [EvFinished] /\
    (forall x, In x p -> is_pf x = false /\ x <> EvFinished) /\
    (forall x, In x q -> parser_ev x = false /\ x <> EvFinished) /\
    e = N.of_nat (length (perrs_tr tr)).
Proof.
  unfold framing_ok. intros H. destruct (prun pinit tr) as [af|] eqn:R; [|discriminate H].
  apply andb_prop in H as [H _]. apply andb_prop in H as [H _].
  destruct (prun_fin_last _ _ _ R eq_refl H) as (pre & a1 & -> & R1 & F1 & P1).
  destruct (prun_pf_somewhere _ _ _ R1 eq_refl P1) as (p & x & q & -> & X).
  destruct x; try discriminate X.
  assert (OK : is_some (prun pinit ((p ++ EvParsingFinished f r s st e :: q) ++ [EvFinished])) = true) by (rewrite R; reflexivity).
  rewrite <- app_assoc in OK. cbn [app] in OK.
  destruct (parser_part_meaning _ p f r s st e (q ++ [EvFinished]) OK) as (A & B & C).
  { reflexivity. }
  pose proof (prun_not_fin _ _ _ R1 F1) as NF.
  exists p, f, r, s, st, e, q. split; [rewrite <- app_assoc; reflexivity|]. split; [|split].
  - intros x Hx. split; [apply A; exact Hx|apply NF; apply in_or_app; left; exact Hx].
  - intros x Hx. split; [apply B; apply in_or_app; left; exact Hx|apply NF; apply in_or_app; right; right; exact Hx].
  - rewrite <- app_assoc. exact C.
Qed.

(* NO EMPTY BRACKET, in terms of the list: a Feature / Rule Finished has its Started before it and an event of
   one of its scenarios in between (and no other Started / Finished of the same key in between) *)
Theorem feature_bracket_not_empty tr pre f post :
  is_some (frun [] tr) = true -> tr = pre ++ EvFeatF f :: post ->
  exists p1 p2 r s rt x p3, pre = p1 ++ EvFeatS f :: p2 ++ EvScen f r s rt x :: p3 /\
    ~ In (EvFeatS f) (p2 ++ EvScen f r s rt x :: p3) /\ ~ In (EvFeatF f) (p2 ++ EvScen f r s rt x :: p3).
Proof.
  intros H ->.
  destruct (bracket_not_empty N.eqb N.eqb_eq f_opn f_cls f_tch) with (pre := pre) (x := EvFeatF f) (post := post) (k := f)
    as (p1 & y & p2 & z & p3 & -> & Oy & Tz & NB).
  - intros e k He. destruct e; try discriminate He. reflexivity.
  - unfold frun in H. intros X. rewrite X in H. discriminate.
  - reflexivity.
  - reflexivity.
  - destruct y; try discriminate Oy. inversion Oy; subst. destruct z; try discriminate Tz. inversion Tz; subst.
    exists p1, p2, r, s, rt, e, p3. split; [reflexivity|].
    split; intros X; destruct (NB _ X) as [A B]; [apply A|apply B]; reflexivity.
Qed.
Theorem rule_bracket_not_empty tr pre f r post :
  is_some (rrun [] tr) = true -> tr = pre ++ EvRuleF f r :: post ->
  exists p1 p2 s rt x p3, pre = p1 ++ EvRuleS f r :: p2 ++ EvScen f (Some r) s rt x :: p3 /\
    ~ In (EvRuleS f r) (p2 ++ EvScen f (Some r) s rt x :: p3) /\ ~ In (EvRuleF f r) (p2 ++ EvScen f (Some r) s rt x :: p3).
Proof.
  intros H ->.
  destruct (bracket_not_empty rk_eqb rk_eqb_spec r_opn r_cls r_tch) with (pre := pre) (x := EvRuleF f r) (post := post) (k := (f, r))
    as (p1 & y & p2 & z & p3 & -> & Oy & Tz & NB).
  - intros e k He. destruct e; try discriminate He. reflexivity.
  - unfold rrun in H. intros X. rewrite X in H. discriminate.
  - reflexivity.
  - reflexivity.
  - destruct y; try discriminate Oy. inversion Oy; subst. destruct z as [| | | | | | | |f0 [r0|] s0 rt0 x0]; try discriminate Tz.
    inversion Tz; subst.
    exists p1, p2, s0, rt0, x0, p3. split; [reflexivity|].
    split; intros X; destruct (NB _ X) as [A B]; [apply A|apply B]; reflexivity.
Qed.

Lemma framing_prefix_parts tr : framing_prefix tr = true ->
  is_some (prun pinit tr) = true /\ is_some (frun [] tr) = true /\ is_some (rrun [] tr) = true.
Proof. unfold framing_prefix. intros H. apply andb_prop in H as [H C]. apply andb_prop in H as [A B]. auto. Qed.
Lemma framing_ok_prefix tr : framing_ok tr = true -> framing_prefix tr = true.
Proof.
  unfold framing_ok, framing_prefix. destruct (prun pinit tr); [|discriminate]. intros H.
  apply andb_prop in H as [H C]. apply andb_prop in H as [A B]. cbn [is_some]. rewrite B, C. reflexivity.
Qed.

(* ================================================================================================ *)
(* 8. A, clauses 3 and 4: the stream against the input                                                *)
(* ================================================================================================ *)
Lemma filter_parser_fr o : all_fr o -> filter parser_ev o = [].
Proof.
  induction 1 as [|e t He Ht IH]; [reflexivity|]. cbn [filter]. rewrite IH. destruct e; try discriminate He; reflexivity.
Qed.

(* the parser events of one step are exactly those of its label *)
Lemma step_parser_evs c s l s' o : step c s l = Some (s', o) ->
  filter parser_ev o =
  match l with
  | LParseErr i => [EvParseErr i]
  | LParserEnd => [let '(a, b, c0, d, e) := pf s in EvParsingFinished a b c0 d e]
  | _ => []
  end.
Proof.
  intros H. destruct l; cbn [step] in H.
  - destruct (perrs s); [discriminate|]. inversion H; subst. reflexivity.
  - destruct (perrs s); [discriminate|]. destruct (pf s) as [[[[a0 b0] c0] d0] e0]. inversion H; subst. reflexivity.
  - destruct (pdone s); [discriminate|]. destruct (pf s) as [[[[a0 b0] c0] d0] e0]. inversion H; subst. reflexivity.
  - destruct (step_top_full _ _ _ _ H) as (s1 & pre & o2 & LT & -> & CASES).
    rewrite filter_app.
    assert (P : filter parser_ev pre = []).
    { destruct CASES as [(_ & _ & ->)|[(_ & _ & ->)|(_ & r & fl & fc & rc & _ & DR & _)]]; [reflexivity|reflexivity|].
      apply filter_parser_fr. pose proof (drain_fr (cf_fail_fast c) (msgs s) (add_slot (flow s)) (fcount s) (rcount s)) as X.
      rewrite DR in X. exact X. }
    rewrite P. destruct (loop_top_out _ _ _ LT) as [(FR & _)|(o' & -> & FR & _)].
    + apply filter_parser_fr. exact FR.
    + rewrite filter_app, (filter_parser_fr _ FR). reflexivity.
  - destruct (set_phase _ _ _ _) as [[e r]|]; [|discriminate]. inversion H; subst. reflexivity.
  - destruct (is_middle x); [|discriminate]. destruct (find_open _ _) as [e|]; [|discriminate]. inversion H; subst. reflexivity.
  - destruct (set_phase _ _ _ _) as [[e r]|]; [|discriminate].
    destruct (next_try e failed (now s)) as [e'|]; [destruct (e_serial e')|]; inversion H; subst; reflexivity.
  - inversion H; subst. reflexivity.
Qed.

Lemma perrs_tr_filter es : perrs_tr (filter parser_ev es) = perrs_tr es.
Proof.
  induction es as [|e t IH]; [reflexivity|]. cbn [filter]. destruct e; cbn [parser_ev perrs_tr flat_map app]; fold (perrs_tr t);
    fold (perrs_tr (filter parser_ev t)); rewrite ?IH; reflexivity.
Qed.
Lemma perrs_of_cons l t : perrs_of (l :: t) = perrs_of [l] ++ perrs_of t.
Proof. unfold perrs_of. cbn [flat_map]. rewrite app_nil_r. reflexivity. Qed.

(* CLAUSE 3: EVERY PARSER ERROR EXACTLY ONCE AND IN ORDER — the parser errors of the stream are the LParseErr labels *)
Theorem parser_errors_exact_from c : forall ls s s' o, exec_from c s ls = Some (s', o) -> perrs_tr o = perrs_of ls.
Proof.
  induction ls as [|l t IH]; intros s s' o H; cbn [exec_from] in H.
  - inversion H; subst. reflexivity.
  - destruct (step c s l) as [[s1 o1]|] eqn:S1; [|discriminate].
    destruct (exec_from c s1 t) as [[s2 o2]|] eqn:S2; [|discriminate]. inversion H; subst.
    rewrite perrs_tr_app, perrs_of_cons, (IH _ _ _ S2). f_equal.
    rewrite <- perrs_tr_filter, (step_parser_evs _ _ _ _ _ S1). destruct l; try reflexivity.
    destruct (pf s) as [[[[a0 b0] c0] d0] e0]. reflexivity.
Qed.
Theorem parser_errors_exact c ls s tr : exec c ls = Some (s, tr) -> perrs_tr tr = perrs_of ls.
Proof. apply parser_errors_exact_from. Qed.

(* once ingestion has stopped it stays stopped, and the counters are frozen *)
Lemma step_perrs c s l s' o : perrs s = true -> step c s l = Some (s', o) ->
  perrs s' = true /\ pf s' = pf s /\ match l with LFeature _ | LParseErr _ => False | _ => True end.
Proof.
  intros P H. pose proof (step_pf _ _ _ _ _ H) as PF. destruct l; cbn [step] in H.
  - rewrite P in H. discriminate.
  - rewrite P in H. discriminate.
  - destruct (pdone s); [discriminate|]. destruct (pf s) as [[[[a0 b0] c0] d0] e0] eqn:E. inversion H; subst. cbn. auto.
  - assert (Q : pf_add (pf s) LTop = pf s) by (unfold pf_add; destruct (pf s) as [[[[a0 b0] c0] d0] e0]; reflexivity).
    rewrite Q in PF. split; [|auto].
    destruct (step_top_full _ _ _ _ H) as (s1 & pre & o2 & LT & _ & CASES).
    destruct (loop_top_cases _ _ _ LT) as (_ & _ & _ & _ & _ & _ & _ & _ & PE & _). rewrite PE.
    destruct CASES as [(_ & -> & _)|[(_ & -> & _)|(_ & r & fl & fc & rc & _ & _ & ->)]]; exact P.
  - assert (Q : pf_add (pf s) (LAttStart k) = pf s) by (unfold pf_add; destruct (pf s) as [[[[a0 b0] c0] d0] e0]; reflexivity).
    rewrite Q in PF. destruct (set_phase _ _ _ _) as [[e r]|]; [|discriminate]. inversion H; subst. cbn. auto.
  - assert (Q : pf_add (pf s) (LAttEv k x) = pf s) by (unfold pf_add; destruct (pf s) as [[[[a0 b0] c0] d0] e0]; reflexivity).
    rewrite Q in PF. destruct (is_middle x); [|discriminate]. destruct (find_open _ _) as [e|]; [|discriminate]. inversion H; subst. auto.
  - assert (Q : pf_add (pf s) (LAttEnd k failed) = pf s) by (unfold pf_add; destruct (pf s) as [[[[a0 b0] c0] d0] e0]; reflexivity).
    rewrite Q in PF. destruct (set_phase _ _ _ _) as [[e r]|]; [|discriminate].
    destruct (next_try e failed (now s)) as [e'|]; [destruct (e_serial e')|]; inversion H; subst; cbn; auto.
  - assert (Q : pf_add (pf s) (LTick d) = pf s) by (unfold pf_add; destruct (pf s) as [[[[a0 b0] c0] d0] e0]; reflexivity).
    rewrite Q in PF. inversion H; subst. cbn. auto.
Qed.

Definition PFQ (s : st) (tr : list ev) : Prop :=
  forall a b c0 d e, In (EvParsingFinished a b c0 d e) tr -> pf s = (a, b, c0, d, e) /\ perrs s = true.

Lemma step_PFQ c s l s' o tr : PFQ s tr -> step c s l = Some (s', o) -> PFQ s' (tr ++ o).
Proof.
  intros Q H a b c0 d e Hin. apply in_app_or in Hin as [Hin|Hin].
  - destruct (Q _ _ _ _ _ Hin) as [A B]. destruct (step_perrs _ _ _ _ _ B H) as (B' & A' & _). rewrite A'. auto.
  - assert (F : In (EvParsingFinished a b c0 d e) (filter parser_ev o)) by (apply filter_In; split; [exact Hin|reflexivity]).
    rewrite (step_parser_evs _ _ _ _ _ H) in F. destruct l; try (destruct F; fail); try (destruct F as [F|[]]; discriminate F).
    cbn [step] in H. destruct (pdone s); [discriminate|]. destruct (pf s) as [[[[a0 b0] c1] d0] e0] eqn:E. inversion H; subst.
    destruct F as [F|[]]. inversion F; subst. cbn [pf perrs]. auto.
Qed.
Lemma exec_from_PFQ c : forall ls s s' o tr, PFQ s tr -> exec_from c s ls = Some (s', o) -> PFQ s' (tr ++ o).
Proof.
  induction ls as [|l t IH]; intros s s' o tr Q H; cbn [exec_from] in H.
  - inversion H; subst. rewrite app_nil_r. exact Q.
  - destruct (step c s l) as [[s1 o1]|] eqn:S1; [|discriminate].
    destruct (exec_from c s1 t) as [[s2 o2]|] eqn:S2; [|discriminate]. inversion H; subst.
    rewrite app_assoc. eapply IH; [|exact S2]. eapply step_PFQ; eassumption.
Qed.

Lemma feats_of_cons l t : feats_of (l :: t) = feats_of [l] ++ feats_of t.
Proof. unfold feats_of. cbn [flat_map]. rewrite app_nil_r. reflexivity. Qed.
Lemma fold_pf_add : forall ls a b c0 d e,
  fold_left pf_add ls (a, b, c0, d, e) =
  (a + N.of_nat (length (feats_of ls)), b + sumN sf_nrules (feats_of ls), c0 + sumN scens_of_feature (feats_of ls),
   d + sumN sf_nsteps (feats_of ls), e + N.of_nat (length (perrs_of ls))).
Proof.
  induction ls as [|l t IH]; intros a b c0 d e; cbn [fold_left].
  - cbn. repeat match goal with |- (_, _) = (_, _) => apply f_equal2 end; lia.
  - rewrite feats_of_cons, perrs_of_cons. destruct l; cbn [pf_add]; rewrite IH;
      change (feats_of [LFeature f]) with [f] || change (feats_of [LParseErr id]) with (@nil sfeature) || idtac.
    all: cbn [feats_of perrs_of flat_map app]; fold (feats_of t); fold (perrs_of t);
      rewrite ?sumN_cons; cbn [length]; rewrite ?Nat2N.inj_succ.
    all: repeat match goal with |- (_, _) = (_, _) => apply f_equal2 end; lia.
Qed.

(* CLAUSE 4: THE COUNTERS OF ParsingFinished ARE THE SUMS OVER WHAT WAS ACTUALLY RECEIVED — in every reachable
   state: once ParsingFinished is in the stream, nothing is ingested any more, so the sums are over ALL of `ls` *)
Theorem parsing_finished_counts c ls s tr a b c0 d e :
  exec c ls = Some (s, tr) -> In (EvParsingFinished a b c0 d e) tr -> (a, b, c0, d, e) = counts_of ls.
Proof.
  intros H Hin. assert (Q0 : PFQ (init_st c) []) by (intros ? ? ? ? ? []).
  pose proof (exec_from_PFQ c ls _ _ _ _ Q0 H) as Q. cbn [app] in Q. destruct (Q _ _ _ _ _ Hin) as [A _].
  rewrite <- A, (pf_counts c ls _ _ _ H). cbn [init_st pf]. rewrite fold_pf_add. unfold counts_of. reflexivity.
Qed.

Theorem inputs_ok_holds c ls s tr : exec c ls = Some (s, tr) -> inputs_ok ls tr = true.
Proof.
  intros H. unfold inputs_ok. apply andb_true_intro. split.
  - apply (list_eqb_spec N.eqb N.eqb_eq). exact (parser_errors_exact _ _ _ _ H).
  - apply forallb_forall. intros x Hx. destruct x; try reflexivity.
    rewrite <- (parsing_finished_counts _ _ _ _ _ _ _ _ _ H Hx). unfold tup5_eqb. rewrite !N.eqb_refl. reflexivity.
Qed.

(* A, in one boolean *)
Theorem framing_ok_for_holds c ls s tr : exec c ls = Some (s, tr) -> pc s = Done -> framing_ok_for ls tr = true.
Proof.
  intros H D. unfold framing_ok_for. rewrite (framing_ok_holds _ _ _ _ H D), (inputs_ok_holds _ _ _ _ H). reflexivity.
Qed.

(* ================================================================================================ *)
(* 9. B. C08: fail-fast and parser errors                                                             *)
(* ================================================================================================ *)
Definition no_ingest (l : label) : Prop := match l with LFeature _ | LParseErr _ => False | _ => True end.

Lemma exec_from_stopped c : forall ls s s' o, perrs s = true -> exec_from c s ls = Some (s', o) ->
  Forall no_ingest ls /\ perrs s' = true /\ pf s' = pf s.
Proof.
  induction ls as [|l t IH]; intros s s' o P H; cbn [exec_from] in H.
  - inversion H; subst. auto.
  - destruct (step c s l) as [[s1 o1]|] eqn:S1; [|discriminate].
    destruct (exec_from c s1 t) as [[s2 o2]|] eqn:S2; [|discriminate]. inversion H; subst.
    destruct (step_perrs _ _ _ _ _ P S1) as (P1 & F1 & N1). destruct (IH _ _ _ P1 S2) as (A & B & C).
    split; [constructor; [destruct l; auto|exact A]|]. split; [exact B|congruence].
Qed.

Lemma step_parse_err_stops c s i s' o : cf_fail_fast c = true -> step c s (LParseErr i) = Some (s', o) -> perrs s' = true.
Proof.
  intros FF H. cbn [step] in H. destruct (perrs s); [discriminate|]. destruct (pf s) as [[[[a0 b0] c0] d0] e0].
  inversion H; subst. exact FF.
Qed.

(* THE C08 CLAUSE: with fail-fast on, after the first parser error nothing more is ingested — no later feature
   (and no later parser item at all) is accepted by the model, whatever else happens *)
Theorem failfast_nothing_ingested_after_parse_error c l1 i l2 s tr :
  cf_fail_fast c = true -> exec c (l1 ++ LParseErr i :: l2) = Some (s, tr) -> Forall no_ingest l2.
Proof.
  intros FF H. unfold exec in H. destruct (exec_from_app c _ _ _ _ _ H) as (s1 & o1 & o2 & E1 & E2 & ->).
  cbn [exec_from] in E2. destruct (step c s1 (LParseErr i)) as [[s2 o3]|] eqn:S; [|discriminate].
  destruct (exec_from c s2 l2) as [[s3 o4]|] eqn:E3; [|discriminate].
  exact (proj1 (exec_from_stopped c _ _ _ _ (step_parse_err_stops _ _ _ _ _ FF S) E3)).
Qed.
Theorem C08_no_feature_after_parse_error c l1 i l2 s tr :
  cf_fail_fast c = true -> exec c (l1 ++ LParseErr i :: l2) = Some (s, tr) ->
  Forall (fun l => match l with LFeature _ => False | _ => True end) l2.
Proof.
  intros FF H. eapply Forall_impl; [|exact (failfast_nothing_ingested_after_parse_error _ _ _ _ _ _ FF H)].
  intros l N. destruct l; auto.
Qed.

(* ... so under fail-fast that parser error is the only one *)
Lemma exec_from_not_stopped c : cf_fail_fast c = true -> forall ls s s' o,
  exec_from c s ls = Some (s', o) -> perrs s' = false -> perrs_of ls = [].
Proof.
  intros FF. induction ls as [|l t IH]; intros s s' o H P; cbn [exec_from] in H; [reflexivity|].
  destruct (step c s l) as [[s1 o1]|] eqn:S1; [|discriminate].
  destruct (exec_from c s1 t) as [[s2 o2]|] eqn:S2; [|discriminate]. inversion H; subst.
  rewrite perrs_of_cons, (IH _ _ _ S2 P). destruct l; try reflexivity.
  pose proof (step_parse_err_stops _ _ _ _ _ FF S1) as P1.
  destruct (exec_from_stopped c _ _ _ _ P1 S2) as (_ & B & _). congruence.
Qed.
Lemma no_ingest_nothing ls : Forall no_ingest ls -> feats_of ls = [] /\ perrs_of ls = [].
Proof.
  induction 1 as [|l t Hl Ht [A B]]; [auto|]. rewrite feats_of_cons, perrs_of_cons, A, B. destruct l; try contradiction; auto.
Qed.
Lemma feats_of_app a b : feats_of (a ++ b) = feats_of a ++ feats_of b.
Proof. apply flat_map_app. Qed.
Lemma perrs_of_app a b : perrs_of (a ++ b) = perrs_of a ++ perrs_of b.
Proof. apply flat_map_app. Qed.

Theorem failfast_input_shape c l1 i l2 s tr :
  cf_fail_fast c = true -> exec c (l1 ++ LParseErr i :: l2) = Some (s, tr) ->
  feats_of (l1 ++ LParseErr i :: l2) = feats_of l1 /\ perrs_of (l1 ++ LParseErr i :: l2) = [i] /\ perrs_tr tr = [i].
Proof.
  intros FF H. destruct (no_ingest_nothing _ (failfast_nothing_ingested_after_parse_error _ _ _ _ _ _ FF H)) as [A B].
  assert (P1 : perrs_of l1 = []).
  { unfold exec in H. destruct (exec_from_app c _ _ _ _ _ H) as (s1 & o1 & o2 & E1 & E2 & _).
    apply (exec_from_not_stopped c FF _ _ _ _ E1). cbn [exec_from step] in E2. destruct (perrs s1); [discriminate|reflexivity]. }
  assert (Q : perrs_of (l1 ++ LParseErr i :: l2) = [i]).
  { rewrite perrs_of_app, perrs_of_cons, P1, B. reflexivity. }
  split; [rewrite feats_of_app, feats_of_cons, A; cbn; apply app_nil_r|]. split; [exact Q|].
  rewrite (parser_errors_exact _ _ _ _ H). exact Q.
Qed.

(* THE EVENT-LEVEL CONSEQUENCE: the ParsingFinished of such a run counts exactly the features delivered BEFORE the
   parser error (their rules, scenarios and steps), and one parser error *)
Theorem failfast_parsing_finished_counts c l1 i l2 s tr a b c0 d e :
  cf_fail_fast c = true -> exec c (l1 ++ LParseErr i :: l2) = Some (s, tr) ->
  In (EvParsingFinished a b c0 d e) tr ->
  (a, b, c0, d, e) = (N.of_nat (length (feats_of l1)), sumN sf_nrules (feats_of l1), sumN scens_of_feature (feats_of l1),
                      sumN sf_nsteps (feats_of l1), 1).
Proof.
  intros FF H Hin. rewrite (parsing_finished_counts _ _ _ _ _ _ _ _ _ H Hin). unfold counts_of.
  destruct (failfast_input_shape _ _ _ _ _ _ FF H) as (A & B & _). rewrite A, B. reflexivity.
Qed.

(* ---- every Feature bracket and every scenario event of the stream belongs to a feature that was delivered ---- *)
Definition FPr (F : list N) (s : st) : Prop := forall e, SchedP13.present s e -> In (e_f e) F.
Definition ev_feat_in (F : list N) (x : ev) : Prop :=
  match x with EvFeatS f | EvScen f _ _ _ _ => In f F | _ => True end.

Definition is_cl (e : ev) : bool := match e with EvFeatF _ | EvRuleF _ _ => true | _ => false end.
Definition all_cl (o : list ev) : Prop := Forall (fun e => is_cl e = true) o.
Lemma finish_msg_cl m fc rc : all_cl (fst (fst (finish_msg m fc rc))).
Proof.
  unfold finish_msg. destruct (m_retried m); [constructor|].
  destruct (m_r m) as [r|].
  - destruct (lookupN rk_eqb (m_f m, r) rc) as [n|].
    + destruct (n + 1 =? m_nr m); destruct (lookupN N.eqb (m_f m) fc) as [n2|];
        try destruct (n2 + 1 =? m_nf m); cbn; repeat constructor.
    + destruct (lookupN N.eqb (m_f m) fc) as [n2|]; try destruct (n2 + 1 =? m_nf m); cbn; repeat constructor.
  - destruct (lookupN N.eqb (m_f m) fc) as [n2|]; try destruct (n2 + 1 =? m_nf m); cbn; repeat constructor.
Qed.
Lemma drain_cl ff ms : forall fl fc rc, all_cl (fst (fst (fst (drain ff ms fl fc rc)))).
Proof.
  induction ms as [|m t IH]; intros fl fc rc; cbn [drain]; [constructor|].
  pose proof (finish_msg_cl m fc rc) as A. destruct (finish_msg m fc rc) as [[o fc1] rc1].
  specialize (IH (if ff && m_failed m && negb (m_retried m) then Break else fl) fc1 rc1).
  destruct (drain ff t _ fc1 rc1) as [[[o2 fl2] fc2] rc2]. cbn in *. apply Forall_app. split; assumption.
Qed.

(* a Feature Started is that of a queued entry *)
Lemma step_featS c s l s' o f : step c s l = Some (s', o) -> In (EvFeatS f) o -> exists e, SchedP13.queued s e /\ e_f e = f.
Proof.
  intros H Hin. destruct l; cbn [step] in H.
  - destruct (perrs s); [discriminate|]. inversion H; subst. destruct Hin.
  - destruct (perrs s); [discriminate|]. destruct (pf s) as [[[[a0 b0] c0] d0] e0]. inversion H; subst.
    destruct Hin as [X|[]]; discriminate X.
  - destruct (pdone s); [discriminate|]. destruct (pf s) as [[[[a0 b0] c0] d0] e0]. inversion H; subst.
    destruct Hin as [X|[]]; discriminate X.
  - destruct (step_top_full _ _ _ _ H) as (s1 & pre & o2 & LT & -> & CASES).
    assert (Q1 : qS s1 = qS s /\ qC s1 = qC s /\ forall x, In x pre -> x <> EvFeatS f).
    { destruct CASES as [(_ & -> & ->)|[(_ & -> & ->)|(_ & r & fl & fc & rc & _ & DR & ->)]].
      - split; [reflexivity|]. split; [reflexivity|]. intros x [<-|[]]. discriminate.
      - split; [reflexivity|]. split; [reflexivity|]. intros x [].
      - split; [reflexivity|]. split; [reflexivity|]. intros x Hx ->.
        pose proof (drain_cl (cf_fail_fast c) (msgs s) (add_slot (flow s)) (fcount s) (rcount s)) as X. rewrite DR in X.
        cbn [fst] in X. apply (proj1 (Forall_forall _ _) X) in Hx. discriminate Hx. }
    destruct Q1 as (QS & QC & NP). apply in_app_or in Hin as [Hin|Hin]; [exfalso; exact (NP _ Hin eq_refl)|].
    destruct (loop_top_full _ _ _ LT) as (batch & qs & qc & md & G & [CS|[CS|CS]]).
    + destruct CS as (_ & _ & _ & _ & ->). exfalso. unfold finish_all in Hin.
      apply in_app_or in Hin as [Hin|[X|[]]]; [|discriminate X].
      apply in_app_or in Hin as [Hin|Hin]; apply in_map_iff in Hin as (kv & X & _); discriminate X.
    + destruct CS as (_ & _ & _ & _ & ->). destruct Hin.
    + destruct CS as (fc & rc & SS & _).
      pose proof (start_scenarios_evs batch (fcount s1) (rcount s1) (EvFeatS f)) as EV. rewrite SS in EV. cbn [fst] in EV.
      destruct (EV Hin) as [(x & Hx & E)|(x & r & _ & _ & E)]; [|discriminate E]. inversion E; subst.
      exists x. split; [|reflexivity]. pose proof (get_mem (slots_of s1) s1 x) as GM. rewrite G in GM.
      unfold SchedP13.queued. rewrite <- QS, <- QC. apply GM. left. exact Hx.
  - destruct (set_phase _ _ _ _) as [[e r]|]; [|discriminate]. inversion H; subst. destruct Hin as [X|[]]; discriminate X.
  - destruct (is_middle x); [|discriminate]. destruct (find_open _ _) as [e|]; [|discriminate]. inversion H; subst.
    destruct Hin as [X|[]]; discriminate X.
  - destruct (set_phase _ _ _ _) as [[e r]|]; [|discriminate].
    destruct (next_try e failed (now s)) as [e'|]; [destruct (e_serial e')|]; inversion H; subst; destruct Hin as [X|[]]; discriminate X.
  - inversion H; subst. destruct Hin.
Qed.

Lemma step_FPr c F s l s' o : FPr F s -> step c s l = Some (s', o) ->
  FPr (F ++ map sf_id (feats_of [l])) s' /\ forall x, In x o -> ev_feat_in F x.
Proof.
  intros P H. split.
  - intros e PR. apply in_or_app. destruct (SchedP13.step_back _ _ _ _ _ _ H PR) as [A|[(G & sc & -> & ->)|(k & fl & e0 & -> & -> & _ & NT)]].
    + left. apply P. exact A.
    + right. cbn. left. reflexivity.
    + left. destruct (SchedP13.next_try_inv _ _ _ _ NT) as (_ & c0 & l0 & _ & _ & _ & EF & _). rewrite EF.
      destruct (step_scen_events _ _ _ _ _ H) as [NO|(e1 & p & IN & EM)].
      * exfalso. exact (NO _ (or_introl eq_refl)).
      * destruct (EM _ (or_introl eq_refl)) as (E1 & _). rewrite E1. apply P. right. exists p. exact IN.
  - intros x Hx. destruct x; try exact I.
    + destruct (step_featS _ _ _ _ _ _ H Hx) as (e & Q & <-). apply P. left. exact Q.
    + cbn [ev_feat_in]. destruct (step_scen_events _ _ _ _ _ H) as [NO|(e1 & p & IN & EM)].
      * exfalso. exact (NO _ Hx).
      * destruct (EM _ Hx) as (E1 & _). rewrite E1. apply P. right. exists p. exact IN.
Qed.

Lemma ev_feat_in_incl F G x : incl F G -> ev_feat_in F x -> ev_feat_in G x.
Proof. intros I H. destruct x; try exact H; apply I; exact H. Qed.

Lemma exec_from_FPr c : forall ls F s s' o, FPr F s -> exec_from c s ls = Some (s', o) ->
  FPr (F ++ map sf_id (feats_of ls)) s' /\ forall x, In x o -> ev_feat_in (F ++ map sf_id (feats_of ls)) x.
Proof.
  induction ls as [|l t IH]; intros F s s' o P H; cbn [exec_from] in H.
  - inversion H; subst. cbn. rewrite app_nil_r. split; [exact P|intros x []].
  - destruct (step c s l) as [[s1 o1]|] eqn:S1; [|discriminate].
    destruct (exec_from c s1 t) as [[s2 o2]|] eqn:S2; [|discriminate]. inversion H; subst.
    destruct (step_FPr _ _ _ _ _ _ P S1) as [P1 E1]. destruct (IH _ _ _ _ P1 S2) as [P2 E2].
    rewrite feats_of_cons, map_app, app_assoc. split; [exact P2|].
    intros x Hx. apply in_app_or in Hx as [Hx|Hx]; [|apply E2; exact Hx].
    eapply ev_feat_in_incl; [|apply E1; exact Hx]. intros y Hy. apply in_or_app. left. apply in_or_app. left. exact Hy.
Qed.

Theorem events_only_of_delivered_features c ls s tr : exec c ls = Some (s, tr) ->
  forall x, In x tr -> ev_feat_in (map sf_id (feats_of ls)) x.
Proof.
  intros H. assert (P0 : FPr [] (init_st c)).
  { intros e [Q|[p Q]]; [unfold SchedP13.queued, init_st in Q; cbn in Q; destruct Q|cbn in Q; destruct Q]. }
  exact (proj2 (exec_from_FPr c ls [] _ _ _ P0 H)).
Qed.

(* with fail-fast: every Feature bracket and every scenario event of the stream belongs to a feature delivered
   BEFORE the parser error — no later feature is run *)
Theorem failfast_only_early_features_run c l1 i l2 s tr :
  cf_fail_fast c = true -> exec c (l1 ++ LParseErr i :: l2) = Some (s, tr) ->
  forall x, In x tr -> ev_feat_in (map sf_id (feats_of l1)) x.
Proof.
  intros FF H. rewrite <- (proj1 (failfast_input_shape _ _ _ _ _ _ FF H)).
  exact (events_only_of_delivered_features _ _ _ _ H).
Qed.

(* WITHOUT fail-fast a feature after a parser error IS ingested and run *)
Example no_failfast_feature_after_parse_error_runs :
  let f := mk_sfeature 1 [mk_sscen 11 None false None] 0 2 in
  let ls := [LParseErr 9; LFeature f; LParserEnd; LTop; LAttStart (11, 0); LAttEnd (11, 0) false; LTop] in
  match exec (mk_cfg (Some 2%nat) false) ls with
  | Some (s, tr) => (match pc s with Done => true | _ => false end, tr, framing_ok_for ls tr)
  | None => (false, [], false)
  end = (true,
         [EvParseErr 9; EvParsingFinished 1 0 1 2 1; EvStarted; EvFeatS 1; EvScen 1 None 11 None ScStarted;
          EvScen 1 None 11 None ScFinished; EvFeatF 1; EvFinished], true) /\
  (* ... while with fail-fast the same input is not even accepted by the model: the feature cannot be ingested *)
  exec (mk_cfg (Some 2%nat) true) ls = None /\
  exec (mk_cfg (Some 2%nat) true) [LParseErr 9; LFeature f] = None.
Proof. vm_compute. repeat split. Qed.

(* with fail-fast, a feature BEFORE the error is still run, the error ends ingestion, ParsingFinished counts it *)
Example failfast_nonvacuous :
  let f := mk_sfeature 1 [mk_sscen 11 None false None] 0 2 in
  let ls := [LFeature f; LParseErr 9; LParserEnd; LTop; LAttStart (11, 0); LAttEnd (11, 0) false; LTop] in
  match exec (mk_cfg (Some 2%nat) true) ls with
  | Some (s, tr) => (match pc s with Done => true | _ => false end, tr, framing_ok_for ls tr)
  | None => (false, [], false)
  end = (true,
         [EvParseErr 9; EvParsingFinished 1 0 1 2 1; EvStarted; EvFeatS 1; EvScen 1 None 11 None ScStarted;
          EvScen 1 None 11 None ScFinished; EvFeatF 1; EvFinished], true).
Proof. vm_compute. reflexivity. Qed.

(* ================================================================================================ *)
(* 10. The statements on runs, without the automata (every reachable state, no hypothesis on the input) *)
(* ================================================================================================ *)
(* AT MOST ONE ParsingFinished, NO PARSER ERROR AFTER IT, and it announces the parser errors of the stream *)
Theorem run_parsing_finished_once c ls s tr p a b c0 d e q :
  exec c ls = Some (s, tr) -> tr = p ++ EvParsingFinished a b c0 d e :: q ->
  (forall x, In x p -> is_pf x = false) /\ (forall x, In x q -> parser_ev x = false) /\
  e = N.of_nat (length (perrs_tr tr)) /\ perrs_tr tr = perrs_of ls /\ (a, b, c0, d, e) = counts_of ls.
Proof.
  intros H E. destruct (framing_prefix_parts _ (framing_prefix_holds _ _ _ _ H)) as (P & _ & _).
  destruct (parser_part_meaning _ _ _ _ _ _ _ _ P E) as (A & B & C).
  split; [exact A|]. split; [exact B|]. split; [exact C|]. split; [exact (parser_errors_exact _ _ _ _ H)|].
  apply (parsing_finished_counts _ _ _ _ _ _ _ _ _ H). rewrite E. apply in_or_app. right. left. reflexivity.
Qed.

(* A Feature / Rule Finished IS PRECEDED BY A SCENARIO EVENT OF THAT FEATURE / RULE, inside its own bracket *)
Theorem run_feature_bracket_not_empty c ls s tr pre f post :
  exec c ls = Some (s, tr) -> tr = pre ++ EvFeatF f :: post ->
  exists p1 p2 r sc rt x p3, pre = p1 ++ EvFeatS f :: p2 ++ EvScen f r sc rt x :: p3 /\
    ~ In (EvFeatS f) (p2 ++ EvScen f r sc rt x :: p3) /\ ~ In (EvFeatF f) (p2 ++ EvScen f r sc rt x :: p3).
Proof.
  intros H E. destruct (framing_prefix_parts _ (framing_prefix_holds _ _ _ _ H)) as (_ & P & _).
  exact (feature_bracket_not_empty _ _ _ _ P E).
Qed.
Theorem run_rule_bracket_not_empty c ls s tr pre f r post :
  exec c ls = Some (s, tr) -> tr = pre ++ EvRuleF f r :: post ->
  exists p1 p2 sc rt x p3, pre = p1 ++ EvRuleS f r :: p2 ++ EvScen f (Some r) sc rt x :: p3 /\
    ~ In (EvRuleS f r) (p2 ++ EvScen f (Some r) sc rt x :: p3) /\ ~ In (EvRuleF f r) (p2 ++ EvScen f (Some r) sc rt x :: p3).
Proof.
  intros H E. destruct (framing_prefix_parts _ (framing_prefix_holds _ _ _ _ H)) as (_ & _ & P).
  exact (rule_bracket_not_empty _ _ _ _ _ P E).
Qed.

(* THE COMPLETE RUN: exactly one ParsingFinished, carrying the counts of the input, all parser errors before it,
   then exactly one run-Finished, last *)
Theorem run_complete_shape c ls s tr :
  exec c ls = Some (s, tr) -> pc s = Done ->
  exists p q, let '(a, b, c0, d, e) := counts_of ls in
    tr = p ++ EvParsingFinished a b c0 d e :: q ++ [EvFinished] /\
    (forall x, In x p -> is_pf x = false /\ x <> EvFinished) /\
    (forall x, In x q -> parser_ev x = false /\ x <> EvFinished) /\
    perrs_tr p = perrs_of ls.
Proof.
  intros H D. destruct (complete_stream_shape _ (framing_ok_holds _ _ _ _ H D)) as (p & a & b & c0 & d & e & q & E & A & B & C).
  exists p, q.
  assert (Hin : In (EvParsingFinished a b c0 d e) tr) by (rewrite E; apply in_or_app; right; left; reflexivity).
  rewrite <- (parsing_finished_counts _ _ _ _ _ _ _ _ _ H Hin).
  split; [exact E|]. split; [exact A|]. split; [exact B|].
  rewrite <- (parser_errors_exact _ _ _ _ H), E, perrs_tr_app. cbn [perrs_tr flat_map app]. fold (perrs_tr (q ++ [EvFinished])).
  rewrite (perrs_tr_none (q ++ [EvFinished])); [symmetry; apply app_nil_r|].
  intros x Hx. apply in_app_or in Hx as [Hx|[<-|[]]]; [apply B; exact Hx|reflexivity].
Qed.

Print Assumptions framing_prefix_holds.
Print Assumptions framing_ok_holds.
Print Assumptions framing_ok_for_holds.
Print Assumptions inputs_ok_holds.
Print Assumptions parser_errors_exact.
Print Assumptions parsing_finished_counts.
Print Assumptions run_parsing_finished_once.
Print Assumptions run_feature_bracket_not_empty.
Print Assumptions run_rule_bracket_not_empty.
Print Assumptions run_complete_shape.
Print Assumptions C08_no_feature_after_parse_error.
Print Assumptions failfast_parsing_finished_counts.
Print Assumptions failfast_only_early_features_run.
