(* TracingP3.v — LIVENESS of the span-close handshake (C20): a waiter is released once its span has closed.
   1. `notify_released` / `notify_released_iff`: a one-step characterisation of `notify`;
   2. `waiter_released`: in every reachable state, a span that has been closed and subscribed to is released
      after at most `length (t_closes s) + 1` runs of the forwarder;
   3. examples by `vm_compute`. *)
From CV Require Import Model.Base Model.Tracing Proofs.BaseP Proofs.TracingP.
From Coq Require Import Lia.

(* ---------------------------------------------------------------------------------------------- *)
(* the span table as a finite map                                                                  *)
(* ---------------------------------------------------------------------------------------------- *)
Definition keys (l : list (N * (bool * bool))) : list N := map fst l.

Fixpoint look (x : N) (l : list (N * (bool * bool))) : option (bool * bool) :=
  match l with
  | [] => None
  | (y, v) :: t => if x =? y then Some v else look x t
  end.

(* the flags of span x: (has a subscriber, close received); an absent span has neither *)
Definition getv (x : N) (l : list (N * (bool * bool))) : bool * bool :=
  match look x l with Some v => v | None => (false, false) end.

Definition both (v : bool * bool) : bool := fst v && snd v.

Lemma look_none x l : ~ In x (keys l) -> look x l = None.
Proof.
  induction l as [|[z v] t IH]; intros NI; [reflexivity|]. cbn in *.
  destruct (x =? z) eqn:XZ.
  - apply N.eqb_eq in XZ. subst. exfalso. apply NI. left. reflexivity.
  - apply IH. intros H. apply NI. right. exact H.
Qed.

Lemma look_in x v l : look x l = Some v -> In (x, v) l.
Proof.
  induction l as [|[z w] t IH]; cbn; intros H; [discriminate|].
  destruct (x =? z) eqn:XZ.
  - apply N.eqb_eq in XZ. inversion H; subst. left. reflexivity.
  - right. apply IH. exact H.
Qed.

Lemma in_look x v l : NoDup (keys l) -> In (x, v) l -> look x l = Some v.
Proof.
  induction l as [|[z w] t IH]; cbn; intros ND H; [contradiction|].
  inversion ND as [|? ? NI ND']; subst.
  destruct H as [E|H].
  - inversion E; subst. rewrite N.eqb_refl. reflexivity.
  - destruct (x =? z) eqn:XZ.
    + apply N.eqb_eq in XZ. subst. exfalso. apply NI. unfold keys. apply in_map_iff. exists (z, v). split; [reflexivity|exact H].
    + apply IH; assumption.
Qed.

Lemma getv_none x l : ~ In x (keys l) -> getv x l = (false, false).
Proof. intros NI. unfold getv. rewrite (look_none _ _ NI). reflexivity. Qed.

(* the flags, read through `In` (needs unique keys for the <- direction) *)
Lemma getv_fst_in x l : NoDup (keys l) ->
  (fst (getv x l) = true <-> exists rc, In (x, (true, rc)) l).
Proof.
  intros ND. unfold getv. split.
  - destruct (look x l) as [[cb rc]|] eqn:L; cbn; intros H; [|discriminate]. subst cb.
    exists rc. apply look_in. exact L.
  - intros (rc & H). rewrite (in_look _ _ _ ND H). reflexivity.
Qed.

Lemma getv_snd_in x l : NoDup (keys l) ->
  (snd (getv x l) = true <-> exists cb, In (x, (cb, true)) l).
Proof.
  intros ND. unfold getv. split.
  - destruct (look x l) as [[cb rc]|] eqn:L; cbn; intros H; [|discriminate]. subst rc.
    exists cb. apply look_in. exact L.
  - intros (cb & H). rewrite (in_look _ _ _ ND H). reflexivity.
Qed.

(* ---- upd_span ---- *)
Lemma look_upd x f l y :
  look y (upd_span x f l) = if y =? x then Some (f (getv x l)) else look y l.
Proof.
  induction l as [|[z v] t IH].
  - cbn. destruct (y =? x); reflexivity.
  - cbn [upd_span]. unfold getv. cbn [look]. destruct (x =? z) eqn:XZ.
    + apply N.eqb_eq in XZ. subst z. cbn [look]. destruct (y =? x); reflexivity.
    + cbn [look]. rewrite IH. unfold getv.
      destruct (y =? z) eqn:YZ; [|reflexivity].
      destruct (y =? x) eqn:YX; [|reflexivity].
      apply N.eqb_eq in YZ, YX. subst. rewrite N.eqb_refl in XZ. discriminate.
Qed.

Lemma getv_upd x f l y :
  getv y (upd_span x f l) = if y =? x then f (getv x l) else getv y l.
Proof. unfold getv at 1. rewrite look_upd. destruct (y =? x); reflexivity. Qed.

Lemma keys_upd_in x f l k : In k (keys (upd_span x f l)) -> k = x \/ In k (keys l).
Proof.
  induction l as [|[z v] t IH]; cbn.
  - intros [E|[]]. left. symmetry. exact E.
  - destruct (x =? z) eqn:XZ; cbn.
    + intros [E|H]; right; [left; exact E|right; exact H].
    + intros [E|H]; [right; left; exact E|]. destruct (IH H) as [->|H']; [left; reflexivity|right; right; exact H'].
Qed.

Lemma keys_upd_nodup x f l : NoDup (keys l) -> NoDup (keys (upd_span x f l)).
Proof.
  induction l as [|[z v] t IH]; cbn; intros ND.
  - constructor; [intros []|constructor].
  - inversion ND as [|? ? NI ND']; subst. destruct (x =? z) eqn:XZ; cbn.
    + constructor; assumption.
    + constructor; [|apply IH; exact ND'].
      intros H. apply keys_upd_in in H as [->|H]; [rewrite N.eqb_refl in XZ; discriminate|apply NI; exact H].
Qed.

(* ---- all pending subscriptions ---- *)
Definition add_waits (ws : list N) (l : list (N * (bool * bool))) : list (N * (bool * bool)) :=
  fold_left (fun acc x => upd_span x (fun v => (true, snd v)) acc) ws l.

Lemma getv_add_waits ws : forall l y,
  getv y (add_waits ws l) = (fst (getv y l) || memN y ws, snd (getv y l)).
Proof.
  induction ws as [|w ws IH]; intros l y.
  - cbn. rewrite orb_false_r. destruct (getv y l); reflexivity.
  - unfold add_waits in *. cbn [fold_left]. rewrite IH, getv_upd.
    change (memN y (w :: ws)) with ((y =? w) || memN y ws).
    destruct (y =? w) eqn:YW; cbn [fst snd orb]; [|reflexivity].
    apply N.eqb_eq in YW. subst. rewrite orb_true_r. reflexivity.
Qed.

Lemma keys_add_waits_nodup ws : forall l, NoDup (keys l) -> NoDup (keys (add_waits ws l)).
Proof.
  induction ws as [|w ws IH]; intros l ND; [exact ND|].
  unfold add_waits in *. cbn [fold_left]. apply IH. apply keys_upd_nodup. exact ND.
Qed.

(* ---- the two filters ---- *)
Definition fireq (kv : N * (bool * bool)) : bool := fst (snd kv) && snd (snd kv).

Lemma keys_filter_in p l k : In k (keys (filter p l)) -> In k (keys l).
Proof.
  unfold keys. intros H. apply in_map_iff in H as (kv & E & H). apply filter_In in H as [H _].
  apply in_map_iff. exists kv. auto.
Qed.

Lemma keys_filter_nodup p l : NoDup (keys l) -> NoDup (keys (filter p l)).
Proof.
  induction l as [|[z v] t IH]; cbn; intros ND; [constructor|].
  inversion ND as [|? ? NI ND']; subst. destruct (p (z, v)); cbn; [|apply IH; exact ND'].
  constructor; [|apply IH; exact ND']. intros H. apply NI. eapply keys_filter_in. exact H.
Qed.

(* the fired spans are exactly those whose entry has both flags *)
Lemma fired_mem x l : NoDup (keys l) ->
  memN x (map fst (filter fireq l)) = both (getv x l).
Proof.
  induction l as [|[z v] t IH]; intros ND; [reflexivity|].
  inversion ND as [|? ? NI ND']; subst. unfold getv. cbn [filter look].
  destruct (x =? z) eqn:XZ.
  - apply N.eqb_eq in XZ. subst z. unfold fireq at 1. cbn [fst snd]. fold (both v).
    destruct (both v) eqn:B.
    + cbn. rewrite N.eqb_refl. reflexivity.
    + rewrite (IH ND'), (getv_none _ _ NI). reflexivity.
  - fold (getv x t). destruct (fireq (z, v)).
    + cbn [map fst]. change (memN x (z :: map fst (filter fireq t))) with ((x =? z) || memN x (map fst (filter fireq t))).
      rewrite XZ. cbn [orb]. apply IH. exact ND'.
    + apply IH. exact ND'.
Qed.

(* the entries that stay *)
Lemma getv_unfired x l : NoDup (keys l) ->
  getv x (filter (fun kv => negb (fireq kv)) l) = if both (getv x l) then (false, false) else getv x l.
Proof.
  induction l as [|[z v] t IH]; intros ND; [reflexivity|].
  inversion ND as [|? ? NI ND']; subst. cbn [filter]. unfold getv at 2 3. cbn [look].
  destruct (x =? z) eqn:XZ.
  - apply N.eqb_eq in XZ. subst z. unfold fireq at 1. cbn [fst snd]. fold (both v).
    destruct (both v) eqn:B; cbn [negb].
    + apply getv_none. intros H. apply NI. eapply keys_filter_in. exact H.
    + unfold getv. cbn [look]. rewrite N.eqb_refl. reflexivity.
  - fold (getv x t). destruct (negb (fireq (z, v))).
    + unfold getv at 1. cbn [look]. rewrite XZ. apply IH. exact ND'.
    + apply IH. exact ND'.
Qed.

(* ---------------------------------------------------------------------------------------------- *)
(* 1. one step of `notify`                                                                         *)
(* ---------------------------------------------------------------------------------------------- *)
Definition hdB (x : N) (l : list N) : bool := match l with y :: _ => x =? y | [] => false end.

Definition sp1 (s : tstate) : list (N * (bool * bool)) :=
  match t_closes s with
  | x :: _ => upd_span x (fun v => (fst v, true)) (t_spans s)
  | [] => t_spans s
  end.
Definition sp2 (s : tstate) : list (N * (bool * bool)) := add_waits (t_waits s) (sp1 s).

Lemma notify_eq s :
  notify s = mk_ts (t_logs s) (tl (t_closes s)) [] (filter (fun kv => negb (fireq kv)) (sp2 s)) (t_closed s)
                   (t_released s ++ map fst (filter fireq (sp2 s))).
Proof. unfold notify, sp2, sp1, add_waits. destruct (t_closes s); reflexivity. Qed.

Lemma getv_sp1 s y : getv y (sp1 s) = (fst (getv y (t_spans s)), snd (getv y (t_spans s)) || hdB y (t_closes s)).
Proof.
  unfold sp1, hdB. destruct (t_closes s) as [|x cl].
  - rewrite orb_false_r. destruct (getv y (t_spans s)); reflexivity.
  - rewrite getv_upd. destruct (y =? x) eqn:YX.
    + apply N.eqb_eq in YX. subst. cbn [fst snd]. rewrite orb_true_r. reflexivity.
    + rewrite orb_false_r. destruct (getv y (t_spans s)); reflexivity.
Qed.

Lemma keys_sp1_nodup s : NoDup (keys (t_spans s)) -> NoDup (keys (sp1 s)).
Proof. intros ND. unfold sp1. destruct (t_closes s); [exact ND|apply keys_upd_nodup; exact ND]. Qed.

Lemma keys_sp2_nodup s : NoDup (keys (t_spans s)) -> NoDup (keys (sp2 s)).
Proof. intros ND. apply keys_add_waits_nodup, keys_sp1_nodup, ND. Qed.

(* "x has a subscriber" and "the close of x has been received", as seen by the NEXT run of notify *)
Definition subF (x : N) (s : tstate) : bool := fst (getv x (t_spans s)) || memN x (t_waits s).
Definition closeF (x : N) (s : tstate) : bool := snd (getv x (t_spans s)) || hdB x (t_closes s).

Lemma getv_sp2 s y : getv y (sp2 s) = (subF y s, closeF y s).
Proof. unfold sp2, subF, closeF. rewrite getv_add_waits, getv_sp1. reflexivity. Qed.

(* the table keys stay unique *)
Lemma notify_keys s : NoDup (keys (t_spans s)) -> NoDup (keys (t_spans (notify s))).
Proof. intros ND. rewrite notify_eq. cbn [t_spans]. apply keys_filter_nodup, keys_sp2_nodup, ND. Qed.

(* 1a. boolean form: who is released after one notify *)
Theorem notify_released s x : NoDup (keys (t_spans s)) ->
  memN x (t_released (notify s)) = memN x (t_released s) || (subF x s && closeF x s).
Proof.
  intros ND. rewrite notify_eq. cbn [t_released]. rewrite memN_app, (fired_mem _ _ (keys_sp2_nodup _ ND)), getv_sp2.
  reflexivity.
Qed.

(* ... and what the table says about x afterwards: a released span is removed, the others keep their flags *)
Lemma notify_table s x : NoDup (keys (t_spans s)) ->
  getv x (t_spans (notify s)) = if subF x s && closeF x s then (false, false) else (subF x s, closeF x s).
Proof.
  intros ND. rewrite notify_eq. cbn [t_spans]. rewrite (getv_unfired _ _ (keys_sp2_nodup _ ND)), getv_sp2. reflexivity.
Qed.

Lemma notify_closes s : t_closes (notify s) = tl (t_closes s).
Proof. rewrite notify_eq. reflexivity. Qed.
Lemma notify_waits s : t_waits (notify s) = [].
Proof. rewrite notify_eq. reflexivity. Qed.
Lemma notify_closed s : t_closed (notify s) = t_closed s.
Proof. rewrite notify_eq. reflexivity. Qed.
Lemma notify_logs s : t_logs (notify s) = t_logs s.
Proof. rewrite notify_eq. reflexivity. Qed.

Lemma hdB_hd x l : hdB x l = true <-> hd_error l = Some x.
Proof.
  destruct l as [|y t]; cbn; [split; discriminate|]. split.
  - intros H. apply N.eqb_eq in H. subst. reflexivity.
  - intros H. inversion H. apply N.eqb_refl.
Qed.

(* 1b. the same, stated with the definitions of the model *)
Theorem notify_released_iff s x : NoDup (map fst (t_spans s)) ->
  (memN x (t_released (notify s)) = true <->
   memN x (t_released s) = true \/
   (((exists rc, In (x, (true, rc)) (t_spans s)) \/ In x (t_waits s)) /\
    ((exists cb, In (x, (cb, true)) (t_spans s)) \/ hd_error (t_closes s) = Some x))).
Proof.
  intros ND. change (map fst (t_spans s)) with (keys (t_spans s)) in ND.
  rewrite (notify_released _ _ ND). unfold subF, closeF.
  rewrite orb_true_iff, andb_true_iff, !orb_true_iff.
  rewrite (getv_fst_in _ _ ND), (getv_snd_in _ _ ND), !memN_in, hdB_hd. reflexivity.
Qed.

(* the side condition is needed: with a duplicated key the two flags may sit in different entries, and notify,
   which updates the first entry only, does not release *)
Example notify_released_iff_needs_unique_keys :
  let s := mk_ts [] [] [] [(5, (true, false)); (5, (false, true))] [5] [] in
  memN 5 (t_released (notify s)) = false /\
  In (5, (true, false)) (t_spans s) /\ In (5, (false, true)) (t_spans s).
Proof. cbn. split; [vm_compute; reflexivity|]. split; [left; reflexivity|right; left; reflexivity]. Qed.

(* ---------------------------------------------------------------------------------------------- *)
(* 2. liveness                                                                                     *)
(* ---------------------------------------------------------------------------------------------- *)
(* where the close of x is: notice pending, or received (table), or x already released *)
Definition closeB (x : N) (s : tstate) : bool :=
  memN x (t_closes s) || snd (getv x (t_spans s)) || memN x (t_released s).
(* where the subscription to x is: pending, or registered (table), or x already released *)
Definition subB (x : N) (s : tstate) : bool :=
  memN x (t_waits s) || fst (getv x (t_spans s)) || memN x (t_released s).

Lemma memN_hd_tl x l : memN x l = hdB x l || memN x (tl l).
Proof. destruct l; reflexivity. Qed.

Lemma notify_closeB s x : NoDup (keys (t_spans s)) -> closeB x s = true -> closeB x (notify s) = true.
Proof.
  intros ND. unfold closeB. rewrite notify_closes, (notify_table _ _ ND), (notify_released _ _ ND), (memN_hd_tl x (t_closes s)).
  unfold subF, closeF.
  destruct (hdB x (t_closes s)), (memN x (tl (t_closes s))), (getv x (t_spans s)) as [[|] [|]], (memN x (t_released s)),
    (memN x (t_waits s)); cbn; intros H; try reflexivity; discriminate H.
Qed.

Lemma notify_subB s x : NoDup (keys (t_spans s)) -> subB x s = true -> subB x (notify s) = true.
Proof.
  intros ND. unfold subB. rewrite notify_waits, (notify_table _ _ ND), (notify_released _ _ ND).
  unfold subF, closeF.
  destruct (hdB x (t_closes s)), (getv x (t_spans s)) as [[|] [|]], (memN x (t_released s)),
    (memN x (t_waits s)); cbn; intros H; try reflexivity; discriminate H.
Qed.

(* the decisive step: subscribed, closed, and no notice of x waiting behind the head: this notify releases x *)
Lemma notify_releases s x : NoDup (keys (t_spans s)) ->
  subB x s = true -> closeB x s = true -> memN x (tl (t_closes s)) = false ->
  memN x (t_released (notify s)) = true.
Proof.
  intros ND. unfold subB, closeB. rewrite (notify_released _ _ ND), (memN_hd_tl x (t_closes s)).
  unfold subF, closeF.
  destruct (hdB x (t_closes s)), (memN x (tl (t_closes s))), (getv x (t_spans s)) as [[|] [|]], (memN x (t_released s)),
    (memN x (t_waits s)); cbn; intros H1 H2 H3; try reflexivity; discriminate.
Qed.

Lemma notify_released_mono s x : memN x (t_released s) = true -> memN x (t_released (notify s)) = true.
Proof. intros H. rewrite notify_eq. cbn [t_released]. rewrite memN_app, H. reflexivity. Qed.

(* ---- the forwarder loop = at least one notify, then more notifies; logs are irrelevant here ---- *)
Definition set_logs (lg : list log) (s : tstate) : tstate :=
  mk_ts lg (t_closes s) (t_waits s) (t_spans s) (t_closed s) (t_released s).

Lemma fwd_call_fst s : fst (fwd_call s) = set_logs (tl (t_logs s)) (notify s).
Proof.
  unfold fwd_call. rewrite <- (notify_logs s). destruct (notify s) as [lg cl ws sp cd rl]. cbn [t_logs].
  destruct lg as [|l t]; reflexivity.
Qed.

Lemma fwd_loop_S_fst k s :
  fst (fwd_loop (S k) s) = fst (fwd_call s) \/ fst (fwd_loop (S k) s) = fst (fwd_loop k (fst (fwd_call s))).
Proof.
  cbn [fwd_loop]. destruct (fwd_call s) as [s1 [o|]]; cbn [fst].
  - right. destruct (fwd_loop k s1); reflexivity.
  - left. reflexivity.
Qed.

Lemma fwd_loop_pres (P : tstate -> Prop) :
  (forall s, P s -> P (notify s)) -> (forall s lg, P s -> P (set_logs lg s)) ->
  forall fuel s, P s -> P (fst (fwd_loop fuel s)).
Proof.
  intros HN HL. induction fuel as [|k IH]; intros s HP; [exact HP|].
  assert (H1 : P (fst (fwd_call s))) by (rewrite fwd_call_fst; apply HL, HN, HP).
  destruct (fwd_loop_S_fst k s) as [-> | ->]; [exact H1|apply IH; exact H1].
Qed.

(* with positive fuel (TFwd always has) the loop runs notify at least once *)
Lemma fwd_loop_S_pres (P Q : tstate -> Prop) :
  (forall s, P s -> Q (notify s)) ->
  (forall s, Q s -> Q (notify s)) -> (forall s lg, Q s -> Q (set_logs lg s)) ->
  forall fuel s, P s -> Q (fst (fwd_loop (S fuel) s)).
Proof.
  intros HPQ HN HL fuel s HP.
  assert (H1 : Q (fst (fwd_call s))) by (rewrite fwd_call_fst; apply HL, HPQ, HP).
  destruct (fwd_loop_S_fst fuel s) as [-> | ->]; [exact H1|apply fwd_loop_pres; assumption].
Qed.

(* ---- what is known about ONE span x: unique keys, subscribed, closed ---- *)
Definition live (x : N) (s : tstate) : Prop :=
  NoDup (keys (t_spans s)) /\ subB x s = true /\ closeB x s = true.

Lemma live_notify x s : live x s -> live x (notify s).
Proof.
  intros (ND & SB & CB). split; [apply notify_keys, ND|]. split; [apply notify_subB | apply notify_closeB]; assumption.
Qed.
Lemma live_set_logs x s lg : live x s -> live x (set_logs lg s).
Proof. intros H. exact H. Qed.

Lemma tfwd_step s : tstep s TFwd = Some (fwd_loop (S (length (t_logs s))) s).
Proof. reflexivity. Qed.

Lemma skipn_S_tl {A} m (l : list A) : skipn m (tl l) = skipn (S m) l.
Proof. destruct l; [destruct m; reflexivity|reflexivity]. Qed.
Lemma skipn_tl {A} : forall m (l : list A), skipn (S m) l = tl (skipn m l).
Proof.
  induction m as [|m IH]; intros l; [destruct l; reflexivity|].
  destruct l as [|a l]; [reflexivity|]. cbn [skipn]. apply IH.
Qed.
Lemma memN_tl_false x l : memN x l = false -> memN x (tl l) = false.
Proof. rewrite memN_hd_tl. intros H. apply orb_false_elim in H as [_ H]. exact H. Qed.

(* the induction: every TFwd consumes at least one pending close notice, in order; once no notice of x is left
   behind the head, the next notify releases x.  `n` bounds the POSITION of x's notice in the queue. *)
Lemma live_released_pos x : forall n s s' o,
  live x s -> memN x (skipn (S n) (t_closes s)) = false ->
  texec s (repeat TFwd (S n)) = Some (s', o) -> memN x (t_released s') = true.
Proof.
  induction n as [|n IH]; intros s s' o LV LE H.
  - cbn [repeat texec] in H. rewrite tfwd_step in H.
    destruct (fwd_loop (S (length (t_logs s))) s) as [s1 o1] eqn:F. inversion H; subst s'. clear H.
    change s1 with (fst (s1, o1)). rewrite <- F.
    apply (fwd_loop_S_pres (fun s => live x s /\ memN x (tl (t_closes s)) = false) (fun s => memN x (t_released s) = true)).
    + intros s0 ((ND & SB & CB) & E). apply notify_releases; assumption.
    + intros s0. apply notify_released_mono.
    + intros s0 lg H0. exact H0.
    + split; [exact LV|]. rewrite <- LE. destruct (t_closes s); reflexivity.
  - change (repeat TFwd (S (S n))) with (TFwd :: repeat TFwd (S n)) in H. cbn [texec] in H. rewrite tfwd_step in H.
    destruct (fwd_loop (S (length (t_logs s))) s) as [s1 o1] eqn:F.
    destruct (texec s1 (repeat TFwd (S n))) as [[s2 o2]|] eqn:T; [|discriminate]. inversion H; subst s'. clear H.
    assert (H1 : live x s1 /\ memN x (skipn (S n) (t_closes s1)) = false).
    { change s1 with (fst (s1, o1)). rewrite <- F.
      apply (fwd_loop_S_pres (fun s => live x s /\ memN x (skipn (S (S n)) (t_closes s)) = false)
                             (fun s => live x s /\ memN x (skipn (S n) (t_closes s)) = false)).
      - intros s0 (L0 & E0). split; [apply live_notify, L0|]. rewrite notify_closes, skipn_S_tl. exact E0.
      - intros s0 (L0 & E0). split; [apply live_notify, L0|]. rewrite notify_closes, skipn_S_tl, skipn_tl.
        apply memN_tl_false, E0.
      - intros s0 lg H0. exact H0.
      - split; assumption. }
    destruct H1 as (L1 & E1). eapply IH; eassumption.
Qed.

Lemma live_released x n s s' o :
  live x s -> (length (t_closes s) <= n)%nat ->
  texec s (repeat TFwd (S n)) = Some (s', o) -> memN x (t_released s') = true.
Proof.
  intros LV LE. apply live_released_pos; [exact LV|]. rewrite skipn_all2; [reflexivity|lia].
Qed.

(* ---- the invariant of reachable states ---- *)
Definition linv (ls : list tlabel) (s : tstate) : Prop :=
  (* the table has one entry per span *)
  NoDup (keys (t_spans s)) /\
  (* a closed span: its notice is pending, or received, or the span has been released *)
  (forall x, memN x (t_closed s) = true -> closeB x s = true) /\
  (* a subscribed span: subscription pending, or registered, or the span has been released *)
  (forall x, In (TSub x) ls -> subB x s = true).

Lemma linv_init : linv [] tinit.
Proof. split; [constructor|]. split; [intros x H; discriminate H|intros x []]. Qed.

Lemma in_snoc_other x ls l : (forall y, l <> TSub y) -> In (TSub x) (ls ++ [l]) -> In (TSub x) ls.
Proof. intros NE H. apply in_app_or in H as [H|[E|[]]]; [exact H|]. exfalso. exact (NE x E). Qed.

Lemma tstep_linv ls s l s' o : linv ls s -> tstep s l = Some (s', o) -> linv (ls ++ [l]) s'.
Proof.
  intros (ND & C & SU) H. destruct l as [sc m y|y|y| |y]; cbn [tstep] in H.
  - (* TEmit *)
    destruct (memN y (t_closed s)); [discriminate|]. inversion H; subst. clear H.
    split; [exact ND|]. split; [exact C|]. intros x Hx. apply in_snoc_other in Hx; [exact (SU x Hx)|discriminate].
  - (* TClose *)
    destruct (memN y (t_closed s)); [discriminate|]. inversion H; subst. clear H.
    split; [exact ND|]. split.
    + intros x Hx. unfold closeB. cbn [t_closes t_spans t_released t_closed] in *. rewrite memN_app.
      change (memN x (y :: t_closed s)) with ((x =? y) || memN x (t_closed s)) in Hx.
      change (memN x [y]) with ((x =? y) || false).
      destruct (x =? y); [rewrite orb_true_r; reflexivity|]. cbn [orb] in Hx. specialize (C x Hx). unfold closeB in C.
      rewrite orb_false_r. exact C.
    + intros x Hx. apply in_snoc_other in Hx; [exact (SU x Hx)|discriminate].
  - (* TSub *)
    inversion H; subst. clear H.
    split; [exact ND|]. split; [exact C|].
    intros x Hx. unfold subB. cbn [t_waits t_spans t_released]. rewrite memN_app.
    apply in_app_or in Hx as [Hx|[E|[]]].
    + specialize (SU x Hx). unfold subB in SU. destruct (memN x (t_waits s)); [reflexivity|]. cbn [orb] in *.
      change (memN x [y]) with ((x =? y) || false). destruct (x =? y); [reflexivity|exact SU].
    + inversion E; subst. change (memN x [x]) with ((x =? x) || false). rewrite N.eqb_refl, orb_true_r. reflexivity.
  - (* TFwd *)
    assert (G : linv ls (fst (fwd_loop (S (length (t_logs s))) s))).
    { apply (fwd_loop_pres (linv ls)).
      - intros s0 (ND0 & C0 & S0). split; [apply notify_keys, ND0|]. split.
        + intros x Hx. rewrite notify_closed in Hx. apply notify_closeB; [exact ND0|exact (C0 x Hx)].
        + intros x Hx. apply notify_subB; [exact ND0|exact (S0 x Hx)].
      - intros s0 lg H0. exact H0.
      - split; [exact ND|]. split; [exact C|exact SU]. }
    destruct (fwd_loop (S (length (t_logs s))) s) as [s2 o2]. inversion H; subst. cbn [fst] in G.
    destruct G as (ND2 & C2 & S2). split; [exact ND2|]. split; [exact C2|].
    intros x Hx. apply in_snoc_other in Hx; [exact (S2 x Hx)|discriminate].
  - (* TResult *)
    destruct (memN y (t_released s)); [|discriminate]. inversion H; subst. clear H.
    split; [exact ND|]. split; [exact C|]. intros x Hx. apply in_snoc_other in Hx; [exact (SU x Hx)|discriminate].
Qed.

Lemma texec_linv : forall ls2 ls1 s s' o,
  linv ls1 s -> texec s ls2 = Some (s', o) -> linv (ls1 ++ ls2) s'.
Proof.
  induction ls2 as [|l t IH]; intros ls1 s s' o I H; cbn [texec] in H.
  - inversion H; subst. rewrite app_nil_r. exact I.
  - destruct (tstep s l) as [[s1 o1]|] eqn:S1; [|discriminate].
    destruct (texec s1 t) as [[s2 o2]|] eqn:S2; [|discriminate]. inversion H; subst.
    replace (ls1 ++ l :: t) with ((ls1 ++ [l]) ++ t) by (rewrite <- app_assoc; reflexivity).
    eapply IH; [eapply tstep_linv; eauto | exact S2].
Qed.

(* reachable states have one table entry per span (the side condition of `notify_released_iff`) *)
Theorem reachable_unique_keys ls s out : texec tinit ls = Some (s, out) -> NoDup (map fst (t_spans s)).
Proof. intros H. exact (proj1 (texec_linv ls [] tinit s out linv_init H)). Qed.

(* the forwarder can always run: the premise of the liveness theorem is never vacuous *)
Lemma texec_fwd_total : forall k s, exists s' o, texec s (repeat TFwd k) = Some (s', o).
Proof.
  induction k as [|k IH]; intros s; [exists s, []; reflexivity|].
  cbn [repeat texec]. rewrite tfwd_step. destruct (fwd_loop (S (length (t_logs s))) s) as [s1 o1].
  destruct (IH s1) as (s2 & o2 & E). rewrite E. eauto.
Qed.

(* 2. LIVENESS: in a reachable state, a span that has been closed and subscribed to (in either order, any number of
   subscriptions) is released after `length (t_closes s) + 1` runs of the forwarder — whatever else is queued *)
Theorem waiter_released ls s out x s' o :
  texec tinit ls = Some (s, out) ->
  memN x (t_closed s) = true ->
  In (TSub x) ls ->
  texec s (repeat TFwd (S (length (t_closes s)))) = Some (s', o) ->
  memN x (t_released s') = true.
Proof.
  intros HR HC HS HF.
  destruct (texec_linv ls [] tinit s out linv_init HR) as (ND & C & SU). cbn [app] in SU.
  eapply (live_released x (length (t_closes s)) s s' o); [|lia|exact HF].
  split; [exact ND|]. split; [exact (SU x HS)|exact (C x HC)].
Qed.

(* ... and it stays released with more runs: any k > length (t_closes s) will do *)
Theorem waiter_released_any ls s out x k s' o :
  texec tinit ls = Some (s, out) ->
  memN x (t_closed s) = true ->
  In (TSub x) ls ->
  (length (t_closes s) < k)%nat ->
  texec s (repeat TFwd k) = Some (s', o) ->
  memN x (t_released s') = true.
Proof.
  intros HR HC HS LT HF. destruct k as [|n]; [lia|].
  destruct (texec_linv ls [] tinit s out linv_init HR) as (ND & C & SU). cbn [app] in SU.
  eapply (live_released x n s s' o); [|lia|exact HF].
  split; [exact ND|]. split; [exact (SU x HS)|exact (C x HC)].
Qed.

(* the existential form: the release state exists and the waiter's `TResult` step is then enabled *)
Corollary waiter_can_resume ls s out x :
  texec tinit ls = Some (s, out) ->
  memN x (t_closed s) = true ->
  In (TSub x) ls ->
  exists s' o, texec s (repeat TFwd (S (length (t_closes s)))) = Some (s', o) /\
               tstep s' (TResult x) = Some (s', [TRes x]).
Proof.
  intros HR HC HS. destruct (texec_fwd_total (S (length (t_closes s))) s) as (s' & o & E).
  exists s', o. split; [exact E|]. cbn [tstep]. rewrite (waiter_released _ _ _ _ _ _ HR HC HS E). reflexivity.
Qed.

(* the bound by POSITION: if the notice of x is among the first n+1 pending ones (or x's close was received already),
   n+1 runs suffice *)
Theorem waiter_released_by_position ls s out x n s' o :
  texec tinit ls = Some (s, out) ->
  memN x (t_closed s) = true ->
  In (TSub x) ls ->
  memN x (skipn (S n) (t_closes s)) = false ->
  texec s (repeat TFwd (S n)) = Some (s', o) ->
  memN x (t_released s') = true.
Proof.
  intros HR HC HS HP HF.
  destruct (texec_linv ls [] tinit s out linv_init HR) as (ND & C & SU). cbn [app] in SU.
  eapply (live_released_pos x n s s' o); [|exact HP|exact HF].
  split; [exact ND|]. split; [exact (SU x HS)|exact (C x HC)].
Qed.

(* ---------------------------------------------------------------------------------------------- *)
(* 3. examples                                                                                     *)
(* ---------------------------------------------------------------------------------------------- *)
Definition released_after (ls : list tlabel) (x : N) : option bool :=
  match texec tinit ls with Some (s, _) => Some (memN x (t_released s)) | None => None end.

(* subscription BEFORE the close: the subscription waits in the table, the close releases it *)
Example sub_before_close : released_after [TSub 5; TClose 5; TFwd] 5 = Some true.
Proof. vm_compute. reflexivity. Qed.
(* ... also when the forwarder ran in between (the entry (5,(true,false)) sits in the table) *)
Example sub_fwd_close : released_after [TSub 5; TFwd; TClose 5] 5 = Some false /\
                        released_after [TSub 5; TFwd; TClose 5; TFwd] 5 = Some true.
Proof. vm_compute. split; reflexivity. Qed.
(* subscription AFTER the close *)
Example sub_after_close : released_after [TClose 5; TSub 5; TFwd] 5 = Some true.
Proof. vm_compute. reflexivity. Qed.
Example close_fwd_sub : released_after [TClose 5; TFwd; TSub 5] 5 = Some false /\
                        released_after [TClose 5; TFwd; TSub 5; TFwd] 5 = Some true.
Proof. vm_compute. split; reflexivity. Qed.
(* two spans closed in a row, no logs: ONE run handles one notice only, the second span needs a second run — the bound
   `length (t_closes s) + 1` is not slack by more than one *)
Example two_closes_need_two_runs :
  released_after [TSub 5; TSub 6; TClose 5; TClose 6; TFwd] 5 = Some true /\
  released_after [TSub 5; TSub 6; TClose 5; TClose 6; TFwd] 6 = Some false /\
  released_after [TSub 5; TSub 6; TClose 5; TClose 6; TFwd; TFwd] 6 = Some true.
Proof. vm_compute. repeat split; reflexivity. Qed.
(* ... unless logs are queued: each forwarded log is one more notify *)
Example two_closes_one_run_with_a_log :
  released_after [TEmit 1 1 5; TSub 5; TSub 6; TClose 5; TClose 6; TFwd] 6 = Some true.
Proof. vm_compute. reflexivity. Qed.
(* a double subscription, and a subscription after the release, are harmless *)
Example double_subscription : released_after [TSub 5; TSub 5; TClose 5; TFwd; TSub 5; TFwd] 5 = Some true.
Proof. vm_compute. reflexivity. Qed.
(* without a subscription nothing is released; without the close neither *)
Example no_sub_no_release : released_after [TClose 5; TFwd; TFwd] 5 = Some false.
Proof. vm_compute. reflexivity. Qed.
Example no_close_no_release : released_after [TSub 5; TFwd; TFwd] 5 = Some false.
Proof. vm_compute. reflexivity. Qed.

(* the theorem applied to a concrete run *)
Example waiter_released_instance :
  exists s' o, texec tinit ([TSub 5; TSub 6; TClose 5; TClose 6] ++ repeat TFwd 3) = Some (s', o) /\
               memN 6 (t_released s') = true /\ memN 5 (t_released s') = true.
Proof. vm_compute. eexists _, _. split; [reflexivity|]. split; reflexivity. Qed.
