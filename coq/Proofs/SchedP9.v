(* SchedP9.v — the events of ONE attempt inside any interleaving: the projection of the emitted stream on an
   attempt key is exactly what that attempt's own labels say, in order. Composed with Attempt.v this gives the
   canonical per-attempt sequence (C02) for every schedule of the scheduler model. *)
From CV Require Import Model.Base Model.Events Model.Sched
  Proofs.BaseP Proofs.SchedP Proofs.SchedP2 Proofs.SchedP3 Proofs.SchedP4 Proofs.SchedP5 Proofs.SchedP7.

Definition lab_evs (k : akey) (ls : list label) : list scev :=
  flat_map (fun l => match l with
                     | LAttStart k' => if akey_eqb k k' then [ScStarted] else []
                     | LAttEv k' x => if akey_eqb k k' then [x] else []
                     | LAttEnd k' _ => if akey_eqb k k' then [ScFinished] else []
                     | _ => [] end) ls.
Definition out_evs (k : akey) (tr : list ev) : list scev :=
  flat_map (fun e => match e with
                     | EvScen _ _ s rt x => if akey_eqb k (s, cur_of rt) then [x] else []
                     | _ => [] end) tr.

Lemma out_evs_app k a b : out_evs k (a ++ b) = out_evs k a ++ out_evs k b.
Proof. apply flat_map_app. Qed.
Lemma out_evs_brk k o : all_brk o -> out_evs k o = [].
Proof.
  induction 1 as [|e t He Ht IH]; [reflexivity|]. unfold out_evs in *. cbn [flat_map]. rewrite IH.
  destruct e; try reflexivity. discriminate He.
Qed.
Lemma out_evs_scen k e x : out_evs k [scen_ev e x] = if akey_eqb k (key_of e) then [x] else [].
Proof. unfold out_evs, scen_ev, key_of. cbn [flat_map]. rewrite app_nil_r. reflexivity. Qed.

Lemma step_proj c s l s' o k : step c s l = Some (s', o) -> out_evs k o = lab_evs k [l].
Proof.
  intros ST. unfold lab_evs. cbn [flat_map]. rewrite app_nil_r.
  destruct l as [F|id| | |k0|k0 x|k0 failed|d]; cbn [step] in ST.
  - destruct (perrs s); [discriminate|]. inversion ST; subst. reflexivity.
  - destruct (perrs s); [discriminate|]. destruct (pf s) as [[[[a b] c0] d] e]. inversion ST; subst. reflexivity.
  - destruct (pdone s); [discriminate|]. destruct (pf s) as [[[[a b] c0] d] e]. inversion ST; subst. reflexivity.
  - destruct (pc s).
    + set (s0 := mk_st _ _ _ _ _ _ _ _ _ _ _ _ _) in ST. pose proof (loop_top_brk s0) as LB.
      destruct (loop_top s0) as [s1 o1]. inversion ST; subst. cbn [snd] in LB.
      change (EvStarted :: o1) with ([EvStarted] ++ o1). rewrite out_evs_app, (out_evs_brk k o1 LB). reflexivity.
    + destruct (remove_ended (running s)) as [r|]; [|discriminate].
      pose proof (drain_brk (cf_fail_fast c) (msgs s) (add_slot (flow s)) (fcount s) (rcount s)) as DB.
      destruct (drain (cf_fail_fast c) (msgs s) (add_slot (flow s)) (fcount s) (rcount s)) as [[[o1 fl] fc] rc].
      set (s1 := upd s _ _ _ _ _ _ _ _ _) in ST. pose proof (loop_top_brk s1) as LB.
      destruct (loop_top s1) as [s2 o2]. inversion ST; subst. cbn [fst snd] in *.
      rewrite out_evs_app, (out_evs_brk k _ DB), (out_evs_brk k _ LB). reflexivity.
    + pose proof (loop_top_brk s) as LB. destruct (loop_top s) as [s2 o2]. inversion ST; subst. cbn [snd] in LB.
      exact (out_evs_brk k _ LB).
    + discriminate.
  - destruct (set_phase k0 Dispatched Opened (running s)) as [[e r]|] eqn:SP; [|discriminate]. inversion ST as [[E1 E2]]. clear ST. subst s' o.
    destruct (set_phase_shape _ _ _ _ _ _ SP) as (l1 & l2 & _ & _ & KE & _). rewrite out_evs_scen, KE. reflexivity.
  - destruct (is_middle x); [|discriminate]. destruct (find_open k0 (running s)) as [e|] eqn:FO; [|discriminate].
    inversion ST as [[E1 E2]]. clear ST. destruct (find_open_in _ _ _ FO) as [_ KE]. rewrite out_evs_scen, KE. reflexivity.
  - destruct (set_phase k0 Opened Ended (running s)) as [[e r]|] eqn:SP; [|discriminate].
    destruct (set_phase_shape _ _ _ _ _ _ SP) as (l1 & l2 & _ & _ & KE & _).
    destruct (next_try e failed (now s)) as [e'|]; [destruct (e_serial e')|]; inversion ST as [[E1 E2]]; clear ST;
      rewrite out_evs_scen, KE; reflexivity.
  - inversion ST; subst. reflexivity.
Qed.

Lemma lab_evs_cons k l t : lab_evs k (l :: t) = lab_evs k [l] ++ lab_evs k t.
Proof. unfold lab_evs. cbn [flat_map]. rewrite app_nil_r. reflexivity. Qed.

Theorem exec_from_proj c k : forall ls s s' o, exec_from c s ls = Some (s', o) -> out_evs k o = lab_evs k ls.
Proof.
  induction ls as [|l t IH]; intros s s' o H; cbn [exec_from] in H.
  - inversion H; subst. reflexivity.
  - destruct (step c s l) as [[s1 o1]|] eqn:S1; [|discriminate].
    destruct (exec_from c s1 t) as [[s2 o2]|] eqn:S2; [|discriminate]. inversion H; subst.
    rewrite out_evs_app, lab_evs_cons, (step_proj _ _ _ _ _ k S1), (IH _ _ _ S2). reflexivity.
Qed.

(* the events of attempt k in the stream of ANY run = what the labels of attempt k say, in order *)
Theorem attempt_projection c ls s tr k : exec c ls = Some (s, tr) -> out_evs k tr = lab_evs k ls.
Proof. apply exec_from_proj. Qed.
