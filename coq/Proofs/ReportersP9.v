(* ReportersP9.v — C14, the CONTAINERS of the Cucumber-JSON report and the SUITES of the JUnit report of the model are
   exactly those of the run (Model/ReportersSpec5.v), under the hypotheses of the whole-document theorems
   `C14_json_whole_document` (ReportersP2) resp. `C14_junit_whole_document` (ReportersP4; the no-skipped hypothesis is not
   needed here).
   Part A: JSON — containers as a multiset (A1), hooks stand in scenario elements (A2), uri flags (A3), the theorem (A4).
   Part B: JUnit — feature suites and Errors suites.
   Part C: findings (two clauses of the task are false for the model and were weakened) and the reviewer's witnesses
           (1)-(5): accepted by the old predicates, rejected by the new ones.
   No axioms. *)
From CV Require Import Model.Base Model.Events Model.Contract Model.Stats Model.StatsSpec Model.Reporters Model.ReportersSpec
  Model.ReportersSpec2 Model.ReportersSpec3 Model.ReportersSpec5 Proofs.BaseP Proofs.ReportersP2 Proofs.ReportersP4
  Proofs.ReportersP6.
From Coq Require Import Lia Permutation.

(* ================================================================================================ *)
(* Part A: Cucumber JSON                                                                             *)
(* ================================================================================================ *)

(* ---- generic helpers ---- *)
Lemma once_In x : forall l, In x (once l) <-> In x l.
Proof.
  induction l as [|y t IH]; [reflexivity|]. cbn [once]. destruct (existsb (fact_eqb y) t) eqn:E.
  - rewrite IH. split; [intros HI; right; exact HI|]. intros [HE|HI]; [|exact HI]. subst y.
    apply existsb_exists in E as (z & HI & HE). apply fact_eqb_eq in HE. subst z. exact HI.
  - cbn [In]. rewrite IH. reflexivity.
Qed.
Lemma once_NoDup : forall l, NoDup (once l).
Proof.
  induction l as [|y t IH]; [constructor|]. cbn [once]. destruct (existsb (fact_eqb y) t) eqn:E; [exact IH|].
  constructor; [|exact IH]. intros HI. apply (proj1 (once_In y t)) in HI.
  assert (X : existsb (fact_eqb y) t = true).
  { apply existsb_exists. exists y. split; [exact HI|]. apply fact_eqb_eq. reflexivity. }
  rewrite X in E. discriminate E.
Qed.

Lemma perm_filter_split {A} (p : A -> bool) : forall l,
  Permutation l (filter p l ++ filter (fun x => negb (p x)) l).
Proof.
  induction l as [|x t IH]; [constructor|]. cbn [filter]. destruct (p x); cbn [negb app].
  - constructor. exact IH.
  - apply Permutation_cons_app. exact IH.
Qed.

Lemma forallb_map_all {A B} (p : B -> bool) (h : A -> B) l : (forall a, p (h a) = true) -> forallb p (map h l) = true.
Proof. intros H. induction l as [|a t IH]; [reflexivity|]. cbn [map forallb]. rewrite H, IH. reflexivity. Qed.

(* ---- the containers of a STRUCTURED document, pseudo features included ---- *)
Definition feat_conts5 (jf : jfeat) : list fact := feat_key (jf_fid jf) :: map (el_cont (jf_fid jf)) (jf_els jf).
Definition conts5 (fs : list jfeat) : list fact := flat_map feat_conts5 fs.

Lemma jc5_hooks cf b l rest : json_containers5 cf (map (fun x => RJHook b x) l ++ rest) = json_containers5 cf rest.
Proof. induction l as [|x l IH]; [reflexivity|]. cbn [map app json_containers5]. exact IH. Qed.
Lemma jc5_steps cf l rest :
  json_containers5 cf (map (fun ls => RJStep (fst ls) (snd ls)) l ++ rest) = json_containers5 cf rest.
Proof. induction l as [|x l IH]; [reflexivity|]. cbn [map app json_containers5]. exact IH. Qed.
Lemma jc5_els fid els rest :
  json_containers5 (Some fid) (flat_map el_flat els ++ rest) = map (el_cont fid) els ++ json_containers5 (Some fid) rest.
Proof.
  induction els as [|el t IH]; [reflexivity|].
  cbn [flat_map]. unfold el_flat at 1. cbn [app json_containers5 map].
  rewrite <- !app_assoc, jc5_hooks, jc5_steps, jc5_hooks, IH. reflexivity.
Qed.
Lemma jc5_flatten : forall fs cf, json_containers5 cf (flatten_json fs) = conts5 fs.
Proof.
  induction fs as [|jf t IH]; intros cf; [reflexivity|].
  rewrite flatten_cons. cbn [app json_containers5]. rewrite jc5_els.
  (* the rest starts with a feature line (or is empty): the feature in force does not matter *)
  rewrite (IH (Some (jf_fid jf))). reflexivity.
Qed.

(* the part with a non-zero feature id is `ReportersP2.conts` *)
Definition isz (x : fact) : bool := nth 1 x 0 =? 0.
Definition nz (x : fact) : bool := negb (isz x).

Lemma el_cont_nth1 fid el : nth 1 (el_cont fid el) 0 = fid.
Proof. reflexivity. Qed.

Lemma filter_map_all {A} (p : fact -> bool) (h : A -> fact) l : (forall a, p (h a) = true) -> filter p (map h l) = map h l.
Proof. intros H. induction l as [|a t IH]; [reflexivity|]. cbn [map filter]. rewrite H, IH. reflexivity. Qed.
Lemma filter_map_none {A} (p : fact -> bool) (h : A -> fact) l : (forall a, p (h a) = false) -> filter p (map h l) = [].
Proof. intros H. induction l as [|a t IH]; [reflexivity|]. cbn [map filter]. rewrite H. exact IH. Qed.

Lemma filter_nz_feat jf : filter nz (feat_conts5 jf) = feat_conts jf.
Proof.
  unfold feat_conts5, feat_conts, feat_key. cbn [filter]. unfold nz at 1, isz at 1. cbn [nth].
  destruct (jf_fid jf =? 0) eqn:Z; cbn [negb].
  - apply filter_map_none. intros el. unfold nz, isz. rewrite el_cont_nth1, Z. reflexivity.
  - f_equal. apply filter_map_all. intros el. unfold nz, isz. rewrite el_cont_nth1, Z. reflexivity.
Qed.
Lemma filter_nz_conts5 fs : filter nz (conts5 fs) = conts fs.
Proof.
  unfold conts5, conts. rewrite filter_flat_map. induction fs as [|jf t IH]; [reflexivity|].
  cbn [flat_map]. rewrite filter_nz_feat, IH. reflexivity.
Qed.
Lemma filter_z_feat jf : jf_fid jf <> 0 -> filter isz (feat_conts5 jf) = [].
Proof.
  intros Z. apply N.eqb_neq in Z. unfold feat_conts5, feat_key. cbn [filter]. unfold isz at 1. cbn [nth]. rewrite Z.
  apply filter_map_none. intros el. unfold isz. rewrite el_cont_nth1. exact Z.
Qed.

(* the update functions of `json_handle` keep the key of the element *)
Definition good (el : jel) : Prop := je_ty el = 0 \/ (je_before el = [] /\ je_after el = []).
(* ... and, for the element type they are applied to, keep "hooks only in scenario elements" *)
Definition gok (ty : N) (g : jel -> jel) : Prop := forall el, je_ty el = ty -> good el -> good (g el).

Section J9.
  Variable has_path : N -> bool.

  (* one analysis of `json_handle`, used three times: an event is ignored, or is a parser error, or updates ONE element *)
  Lemma json_handle_cases fs e :
    (json_handle has_path fs e = fs /\ ev_containers e = [] /\ ev_pseudo_containers e = []) \/
    (exists i, e = EvParseErr i) \/
    (exists f r s rt x ty g,
        e = EvScen f r s rt x /\ json_handle has_path fs e = upd_feat has_path fs f r s ty g /\ keeps g /\ gok ty g /\
        ev_containers e = [feat_key f; el_key f r s ty] /\ ev_pseudo_containers e = []).
  Proof.
    destruct e as [|fe re se ste er|id| |f|f|f r|f r|f r s rt x]; try (left; repeat split; reflexivity).
    - right. left. exists id. reflexivity.
    - destruct x as [|b h|st y|st y|m|]; try (left; repeat split; reflexivity).
      + destruct h as [| |p]; [left; repeat split; reflexivity| |].
        * right. right. exists f, r, s, rt, (ScHook b HPassed), 0. eexists. split; [reflexivity|].
          split; [cbn [json_handle]; reflexivity|]. split; [|split; [|split; reflexivity]].
          -- intros el. destruct b; cbn [je_rid je_sid je_ty]; auto.
          -- intros el T _. left. destruct b; cbn [je_ty]; exact T.
        * right. right. exists f, r, s, rt, (ScHook b (HFailed p)), 0. eexists. split; [reflexivity|].
          split; [cbn [json_handle]; reflexivity|]. split; [|split; [|split; reflexivity]].
          -- intros el. destruct b; cbn [je_rid je_sid je_ty]; auto.
          -- intros el T _. left. destruct b; cbn [je_ty]; exact T.
      + right. right. exists f, r, s, rt, (ScBg st y), 1. eexists. split; [reflexivity|].
        split; [cbn [json_handle]; reflexivity|]. split; [|split; [|split; reflexivity]].
        * intros el. destruct y; cbn [je_rid je_sid je_ty]; auto.
        * intros el _ G. destruct y; [exact G| | |]; (destruct G as [G|G]; [left; exact G|right; exact G]).
      + right. right. exists f, r, s, rt, (ScStep st y), 0. eexists. split; [reflexivity|].
        split; [cbn [json_handle]; reflexivity|]. split; [|split; [|split; reflexivity]].
        * intros el. destruct y; cbn [je_rid je_sid je_ty]; auto.
        * intros el _ G. destruct y; [exact G| | |]; (destruct G as [G|G]; [left; exact G|right; exact G]).
  Qed.

  (* ============================================================================================== *)
  (* A1. the containers, as a multiset                                                               *)
  (* ============================================================================================== *)
  (* membership: an update adds (at most) the feature and the element it addresses, and loses nothing *)
  Lemma upd_el_in fid els r s ty g x : keeps g ->
    In x (map (el_cont fid) (upd_el els r s ty g)) <-> In x (map (el_cont fid) els) \/ x = el_cont' fid r s ty.
  Proof.
    intros K. induction els as [|el t IH].
    - cbn [upd_el map In]. unfold el_cont. destruct (K (mk_jel r s ty [] [] [])) as (-> & -> & ->).
      cbn [je_rid je_sid je_ty]. split; [intros [HE|[]]; right; symmetry; exact HE|intros [[]|HE]; left; symmetry; exact HE].
    - cbn [upd_el]. destruct (jel_matches el r s ty) eqn:M.
      + unfold jel_matches in M. apply andb_true_iff in M as [M M3]. apply andb_true_iff in M as [M1 M2].
        apply (option_eqb_spec N.eqb N.eqb_eq) in M1. apply N.eqb_eq in M2. apply N.eqb_eq in M3.
        cbn [map In]. unfold el_cont at 1 3. destruct (K el) as (-> & -> & ->). rewrite M1, M2, M3.
        split; [intros HI; left; exact HI|]. intros [HI|HE]; [exact HI|left; symmetry; exact HE].
      + cbn [map In]. rewrite IH. tauto.
  Qed.

  Lemma upd_feat_in fs f r s ty g x : keeps g ->
    In x (conts5 (upd_feat has_path fs f r s ty g)) <-> In x (conts5 fs) \/ x = feat_key f \/ x = el_cont' f r s ty.
  Proof.
    intros K. induction fs as [|jf t IH].
    - cbn [upd_feat]. unfold conts5. cbn [flat_map]. rewrite app_nil_r. unfold feat_conts5. cbn [jf_fid jf_els In].
      rewrite (upd_el_in f [] r s ty g x K). cbn [map In].
      split; [intros [HE|[[]|HE]]; right; [left; symmetry; exact HE|right; exact HE]
             |intros [[]|[HE|HE]]; [left; symmetry; exact HE|right; right; exact HE]].
    - cbn [upd_feat]. destruct (jfeat_matches has_path jf f) eqn:M.
      + unfold jfeat_matches in M. apply andb_true_iff in M as [_ M]. apply N.eqb_eq in M.
        unfold conts5. cbn [flat_map]. fold (conts5 t). rewrite !in_app_iff. unfold feat_conts5. cbn [jf_fid jf_els In].
        rewrite (upd_el_in (jf_fid jf) (jf_els jf) r s ty g x K). rewrite M. unfold feat_key. intuition (subst; auto).
      + unfold conts5. cbn [flat_map]. fold (conts5 t). fold (conts5 (upd_feat has_path t f r s ty g)).
        rewrite !in_app_iff, IH. tauto.
  Qed.

  Lemma conts5_app a b : conts5 (a ++ b) = conts5 a ++ conts5 b.
  Proof. apply flat_map_app. Qed.

  Lemma json_handle_in fs e x :
    In x (conts5 (json_handle has_path fs e)) <->
    In x (conts5 fs) \/ In x (ev_containers e) \/ In x (ev_pseudo_containers e).
  Proof.
    destruct (json_handle_cases fs e) as [(-> & -> & ->)|[(i & ->)|(f & r & s & rt & y & ty & g & -> & -> & K & _ & -> & ->)]].
    - cbn [In]. tauto.
    - cbn [json_handle ev_containers ev_pseudo_containers]. rewrite conts5_app, in_app_iff.
      change (conts5 [mk_jfeat false 0 [mk_jel None 0 0 [(i, 1)] [] []]]) with [feat_key 0; el_key 0 None 0 0].
      cbn [In]. tauto.
    - rewrite (upd_feat_in fs f r s ty g x K). cbn [In]. unfold el_key, el_cont'. intuition (subst; auto).
  Qed.

  Lemma fold_handle_in x : forall es fs,
    In x (conts5 (fold_left (json_handle has_path) es fs)) <->
    In x (conts5 fs) \/ In x (flat_map ev_containers es) \/ In x (flat_map ev_pseudo_containers es).
  Proof.
    induction es as [|e t IH]; intros fs; [cbn [fold_left flat_map In]; tauto|].
    cbn [fold_left flat_map]. rewrite IH, json_handle_in, !in_app_iff. tauto.
  Qed.

  (* the pseudo part: one feature and one element per parser error, nothing else *)
  Lemma upd_feat_z fs f r s ty g : f <> 0 ->
    filter isz (conts5 (upd_feat has_path fs f r s ty g)) = filter isz (conts5 fs).
  Proof.
    intros Z. induction fs as [|jf t IH].
    - cbn [upd_feat]. unfold conts5. cbn [flat_map]. rewrite app_nil_r. apply filter_z_feat. exact Z.
    - cbn [upd_feat]. destruct (jfeat_matches has_path jf f) eqn:M.
      + unfold jfeat_matches in M. apply andb_true_iff in M as [_ M]. apply N.eqb_eq in M.
        unfold conts5. cbn [flat_map]. rewrite !filter_app. f_equal.
        rewrite !filter_z_feat; [reflexivity|rewrite M; exact Z|cbn [jf_fid]; rewrite M; exact Z].
      + unfold conts5. cbn [flat_map]. rewrite !filter_app. f_equal. exact IH.
  Qed.

  Lemma json_handle_z fs e : ev_fid_nz e = true ->
    filter isz (conts5 (json_handle has_path fs e)) = filter isz (conts5 fs) ++ ev_pseudo_containers e.
  Proof.
    intros NZ.
    destruct (json_handle_cases fs e) as [(-> & _ & ->)|[(i & ->)|(f & r & s & rt & y & ty & g & -> & -> & _ & _ & _ & ->)]].
    - rewrite app_nil_r. reflexivity.
    - cbn [json_handle ev_pseudo_containers]. rewrite conts5_app, filter_app. reflexivity.
    - cbn [ev_fid_nz] in NZ. apply negb_true_iff, N.eqb_neq in NZ. rewrite app_nil_r. apply upd_feat_z. exact NZ.
  Qed.

  Lemma fold_handle_z : forall es fs, fids_nonzero es = true ->
    filter isz (conts5 (fold_left (json_handle has_path) es fs)) = filter isz (conts5 fs) ++ flat_map ev_pseudo_containers es.
  Proof.
    induction es as [|e t IH]; intros fs NZ; [cbn [fold_left flat_map]; rewrite app_nil_r; reflexivity|].
    unfold fids_nonzero in NZ. cbn [forallb] in NZ. apply andb_true_iff in NZ as [NZ1 NZ2].
    cbn [fold_left flat_map]. rewrite (IH _ NZ2), (json_handle_z fs e NZ1), <- app_assoc. reflexivity.
  Qed.

  (* the containers an event asks for have the feature id of the event; those of a parser error have 0 *)
  Lemma ev_containers_nz e x : ev_fid_nz e = true -> In x (ev_containers e) -> nz x = true.
  Proof.
    intros NZ HI. destruct e as [|fe re se ste er|id| |f|f|f r|f r|f r s rt y]; cbn [ev_containers In] in HI; try contradiction.
    cbn [ev_fid_nz] in NZ.
    assert (X : forall ty, In x [feat_key f; el_key f r s ty] -> nz x = true).
    { intros ty [<-|[<-|[]]]; exact NZ. }
    destruct y as [|b h|st y|st y|m|]; cbn [ev_containers In] in HI; try contradiction;
      [destruct h; cbn [ev_containers In] in HI; try contradiction| |]; apply (X _ HI).
  Qed.
  Lemma flat_containers_nz x : forall es, fids_nonzero es = true -> In x (flat_map ev_containers es) -> nz x = true.
  Proof.
    induction es as [|e t IH]; intros NZ HI; [destruct HI|].
    unfold fids_nonzero in NZ. cbn [forallb] in NZ. apply andb_true_iff in NZ as [NZ1 NZ2].
    cbn [flat_map] in HI. apply in_app_iff in HI as [HI|HI]; [exact (ev_containers_nz e x NZ1 HI)|exact (IH NZ2 HI)].
  Qed.
  Lemma flat_pseudo_z x : forall es, In x (flat_map ev_pseudo_containers es) -> nz x = false.
  Proof.
    induction es as [|e t IH]; intros HI; [destruct HI|].
    cbn [flat_map] in HI. apply in_app_iff in HI as [HI|HI]; [|exact (IH HI)].
    destruct e; cbn [ev_pseudo_containers In] in HI; try contradiction. destruct HI as [<-|[<-|[]]]; reflexivity.
  Qed.

  (* A1: the containers of the structured document built from ANY event list with non-zero feature ids and features
     with a path: each feature / element that some event addresses exactly once, one pseudo pair per parser error *)
  Theorem json_containers_invariant handled :
    fids_nonzero handled = true -> fids_have_path has_path handled = true ->
    Permutation (once (flat_map ev_containers handled) ++ flat_map ev_pseudo_containers handled)
                (json_containers5 None (flatten_json (fold_left (json_handle has_path) handled []))).
  Proof.
    intros NZ HP. rewrite jc5_flatten. set (F := fold_left (json_handle has_path) handled []).
    apply perm_trans with (filter nz (conts5 F) ++ filter (fun x => negb (nz x)) (conts5 F));
      [|apply Permutation_sym, perm_filter_split].
    apply Permutation_app.
    - rewrite filter_nz_conts5. apply NoDup_Permutation.
      + apply once_NoDup.
      + exact (proj1 (fold_handle_cinv has_path handled [] HP cinv_nil)).
      + intros x. rewrite once_In, <- filter_nz_conts5, filter_In. unfold F. rewrite fold_handle_in. cbn [conts5 flat_map In].
        split.
        * intros HI. split; [right; left; exact HI|exact (flat_containers_nz x handled NZ HI)].
        * intros [[[]|[HI|HI]] Z]; [exact HI|]. rewrite (flat_pseudo_z x handled HI) in Z. discriminate Z.
    - assert (E : filter (fun x => negb (nz x)) (conts5 F) = filter isz (conts5 F)).
      { apply filter_ext. intros x. unfold nz. apply negb_involutive. }
      rewrite E. unfold F. rewrite (fold_handle_z handled [] NZ). apply Permutation_refl.
  Qed.

  (* ============================================================================================== *)
  (* A2. every hook entry stands in a scenario element                                               *)
  (* ============================================================================================== *)
  Definition hinv (fs : list jfeat) : Prop := Forall (fun jf => Forall good (jf_els jf)) fs.

  Lemma upd_el_good els r s ty g : gok ty g -> Forall good els -> Forall good (upd_el els r s ty g).
  Proof.
    intros G. induction els as [|el t IH]; intros H.
    - cbn [upd_el]. constructor; [|constructor]. apply G; [reflexivity|]. right. split; reflexivity.
    - apply Forall_cons_iff in H as [H1 H2]. cbn [upd_el]. destruct (jel_matches el r s ty) eqn:M.
      + unfold jel_matches in M. apply andb_true_iff in M as [_ M3]. apply N.eqb_eq in M3.
        constructor; [exact (G el M3 H1)|exact H2].
      + constructor; [exact H1|exact (IH H2)].
  Qed.
  Lemma upd_feat_hinv fs f r s ty g : gok ty g -> hinv fs -> hinv (upd_feat has_path fs f r s ty g).
  Proof.
    intros G. induction fs as [|jf t IH]; intros H.
    - cbn [upd_feat]. constructor; [|constructor]. cbn [jf_els]. apply upd_el_good; [exact G|constructor].
    - apply Forall_cons_iff in H as [H1 H2]. cbn [upd_feat]. destruct (jfeat_matches has_path jf f).
      + constructor; [cbn [jf_els]; exact (upd_el_good _ r s ty g G H1)|exact H2].
      + constructor; [exact H1|exact (IH H2)].
  Qed.
  Lemma json_handle_hinv fs e : hinv fs -> hinv (json_handle has_path fs e).
  Proof.
    intros H.
    destruct (json_handle_cases fs e) as [(-> & _)|[(i & ->)|(f & r & s & rt & y & ty & g & -> & -> & _ & G & _)]].
    - exact H.
    - cbn [json_handle]. apply Forall_app. split; [exact H|]. constructor; [|constructor]. cbn [jf_els].
      constructor; [|constructor]. left. reflexivity.
    - apply upd_feat_hinv; assumption.
  Qed.
  Lemma fold_handle_hinv : forall es fs, hinv fs -> hinv (fold_left (json_handle has_path) es fs).
  Proof. induction es as [|e t IH]; intros fs H; [exact H|]. cbn [fold_left]. apply IH, json_handle_hinv, H. Qed.

  Lemma his_hooks0 b l rest :
    hooks_in_scenario_elements (Some 0) (map (fun x => RJHook b x) l ++ rest) = hooks_in_scenario_elements (Some 0) rest.
  Proof. induction l as [|x l IH]; [reflexivity|]. cbn [map app hooks_in_scenario_elements]. exact IH. Qed.
  Lemma his_steps ty l rest :
    hooks_in_scenario_elements ty (map (fun ls => RJStep (fst ls) (snd ls)) l ++ rest) = hooks_in_scenario_elements ty rest.
  Proof. induction l as [|x l IH]; [reflexivity|]. cbn [map app hooks_in_scenario_elements]. exact IH. Qed.

  Lemma his_els rest : (forall ty, hooks_in_scenario_elements ty rest = true) ->
    forall els, Forall good els -> forall ty, hooks_in_scenario_elements ty (flat_map el_flat els ++ rest) = true.
  Proof.
    intros HR. induction els as [|el t IH]; intros H ty; [apply HR|].
    apply Forall_cons_iff in H as [[G|[G1 G2]] H2]; cbn [flat_map]; unfold el_flat at 1;
      cbn [app hooks_in_scenario_elements]; rewrite <- !app_assoc.
    - rewrite G, his_hooks0, his_steps, his_hooks0. exact (IH H2 _).
    - rewrite G1, G2. cbn [map app]. rewrite his_steps. exact (IH H2 _).
  Qed.
  Lemma his_flatten : forall fs, hinv fs -> forall ty, hooks_in_scenario_elements ty (flatten_json fs) = true.
  Proof.
    induction fs as [|jf t IH]; intros H ty; [reflexivity|]. apply Forall_cons_iff in H as [H1 H2].
    rewrite flatten_cons. cbn [app hooks_in_scenario_elements]. apply his_els; [exact (IH H2)|exact H1].
  Qed.

  (* A2, for EVERY event list *)
  Theorem json_hooks_in_scenario_elements handled :
    hooks_in_scenario_elements None (flatten_json (fold_left (json_handle has_path) handled [])) = true.
  Proof. apply his_flatten. apply fold_handle_hinv. constructor. Qed.

  (* ============================================================================================== *)
  (* A3. the uri flags                                                                               *)
  (* ============================================================================================== *)
  Definition uok (jf : jfeat) : Prop := uri_flag_ok has_path (RJFeature (jf_uri jf) (jf_fid jf)) = true.

  Lemma upd_feat_uok fs f r s ty g : f <> 0 -> Forall uok fs -> Forall uok (upd_feat has_path fs f r s ty g).
  Proof.
    intros Z. induction fs as [|jf t IH]; intros H.
    - cbn [upd_feat]. constructor; [|constructor]. unfold uok, uri_flag_ok. cbn [jf_uri jf_fid].
      apply N.eqb_neq in Z. rewrite Z. apply eqb_reflx.
    - apply Forall_cons_iff in H as [H1 H2]. cbn [upd_feat]. destruct (jfeat_matches has_path jf f).
      + constructor; [exact H1|exact H2].
      + constructor; [exact H1|exact (IH H2)].
  Qed.
  Lemma json_handle_uok fs e : ev_fid_nz e = true -> Forall uok fs -> Forall uok (json_handle has_path fs e).
  Proof.
    intros NZ H.
    destruct (json_handle_cases fs e) as [(-> & _)|[(i & ->)|(f & r & s & rt & y & ty & g & -> & -> & _)]].
    - exact H.
    - cbn [json_handle]. apply Forall_app. split; [exact H|]. constructor; [reflexivity|constructor].
    - cbn [ev_fid_nz] in NZ. apply negb_true_iff, N.eqb_neq in NZ. apply upd_feat_uok; assumption.
  Qed.
  Lemma fold_handle_uok : forall es fs, fids_nonzero es = true -> Forall uok fs ->
    Forall uok (fold_left (json_handle has_path) es fs).
  Proof.
    induction es as [|e t IH]; intros fs NZ H; [exact H|].
    unfold fids_nonzero in NZ. cbn [forallb] in NZ. apply andb_true_iff in NZ as [NZ1 NZ2].
    cbn [fold_left]. apply (IH _ NZ2), json_handle_uok; assumption.
  Qed.

  Lemma uri_el_flat el : uri_flags_ok has_path (el_flat el) = true.
  Proof.
    unfold uri_flags_ok, el_flat. cbn [forallb uri_flag_ok andb]. rewrite !forallb_app.
    rewrite !forallb_map_all by (intros a; reflexivity). reflexivity.
  Qed.
  Lemma uri_flatten : forall fs, Forall uok fs -> uri_flags_ok has_path (flatten_json fs) = true.
  Proof.
    induction fs as [|jf t IH]; intros H; [reflexivity|]. apply Forall_cons_iff in H as [H1 H2].
    rewrite flatten_cons. unfold uri_flags_ok. cbn [app forallb]. rewrite forallb_app. fold (uri_flags_ok has_path (flatten_json t)).
    rewrite (IH H2), andb_true_r. apply andb_true_iff. split; [exact H1|].
    induction (jf_els jf) as [|el els IHe]; [reflexivity|]. cbn [flat_map]. rewrite forallb_app.
    fold (uri_flags_ok has_path (el_flat el)). rewrite uri_el_flat. exact IHe.
  Qed.

  (* A3, for every event list with non-zero feature ids *)
  Theorem json_uri_flags handled : fids_nonzero handled = true ->
    uri_flags_ok has_path (flatten_json (fold_left (json_handle has_path) handled [])) = true.
  Proof. intros NZ. apply uri_flatten. apply fold_handle_uok; [exact NZ|constructor]. Qed.

  (* ============================================================================================== *)
  (* A4. the specification holds of the document                                                     *)
  (* ============================================================================================== *)
  Lemma existsb_finished_ev_closed es' : existsb is_finished_ev (es' ++ [EvFinished]) = true.
  Proof. rewrite existsb_app. cbn. apply orb_true_r. Qed.

  Theorem c14_json_containers_closed es' :
    no_finished es' = true -> fids_nonzero es' = true -> fids_have_path has_path es' = true ->
    c14_json_containers_ok has_path (es' ++ [EvFinished]) (json_doc has_path (es' ++ [EvFinished])) = true.
  Proof.
    intros NF NZ HP. unfold c14_json_containers_ok. rewrite existsb_finished_ev_closed.
    unfold json_doc. rewrite (json_run_closed has_path es' [] NF).
    rewrite (json_hooks_in_scenario_elements es'), (json_uri_flags es' NZ), !andb_true_r.
    unfold json_containers_exact, stream_containers. rewrite (before_finished_closed es' NF).
    apply perm_same_multiset. apply json_containers_invariant; assumption.
  Qed.

  Theorem c14_json_containers_unfinished es : no_finished es = true ->
    c14_json_containers_ok has_path es (json_doc has_path es) = true.
  Proof.
    intros NF. unfold c14_json_containers_ok. rewrite (json_doc_unfinished has_path es NF).
    unfold no_finished in NF. apply negb_true_iff in NF. rewrite NF. reflexivity.
  Qed.
End J9.

(* C14, Cucumber JSON, the containers — under the hypotheses of `C14_json_whole_document`: for every stream accepted by
   the sequential contract and closed by run-Finished, whose scenario events carry non-zero feature ids of features with a
   path, the feature and element objects of the document are EXACTLY those the stream asks for (each once, none invented,
   one pseudo feature + element per parser error), every hook entry stands in a scenario element, and a feature shows a
   uri iff it has a path *)
Theorem C14_json_containers has_path es :
  normalized es = true -> fids_nonzero es = true -> fids_have_path has_path es = true ->
  c14_json_containers_ok has_path es (json_doc has_path es) = true.
Proof.
  intros C NZ HP. destruct (ReportersP2.normalized_shape es C) as (es' & -> & NF).
  apply c14_json_containers_closed; [exact NF|exact (forallb_app_l _ _ _ NZ)|exact (forallb_app_l _ _ _ HP)].
Qed.

(* ... and for every stream accepted by the (not necessarily sequential) ordering contract *)
Theorem C14_json_containers_contract has_path es :
  contract es = true -> fids_nonzero es = true -> fids_have_path has_path es = true ->
  c14_json_containers_ok has_path es (json_doc has_path es) = true.
Proof.
  intros C NZ HP. destruct (contract_shape es C) as (es' & -> & NF).
  apply c14_json_containers_closed; [exact NF|exact (forallb_app_l _ _ _ NZ)|exact (forallb_app_l _ _ _ HP)].
Qed.

(* ================================================================================================ *)
(* Part B: JUnit                                                                                     *)
(* ================================================================================================ *)
(* the per-event functions of the specification, named *)
Definition sfs1 (e : ev) : list N := match e with EvFeatF f => [f] | _ => [] end.
Definition ses1 (e : ev) : list (list (option N * N * N)) :=
  match e with EvParseErr i => [[(None, i, 1)]] | _ => [] end.
Lemma stream_feature_suites_eq es : stream_feature_suites es = flat_map sfs1 (before_finished es).
Proof. reflexivity. Qed.
Lemma stream_error_suites_eq es : stream_error_suites es = flat_map ses1 (before_finished es).
Proof. reflexivity. Qed.

(* ---- reading a report in pieces ---- *)
Lemma jfs_app a b : junit_feature_suites (a ++ b) = junit_feature_suites a ++ junit_feature_suites b.
Proof. apply flat_map_app. Qed.
Lemma jfs_nosuite a : nosuite a = true -> junit_feature_suites a = [].
Proof.
  unfold nosuite. induction a as [|x t IH]; intros H; [reflexivity|]. cbn [forallb] in H.
  apply andb_true_iff in H as [H1 H2]. destruct x; try discriminate H1; cbn [junit_feature_suites flat_map app]; exact (IH H2).
Qed.
Lemma jes_nosuite a b : nosuite a = true -> junit_error_suites (a ++ b) = junit_error_suites b.
Proof.
  unfold nosuite. induction a as [|x t IH]; intros H; [reflexivity|]. cbn [forallb] in H.
  apply andb_true_iff in H as [H1 H2]. destruct x; try discriminate H1; cbn [app junit_error_suites]; exact (IH H2).
Qed.
(* a piece that starts a suite (or is empty) adds no testcase to the suite before it *)
Lemma suite_cases_sstart D : sstart D = true -> suite_cases D = [].
Proof. destruct D as [|x t]; [reflexivity|]. destruct x; try discriminate. reflexivity. Qed.

(* ---- the invariant between the stream read so far and the writer's state: q is the feature whose bracket is open ---- *)
Definition Inv5 (j : jstate) (q : option N) : Prop :=
  js_suite j = q /\ (q = None -> js_cases j = []) /\ nosuite (js_cases j) = true.

Lemma junit_main5 : forall es j q rl o,
  shape q o es = true -> shape_fr q rl es = true -> Inv5 j q -> existsb is_finished es = true ->
  exists D, junit_run j es = js_done j ++ D /\ sstart D = true /\
    junit_feature_suites D = flat_map sfs1 (before_finished es) /\
    junit_error_suites D = flat_map ses1 (before_finished es).
Proof.
  induction es as [|e t IH]; intros j q rl o H F I FIN; [discriminate|].
  destruct j as [su cs evs dn]. destruct I as (I1 & I2 & I3). cbn [js_suite js_cases js_events js_done] in *.
  destruct e as [|fe re se ste er|id| |f|f|f r|f r|f r s rt x].
  - (* Started *)
    cbn [shape] in H. cbn [shape_fr] in F. cbn [existsb is_finished orb] in FIN.
    destruct (IH (mk_js su cs evs dn) q rl o H F (conj I1 (conj I2 I3)) FIN) as (D & R & SD & P1 & P2).
    exists D. exact (conj R (conj SD (conj P1 P2))).
  - (* ParsingFinished *)
    cbn [shape] in H. cbn [shape_fr] in F. cbn [existsb is_finished orb] in FIN.
    destruct (IH (mk_js su cs evs dn) q rl o H F (conj I1 (conj I2 I3)) FIN) as (D & R & SD & P1 & P2).
    exists D. exact (conj R (conj SD (conj P1 P2))).
  - (* ParseErr: an Errors suite with one testcase *)
    cbn [shape] in H. cbn [shape_fr] in F. cbn [existsb is_finished orb] in FIN.
    destruct (IH (mk_js su cs evs (dn ++ [RSuite true 0; RCase None id 1])) q rl o H F (conj I1 (conj I2 I3)) FIN)
      as (D & R & SD & P1 & P2).
    cbn [js_suite js_cases js_events js_done] in R.
    exists ([RSuite true 0; RCase None id 1] ++ D). split; [|split; [|split]].
    + change (junit_run (mk_js su cs evs dn) (EvParseErr id :: t))
        with (junit_run (mk_js su cs evs (dn ++ [RSuite true 0; RCase None id 1])) t).
      rewrite R. symmetry. apply app_assoc.
    + reflexivity.
    + change (junit_feature_suites ([RSuite true 0; RCase None id 1] ++ D)) with (junit_feature_suites D). exact P1.
    + change (junit_error_suites ([RSuite true 0; RCase None id 1] ++ D))
        with (((None, id, 1) :: suite_cases D) :: junit_error_suites D).
      rewrite (suite_cases_sstart D SD), P2. reflexivity.
  - (* Finished *)
    cbn [shape] in H. apply andb_true_iff in H as [H0 H]. apply andb_true_iff in H0 as [Q O].
    apply is_none_true in Q. subst q. destruct t as [|e2 t2]; [|discriminate].
    exists []. split; [reflexivity|]. repeat split; reflexivity.
  - (* FeatS: a suite is opened *)
    cbn [shape] in H. apply andb_true_iff in H as [H0 H]. apply andb_true_iff in H0 as [Q O].
    apply is_none_true in Q. subst q. cbn [shape_fr] in F. cbn [existsb is_finished orb] in FIN.
    assert (INV : Inv5 (mk_js (Some f) [] evs dn) (Some f)).
    { split; [reflexivity|]. split; [intros X; discriminate X|reflexivity]. }
    destruct (IH _ _ _ _ H F INV FIN) as (D & R & SD & P1 & P2).
    exists D. exact (conj R (conj SD (conj P1 P2))).
  - (* FeatF: the suite of THIS feature is written *)
    cbn [shape] in H. apply andb_true_iff in H as [H0 H]. apply andb_true_iff in H0 as [_ O].
    cbn [shape_fr] in F. apply andb_true_iff in F as [Q F]. apply optN_is_true in Q. subst q. subst su.
    cbn [existsb is_finished orb] in FIN.
    assert (INV : Inv5 (mk_js None [] evs (dn ++ RSuite false f :: cs)) None).
    { split; [reflexivity|]. split; [intros _; reflexivity|reflexivity]. }
    destruct (IH _ _ _ _ H F INV FIN) as (D & R & SD & P1 & P2).
    cbn [js_suite js_cases js_events js_done] in R.
    exists (RSuite false f :: cs ++ D). split; [|split; [|split]].
    + change (junit_run (mk_js (Some f) cs evs dn) (EvFeatF f :: t))
        with (junit_run (mk_js None [] evs (dn ++ RSuite false f :: cs)) t).
      rewrite R, <- app_assoc. reflexivity.
    + reflexivity.
    + change (junit_feature_suites (RSuite false f :: cs ++ D)) with (f :: junit_feature_suites (cs ++ D)).
      rewrite jfs_app, (jfs_nosuite cs I3), P1. reflexivity.
    + change (junit_error_suites (RSuite false f :: cs ++ D)) with (junit_error_suites (cs ++ D)).
      rewrite (jes_nosuite cs D I3), P2. reflexivity.
  - (* RuleS *)
    cbn [shape] in H. cbn [shape_fr] in F. apply andb_true_iff in F as [_ F]. cbn [existsb is_finished orb] in FIN.
    destruct (IH (mk_js su cs evs dn) q (Some r) o H F (conj I1 (conj I2 I3)) FIN) as (D & R & SD & P1 & P2).
    exists D. exact (conj R (conj SD (conj P1 P2))).
  - (* RuleF *)
    cbn [shape] in H. cbn [shape_fr] in F. cbn [existsb is_finished orb] in FIN.
    destruct (IH (mk_js su cs evs dn) q rl o H F (conj I1 (conj I2 I3)) FIN) as (D & R & SD & P1 & P2).
    exists D. exact (conj R (conj SD (conj P1 P2))).
  - (* scenario events: only the attempt's Finished touches the cases, and it adds no suite line *)
    assert (Q : exists g, q = Some g).
    { destruct x; cbn [shape] in H; apply andb_true_iff in H as [H0 _]; apply andb_true_iff in H0 as [Q _];
        exact (is_some_true q Q). }
    destruct Q as [g ->].
    assert (NX : forall evs' o' rl', shape (Some g) o' t = true -> shape_fr (Some g) rl' t = true ->
                 exists D, junit_run (mk_js su cs evs' dn) t = dn ++ D /\ sstart D = true /\
                   junit_feature_suites D = flat_map sfs1 (before_finished t) /\
                   junit_error_suites D = flat_map ses1 (before_finished t)).
    { intros evs' o' rl' H' F'. cbn [existsb is_finished orb] in FIN.
      exact (IH (mk_js su cs evs' dn) (Some g) rl' o' H' F' (conj I1 (conj I2 I3)) FIN). }
    destruct x as [|b h|st y|st y|m|].
    + cbn [shape] in H. apply andb_true_iff in H as [_ H]. cbn [shape_fr] in F. apply andb_true_iff in F as [_ F].
      exact (NX _ _ _ H F).
    + cbn [shape] in H. apply andb_true_iff in H as [_ H]. cbn [shape_fr] in F. apply andb_true_iff in F as [_ F].
      destruct h; exact (NX _ _ _ H F).
    + cbn [shape] in H. apply andb_true_iff in H as [_ H]. cbn [shape_fr] in F. apply andb_true_iff in F as [_ F].
      exact (NX _ _ _ H F).
    + cbn [shape] in H. apply andb_true_iff in H as [_ H]. cbn [shape_fr] in F. apply andb_true_iff in F as [_ F].
      exact (NX _ _ _ H F).
    + cbn [shape] in H. apply andb_true_iff in H as [_ H]. cbn [shape_fr] in F. apply andb_true_iff in F as [_ F].
      exact (NX _ _ _ H F).
    + (* attempt Finished: a testcase and its listing are added to the open suite *)
      cbn [shape] in H. apply andb_true_iff in H as [_ H]. cbn [shape_fr] in F. apply andb_true_iff in F as [_ F].
      cbn [existsb is_finished orb] in FIN.
      pose (lst := junit_listing f r s rt evs).
      assert (I3' : nosuite (cs ++ RCase r s (junit_status evs) :: lst) = true).
      { rewrite nosuite_app, I3. cbn [andb]. change (nosuite (RCase r s (junit_status evs) :: lst)) with (nosuite lst).
        apply nocase_nosuite, listing_nocase. }
      assert (INV : Inv5 (mk_js su (cs ++ RCase r s (junit_status evs) :: lst) [] dn) (Some g)).
      { split; [exact I1|]. split; [intros X; discriminate X|exact I3']. }
      exact (IH _ _ _ _ H F INV FIN).
Qed.

Lemma Inv5_init : Inv5 (mk_js None [] [] []) None.
Proof. split; [reflexivity|]. split; [intros _; reflexivity|reflexivity]. Qed.

(* B under the shape hypotheses: the feature suites are the finished features, in stream order; the Errors suites are one
   per parser error, each holding exactly that error as a failed testcase, in stream order *)
Theorem junit_suites_are_the_features_and_errors es :
  shape None None es = true -> shape_fr None None es = true -> existsb is_finished es = true ->
  junit_feature_suites (junit_doc es) = stream_feature_suites es /\
  junit_error_suites (junit_doc es) = stream_error_suites es.
Proof.
  intros S F FIN. destruct (junit_main5 es _ None None None S F Inv5_init FIN) as (D & R & _ & P1 & P2).
  unfold junit_doc. rewrite R. cbn [js_done app]. split; [exact P1|exact P2].
Qed.

Lemma listN_eqb_refl9 (l : list N) : list_eqb N.eqb l l = true.
Proof. apply (list_eqb_spec N.eqb N.eqb_eq). reflexivity. Qed.
Lemma case_eqb_spec9 a b : case_eqb a b = true <-> a = b.
Proof.
  destruct a as [[r s] x], b as [[r' s'] x']. unfold case_eqb.
  rewrite !andb_true_iff, !N.eqb_eq, optN_eqb_spec4. split; [intros [[-> ->] ->]; reflexivity|intros X; inversion X; auto].
Qed.
Lemma suites_eqb_refl9 (l : list (list (option N * N * N))) : list_eqb (list_eqb case_eqb) l l = true.
Proof. apply (list_eqb_spec _ (list_eqb_spec case_eqb case_eqb_spec9)). reflexivity. Qed.

Theorem C14_junit_suites_ok_shape es : shape None None es = true -> shape_fr None None es = true ->
  c14_junit_suites_ok es (junit_doc es) = true.
Proof.
  intros S F. unfold c14_junit_suites_ok.
  change (existsb is_finished_ev es) with (existsb is_finished es).
  destruct (existsb is_finished es) eqn:FIN.
  - destruct (junit_suites_are_the_features_and_errors es S F FIN) as [-> ->].
    rewrite listN_eqb_refl9, suites_eqb_refl9. reflexivity.
  - rewrite (junit_doc_without_finished es FIN). reflexivity.
Qed.

(* C14, JUnit, the suites — under the contract hypothesis of `C14_junit_whole_document` (the no-skipped hypothesis is not
   needed): for every stream accepted by the sequential contract (every prefix of a run included) the report has exactly
   one feature suite per finished feature, in stream order, and exactly one Errors suite per parser error, in stream order,
   each holding that one error as a failed testcase — no suite is invented, no Errors suite is empty; without
   run-Finished nothing is written *)
Theorem C14_junit_suites es : normalized_prefix es = true -> c14_junit_suites_ok es (junit_doc es) = true.
Proof. intros H. exact (C14_junit_suites_ok_shape es (normalized_prefix_shape es H) (normalized_prefix_shape_fr es H)). Qed.

(* as LIST equalities, for complete runs *)
Theorem C14_junit_suites_lists es : normalized es = true ->
  junit_feature_suites (junit_doc es) = stream_feature_suites es /\
  junit_error_suites (junit_doc es) = stream_error_suites es.
Proof.
  intros H. apply junit_suites_are_the_features_and_errors.
  - exact (ReportersP4.normalized_shape es H).
  - apply normalized_prefix_shape_fr. unfold normalized in H. unfold normalized_prefix.
    destruct (crun true cinit es); [reflexivity|discriminate].
  - exact (normalized_has_finished es H).
Qed.

(* ================================================================================================ *)
(* Part C: findings and examples                                                                     *)
(* ================================================================================================ *)

(* ---- FINDING 1 (JSON; the clause "a scenario element per scenario that has a hook or own-step RESULT" is false for the
   model and was weakened to "... or own-step EVENT"): the writer creates the element when the step is STARTED. A stream
   accepted by the sequential contract in which a step is started and never gets a result: no fact at all, yet the
   document has a feature with an EMPTY scenario element ---- *)
Definition ex_started_only : list ev :=
  [EvStarted; EvFeatS 1; EvScen 1 None 2 None ScStarted; EvScen 1 None 2 None (ScStep 3 StStarted);
   EvScen 1 None 2 None ScFinished; EvFeatF 1; EvFinished].
Example started_step_creates_empty_element :
  normalized ex_started_only = true /\
  stream_facts2 ex_started_only = [] /\
  json_doc (fun _ => true) ex_started_only = [RJFeature true 1; RJElement None 2 0] /\
  c14_json_containers_ok (fun _ => true) ex_started_only (json_doc (fun _ => true) ex_started_only) = true.
Proof. vm_compute. repeat split; reflexivity. Qed.
(* likewise a background step that is only started leaves an empty background element *)
Example started_bg_step_creates_empty_element :
  json_doc (fun _ => true)
    [EvStarted; EvFeatS 1; EvScen 1 None 2 None ScStarted; EvScen 1 None 2 None (ScBg 3 StStarted);
     EvScen 1 None 2 None ScFinished; EvFeatF 1; EvFinished] = [RJFeature true 1; RJElement None 2 1].
Proof. vm_compute. reflexivity. Qed.

(* ---- FINDING 2 (JUnit; the clause "the feature suites are exactly the features with at least one finished attempt" is
   false for the model and was weakened to "... the finished features"): a feature without any scenario, in a stream
   accepted by the sequential contract, still gets its (empty) suite ---- *)
Definition ex_empty_feature : list ev := [EvStarted; EvFeatS 1; EvFeatF 1; EvFinished].
Example empty_feature_suite_written :
  normalized ex_empty_feature = true /\ attempt_outcomes ex_empty_feature = [] /\
  junit_doc ex_empty_feature = [RSuite false 1] /\
  c14_junit_suites_ok ex_empty_feature (junit_doc ex_empty_feature) = true.
Proof. vm_compute. repeat split; reflexivity. Qed.

(* ---- the model's own documents are accepted: by the theorems, and by computation ---- *)
Example ex_json_containers_by_theorem :
  c14_json_containers_ok ex_has_path ReportersP2.ex_stream (json_doc ex_has_path ReportersP2.ex_stream) = true.
Proof. apply C14_json_containers; apply ReportersP2.ex_stream_hypotheses. Qed.
Example ex_json_containers_by_computation :
  c14_json_containers_ok ex_has_path ReportersP2.ex_stream (json_doc ex_has_path ReportersP2.ex_stream) = true.
Proof. vm_compute. reflexivity. Qed.
Example ex_junit_suites_by_theorem :
  c14_junit_suites_ok ReportersP4.ex_stream (junit_doc ReportersP4.ex_stream) = true.
Proof. exact (C14_junit_suites ReportersP4.ex_stream ReportersP4.ex_normalized_prefix). Qed.
Example ex_junit_suites_by_computation :
  c14_junit_suites_ok ReportersP4.ex_stream (junit_doc ReportersP4.ex_stream) = true.
Proof. vm_compute. reflexivity. Qed.

(* what is compared, on the example streams (non-vacuous: a parser error, two features, a retried scenario with a
   background element) *)
Example ex_json_containers_nontrivial :
  json_containers5 None (json_doc ex_has_path ReportersP2.ex_stream) =
  [[10; 0]; [11; 0; 0; 0; 0; 0]; [10; 1]; [11; 1; 1; 5; 2; 0]; [11; 1; 1; 5; 2; 1]; [10; 2]; [11; 2; 0; 0; 3; 0]] /\
  length (stream_containers ReportersP2.ex_stream) = 7%nat.
Proof. vm_compute. split; reflexivity. Qed.
Example ex_junit_suites_nontrivial :
  junit_feature_suites (junit_doc ReportersP4.ex_stream) = [1; 2] /\
  junit_error_suites (junit_doc ReportersP4.ex_stream) = [[(None, 7, 1)]].
Proof. vm_compute. split; reflexivity. Qed.

(* ---- JSON: the reviewer's stream (witness t4.v) and wrong documents (1)-(3) built from the model's own output ---- *)
Definition hp9 (_ : N) := true.
Definition A9 (f : N) (r : option N) (s : N) (rt : retr) (l : list scev) : list ev := map (EvScen f r s rt) l.
(* feature 1: scenario 3 (rule 10) with background step 5, own step 1 panics, before hook passed, after hook failed;
   scenario 4: step 2 undefined *)
Definition ex9 : list ev :=
  [EvStarted; EvFeatS 1; EvRuleS 1 10] ++
  A9 1 (Some 10) 3 None [ScStarted; ScHook true HStarted; ScHook true HPassed; ScBg 5 StStarted; ScBg 5 StPassed;
                         ScStep 1 StStarted; ScStep 1 (StFailed (EPanic 0)); ScHook false HStarted; ScHook false (HFailed 2);
                         ScFinished] ++
  [EvRuleF 1 10] ++
  A9 1 None 4 None [ScStarted; ScStep 2 StStarted; ScStep 2 (StFailed ENotFound); ScFinished] ++
  [EvFeatF 1; EvFinished].
Example ex9_hypotheses : normalized ex9 = true /\ fids_nonzero ex9 = true /\ fids_have_path hp9 ex9 = true.
Proof. vm_compute. repeat split; reflexivity. Qed.
Example ex9_model_doc : json_doc hp9 ex9 =
  [RJFeature true 1; RJElement (Some 10) 3 0; RJHook true 0; RJStep 1 1; RJHook false 1;
   RJElement (Some 10) 3 1; RJStep 5 0; RJElement None 4 0; RJStep 2 3].
Proof. vm_compute. reflexivity. Qed.

(* (old predicates: c14_json_ok, c14_json_ok2; new predicate) *)
Definition jold (es : list ev) (d : list rf) : bool * bool := (c14_json_ok es d, c14_json_ok2 es d).
Definition jnew (hp : N -> bool) (es : list ev) (d : list rf) : bool := c14_json_containers_ok hp es d.
(* ... and clause by clause: (containers exact, hooks in scenario elements, uri flags) *)
Definition jclauses (hp : N -> bool) (es : list ev) (d : list rf) : bool * bool * bool :=
  (json_containers_exact es d, hooks_in_scenario_elements None d, uri_flags_ok hp d).

Example ex9_model_accepted :
  jold ex9 (json_doc hp9 ex9) = (true, true) /\ jnew hp9 ex9 (json_doc hp9 ex9) = true.
Proof. vm_compute. split; reflexivity. Qed.

(* (1) both hooks listed in the BACKGROUND element of scenario 3 instead of its scenario element *)
Definition w1 : list rf :=
  [RJFeature true 1; RJElement (Some 10) 3 0; RJStep 1 1;
   RJElement (Some 10) 3 1; RJStep 5 0; RJHook false 1; RJHook true 0; RJElement None 4 0; RJStep 2 3].
Example w1_hooks_in_background_rejected :
  jold ex9 w1 = (true, true) /\ jnew hp9 ex9 w1 = false /\ jclauses hp9 ex9 w1 = (true, false, true).
Proof. vm_compute. repeat split; reflexivity. Qed.

(* (2) an invented empty feature 99 with an invented empty element, and an invented empty element (rule 12) of scenario 3 *)
Definition w2 : list rf :=
  [RJFeature true 99; RJElement None 77 0; RJFeature true 1; RJElement (Some 10) 3 0; RJHook true 0; RJStep 1 1; RJHook false 1;
   RJElement (Some 10) 3 1; RJStep 5 0; RJElement None 4 0; RJStep 2 3; RJElement (Some 12) 3 0].
Example w2_invented_empty_containers_rejected :
  jold ex9 w2 = (true, true) /\ jnew hp9 ex9 w2 = false /\ jclauses hp9 ex9 w2 = (false, true, true).
Proof. vm_compute. repeat split; reflexivity. Qed.
(* ... each kind alone: an empty feature; an empty element; an empty BACKGROUND element for scenario 4, which has none *)
Example w2_each_kind_rejected :
  (jold ex9 (json_doc hp9 ex9 ++ [RJFeature true 99]) = (true, true) /\ jnew hp9 ex9 (json_doc hp9 ex9 ++ [RJFeature true 99]) = false) /\
  (jold ex9 (json_doc hp9 ex9 ++ [RJElement None 77 0]) = (true, true) /\ jnew hp9 ex9 (json_doc hp9 ex9 ++ [RJElement None 77 0]) = false) /\
  (jold ex9 (json_doc hp9 ex9 ++ [RJElement None 4 1]) = (true, true) /\ jnew hp9 ex9 (json_doc hp9 ex9 ++ [RJElement None 4 1]) = false).
Proof. vm_compute. repeat split; reflexivity. Qed.

(* (3) the feature has a path but is shown without uri *)
Definition w3 : list rf :=
  [RJFeature false 1; RJElement (Some 10) 3 0; RJHook true 0; RJStep 1 1; RJHook false 1;
   RJElement (Some 10) 3 1; RJStep 5 0; RJElement None 4 0; RJStep 2 3].
Example w3_uri_flag_rejected :
  jold ex9 w3 = (true, true) /\ jnew hp9 ex9 w3 = false /\ jclauses hp9 ex9 w3 = (true, true, false).
Proof. vm_compute. repeat split; reflexivity. Qed.

(* the same three on `ReportersP2.ex_stream` (a parser error, a retried scenario, two features), the wrong documents
   obtained by editing the model's own document *)
Definition d2 : list rf := json_doc ex_has_path ReportersP2.ex_stream.
Example d2_is : d2 =
  [RJFeature false 0; RJElement None 0 0; RJStep 7 1;
   RJFeature true 1; RJElement (Some 5) 2 0; RJHook true 0; RJStep 2 1; RJStep 2 0; RJStep 4 4; RJHook false 0; RJHook false 1;
   RJElement (Some 5) 2 1; RJStep 1 0; RJStep 1 0;
   RJFeature true 2; RJElement None 3 0; RJStep 1 2].
Proof. vm_compute. reflexivity. Qed.
Example d2_wrong_documents_rejected :
  (* (1) the three hook entries moved to the background element *)
  (let w := [RJFeature false 0; RJElement None 0 0; RJStep 7 1;
             RJFeature true 1; RJElement (Some 5) 2 0; RJStep 2 1; RJStep 2 0; RJStep 4 4;
             RJElement (Some 5) 2 1; RJHook true 0; RJStep 1 0; RJStep 1 0; RJHook false 0; RJHook false 1;
             RJFeature true 2; RJElement None 3 0; RJStep 1 2] in
   jold ReportersP2.ex_stream w = (true, true) /\ jnew ex_has_path ReportersP2.ex_stream w = false) /\
  (* (2) an empty background element for scenario 3 of feature 2; an empty third feature; a second, empty pseudo feature *)
  (let w := d2 ++ [RJElement None 3 1] in
   jold ReportersP2.ex_stream w = (true, true) /\ jnew ex_has_path ReportersP2.ex_stream w = false) /\
  (let w := d2 ++ [RJFeature true 3] in
   jold ReportersP2.ex_stream w = (true, true) /\ jnew ex_has_path ReportersP2.ex_stream w = false) /\
  (let w := d2 ++ [RJFeature false 0] in
   jold ReportersP2.ex_stream w = (true, true) /\ jnew ex_has_path ReportersP2.ex_stream w = false) /\
  (* (3) the pseudo feature of the parser error shown WITH a uri; feature 2 shown without *)
  (let w := RJFeature true 0 :: tl d2 in
   jold ReportersP2.ex_stream w = (true, true) /\ jnew ex_has_path ReportersP2.ex_stream w = false) /\
  (let w := [RJFeature false 0; RJElement None 0 0; RJStep 7 1;
             RJFeature true 1; RJElement (Some 5) 2 0; RJHook true 0; RJStep 2 1; RJStep 2 0; RJStep 4 4; RJHook false 0; RJHook false 1;
             RJElement (Some 5) 2 1; RJStep 1 0; RJStep 1 0;
             RJFeature false 2; RJElement None 3 0; RJStep 1 2] in
   jold ReportersP2.ex_stream w = (true, true) /\ jnew ex_has_path ReportersP2.ex_stream w = false).
Proof. vm_compute. repeat split; reflexivity. Qed.

(* the pseudo feature is path-less whatever `has_path 0` says (here `hp9 0 = true`): the model's document is accepted *)
Example pseudo_feature_is_pathless :
  jnew hp9 (EvParseErr 7 :: ex9) (json_doc hp9 (EvParseErr 7 :: ex9)) = true /\
  hd RLParseErr (json_doc hp9 (EvParseErr 7 :: ex9)) = RJFeature false 0.
Proof. vm_compute. split; reflexivity. Qed.

(* ---- JUnit: `ReportersP4.ex_stream` and wrong documents (4), (5) built from the model's own output ---- *)
Definition exr9 : list ev := ReportersP4.ex_stream.
(* the three JUnit predicates the Check file conjoins (as in witness t2.v) *)
Definition j3 (es : list ev) (d : list rf) : bool :=
  c14_junit_ok es d && c14_junit_attr_ok es d && (negb (attempts_canonical es) || c14_junit_ok3 es d).
Example exr9_model_doc : junit_doc exr9 =
  [RSuite true 0; RCase None 7 1;
   RSuite false 1; RCase (Some 10) 100 1; RLScenario 100 None; RLStep 2 false 1;
   RCase (Some 10) 100 0; RLScenario 100 (Some (1, 1)); RLStep 1 true 5; RLStep 1 false 1;
   RCase None 101 1; RLScenario 101 None; RLStep 1 false 2; RLHookFailed false 101;
   RSuite false 2; RCase None 200 0; RLScenario 200 None; RLStep 1 false 3].
Proof. vm_compute. reflexivity. Qed.
Example exr9_model_accepted : j3 exr9 (junit_doc exr9) = true /\ c14_junit_suites_ok exr9 (junit_doc exr9) = true.
Proof. vm_compute. split; reflexivity. Qed.

(* (4) an extra EMPTY Errors suite (after the real one) *)
Definition w4 : list rf :=
  [RSuite true 0; RCase None 7 1; RSuite true 0;
   RSuite false 1; RCase (Some 10) 100 1; RLScenario 100 None; RLStep 2 false 1;
   RCase (Some 10) 100 0; RLScenario 100 (Some (1, 1)); RLStep 1 true 5; RLStep 1 false 1;
   RCase None 101 1; RLScenario 101 None; RLStep 1 false 2; RLHookFailed false 101;
   RSuite false 2; RCase None 200 0; RLScenario 200 None; RLStep 1 false 3].
Example w4_empty_errors_suite_rejected : j3 exr9 w4 = true /\ c14_junit_suites_ok exr9 w4 = false.
Proof. vm_compute. split; reflexivity. Qed.
(* ... also at the end of the report *)
Example w4b_empty_errors_suite_rejected :
  j3 exr9 (junit_doc exr9 ++ [RSuite true 0]) = true /\ c14_junit_suites_ok exr9 (junit_doc exr9 ++ [RSuite true 0]) = false.
Proof. vm_compute. split; reflexivity. Qed.

(* (5) an extra empty feature suite: of an invented feature 3, or a second suite of feature 2. `c14_junit_ok` and
   `c14_junit_ok3` accept both; `ReportersSpec2.c14_junit_attr_ok` (fact [30; f] per feature suite against the features
   STARTED) already rejects them — the new predicate rejects them too, and is the only one that fixes the ORDER of the
   suites and ties them to the FINISHED features *)
Example w5_empty_feature_suite_rejected :
  (c14_junit_ok exr9 (junit_doc exr9 ++ [RSuite false 3]) = true /\ c14_junit_ok3 exr9 (junit_doc exr9 ++ [RSuite false 3]) = true /\
   c14_junit_attr_ok exr9 (junit_doc exr9 ++ [RSuite false 3]) = false /\
   c14_junit_suites_ok exr9 (junit_doc exr9 ++ [RSuite false 3]) = false) /\
  (c14_junit_ok exr9 (junit_doc exr9 ++ [RSuite false 2]) = true /\ c14_junit_ok3 exr9 (junit_doc exr9 ++ [RSuite false 2]) = true /\
   c14_junit_attr_ok exr9 (junit_doc exr9 ++ [RSuite false 2]) = false /\
   c14_junit_suites_ok exr9 (junit_doc exr9 ++ [RSuite false 2]) = false).
Proof. vm_compute. repeat split; reflexivity. Qed.

(* beyond (4), (5): the parser error reported as a SUCCESSFUL testcase under a rule (witness t2.v, A), and the suites in
   the wrong order (witness t2.v, B) are accepted by all three old predicates and rejected by the new one *)
Example w6_error_as_success_rejected :
  let w := [RSuite true 55; RCase (Some 3) 7 0;
            RSuite false 1; RCase (Some 10) 100 1; RLScenario 100 None; RLStep 2 false 1;
            RCase (Some 10) 100 0; RLScenario 100 (Some (1, 1)); RLStep 1 true 5; RLStep 1 false 1;
            RCase None 101 1; RLScenario 101 None; RLStep 1 false 2; RLHookFailed false 101;
            RSuite false 2; RCase None 200 0; RLScenario 200 None; RLStep 1 false 3] in
  j3 exr9 w = true /\ c14_junit_suites_ok exr9 w = false.
Proof. vm_compute. split; reflexivity. Qed.
Example w7_suites_reordered_rejected :
  let w := [RSuite false 2; RCase None 200 0; RLScenario 200 None; RLStep 1 false 3;
            RSuite false 1; RCase (Some 10) 100 1; RLScenario 100 None; RLStep 2 false 1;
            RCase (Some 10) 100 0; RLScenario 100 (Some (1, 1)); RLStep 1 true 5; RLStep 1 false 1;
            RCase None 101 1; RLScenario 101 None; RLStep 1 false 2; RLHookFailed false 101;
            RSuite true 0; RCase None 7 1] in
  j3 exr9 w = true /\ c14_junit_suites_ok exr9 w = false.
Proof. vm_compute. split; reflexivity. Qed.

Print Assumptions json_containers_invariant.
Print Assumptions json_hooks_in_scenario_elements.
Print Assumptions json_uri_flags.
Print Assumptions C14_json_containers.
Print Assumptions C14_json_containers_contract.
Print Assumptions c14_json_containers_unfinished.
Print Assumptions C14_junit_suites.
Print Assumptions C14_junit_suites_lists.
