(* NormalizeP4e.v — C11 "sequential", part 5: the static invariants are preserved when an event is queued
   (list-level lemmas; the automaton state of the OUTPUT does not change while queueing). *)
From CV Require Import Proofs.SchedP5.
From CV Require Import Model.Base Model.Events Model.Contract Model.Normalize
  Proofs.BaseP Proofs.NormalizeP Proofs.NormalizeP2 Proofs.NormalizeP3 Proofs.NormalizeP4 Proofs.NormalizeP4b
  Proofs.NormalizeP4c Proofs.NormalizeP4d.
From Coq Require Import Lia Permutation.

Lemma ss_snoc es m x : is_started x = false -> starts_started (es ++ [(m, x)]) = starts_started es.
Proof. intros H. destruct es as [|e t]; [cbn; exact H|reflexivity]. Qed.
Lemma ss_snoc_true es e : starts_started es = true -> starts_started (es ++ [e]) = true.
Proof. destruct es as [|e0 t]; [discriminate|]. intros H. exact H. Qed.

Lemma att_shape_snoc es m x : att_shape es = true -> has_fin es = false -> is_started x = false ->
  att_shape (es ++ [(m, x)]) = true.
Proof.
  unfold att_shape. intros H HF XS. apply andb_prop in H as [H1 H2].
  pose proof (fin_last_snoc es (m, x) H2 HF) as F. apply andb_true_intro. split; [|exact F].
  destruct es as [|e t]; [reflexivity|]. cbn [app tl] in *. rewrite forallb_app. apply andb_true_intro. split; [exact H1|]. cbn. rewrite XS. reflexivity.
Qed.

Lemma prev_ok_app {K} c f ro (inj : akey -> K) ks m k : prev_ok c f ro inj ks k -> prev_ok c f ro inj (ks ++ m) k.
Proof.
  unfold prev_ok. destruct (prev_key f ro k); [|auto]. intros [X|(k0 & E & KB)]; [left; exact X|].
  right. exists k0. split; [exact E|apply kbefore_app; exact KB].
Qed.

Section KU.
  Context {K V : Type} (eqb : K -> K -> bool).
  Hypothesis eqb_spec : forall a b, eqb a b = true <-> a = b.
  Lemma keys_aupsert_cases k g (l : list (K * V)) :
    (In k (keys l) /\ keys (aupsert eqb k g l) = keys l) \/ (~ In k (keys l) /\ keys (aupsert eqb k g l) = keys l ++ [k]).
  Proof.
    rewrite (keys_aupsert eqb). destruct (existsb (eqb k) (keys l)) eqn:E.
    - left. split; [|reflexivity]. apply existsb_exists in E as (x & Hx & Ex). apply eqb_spec in Ex. subst x. exact Hx.
    - right. split; [|reflexivity]. intros H.
      assert (X : existsb (eqb k) (keys l) = true) by (apply existsb_exists; exists k; split; [exact H|apply eqb_spec; reflexivity]).
      congruence.
  Qed.
End KU.

(* ---- an attempt event is queued in the attempt list of a rule ---- *)
Lemma atts_static_upsert c f ro l k0 m x :
  atts_static c f ro l ->
  (forall es, In (k0, es) l -> has_fin es = false /\ is_started x = false) ->
  (~ In k0 (keys l) -> x = ScStarted /\ lookup atkey_eqb (att_key f ro k0) (c_atts c) = None /\
                       prev_ok c f ro (fun y => y) (keys l ++ [k0]) k0) ->
  atts_static c f ro (aupsert akey_eqb k0 (push_ev (m, x)) l).
Proof.
  intros [ND SH TL FR HD PV] OLD NEW.
  set (l' := aupsert akey_eqb k0 (push_ev (m, x)) l).
  assert (CH : forall k' v', In (k', v') l' ->
            (k' <> k0 /\ In (k', v') l) \/
            (k' = k0 /\ exists es, In (k0, es) l /\ v' = es ++ [(m, x)]) \/
            (k' = k0 /\ ~ In k0 (keys l) /\ v' = [(m, x)])).
  { intros k' v' H. apply (in_aupsert akey_eqb akey_eqb_spec) in H; [|exact ND].
    destruct H as [(v & Hv & ->)|(NI & -> & ->)]; [|right; right; auto].
    destruct (akey_eqb k0 k') eqn:E.
    - apply akey_eqb_spec in E. subst k'. right. left. split; [reflexivity|]. exists v. auto.
    - left. split; [|exact Hv]. intros ->. rewrite (proj2 (akey_eqb_spec _ _) eq_refl) in E. discriminate. }
  constructor.
  - apply (nodup_aupsert akey_eqb akey_eqb_spec). exact ND.
  - intros k' v' H. destruct (CH k' v' H) as [(_ & H0)|[(-> & es & H0 & ->)|(-> & NI & ->)]].
    + exact (SH k' v' H0).
    + destruct (OLD es H0) as [HF XS]. exact (att_shape_snoc es m x (SH k0 es H0) HF XS).
    + destruct (NEW NI) as (-> & _). reflexivity.
  - intros k' v' H. apply (in_tl_aupsert akey_eqb akey_eqb_spec) in H; [|exact ND].
    destruct H as [(v & Hv & ->)|(_ & NI & -> & ->)].
    + pose proof (TL k' v Hv) as SS. destruct (akey_eqb k0 k'); [apply ss_snoc_true; exact SS|exact SS].
    + destruct (NEW NI) as (-> & _). reflexivity.
  - intros k' v' H SS. destruct (CH k' v' H) as [(_ & H0)|[(-> & es & H0 & ->)|(-> & NI & ->)]].
    + exact (FR k' v' H0 SS).
    + destruct (OLD es H0) as [HF XS]. exact (FR k0 es H0 (eq_trans (eq_sym (ss_snoc es m x XS)) SS)).
    + exact (proj1 (proj2 (NEW NI))).
  - intros k' v' H SS. destruct (CH k' v' H) as [(_ & H0)|[(-> & es & H0 & ->)|(-> & NI & ->)]].
    + exact (HD k' v' H0 SS).
    + destruct (OLD es H0) as [HF XS]. exact (HD k0 es H0 (eq_trans (eq_sym (ss_snoc es m x XS)) SS)).
    + destruct (NEW NI) as (-> & _). discriminate SS.
  - intros k' v' H. fold l'.
    destruct (keys_aupsert_cases akey_eqb akey_eqb_spec k0 (push_ev (m, x)) l) as [(IN & KE)|(NI & KE)]; fold l' in KE; rewrite KE.
    + destruct (CH k' v' H) as [(_ & H0)|[(-> & es & H0 & ->)|(-> & NI & ->)]].
      * exact (PV k' v' H0).
      * exact (PV k0 es H0).
      * contradiction.
    + destruct (CH k' v' H) as [(_ & H0)|[(-> & es & H0 & ->)|(-> & _ & ->)]].
      * apply prev_ok_app. exact (PV k' v' H0).
      * apply prev_ok_app. exact (PV k0 es H0).
      * exact (proj2 (proj2 (NEW NI))).
Qed.

Lemma pr_atts_upsert l k0 m x : NoDup (keys l) -> (~ In k0 (keys l) -> x = ScStarted) ->
  pr_atts l -> pr_atts (aupsert akey_eqb k0 (push_ev (m, x)) l).
Proof.
  intros ND NEW P k' v' H. apply (in_aupsert akey_eqb akey_eqb_spec) in H; [|exact ND].
  destruct H as [(v & Hv & ->)|(NI & -> & ->)].
  - pose proof (P k' v Hv) as SS. destruct (akey_eqb k0 k'); [apply ss_snoc_true; exact SS|exact SS].
  - rewrite (NEW NI). reflexivity.
Qed.

Lemma atts_static_nil c f ro : atts_static c f ro [].
Proof. constructor; try (intros ? ? []). constructor. Qed.

(* ---- Rule::Started: a fresh rule is appended ---- *)
Lemma items_static_snoc_rule c f its r m :
  items_static c f its -> ~ In (KRule r) (keys its) -> lookup rkey_eqb (f, r) (c_rules c) = None ->
  items_static c f (its ++ [(KRule r, IRule (new_rq m))]).
Proof.
  intros [ND WF SH RU TL FR HR FA HA PV] NI AB.
  assert (KE : keys (its ++ [(KRule r, IRule (new_rq m))]) = keys its ++ [KRule r]).
  { unfold keys. rewrite map_app. reflexivity. }
  constructor.
  - pose proof (nodup_ainsert ikey_eqb ikey_eqb_spec (KRule r) (IRule (new_rq m)) its NI ND) as X.
    unfold ainsert in X. rewrite (aremove_absent ikey_eqb ikey_eqb_spec _ _ NI) in X. exact X.
  - unfold items_wf in *. rewrite forallb_app, WF. reflexivity.
  - intros k es H. apply in_app_or in H as [H|[H|[]]]; [exact (SH k es H)|discriminate H].
  - intros r2 rq2 H. apply in_app_or in H as [H|[H|[]]]; [exact (RU r2 rq2 H)|]. inversion H; subst. apply atts_static_nil.
  - intros ki H. apply in_tl_snoc in H as [H|(_ & ->)]; [exact (TL ki H)|]. cbn. split; [discriminate|intros ? ? []].
  - intros r2 rq2 H NI2. apply in_app_or in H as [H|[H|[]]]; [exact (FR r2 rq2 H NI2)|]. inversion H; subst.
    split; [exact AB|intros ? ? []].
  - intros r2 rq2 H IN. apply in_app_or in H as [H|[H|[]]]; [exact (HR r2 rq2 H IN)|]. inversion H; subst. discriminate IN.
  - intros k es H SS. apply in_app_or in H as [H|[H|[]]]; [exact (FA k es H SS)|discriminate H].
  - intros k es H SS. apply in_app_or in H as [H|[H|[]]]; [exact (HA k es H SS)|discriminate H].
  - intros k es H. rewrite KE. apply prev_ok_app. apply in_app_or in H as [H|[H|[]]]; [exact (PV k es H)|discriminate H].
Qed.

(* ---- the queue of one rule is updated in place (Rule::Finished, or an attempt event inside the rule) ---- *)
Lemma in_amodify_rule its r Hm rq0 rq0' k' it' :
  NoDup (keys its) -> In (KRule r, IRule rq0) its -> Hm (IRule rq0) = IRule rq0' ->
  In (k', it') (amodify ikey_eqb (KRule r) Hm its) ->
  (k' <> KRule r /\ In (k', it') its) \/ (k' = KRule r /\ it' = IRule rq0').
Proof.
  intros ND H0 HM H. apply (in_amodify ikey_eqb ikey_eqb_spec) in H; [|exact ND]. destruct H as (it & Hit & ->).
  destruct (ikey_eqb (KRule r) k') eqn:E.
  - apply ikey_eqb_spec in E. subst k'. right. split; [reflexivity|].
    rewrite (nodup_keys_unique _ _ _ _ ND Hit H0). exact HM.
  - left. split; [|exact Hit]. intros ->. rewrite (proj2 (ikey_eqb_spec _ _) eq_refl) in E. discriminate.
Qed.

Lemma items_static_modify_rule c f its r Hm rq0 rq0' :
  items_static c f its -> In (KRule r, IRule rq0) its -> Hm (IRule rq0) = IRule rq0' ->
  items_wf (amodify ikey_eqb (KRule r) Hm its) = true ->
  atts_static c f (Some r) (rq_atts rq0') -> rq_init rq0' = rq_init rq0 ->
  (pr_atts (rq_atts rq0) -> pr_atts (rq_atts rq0')) ->
  items_static c f (amodify ikey_eqb (KRule r) Hm its).
Proof.
  intros [ND WF SH RU TL FR HR FA HA PV] H0 HM WF' AS' RI PA.
  pose proof (in_amodify_rule its r Hm rq0 rq0') as CH.
  constructor.
  - rewrite keys_amodify. exact ND.
  - exact WF'.
  - intros k es H. destruct (CH _ _ ND H0 HM H) as [(_ & X)|(X & _)]; [exact (SH k es X)|discriminate X].
  - intros r2 rq2 H. destruct (CH _ _ ND H0 HM H) as [(_ & X)|(X & Y)]; [exact (RU r2 rq2 X)|].
    inversion X; subst. inversion Y; subst. exact AS'.
  - intros [k' it'] H. apply (in_tl_amodify ikey_eqb ikey_eqb_spec) in H; [|exact ND]. destruct H as (it & Hit & ->).
    pose proof (TL _ Hit) as P. destruct (ikey_eqb (KRule r) k') eqn:E; [|exact P].
    apply ikey_eqb_spec in E. subst k'. rewrite (nodup_keys_unique _ _ _ _ ND (in_tl _ _ Hit) H0) in *. rewrite HM.
    cbn in *. destruct P as [P1 P2]. split; [rewrite RI; exact P1|exact (PA P2)].
  - intros r2 rq2 H NI. destruct (CH _ _ ND H0 HM H) as [(_ & X)|(X & Y)]; [exact (FR r2 rq2 X NI)|].
    inversion X; subst. inversion Y; subst. rewrite RI in NI. destruct (FR r rq0 H0 NI) as [A B]. split; [exact A|exact (PA B)].
  - intros r2 rq2 H IN. destruct (CH _ _ ND H0 HM H) as [(_ & X)|(X & Y)]; [exact (HR r2 rq2 X IN)|].
    inversion X; subst. inversion Y; subst. rewrite RI in IN. exact (HR r rq0 H0 IN).
  - intros k es H SS. destruct (CH _ _ ND H0 HM H) as [(_ & X)|(X & _)]; [exact (FA k es X SS)|discriminate X].
  - intros k es H SS. destruct (CH _ _ ND H0 HM H) as [(_ & X)|(X & _)]; [exact (HA k es X SS)|discriminate X].
  - intros k es H. rewrite keys_amodify. destruct (CH _ _ ND H0 HM H) as [(_ & X)|(X & _)]; [exact (PV k es X)|discriminate X].
Qed.

(* ---- an event of a top-level attempt is queued ---- *)
Lemma in_aupsert_scen its k0 m x k' it' :
  NoDup (keys its) -> items_wf its = true ->
  In (k', it') (aupsert ikey_eqb (KScen k0) (push_item m x) its) ->
  (k' <> KScen k0 /\ In (k', it') its) \/
  (k' = KScen k0 /\ exists es, In (KScen k0, IScen es) its /\ it' = IScen (es ++ [(m, x)])) \/
  (k' = KScen k0 /\ ~ In (KScen k0) (keys its) /\ it' = IScen [(m, x)]).
Proof.
  intros ND WF H. apply (in_aupsert ikey_eqb ikey_eqb_spec) in H; [|exact ND].
  destruct H as [(it & Hit & ->)|(NI & -> & ->)]; [|right; right; auto].
  destruct (ikey_eqb (KScen k0) k') eqn:E.
  - apply ikey_eqb_spec in E. subst k'. right. left. split; [reflexivity|].
    destruct (item_kind_scen _ _ _ WF Hit) as (es & ->). exists es. auto.
  - left. split; [|exact Hit]. intros ->. rewrite (proj2 (ikey_eqb_spec _ _) eq_refl) in E. discriminate.
Qed.

Lemma items_static_upsert_scen c f its k0 m x :
  items_static c f its ->
  items_wf (aupsert ikey_eqb (KScen k0) (push_item m x) its) = true ->
  (forall es, In (KScen k0, IScen es) its -> has_fin es = false /\ is_started x = false) ->
  (~ In (KScen k0) (keys its) -> x = ScStarted /\ lookup atkey_eqb (att_key f None k0) (c_atts c) = None /\
                                 prev_ok c f None KScen (keys its ++ [KScen k0]) k0) ->
  items_static c f (aupsert ikey_eqb (KScen k0) (push_item m x) its).
Proof.
  intros [ND WF SH RU TL FR HR FA HA PV] WF' OLD NEW.
  pose proof (fun k' it' => in_aupsert_scen its k0 m x k' it' ND WF) as CH.
  constructor.
  - apply (nodup_aupsert ikey_eqb ikey_eqb_spec). exact ND.
  - exact WF'.
  - intros k es H. destruct (CH _ _ H) as [(_ & X)|[(E & es0 & X & Y)|(E & NI & Y)]].
    + exact (SH k es X).
    + inversion E; subst. inversion Y; subst. destruct (OLD es0 X) as [HF XS]. exact (att_shape_snoc es0 m x (SH k0 es0 X) HF XS).
    + inversion Y; subst. destruct (NEW NI) as (-> & _). reflexivity.
  - intros r rq H. destruct (CH _ _ H) as [(_ & X)|[(E & _)|(E & _)]]; [exact (RU r rq X)|discriminate E|discriminate E].
  - intros [k' it'] H. apply (in_tl_aupsert ikey_eqb ikey_eqb_spec) in H; [|exact ND].
    destruct H as [(it & Hit & ->)|(_ & NI & -> & ->)].
    + pose proof (TL _ Hit) as P. destruct (ikey_eqb (KScen k0) k') eqn:E; [|exact P].
      apply ikey_eqb_spec in E. subst k'. destruct (item_kind_scen _ _ _ WF (in_tl _ _ Hit)) as (es & ->).
      cbn in *. apply ss_snoc_true. exact P.
    + cbn. destruct (NEW NI) as (-> & _). reflexivity.
  - intros r rq H NI. destruct (CH _ _ H) as [(_ & X)|[(E & _)|(E & _)]]; [exact (FR r rq X NI)|discriminate E|discriminate E].
  - intros r rq H IN. destruct (CH _ _ H) as [(_ & X)|[(E & _)|(E & _)]]; [exact (HR r rq X IN)|discriminate E|discriminate E].
  - intros k es H SS. destruct (CH _ _ H) as [(_ & X)|[(E & es0 & X & Y)|(E & NI & Y)]].
    + exact (FA k es X SS).
    + inversion E; subst. inversion Y; subst. destruct (OLD es0 X) as [HF XS].
      exact (FA k0 es0 X (eq_trans (eq_sym (ss_snoc es0 m x XS)) SS)).
    + inversion E; subst. exact (proj1 (proj2 (NEW NI))).
  - intros k es H SS. destruct (CH _ _ H) as [(_ & X)|[(E & es0 & X & Y)|(E & NI & Y)]].
    + exact (HA k es X SS).
    + inversion E; subst. inversion Y; subst. destruct (OLD es0 X) as [HF XS].
      exact (HA k0 es0 X (eq_trans (eq_sym (ss_snoc es0 m x XS)) SS)).
    + inversion Y; subst. destruct (NEW NI) as (-> & _). discriminate SS.
  - intros k es H.
    destruct (keys_aupsert_cases ikey_eqb ikey_eqb_spec (KScen k0) (push_item m x) its) as [(IN & KE)|(NI & KE)]; rewrite KE.
    + destruct (CH _ _ H) as [(_ & X)|[(E & es0 & X & Y)|(E & NI & Y)]].
      * exact (PV k es X).
      * inversion E; subst. exact (PV k0 es0 X).
      * contradiction.
    + destruct (CH _ _ H) as [(_ & X)|[(E & es0 & X & Y)|(E & _ & Y)]].
      * apply prev_ok_app. exact (PV k es X).
      * inversion E; subst. apply prev_ok_app. exact (PV k0 es0 X).
      * inversion E; subst. exact (proj2 (proj2 (NEW NI))).
Qed.

(* ---- pristine items stay pristine ---- *)
Lemma pr_items_snoc_rule its r m : pr_items its -> pr_items (its ++ [(KRule r, IRule (new_rq m))]).
Proof.
  intros P ki H. apply in_app_or in H as [H|[<-|[]]]; [exact (P ki H)|]. cbn. split; [discriminate|intros ? ? []].
Qed.
Lemma pr_items_modify_rule its r Hm rq0 rq0' :
  NoDup (keys its) -> In (KRule r, IRule rq0) its -> Hm (IRule rq0) = IRule rq0' ->
  rq_init rq0' = rq_init rq0 -> (pr_atts (rq_atts rq0) -> pr_atts (rq_atts rq0')) ->
  pr_items its -> pr_items (amodify ikey_eqb (KRule r) Hm its).
Proof.
  intros ND H0 HM RI PA P [k' it'] H. destruct (in_amodify_rule its r Hm rq0 rq0' k' it' ND H0 HM H) as [(_ & X)|(-> & ->)].
  - exact (P _ X).
  - pose proof (P _ H0) as Q. cbn in *. destruct Q as [Q1 Q2]. split; [rewrite RI; exact Q1|exact (PA Q2)].
Qed.
Lemma pr_items_upsert_scen its k0 m x :
  NoDup (keys its) -> items_wf its = true -> (~ In (KScen k0) (keys its) -> x = ScStarted) ->
  pr_items its -> pr_items (aupsert ikey_eqb (KScen k0) (push_item m x) its).
Proof.
  intros ND WF NEW P [k' it'] H. destruct (in_aupsert_scen its k0 m x k' it' ND WF H) as [(_ & X)|[(-> & es0 & X & ->)|(-> & NI & ->)]].
  - exact (P _ X).
  - pose proof (P _ X) as Q. cbn in *. apply ss_snoc_true. exact Q.
  - cbn. rewrite (NEW NI). reflexivity.
Qed.

(* ---- introduction forms for membership in an updated list ---- *)
Section INTRO.
  Context {K V : Type} (eqb : K -> K -> bool).
  Hypothesis eqb_spec : forall a b, eqb a b = true <-> a = b.
  Lemma in_amodify_same k g (l : list (K * V)) v : NoDup (keys l) -> In (k, v) l -> In (k, g v) (amodify eqb k g l).
  Proof. intros ND H. apply (in_amodify eqb eqb_spec); [exact ND|]. exists v. rewrite (eqb_rfl eqb eqb_spec). auto. Qed.
  Lemma in_amodify_other k g (l : list (K * V)) k' v : NoDup (keys l) -> k' <> k -> In (k', v) l -> In (k', v) (amodify eqb k g l).
  Proof.
    intros ND NE H. apply (in_amodify eqb eqb_spec); [exact ND|]. exists v. rewrite (eqb_false eqb eqb_spec) by congruence. auto.
  Qed.
  Lemma in_aupsert_same k g (l : list (K * V)) v : NoDup (keys l) -> In (k, v) l -> In (k, g (Some v)) (aupsert eqb k g l).
  Proof. intros ND H. apply (in_aupsert eqb eqb_spec); [exact ND|]. left. exists v. rewrite (eqb_rfl eqb eqb_spec). auto. Qed.
  Lemma in_aupsert_other k g (l : list (K * V)) k' v : NoDup (keys l) -> k' <> k -> In (k', v) l -> In (k', v) (aupsert eqb k g l).
  Proof.
    intros ND NE H. apply (in_aupsert eqb eqb_spec); [exact ND|]. left. exists v. rewrite (eqb_false eqb eqb_spec) by congruence. auto.
  Qed.
End INTRO.

Lemma akey_dec (a b : akey) : {a = b} + {a <> b}.
Proof. destruct (akey_eqb a b) eqn:E; [left; apply akey_eqb_spec; exact E|right; intros ->; rewrite (proj2 (akey_eqb_spec _ _) eq_refl) in E; discriminate]. Qed.

(* a non-pristine attempt stays non-pristine *)
Lemma nonpr_atts_upsert l k0 m x k es :
  NoDup (keys l) -> (forall es0, In (k0, es0) l -> is_started x = false) ->
  In (k, es) l -> starts_started es = false ->
  exists es', In (k, es') (aupsert akey_eqb k0 (push_ev (m, x)) l) /\ starts_started es' = false.
Proof.
  intros ND OLD H SS. destruct (akey_dec k k0) as [->|NE].
  - exists (es ++ [(m, x)]). split; [exact (in_aupsert_same akey_eqb akey_eqb_spec k0 (push_ev (m, x)) l es ND H)|].
    exact (eq_trans (ss_snoc es m x (OLD es H)) SS).
  - exists es. split; [exact (in_aupsert_other akey_eqb akey_eqb_spec k0 _ l k es ND NE H)|exact SS].
Qed.

(* ---- the witnesses of open entities survive the updates ---- *)
Lemma witR_snoc f its x k' : witR f its k' -> witR f (its ++ [x]) k'.
Proof. intros (r & rq & H & E). exists r, rq. split; [apply in_or_app; left; exact H|exact E]. Qed.
Lemma witA_snoc f its x k' : witA f its k' -> witA f (its ++ [x]) k'.
Proof.
  intros [(k & es & H & E)|(r & rq & k & es & H & E)]; [left; exists k, es|right; exists r, rq, k, es];
    (split; [apply in_or_app; left; exact H|exact E]).
Qed.

Lemma witR_modify_rule f its r Hm rq0 rq0' k' :
  NoDup (keys its) -> In (KRule r, IRule rq0) its -> Hm (IRule rq0) = IRule rq0' -> rq_init rq0' = rq_init rq0 ->
  witR f its k' -> witR f (amodify ikey_eqb (KRule r) Hm its) k'.
Proof.
  intros ND H0 HM RI (r2 & rq2 & H & E & IN). destruct (N.eq_dec r2 r) as [->|NE].
  - pose proof (nodup_keys_unique _ _ _ _ ND H H0) as X. inversion X; subst rq2.
    exists r, rq0'. split; [rewrite <- HM; exact (in_amodify_same ikey_eqb ikey_eqb_spec _ Hm its _ ND H0)|].
    split; [exact E|congruence].
  - exists r2, rq2. split; [|auto]. apply (in_amodify_other ikey_eqb ikey_eqb_spec); [exact ND|congruence|exact H].
Qed.
Lemma witA_modify_rule f its r Hm rq0 rq0' k' :
  NoDup (keys its) -> In (KRule r, IRule rq0) its -> Hm (IRule rq0) = IRule rq0' ->
  (forall k es, In (k, es) (rq_atts rq0) -> starts_started es = false ->
                exists es', In (k, es') (rq_atts rq0') /\ starts_started es' = false) ->
  witA f its k' -> witA f (amodify ikey_eqb (KRule r) Hm its) k'.
Proof.
  intros ND H0 HM NP [(k & es & H & E)|(r2 & rq2 & k & es & H & Hes & E & SS)].
  - left. exists k, es. split; [|exact E]. apply (in_amodify_other ikey_eqb ikey_eqb_spec); [exact ND|discriminate|exact H].
  - right. destruct (N.eq_dec r2 r) as [->|NE].
    + pose proof (nodup_keys_unique _ _ _ _ ND H H0) as X. inversion X; subst rq2.
      destruct (NP k es Hes SS) as (es' & Hes' & SS'). exists r, rq0', k, es'.
      split; [rewrite <- HM; exact (in_amodify_same ikey_eqb ikey_eqb_spec _ Hm its _ ND H0)|auto].
    + exists r2, rq2, k, es. split; [|auto]. apply (in_amodify_other ikey_eqb ikey_eqb_spec); [exact ND|congruence|exact H].
Qed.

Lemma witR_upsert_scen f its k0 m x k' : NoDup (keys its) ->
  witR f its k' -> witR f (aupsert ikey_eqb (KScen k0) (push_item m x) its) k'.
Proof.
  intros ND (r & rq & H & E). exists r, rq. split; [|exact E].
  apply (in_aupsert_other ikey_eqb ikey_eqb_spec); [exact ND|discriminate|exact H].
Qed.
Lemma witA_upsert_scen f its k0 m x k' : NoDup (keys its) ->
  (forall es, In (KScen k0, IScen es) its -> is_started x = false) ->
  witA f its k' -> witA f (aupsert ikey_eqb (KScen k0) (push_item m x) its) k'.
Proof.
  intros ND OLD [(k & es & H & E & SS)|(r2 & rq2 & k & es & H & E)].
  - left. destruct (akey_dec k k0) as [->|NE].
    + exists k0, (es ++ [(m, x)]). split.
      * exact (in_aupsert_same ikey_eqb ikey_eqb_spec (KScen k0) (push_item m x) its (IScen es) ND H).
      * split; [exact E|]. exact (eq_trans (ss_snoc es m x (OLD es H)) SS).
    + exists k, es. split; [|auto]. apply (in_aupsert_other ikey_eqb ikey_eqb_spec); [exact ND|congruence|exact H].
  - right. exists r2, rq2, k, es. split; [|exact E].
    apply (in_aupsert_other ikey_eqb ikey_eqb_spec); [exact ND|discriminate|exact H].
Qed.

(* ---- one feature ---- *)
Lemma feat_static_set_items c f q its' :
  feat_static c f q -> items_static c f its' -> (pr_items (fq_items q) -> pr_items its') ->
  feat_static c f (set_fq_items q its').
Proof.
  intros [IT FR HD] IT' PI. constructor; cbn [set_fq_items fq_init fq_items].
  - exact IT'.
  - intros NI. destruct (FR NI) as [A B]. split; [exact A|exact (PI B)].
  - exact HD.
Qed.
Lemma feat_static_set_state c f q st : feat_static c f q -> feat_static c f (set_fq_state q st).
Proof. intros [IT FR HD]. constructor; cbn [set_fq_state fq_init fq_items]; assumption. Qed.

(* ---- the list of features ---- *)
Lemma feats_static_modify c l f G q0 :
  feats_static c l -> In (f, q0) l -> feats_wf (amodify N.eqb f G l) = true ->
  feat_static c f (G q0) -> (pr_feat q0 -> pr_feat (G q0)) ->
  feats_static c (amodify N.eqb f G l).
Proof.
  intros [ND WF FT TL] H0 WF' FS' PF. constructor.
  - rewrite keys_amodify. exact ND.
  - exact WF'.
  - intros f' q' H. apply (in_amodify N.eqb N.eqb_eq) in H; [|exact ND]. destruct H as (q & Hq & ->).
    destruct (N.eqb_spec f f') as [<-|NE]; [|exact (FT f' q Hq)].
    rewrite (nodup_keys_unique _ _ _ _ ND Hq H0). exact FS'.
  - intros f' q' H. apply (in_tl_amodify N.eqb N.eqb_eq) in H; [|exact ND]. destruct H as (q & Hq & ->).
    pose proof (TL f' q Hq) as P. destruct (N.eqb_spec f f') as [<-|NE]; [|exact P].
    rewrite (nodup_keys_unique _ _ _ _ ND (in_tl _ _ Hq) H0) in *. exact (PF P).
Qed.

Lemma feats_open_modify c l f G q0 :
  NoDup (keys l) -> In (f, q0) l -> feats_open c l -> fq_init (G q0) = fq_init q0 ->
  (forall k', witR f (fq_items q0) k' -> witR f (fq_items (G q0)) k') ->
  (forall k', witA f (fq_items q0) k' -> witA f (fq_items (G q0)) k') ->
  feats_open c (amodify N.eqb f G l).
Proof.
  intros ND H0 (OF & OR & OA) FI WR WA.
  assert (MOVE : forall f' q, In (f', q) l -> exists q', In (f', q') (amodify N.eqb f G l) /\
            fq_init q' = fq_init q /\ (forall k', witR f' (fq_items q) k' -> witR f' (fq_items q') k') /\
            (forall k', witA f' (fq_items q) k' -> witA f' (fq_items q') k')).
  { intros f' q H. destruct (N.eq_dec f' f) as [->|NE].
    - rewrite (nodup_keys_unique _ _ _ _ ND H H0). exists (G q0).
      split; [exact (in_amodify_same N.eqb N.eqb_eq f G l q0 ND H0)|auto].
    - exists q. split; [exact (in_amodify_other N.eqb N.eqb_eq f G l f' q ND NE H)|auto]. }
  split; [|split].
  - intros f' L. destruct (OF f' L) as (q & H & IN). destruct (MOVE f' q H) as (q' & H' & E & _). exists q'. split; [exact H'|congruence].
  - intros k' L. destruct (OR k' L) as (f' & q & H & WI). destruct (MOVE f' q H) as (q' & H' & _ & X & _). exists f', q'. auto.
  - intros k' L. destruct (OA k' L) as (f' & q & H & WI). destruct (MOVE f' q H) as (q' & H' & _ & _ & X). exists f', q'. auto.
Qed.

Lemma items_static_nil c f : items_static c f [].
Proof. constructor; try (intros ? ? []); try (intros ? []). constructor. reflexivity. Qed.

Lemma feats_static_snoc c l f m :
  feats_static c l -> ~ In f (keys l) -> lookup N.eqb f (c_feats c) = None ->
  feats_static c (l ++ [(f, new_fq m)]).
Proof.
  intros [ND WF FT TL] NI AB. constructor.
  - pose proof (nodup_ainsert N.eqb N.eqb_eq f (new_fq m) l NI ND) as X.
    unfold ainsert in X. rewrite (aremove_absent N.eqb N.eqb_eq _ _ NI) in X. exact X.
  - unfold feats_wf in *. rewrite forallb_app, WF. reflexivity.
  - intros f' q' H. apply in_app_or in H as [H|[H|[]]]; [exact (FT f' q' H)|]. inversion H; subst.
    constructor; cbn [new_fq fq_init fq_items]; [apply items_static_nil|intros _; split; [exact AB|intros ? []]|discriminate].
  - intros f' q' H. apply in_tl_snoc in H as [H|(_ & H)]; [exact (TL f' q' H)|]. inversion H; subst.
    split; cbn; [discriminate|intros ? []].
Qed.
Lemma feats_open_snoc c l x : feats_open c l -> feats_open c (l ++ [x]).
Proof.
  intros (OF & OR & OA). split; [|split].
  - intros f L. destruct (OF f L) as (q & H & E). exists q. split; [apply in_or_app; left; exact H|exact E].
  - intros k' L. destruct (OR k' L) as (f & q & H & E). exists f, q. split; [apply in_or_app; left; exact H|exact E].
  - intros k' L. destruct (OA k' L) as (f & q & H & E). exists f, q. split; [apply in_or_app; left; exact H|exact E].
Qed.
