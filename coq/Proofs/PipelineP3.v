(* PipelineP3.v — C01 over the WHOLE grammar of statistics pipelines (Model/Pipeline.v):
   the run verdict `qfailed q (qfinal q es)` of every pipeline built from Summarize, Libtest, Normalize, FailOnSkipped,
   Repeat, Tee and Or is the verdict `qspec q es` specified by recursion on the pipeline.

   Part 1 (no hypotheses at all): a denotation. What every writer in the pipeline reports is a function of the stream
           it is handed; the stream handed down is a function (`concat nrun`, `map fos`, `rep`, `filter`) of the stream
           received.
   Part 2: what the two counting writers answer on ANY stream.
   Part 3: the shapes of the streams that travel down a pipeline fed with a complete contract-abiding stream,
           and how each combinator transforms them.
   Part 4: the theorem, its corollaries, examples. *)
From CV Require Import Proofs.SchedP5.
From CV Require Import Model.Base Model.Events Model.Contract Model.Combinators Model.Normalize Model.Stats Model.StatsSpec
  Model.Pipeline Proofs.BaseP Proofs.StatsP Proofs.NormalizeP Proofs.NormalizeP2 Proofs.NormalizeP3 Proofs.PipelineP
  Proofs.PipelineP2 Proofs.StatsP3.
From CV Require Proofs.NormalizeP4h.
From Coq Require Import Lia Permutation.

(* ========================================================================================== *)
(* 1. A denotation of the pipeline grammar                                                     *)
(* ========================================================================================== *)

(* what a Repeat hands to its inner writer: every event, and right after a run-Finished the buffered ones again *)
Fixpoint rep (k : fltk) (buf : list mev) (es : list mev) : list mev :=
  match es with
  | [] => []
  | e :: t =>
    let buf1 := if flt k e then buf ++ [e] else buf in
    if is_finished (snd e) then e :: buf1 ++ rep k [] t else e :: rep k buf1 t
  end.

Definition goes_left (m : list N) (e : mev) : bool := existsb (N.eqb (fst e)) m.
Definition goes_right (m : list N) (e : mev) : bool := negb (goes_left m e).

Lemma nfinal_app : forall a s b, nfinal s (a ++ b) = nfinal (nfinal s a) b.
Proof. induction a as [|e a IH]; intros s b; cbn [app nfinal]; [reflexivity|]. apply IH. Qed.

Section Den.
  Variable tags_of : N -> option N -> N -> list str.
  Variable last_own : N -> option N.

  Notation qhandle := (qhandle tags_of last_own).
  Notation qfinal_from := (qfinal_from tags_of last_own).
  Notation qfinal := (qfinal tags_of last_own).

  Definition fosm (k : fosk) (e : mev) : mev := (fst e, fos_ev (should_fail tags_of k) (snd e)).

  Lemma qfinal_from_app q : forall a s b, qfinal_from q s (a ++ b) = qfinal_from q (qfinal_from q s a) b.
  Proof. induction a as [|e a IH]; intros s b; cbn [app Pipeline.qfinal_from]; [reflexivity|]. apply IH. Qed.

  (* feeding a list of events to a writer = running it on the list *)
  Lemma feed_final q : forall es s (o : list (N * qop)),
    fst (fold_left (fun acc x => let '(s2, o2) := qhandle q (fst acc) x in (s2, snd acc ++ o2)) es (s, o)) = qfinal_from q s es.
  Proof.
    induction es as [|e es IH]; intros s o; cbn [fold_left Pipeline.qfinal_from]; [reflexivity|].
    cbn [fst snd]. destruct (qhandle q s e) as [s2 o2]. cbn [fst]. apply IH.
  Qed.

  Lemma qfinal_norm p : forall es n s,
    qfinal_from (QNorm p) (TNorm n s) es = TNorm (nfinal n es) (qfinal_from p s (concat (nrun_from n es))).
  Proof.
    induction es as [|e t IH]; intros n s; cbn [Pipeline.qfinal_from nfinal nrun_from concat]; [reflexivity|].
    cbn [Pipeline.qhandle]. destruct (nhandle n e) as [n' outs] eqn:NH. cbn [fst].
    pose proof (feed_final p outs s []) as F.
    destruct (fold_left _ outs (s, [])) as [s1 out1]. cbn [fst] in *. subst s1.
    rewrite IH. cbn [concat]. rewrite qfinal_from_app. reflexivity.
  Qed.

  Lemma qfinal_fos k p : forall es s,
    qfinal_from (QFos k p) (TOne s) es = TOne (qfinal_from p s (map (fosm k) es)).
  Proof.
    induction es as [|e t IH]; intros s; cbn [Pipeline.qfinal_from map]; [reflexivity|].
    cbn [Pipeline.qhandle]. fold (fosm k e). destruct (qhandle p s (fosm k e)) as [s1 o1]. cbn [fst]. apply IH.
  Qed.

  Lemma qfinal_rep k p : forall es buf s,
    exists buf', qfinal_from (QRepeat k p) (TRep buf s) es = TRep buf' (qfinal_from p s (rep k buf es)).
  Proof.
    induction es as [|e t IH]; intros buf s; cbn [Pipeline.qfinal_from rep]; [exists buf; reflexivity|].
    cbn [Pipeline.qhandle]. destruct (qhandle p s e) as [s1 out1] eqn:H1.
    destruct (is_finished (snd e)) eqn:IF.
    - pose proof (feed_final p (if flt k e then buf ++ [e] else buf) s1 []) as F.
      destruct (fold_left _ (if flt k e then buf ++ [e] else buf) (s1, [])) as [s2 out2]. cbn [fst] in *. subst s2.
      destruct (IH [] (qfinal_from p s1 (if flt k e then buf ++ [e] else buf))) as (buf' & ->). exists buf'.
      cbn [Pipeline.qfinal_from]. rewrite H1. cbn [fst]. rewrite qfinal_from_app. reflexivity.
    - cbn [fst]. destruct (IH (if flt k e then buf ++ [e] else buf) s1) as (buf' & ->). exists buf'.
      cbn [Pipeline.qfinal_from]. rewrite H1. reflexivity.
  Qed.

  Lemma qfinal_tee l r : forall es sl sr,
    qfinal_from (QTee l r) (TTwo sl sr) es = TTwo (qfinal_from l sl es) (qfinal_from r sr es).
  Proof.
    induction es as [|e t IH]; intros sl sr; cbn [Pipeline.qfinal_from]; [reflexivity|].
    cbn [Pipeline.qhandle]. destruct (qhandle l sl e) as [sl' ol]. destruct (qhandle r sr e) as [sr' o_r]. cbn [fst]. apply IH.
  Qed.

  Lemma qfinal_or m l r : forall es sl sr,
    qfinal_from (QOr m l r) (TTwo sl sr) es =
    TTwo (qfinal_from l sl (filter (goes_left m) es)) (qfinal_from r sr (filter (goes_right m) es)).
  Proof.
    induction es as [|e t IH]; intros sl sr; cbn [Pipeline.qfinal_from filter]; [reflexivity|].
    cbn [Pipeline.qhandle]. unfold goes_right. fold (goes_left m e). destruct (goes_left m e); cbn [negb].
    - cbn [Pipeline.qfinal_from]. destruct (qhandle l sl e) as [sl' o]. cbn [fst]. apply IH.
    - cbn [Pipeline.qfinal_from]. destruct (qhandle r sr e) as [sr' o]. cbn [fst]. apply IH.
  Qed.

  (* the six getters of a pipeline, as a function of the stream it receives *)
  Fixpoint G (q : spipe) (es : list mev) : getters :=
    match q with
    | QLeaf _ => gzero
    | QSumm _ => sm_getters (sm_final last_own es)
    | QLibtest => lt_getters (lt_final (map snd es))
    | QNorm p => G p (concat (nrun es))
    | QFos k p => G p (map (fosm k) es)
    | QRepeat k p => G p (rep k [] es)
    | QTee l r => gmap2 N.max (G l es) (G r es)
    | QOr m l r => gmap2 N.add (G l (filter (goes_left m) es)) (G r (filter (goes_right m) es))
    end.

  Theorem getters_denotation : forall q es, qgetters q (qfinal q es) = G q es.
  Proof.
    induction q as [id|q IH| |q IH|k q IH|k q IH|l IHl r IHr|m l IHl r IHr]; intros es; unfold Pipeline.qfinal; cbn [qinit G].
    - destruct (Pipeline.qfinal_from _ _ _ _ _); reflexivity.
    - destruct (qfinal_summ tags_of last_own q es summ_init (qinit q)) as (sq' & ->). reflexivity.
    - rewrite qfinal_libtest. reflexivity.
    - rewrite qfinal_norm. cbn [qgetters]. apply IH.
    - rewrite qfinal_fos. cbn [qgetters]. apply IH.
    - destruct (qfinal_rep k q es [] (qinit q)) as (buf' & ->). cbn [qgetters]. apply IH.
    - rewrite qfinal_tee. cbn [qgetters]. unfold Pipeline.qfinal in IHl, IHr. rewrite IHl, IHr. reflexivity.
    - rewrite qfinal_or. cbn [qgetters]. unfold Pipeline.qfinal in IHl, IHr. rewrite IHl, IHr. reflexivity.
  Qed.

  (* the verdict of a pipeline, as a function of the stream it receives *)
  Definition V (q : spipe) (es : list mev) : bool := g_has_failed (G q es).

  Theorem verdict_denotation q es : qfailed q (qfinal q es) = V q es.
  Proof. rewrite qfailed_getters, getters_denotation. reflexivity. Qed.
End Den.

(* ========================================================================================== *)
(* 2. What the counting writers answer on ANY stream                                           *)
(* ========================================================================================== *)

(* "something went wrong": a parser error, a step that failed finally, or a hook that failed *)
Definition bad (es : list ev) : bool :=
  existsb is_parse_err es || existsb is_step_failed_final es || existsb is_hook_failed es.

(* Summarize: whatever was delivered before run-Finished (sm_verdict without the K01a restriction) *)
Theorem sm_verdict_any last_own es :
  g_has_failed (sm_getters (sm_final last_own es)) = bad (before_finished (map snd es)).
Proof.
  pose proof (sm_final_core last_own es) as C.
  unfold g_has_failed, sm_getters, bad; cbn [g_failed g_parsing g_hooks].
  set (s := sm_final last_own es) in *. set (b := before_finished (map snd es)) in *.
  assert (n_failed (sm_steps s) = count is_step_failed_final b) as -> by (apply (f_equal c_failed) in C; exact C).
  assert (sm_parsing_errors s = count is_parse_err b) as -> by (apply (f_equal c_parsing) in C; exact C).
  assert (sm_failed_hooks s = count is_hook_failed b) as -> by (apply (f_equal c_hooks) in C; exact C).
  rewrite !count_pos.
  destruct (existsb is_parse_err b), (existsb is_step_failed_final b), (existsb is_hook_failed b); reflexivity.
Qed.

(* Libtest: everything that was delivered, provided ParsingFinished was; nothing otherwise *)
Theorem lt_verdict_any es :
  g_has_failed (lt_getters (lt_final es)) = existsb is_parsing_finished es && bad es.
Proof.
  destruct (existsb is_parsing_finished es) eqn:PF; cbn [andb].
  - rewrite (lt_verdict es PF). reflexivity.
  - exact (proj2 (proj2 (lt_nothing_without_parsing_finished es PF))).
Qed.

(* Or: failed iff one of the two sides failed *)
Lemma has_failed_add a b : g_has_failed (gmap2 N.add a b) = g_has_failed a || g_has_failed b.
Proof.
  unfold g_has_failed, gmap2. cbn [g_failed g_parsing g_hooks].
  assert (M : forall x y, (0 <? x + y) = (0 <? x) || (0 <? y)).
  { intros x y. destruct (N.ltb_spec 0 x), (N.ltb_spec 0 y), (N.ltb_spec 0 (x + y)); try reflexivity; lia. }
  rewrite !M. destruct (0 <? g_failed a), (0 <? g_failed b), (0 <? g_parsing a), (0 <? g_parsing b),
    (0 <? g_hooks a), (0 <? g_hooks b); reflexivity.
Qed.

Section VEq.
  Variable tags_of : N -> option N -> N -> list str.
  Variable last_own : N -> option N.
  Notation VV := (V tags_of last_own).

  Lemma V_leaf id es : VV (QLeaf id) es = false.
  Proof. reflexivity. Qed.
  Lemma V_summ p es : VV (QSumm p) es = bad (before_finished (map snd es)).
  Proof. unfold V. cbn [G]. apply sm_verdict_any. Qed.
  Lemma V_lib es : VV QLibtest es = existsb is_parsing_finished (map snd es) && bad (map snd es).
  Proof. unfold V. cbn [G]. apply lt_verdict_any. Qed.
  Lemma V_norm p es : VV (QNorm p) es = VV p (concat (nrun es)).
  Proof. reflexivity. Qed.
  Lemma V_fos k p es : VV (QFos k p) es = VV p (map (fosm tags_of k) es).
  Proof. reflexivity. Qed.
  Lemma V_rep k p es : VV (QRepeat k p) es = VV p (rep k [] es).
  Proof. reflexivity. Qed.
  Lemma V_tee l r es : VV (QTee l r) es = VV l es || VV r es.
  Proof. unfold V. cbn [G]. apply has_failed_max. Qed.
  Lemma V_or m l r es : VV (QOr m l r) es = VV l (filter (goes_left m) es) || VV r (filter (goes_right m) es).
  Proof. unfold V. cbn [G]. apply has_failed_add. Qed.
End VEq.

(* ========================================================================================== *)
(* 3. The shapes of the streams that travel down a pipeline                                    *)
(* ========================================================================================== *)

Definition isfin (e : mev) : bool := is_finished (snd e).
Definition fin_or_nil (f : list mev) : Prop := f = [] \/ exists m, f = [(m, EvFinished)].

(* ---- lists ---- *)
Lemma existsb_map_snd (P : ev -> bool) (l : list mev) : existsb P (map snd l) = existsb (fun e => P (snd e)) l.
Proof. induction l as [|e l IH]; [reflexivity|]. cbn [map existsb]. rewrite IH. reflexivity. Qed.

Lemma existsb_incl {A} (p : A -> bool) (c d : list A) : incl c d -> existsb p c = true -> existsb p d = true.
Proof. intros I H. apply existsb_exists in H as (x & IN & PX). apply existsb_exists. exists x. split; [apply I; exact IN|exact PX]. Qed.

Lemma existsb_incl_false {A} (p : A -> bool) (c d : list A) : incl c d -> existsb p d = false -> existsb p c = false.
Proof. intros I H. destruct (existsb p c) eqn:E; [|reflexivity]. rewrite (existsb_incl p c d I E) in H. discriminate. Qed.

Lemma existsb_app_incl {A} (p : A -> bool) (c d : list A) : incl c d -> existsb p (d ++ c) = existsb p d.
Proof.
  intros I. rewrite existsb_app. destruct (existsb p d) eqn:D; [reflexivity|]. cbn [orb]. exact (existsb_incl_false p c d I D).
Qed.

Lemma before_finished_nofin l : existsb is_finished l = false -> before_finished l = l.
Proof.
  induction l as [|e l IH]; intros H; [reflexivity|]. cbn [existsb] in H. apply orb_false_iff in H as [H1 H2].
  cbn [before_finished]. destruct e; try discriminate H1; rewrite (IH H2); reflexivity.
Qed.

Lemma incl_filter {A} (g : A -> bool) (c d : list A) : incl c d -> incl (filter g c) (filter g d).
Proof. intros I x H. apply filter_In in H as [H1 H2]. apply filter_In. split; [apply I; exact H1|exact H2]. Qed.

Lemma existsb_filter_false {A} (p g : A -> bool) (l : list A) : existsb p l = false -> existsb p (filter g l) = false.
Proof. apply existsb_incl_false. intros x H. apply filter_In in H as [H _]. exact H. Qed.

(* ---- what Repeat does to a stream ---- *)
Lemma rep_nofin k : forall X buf, existsb isfin X = false -> rep k buf X = X.
Proof.
  induction X as [|e X IH]; intros buf H; [reflexivity|]. cbn [existsb] in H. apply orb_false_iff in H as [H1 H2].
  cbn [rep]. unfold isfin in H1. rewrite H1. rewrite (IH _ H2). reflexivity.
Qed.

Lemma rep_app_nofin k : forall b buf t, existsb isfin b = false ->
  rep k buf (b ++ t) = b ++ rep k (buf ++ filter (flt k) b) t.
Proof.
  induction b as [|e b IH]; intros buf t H; cbn [app filter].
  - rewrite app_nil_r. reflexivity.
  - cbn [existsb] in H. apply orb_false_iff in H as [H1 H2]. cbn [rep]. unfold isfin in H1. rewrite H1. f_equal.
    rewrite (IH _ _ H2). destruct (flt k e); [rewrite <- app_assoc|]; reflexivity.
Qed.

Lemma rep_incl k : forall c buf, incl (rep k buf c) (buf ++ c).
Proof.
  induction c as [|e c IH]; intros buf; cbn [rep]; [intros x []|].
  assert (B1 : incl (if flt k e then buf ++ [e] else buf) (buf ++ [e])).
  { destruct (flt k e); [apply incl_refl|apply incl_appl, incl_refl]. }
  destruct (is_finished (snd e)).
  - intros x [<-|H]; [apply in_or_app; right; left; reflexivity|]. apply in_app_or in H as [H|H].
    + apply B1 in H. apply in_app_or in H as [H|[<-|[]]]; apply in_or_app; [left; exact H|right; left; reflexivity].
    + apply (IH []) in H. cbn [app] in H. apply in_or_app. right. right. exact H.
  - intros x [<-|H]; [apply in_or_app; right; left; reflexivity|]. apply IH in H. apply in_app_or in H as [H|H].
    + apply B1 in H. apply in_app_or in H as [H|[<-|[]]]; apply in_or_app; [left; exact H|right; left; reflexivity].
    + apply in_or_app. right. right. exact H.
Qed.

(* a stream "b, run-Finished, replays of b": Repeat keeps the prefix and adds more replays *)
Lemma rep_shape k b m c :
  existsb isfin b = false -> incl c (b ++ [(m, EvFinished)]) ->
  exists c', rep k [] (b ++ (m, EvFinished) :: c) = b ++ (m, EvFinished) :: c' /\ incl c' (b ++ [(m, EvFinished)]).
Proof.
  intros NF IC. rewrite (rep_app_nofin k b [] _ NF). cbn [app rep snd is_finished].
  eexists. split; [reflexivity|].
  assert (FB : incl (filter (flt k) b) b) by (intros x H; apply filter_In in H as [H _]; exact H).
  apply incl_app.
  - destruct (flt k (m, EvFinished)).
    + apply incl_app; [apply incl_appl; exact FB|apply incl_appr, incl_refl].
    + apply incl_appl; exact FB.
  - intros x H. apply (rep_incl k c []) in H. cbn [app] in H. apply IC. exact H.
Qed.

(* ---- the WEAK shape: what a Normalize-free pipeline needs.
   X = b ++ f ++ c: a part b without run-Finished, then run-Finished or nothing, then re-deliveries of earlier events;
   T, the stream the specification talks about, is b ++ f up to the order ---- *)
Definition Weak (X T : list mev) : Prop :=
  exists (b f c : list mev), X = b ++ f ++ c /\ existsb isfin b = false /\ fin_or_nil f /\ incl c (b ++ f) /\ Permutation (b ++ f) T.

Lemma weak_exists (P : ev -> bool) X T : Weak X T -> existsb P (map snd X) = existsb P (map snd T).
Proof.
  intros (b & f & c & -> & NF & FN & IC & PM). rewrite !existsb_map_snd. rewrite app_assoc.
  rewrite (existsb_app_incl _ c (b ++ f) IC). apply existsb_perm. exact PM.
Qed.

Lemma weak_before (P : ev -> bool) X T :
  P EvFinished = false -> Weak X T -> existsb P (before_finished (map snd X)) = existsb P (map snd T).
Proof.
  intros PF W. pose proof W as (b & f & c & E & NF & FN & IC & PM). destruct FN as [->|(m & ->)].
  - rewrite before_finished_nofin; [exact (weak_exists P X T W)|].
    subst X. cbn [app] in *. rewrite app_nil_r in IC. rewrite existsb_map_snd. change (existsb isfin (b ++ c) = false).
    rewrite (existsb_app_incl isfin c b IC). exact NF.
  - subst X. cbn [app]. rewrite map_app. cbn [map snd].
    assert (NF' : existsb is_finished (map snd b) = false) by (rewrite existsb_map_snd; exact NF).
    rewrite (before_finished_app _ _ NF').
    rewrite <- (existsb_perm _ _ _ (Permutation_map snd PM)). rewrite map_app, existsb_app. cbn [map snd existsb].
    rewrite PF, !orb_false_r. reflexivity.
Qed.

Section Shapes.
  Variable tags_of : N -> option N -> N -> list str.
  Notation fosm := (fosm tags_of).

  Lemma fos_ev_finished sf e : is_finished (fos_ev sf e) = is_finished e.
  Proof. destruct e as [| | | | | | | |f r s rt x]; try reflexivity. destruct x as [|? ?|st y|st y|?|]; try reflexivity;
         destruct y; try reflexivity; cbn [fos_ev]; destruct (sf f r s); reflexivity. Qed.

  Lemma isfin_fosm k e : isfin (fosm k e) = isfin e.
  Proof. unfold isfin, PipelineP3.fosm. cbn [snd]. apply fos_ev_finished. Qed.

  Lemma nofin_map_fosm k b : existsb isfin b = false -> existsb isfin (map (fosm k) b) = false.
  Proof. induction b as [|e b IH]; intros H; [reflexivity|]. cbn [map existsb] in *. apply orb_false_iff in H as [H1 H2].
         rewrite isfin_fosm, H1, (IH H2). reflexivity. Qed.

  Lemma weak_fos k X T : Weak X T -> Weak (map (fosm k) X) (map (fosm k) T).
  Proof.
    intros (b & f & c & -> & NF & FN & IC & PM). exists (map (fosm k) b), f, (map (fosm k) c).
    assert (FF : map (fosm k) f = f) by (destruct FN as [->|(m & ->)]; reflexivity).
    split; [rewrite !map_app, FF; reflexivity|]. split; [exact (nofin_map_fosm k b NF)|]. split; [exact FN|].
    split.
    - rewrite <- FF, <- map_app. apply incl_map. exact IC.
    - rewrite <- FF, <- map_app. apply Permutation_map. exact PM.
  Qed.

  Lemma weak_filter (g : mev -> bool) X T : Weak X T -> Weak (filter g X) (filter g T).
  Proof.
    intros (b & f & c & -> & NF & FN & IC & PM). exists (filter g b), (filter g f), (filter g c).
    split; [rewrite !filter_app; reflexivity|]. split; [exact (existsb_filter_false isfin g b NF)|]. split.
    - destruct FN as [->|(m & ->)]; [left; reflexivity|]. cbn [filter]. destruct (g (m, EvFinished)); [right; exists m|left]; reflexivity.
    - split; rewrite <- filter_app; [apply incl_filter; exact IC|apply filter_perm; exact PM].
  Qed.

  Lemma weak_rep k X T : Weak X T -> Weak (rep k [] X) T.
  Proof.
    intros W. pose proof W as (b & f & c & E & NF & FN & IC & PM). destruct FN as [->|(m & ->)].
    - rewrite rep_nofin; [exact W|]. subst X. cbn [app] in *. rewrite app_nil_r in IC.
      rewrite (existsb_app_incl isfin c b IC). exact NF.
    - subst X. cbn [app]. destruct (rep_shape k b m c NF IC) as (c' & RE & IC').
      exists b, [(m, EvFinished)], c'. split; [exact RE|]. split; [exact NF|]. split; [right; exists m; reflexivity|].
      split; [exact IC'|exact PM].
  Qed.
End Shapes.

(* ---- the contract automaton does not look at step results: FailOnSkipped preserves the contract ---- *)
Lemma cstep_fos sf seq c e : cstep seq c (fos_ev sf e) = cstep seq c e.
Proof.
  destruct e as [| | | | | | | |f r s rt x]; try reflexivity. destruct x as [|? ?|st y|st y|?|]; try reflexivity;
    destruct y; try reflexivity; cbn [fos_ev]; destruct (sf f r s); reflexivity.
Qed.
Lemma crun_fos sf seq : forall l c, crun seq c (map (fos_ev sf) l) = crun seq c l.
Proof. induction l as [|e l IH]; intros c; [reflexivity|]. cbn [map crun]. rewrite cstep_fos. destruct (cstep seq c e); [apply IH|reflexivity]. Qed.
Lemma contract_fos sf l : contract (map (fos_ev sf) l) = contract l.
Proof. unfold contract. rewrite crun_fos. reflexivity. Qed.

(* ---- the sequential contract is a strengthening of the contract ---- *)
Lemma guard_mono (b b' : bool) (c c' : cstate) : (b = true -> b' = true) -> guard b c = Some c' -> guard b' c = Some c'.
Proof. intros I H. apply guard_some in H as [B <-]. unfold guard. rewrite (I B). reflexivity. Qed.

Lemma cstep_seq_false c e c' : cstep true c e = Some c' -> cstep false c e = Some c'.
Proof.
  unfold cstep. destruct (c_finished c); [discriminate|].
  destruct e as [| | | |f|f|f r|f r|f r s rt x]; try exact (fun H => H);
    try (apply guard_mono; cbn [negb orb]; rewrite ?andb_true_r; rewrite ?andb_true_iff; tauto).
  destruct x, r; apply guard_mono; cbn [negb orb]; rewrite ?andb_true_r; rewrite ?andb_true_iff; tauto.
Qed.
Lemma crun_seq_false : forall l c c', crun true c l = Some c' -> crun false c l = Some c'.
Proof.
  induction l as [|e l IH]; intros c c' H; cbn [crun] in *; [exact H|].
  destruct (cstep true c e) as [c1|] eqn:CS; [|discriminate]. rewrite (cstep_seq_false c e c1 CS). exact (IH _ _ H).
Qed.
Lemma normalized_contract l : normalized l = true -> contract l = true.
Proof.
  unfold normalized, contract. destruct (crun true cinit l) as [c|] eqn:CR; [|discriminate].
  rewrite (crun_seq_false l cinit c CR). exact (fun H => H).
Qed.

(* ---- Normalize after run-Finished: a pass-through ---- *)
Lemma accepts_run_prefix : forall a s b, accepts_run s (a ++ b) = true -> accepts_run s a = true.
Proof.
  induction a as [|e a IH]; intros s b A; [reflexivity|]. cbn [app accepts_run] in *. apply andb_prop in A as [A1 A2].
  rewrite A1. exact (IH _ _ A2).
Qed.

Lemma nhandle_finished_state s m : is_emitted (ns_state s) = false ->
  is_emitted (ns_state (fst (nhandle s (m, EvFinished)))) = true.
Proof.
  intros EM. unfold nhandle. rewrite EM. cbn [snd is_pass enqueue fst ns_feats ns_state].
  destruct (emit_feats (ns_feats s)) as [o1 fs]. cbn [take_fin fst ns_state is_emitted]. reflexivity.
Qed.

Lemma nrun_emitted : forall c s, is_emitted (ns_state s) = true -> concat (nrun_from s c) = c.
Proof.
  induction c as [|e c IH]; intros s EM; cbn [nrun_from concat]; [reflexivity|].
  assert (E : nhandle s e = (s, [e])) by (unfold nhandle; rewrite EM; reflexivity). rewrite E. cbn [concat app].
  rewrite (IH s EM). reflexivity.
Qed.

Lemma contract_nofin_prefix (b : list mev) m : contract (map snd (b ++ [(m, EvFinished)])) = true -> existsb isfin b = false.
Proof.
  intros C. unfold contract in C. destruct (crun false cinit (map snd (b ++ [(m, EvFinished)]))) as [c1|] eqn:CR; [|discriminate].
  destruct (contract_ends_with_finished _ _ _ CR eq_refl C) as (l0 & EL & NF0).
  rewrite map_app in EL. cbn [map snd] in EL. apply app_inj_tail in EL as [EL _]. subst l0.
  rewrite existsb_map_snd in NF0. exact NF0.
Qed.

(* ---- the STRONG shape: a complete contract-abiding stream, then re-deliveries of its events ---- *)
Definition Strong (X T : list mev) : Prop :=
  exists (b : list mev) (m : N) (c : list mev), X = b ++ (m, EvFinished) :: c /\ contract (map snd (b ++ [(m, EvFinished)])) = true /\
                incl c (b ++ [(m, EvFinished)]) /\ Permutation (b ++ [(m, EvFinished)]) T.

Lemma strong_weak X T : Strong X T -> Weak X T.
Proof.
  intros (b & m & c & E & C & IC & PM). exists b, [(m, EvFinished)], c. split; [exact E|].
  split; [exact (contract_nofin_prefix b m C)|]. split; [right; exists m; reflexivity|]. split; [exact IC|exact PM].
Qed.

Lemma strong_tail (b : list mev) m c : b ++ (m, EvFinished) :: c = (b ++ [(m, EvFinished)]) ++ c.
Proof. rewrite <- app_assoc. reflexivity. Qed.

Section Shapes2.
  Variable tags_of : N -> option N -> N -> list str.
  Notation fosm := (fosm tags_of).

  Lemma map_snd_fosm k l : map snd (map (fosm k) l) = map (fos_ev (should_fail tags_of k)) (map snd l).
  Proof. rewrite !map_map. reflexivity. Qed.

  Lemma strong_fos k X T : Strong X T -> Strong (map (fosm k) X) (map (fosm k) T).
  Proof.
    intros (b & m & c & E & C & IC & PM). exists (map (fosm k) b), m, (map (fosm k) c).
    assert (FF : map (fosm k) (b ++ [(m, EvFinished)]) = map (fosm k) b ++ [(m, EvFinished)]) by (rewrite map_app; reflexivity).
    assert (G1 : contract (map snd (map (fosm k) (b ++ [(m, EvFinished)]))) = true) by (rewrite map_snd_fosm, contract_fos; exact C).
    assert (G2 : incl (map (fosm k) c) (map (fosm k) (b ++ [(m, EvFinished)]))) by (apply incl_map; exact IC).
    assert (G3 : Permutation (map (fosm k) (b ++ [(m, EvFinished)])) (map (fosm k) T)) by (apply Permutation_map; exact PM).
    rewrite FF in G1, G2, G3.
    split; [subst X; rewrite map_app; reflexivity|]. split; [exact G1|]. split; [exact G2|exact G3].
  Qed.

  Lemma strong_rep k X T : Strong X T -> Strong (rep k [] X) T.
  Proof.
    intros (b & m & c & E & C & IC & PM). subst X.
    destruct (rep_shape k b m c (contract_nofin_prefix b m C) IC) as (c' & RE & IC').
    exists b, m, c'. split; [exact RE|]. split; [exact C|]. split; [exact IC'|exact PM].
  Qed.

  (* Normalize: the contract-abiding part comes out reordered, still contract-abiding (even sequential), with
     run-Finished last; the re-deliveries after it pass through *)
  Lemma strong_norm X T : Strong X T -> Strong (concat (nrun X)) T.
  Proof.
    intros (b & m & c & E & C & IC & PM). subst X.
    pose proof (contract_nofin_prefix b m C) as NFb.
    set (es1 := b ++ [(m, EvFinished)]) in *.
    rewrite strong_tail. fold es1. unfold nrun. rewrite nrun_from_app, concat_app. fold (nrun es1).
    assert (CP : contract_prefix (map snd es1) = true).
    { unfold contract in C. unfold contract_prefix. destruct (crun false cinit (map snd es1)); [reflexivity|discriminate]. }
    pose proof (contract_implies_accepts _ CP) as AR.
    assert (EM : is_emitted (ns_state (nfinal ninit es1)) = true).
    { unfold es1. rewrite nfinal_app. cbn [nfinal]. apply nhandle_finished_state.
      destruct (not_emitted_without_finished b ninit eq_refl eq_refl (accepts_run_prefix _ _ _ AR) eq_refl NFb) as (_ & _ & EM0).
      exact EM0. }
    rewrite (nrun_emitted c _ EM).
    destruct (finished_comes_last es1 C) as (X0 & m' & XE0 & NFX).
    pose proof (contract_lossless es1 C) as PX.
    pose proof (NormalizeP4h.normalize_output_is_sequential es1 C) as NS.
    rewrite XE0 in PX, NS |- *.
    assert (MM : m' = m).
    { assert (IN : In (m', EvFinished) es1).
      { apply (Permutation_in _ PX). apply in_or_app. right. left. reflexivity. }
      unfold es1 in IN. apply in_app_or in IN as [IN|[IN|[]]].
      - exfalso. assert (T1 : existsb isfin b = true) by (apply existsb_exists; exists (m', EvFinished); split; [exact IN|reflexivity]).
        rewrite NFb in T1. discriminate.
      - inversion IN. reflexivity. }
    subst m'. exists X0, m, c. split; [rewrite <- app_assoc; reflexivity|]. split; [apply normalized_contract; exact NS|].
    split.
    - intros x Hx. apply (Permutation_in x (Permutation_sym PX)). apply IC. exact Hx.
    - exact (Permutation_trans PX PM).
  Qed.
End Shapes2.

(* ========================================================================================== *)
(* 4. The theorem                                                                              *)
(* ========================================================================================== *)

(* pipelines without a Normalize (what sits below a Summarize does not matter) *)
Fixpoint no_norm (q : spipe) : bool :=
  match q with
  | QLeaf _ | QSumm _ | QLibtest => true
  | QNorm _ => false
  | QFos _ p | QRepeat _ p => no_norm p
  | QTee l r | QOr _ l r => no_norm l && no_norm r
  end.

(* the statistics pipelines: every combination, except that the two sides of an Or are Normalize-free
   (an Or splits the stream by metadata: neither half is contract-abiding) *)
Inductive SP : spipe -> Prop :=
| SP_summ p : SP (QSumm p)
| SP_lib : SP QLibtest
| SP_norm p : SP p -> SP (QNorm p)
| SP_fos k p : SP p -> SP (QFos k p)
| SP_rep k p : SP p -> SP (QRepeat k p)
| SP_tee l r : SP l -> SP r -> SP (QTee l r)
| SP_or m l r : no_norm l = true -> no_norm r = true -> SP (QOr m l r).

(* an executable version of SP *)
Fixpoint spb (q : spipe) : bool :=
  match q with
  | QLeaf _ => false
  | QSumm _ | QLibtest => true
  | QNorm p | QFos _ p | QRepeat _ p => spb p
  | QTee l r => spb l && spb r
  | QOr _ l r => no_norm l && no_norm r
  end.
Lemma spb_SP : forall q, spb q = true -> SP q.
Proof.
  induction q as [id|q IH| |q IH|k q IH|k q IH|l IHl r IHr|m l IHl r IHr]; cbn [spb]; intros H; try discriminate;
    try (constructor; auto; fail).
  - apply andb_prop in H as [H1 H2]. constructor; auto.
  - apply andb_prop in H as [H1 H2]. constructor; auto.
Qed.

Section Thm.
  Variable tags_of : N -> option N -> N -> list str.
  Variable last_own : N -> option N.
  Notation VV := (V tags_of last_own).
  Notation fosm := (fosm tags_of).

  (* the SPECIFIED verdict, by recursion on the pipeline, as a function of the stream the Runner delivers:
     - Summarize: something went wrong;
     - Libtest: the same, provided it was handed ParsingFinished (it reports nothing before);
     - Normalize, Repeat: transparent;
     - FailOnSkipped: the verdict of the stream in which the skipped steps of the `should_fail` scenarios are failures;
     - Tee: one of the two sides; Or: one of the two sides on its share of the events *)
  Fixpoint qspec (q : spipe) (es : list mev) : bool :=
    match q with
    | QLeaf _ => false
    | QSumm _ => bad (map snd es)
    | QLibtest => existsb is_parsing_finished (map snd es) && bad (map snd es)
    | QNorm p => qspec p es
    | QFos k p => qspec p (map (fosm k) es)
    | QRepeat _ p => qspec p es
    | QTee l r => qspec l es || qspec r es
    | QOr m l r => qspec l (filter (goes_left m) es) || qspec r (filter (goes_right m) es)
    end.

  Lemma weak_bad X T : Weak X T -> bad (before_finished (map snd X)) = bad (map snd T).
  Proof. intros W. unfold bad. rewrite !(weak_before _ X T) by (try reflexivity; exact W). reflexivity. Qed.

  (* Normalize-free pipelines: on every stream of the weak shape *)
  Theorem verdict_weak : forall q, no_norm q = true -> forall X T, Weak X T -> VV q X = qspec q T.
  Proof.
    induction q as [id|q IH| |q IH|k q IH|k q IH|l IHl r IHr|m l IHl r IHr]; cbn [no_norm]; intros NN X T W; cbn [qspec].
    - reflexivity.
    - rewrite V_summ. exact (weak_bad X T W).
    - rewrite V_lib. unfold bad. rewrite !(weak_exists _ X T W). reflexivity.
    - discriminate NN.
    - rewrite V_fos. apply (IH NN). apply weak_fos. exact W.
    - rewrite V_rep. apply (IH NN). apply weak_rep. exact W.
    - apply andb_prop in NN as [N1 N2]. rewrite V_tee, (IHl N1 X T W), (IHr N2 X T W). reflexivity.
    - apply andb_prop in NN as [N1 N2]. rewrite V_or.
      rewrite (IHl N1 _ _ (weak_filter (goes_left m) X T W)), (IHr N2 _ _ (weak_filter (goes_right m) X T W)). reflexivity.
  Qed.

  (* all statistics pipelines: on every stream of the strong shape *)
  Theorem verdict_strong : forall q, SP q -> forall X T, Strong X T -> VV q X = qspec q T.
  Proof.
    induction 1 as [p| |p HP IH|k p HP IH|k p HP IH|l r HL IHl HR IHr|m l r NL NR]; intros X T S.
    - apply verdict_weak; [reflexivity|apply strong_weak; exact S].
    - apply verdict_weak; [reflexivity|apply strong_weak; exact S].
    - rewrite V_norm. cbn [qspec]. apply IH. apply strong_norm. exact S.
    - rewrite V_fos. cbn [qspec]. apply IH. apply strong_fos. exact S.
    - rewrite V_rep. cbn [qspec]. apply IH. apply strong_rep. exact S.
    - rewrite V_tee. cbn [qspec]. rewrite (IHl X T S), (IHr X T S). reflexivity.
    - apply verdict_weak; [cbn [no_norm]; rewrite NL, NR; reflexivity|apply strong_weak; exact S].
  Qed.

  Lemma contract_strong (es : list mev) : contract (map snd es) = true -> Strong es es.
  Proof.
    intros C. pose proof C as C0. unfold contract in C. destruct (crun false cinit (map snd es)) as [c1|] eqn:CR; [|discriminate].
    destruct (contract_ends_with_finished _ _ _ CR eq_refl C) as (l0' & EL & NF0).
    apply map_eq_app in EL as (l0 & lf & -> & <- & ELF).
    destruct lf as [|[m ef] [|? ?]]; try discriminate ELF. cbn in ELF. inversion ELF; subst ef. clear ELF.
    exists l0, m, []. split; [reflexivity|]. split; [exact C0|]. split; [intros x []|apply Permutation_refl].
  Qed.

  (* ---- C01 for EVERY statistics pipeline, on every complete contract-abiding stream ---- *)
  Theorem verdict_of_every_pipeline q es :
    SP q -> contract (map snd es) = true ->
    qfailed q (qfinal tags_of last_own q es) = qspec q es.
  Proof. intros HQ C. rewrite verdict_denotation. exact (verdict_strong q HQ es es (contract_strong es C)). Qed.

  (* Normalize-free pipelines do not need the contract: it is enough that run-Finished, if it comes, comes last *)
  Theorem verdict_of_every_flat_pipeline q (a f : list mev) :
    no_norm q = true -> existsb isfin a = false -> fin_or_nil f ->
    qfailed q (qfinal tags_of last_own q (a ++ f)) = qspec q (a ++ f).
  Proof.
    intros NN NF FN. rewrite verdict_denotation. apply (verdict_weak q NN). exists a, f, [].
    split; [rewrite app_nil_r; reflexivity|]. split; [exact NF|]. split; [exact FN|]. split; [intros x []|apply Permutation_refl].
  Qed.
End Thm.

(* ========================================================================================== *)
(* 5. Corollaries                                                                              *)
(* ========================================================================================== *)

Definition badp (e : ev) : bool := is_parse_err e || is_step_failed_final e || is_hook_failed e.
Lemma bad_badp es : bad es = existsb badp es.
Proof. unfold bad, badp. rewrite !existsb_or. reflexivity. Qed.

Lemma existsb_map' {A B} (P : B -> bool) (f : A -> B) l : existsb P (map f l) = existsb (fun x => P (f x)) l.
Proof. induction l as [|x l IH]; [reflexivity|]. cbn [map existsb]. rewrite IH. reflexivity. Qed.

Lemma existsb_filter_split {A} (P g : A -> bool) l :
  existsb P (filter g l) || existsb P (filter (fun x => negb (g x)) l) = existsb P l.
Proof.
  induction l as [|x l IH]; [reflexivity|]. cbn [filter existsb]. rewrite <- IH.
  destruct (g x); cbn [negb existsb]; destruct (P x), (existsb P (filter g l)), (existsb P (filter (fun x => negb (g x)) l)); reflexivity.
Qed.

Lemma bad_filter_split (g : mev -> bool) es :
  bad (map snd (filter g es)) || bad (map snd (filter (fun x => negb (g x)) es)) = bad (map snd es).
Proof. rewrite !bad_badp, !existsb_map'. apply existsb_filter_split. Qed.

(* outside K01a and when nothing follows run-Finished, "something went wrong" is the C01 specification *)
Lemma bad_spec_failed es :
  nothing_after_finished es -> k_hook_in_retried (before_finished es) = false -> bad es = spec_failed es.
Proof.
  intros NA K. unfold bad, spec_failed. rewrite <- (hook_failed_final_eq _ K).
  rewrite !(existsb_before_finished _ es NA) by reflexivity. reflexivity.
Qed.

(* pipelines without Libtest *)
Fixpoint no_lib (q : spipe) : bool :=
  match q with
  | QLeaf _ | QSumm _ => true
  | QLibtest => false
  | QNorm p | QFos _ p | QRepeat _ p => no_lib p
  | QTee l r | QOr _ l r => no_lib l && no_lib r
  end.

(* "plain" pipelines: no FailOnSkipped, no bare leaf, and no Libtest under an Or
   (ParsingFinished goes to one side of an Or only: a Libtest on the other side never reports anything) *)
Fixpoint plain (q : spipe) : bool :=
  match q with
  | QLeaf _ | QFos _ _ => false
  | QSumm _ | QLibtest => true
  | QNorm p | QRepeat _ p => plain p
  | QTee l r => plain l && plain r
  | QOr _ l r => plain l && plain r && no_lib l && no_lib r
  end.

(* what FailOnSkipped turns into a failure: a skipped step of a scenario selected by `should_fail` *)
Definition skipped_to_fail (sf : N -> option N -> N -> bool) (e : ev) : bool :=
  match e with
  | EvScen f r s _ (ScBg _ StSkipped) | EvScen f r s _ (ScStep _ StSkipped) => sf f r s
  | _ => false
  end.

Lemma badp_fos sf e : badp (fos_ev sf e) = badp e || skipped_to_fail sf e.
Proof.
  destruct e as [| | | | | | | |f r s rt x]; try reflexivity. destruct x as [|b h|st y|st y|?|]; try reflexivity.
  - destruct h; reflexivity.
  - destruct y as [| | |k]; try reflexivity.
    + cbn [fos_ev skipped_to_fail]. destruct (sf f r s); [|reflexivity].
      unfold badp, is_step_failed_final, is_parse_err, is_hook_failed; cbn [step_of]. destruct rt as [[? ?]|]; cbn; rewrite ?andb_false_r; reflexivity.
    + cbn [fos_ev skipped_to_fail]. rewrite orb_false_r. reflexivity.
  - destruct y as [| | |k]; try reflexivity.
    + cbn [fos_ev skipped_to_fail]. destruct (sf f r s); [|reflexivity].
      unfold badp, is_step_failed_final, is_parse_err, is_hook_failed; cbn [step_of]. destruct rt as [[? ?]|]; cbn; rewrite ?andb_false_r; reflexivity.
    + cbn [fos_ev skipped_to_fail]. rewrite orb_false_r. reflexivity.
Qed.

(* "a skipped step counts as failed only under fail_on_skipped, for the scenarios `should_fail` selects" *)
Lemma bad_fos sf es : bad (map (fos_ev sf) es) = bad es || existsb (skipped_to_fail sf) es.
Proof.
  rewrite !bad_badp, existsb_map', <- existsb_or. apply existsb_ext'. intros e. apply badp_fos.
Qed.

Lemma pf_fos sf e : is_parsing_finished (fos_ev sf e) = is_parsing_finished e.
Proof. destruct e as [| | | | | | | |f r s rt x]; try reflexivity. destruct x as [|? ?|st y|st y|?|]; try reflexivity;
       destruct y; try reflexivity; cbn [fos_ev]; destruct (sf f r s); reflexivity. Qed.

Lemma before_finished_fos sf : forall l, before_finished (map (fos_ev sf) l) = map (fos_ev sf) (before_finished l).
Proof.
  induction l as [|e l IH]; [reflexivity|]. cbn [map].
  destruct e as [| | | | | | | |f r s rt x]; cbn [fos_ev before_finished map]; try (rewrite IH; reflexivity); try reflexivity.
  destruct x as [|? ?|st y|st y|?|]; cbn [before_finished map fos_ev]; try (rewrite IH; reflexivity);
    destruct y; cbn [before_finished map fos_ev]; try (rewrite IH; reflexivity);
    destruct (sf f r s); cbn [before_finished map fos_ev]; rewrite ?IH; try reflexivity;
    destruct (sf f r s); reflexivity.
Qed.

Lemma k_hook_fos sf l : k_hook_in_retried (map (fos_ev sf) l) = k_hook_in_retried l.
Proof.
  unfold k_hook_in_retried. rewrite existsb_map'. apply existsb_ext'. intros e.
  destruct e as [| | | | | | | |f r s rt x]; try reflexivity. destruct x as [|? ?|st y|st y|?|]; try reflexivity;
    destruct y; try reflexivity; cbn [fos_ev]; destruct (sf f r s); reflexivity.
Qed.

Section Cor.
  Variable tags_of : N -> option N -> N -> list str.
  Variable last_own : N -> option N.
  Notation qspec := (qspec tags_of).
  Notation fosm := (fosm tags_of).

  Lemma qspec_plain : forall q es, plain q = true ->
    existsb is_parsing_finished (map snd es) = true \/ no_lib q = true ->
    qspec q es = bad (map snd es).
  Proof.
    induction q as [id|q IH| |q IH|k q IH|k q IH|l IHl r IHr|m l IHl r IHr]; intros es PL H; cbn [plain no_lib PipelineP3.qspec] in *;
      try discriminate PL.
    - reflexivity.
    - destruct H as [H|H]; [rewrite H; reflexivity|discriminate H].
    - exact (IH es PL H).
    - exact (IH es PL H).
    - apply andb_prop in PL as [P1 P2].
      assert (HL : existsb is_parsing_finished (map snd es) = true \/ no_lib l = true).
      { destruct H as [H|H]; [left; exact H|right]. apply andb_prop in H as [H _]. exact H. }
      assert (HR : existsb is_parsing_finished (map snd es) = true \/ no_lib r = true).
      { destruct H as [H|H]; [left; exact H|right]. apply andb_prop in H as [_ H]. exact H. }
      rewrite (IHl es P1 HL), (IHr es P2 HR). apply orb_diag.
    - apply andb_prop in PL as [PL N2]. apply andb_prop in PL as [PL N1]. apply andb_prop in PL as [P1 P2].
      rewrite (IHl _ P1 (or_intror N1)), (IHr _ P2 (or_intror N2)). unfold goes_right. apply bad_filter_split.
  Qed.

  (* (a) no FailOnSkipped: the run is failed iff something went wrong ... *)
  Corollary verdict_plain_pipeline q es :
    SP q -> plain q = true -> contract (map snd es) = true -> existsb is_parsing_finished (map snd es) = true ->
    qfailed q (qfinal tags_of last_own q es) = bad (map snd es).
  Proof. intros HQ PL C PF. rewrite (verdict_of_every_pipeline tags_of last_own q es HQ C). apply qspec_plain; auto. Qed.

  (* ... which, outside the known class K01a, is the C01 specification *)
  Corollary verdict_plain_pipeline_spec q es :
    SP q -> plain q = true -> contract (map snd es) = true -> existsb is_parsing_finished (map snd es) = true ->
    k_hook_in_retried (before_finished (map snd es)) = false ->
    qfailed q (qfinal tags_of last_own q es) = spec_failed (map snd es).
  Proof.
    intros HQ PL C PF K. rewrite (verdict_plain_pipeline q es HQ PL C PF).
    apply bad_spec_failed; [apply contract_nothing_after_finished; exact C|exact K].
  Qed.

  (* (b) FailOnSkipped on top of a plain pipeline: additionally, a skipped step of a `should_fail` scenario *)
  Corollary verdict_fos_pipeline k p es :
    SP p -> plain p = true -> contract (map snd es) = true -> existsb is_parsing_finished (map snd es) = true ->
    let sf := should_fail tags_of k in
    qfailed (QFos k p) (qfinal tags_of last_own (QFos k p) es) = bad (map (fos_ev sf) (map snd es)) /\
    bad (map (fos_ev sf) (map snd es)) = bad (map snd es) || existsb (skipped_to_fail sf) (map snd es).
  Proof.
    intros HQ PL C PF sf. split; [|apply bad_fos].
    rewrite (verdict_of_every_pipeline tags_of last_own (QFos k p) es (SP_fos k p HQ) C). cbn [PipelineP3.qspec].
    rewrite qspec_plain; [rewrite map_snd_fosm; reflexivity|exact PL|left].
    rewrite map_snd_fosm, existsb_map'. rewrite <- PF. apply existsb_ext'. intros e. apply pf_fos.
  Qed.

  Corollary verdict_fos_pipeline_spec k p es :
    SP p -> plain p = true -> contract (map snd es) = true -> existsb is_parsing_finished (map snd es) = true ->
    k_hook_in_retried (before_finished (map snd es)) = false ->
    qfailed (QFos k p) (qfinal tags_of last_own (QFos k p) es) =
    spec_failed (map (fos_ev (should_fail tags_of k)) (map snd es)).
  Proof.
    intros HQ PL C PF K. rewrite (proj1 (verdict_fos_pipeline k p es HQ PL C PF)). apply bad_spec_failed.
    - apply contract_nothing_after_finished. rewrite contract_fos. exact C.
    - rewrite before_finished_fos, k_hook_fos. exact K.
  Qed.
End Cor.

(* ========================================================================================== *)
(* 6. Examples                                                                                 *)
(* ========================================================================================== *)

(* two features and three scenarios interleaved: scenario 2 fails with a retry left and passes on its second attempt,
   scenario 3 has a skipped step, scenario 4 fails finally *)
Definition ex_stream : list mev :=
  let a0 := EvScen 1 None 2 (Some (0, 1)) in
  let a1 := EvScen 1 None 2 (Some (1, 0)) in
  let s3 := EvScen 5 None 3 None in
  let s4 := EvScen 5 None 4 None in
  [(0, EvStarted); (1, EvParsingFinished 2 0 3 4 0); (2, EvFeatS 1); (3, EvFeatS 5);
   (4, a0 ScStarted); (5, s3 ScStarted); (6, a0 (ScStep 9 StStarted)); (7, s3 (ScStep 4 StStarted));
   (8, a0 (ScStep 9 (StFailed (EPanic 3)))); (9, s3 (ScStep 4 StPassed)); (10, a0 ScFinished);
   (11, s3 (ScStep 6 StStarted)); (12, s3 (ScStep 6 StSkipped)); (13, s3 ScFinished);
   (14, a1 ScStarted); (15, s4 ScStarted); (16, a1 (ScStep 9 StStarted)); (17, s4 (ScStep 7 StStarted));
   (18, a1 (ScStep 9 StPassed)); (19, s4 (ScStep 7 (StFailed (EPanic 1)))); (20, a1 ScFinished); (21, s4 ScFinished);
   (22, EvFeatF 5); (23, EvFeatF 1); (24, EvFinished)].

(* the same run without scenario 4: a retried failure and a skipped step only *)
Definition ex_stream_skip : list mev :=
  filter (fun e => match snd e with EvScen _ _ 4 _ _ => false | _ => true end) ex_stream.

Definition ex_tags_none : N -> option N -> N -> list str := fun _ _ _ => [].
Definition ex_tags_allow : N -> option N -> N -> list str := fun _ _ s => if s =? 3 then [s_allow_skipped] else [].
Definition ex_last : N -> option N := fun s => if s =? 2 then Some 9 else if s =? 3 then Some 6 else Some 7.

Definition ex_p1 : spipe := QTee (QNorm (QSumm (QLeaf 0))) QLibtest.
Definition ex_p2 : spipe := QFos FosDefault (QNorm (QSumm (QLeaf 0))).
Definition ex_p3 : spipe := QRepeat FFailed (QNorm (QTee (QSumm (QLeaf 0)) QLibtest)).
Definition ex_p4 : spipe := QOr [0; 2; 4; 6; 8; 10; 12; 14; 16; 18; 20; 22; 24] (QRepeat FSkipped (QSumm (QLeaf 0))) (QFos FosDefault (QSumm (QLeaf 1))).

Example ex_hyps :
  contract (map snd ex_stream) = true /\ contract (map snd ex_stream_skip) = true /\
  existsb is_parsing_finished (map snd ex_stream) = true /\
  k_hook_in_retried (before_finished (map snd ex_stream)) = false /\
  spb ex_p1 = true /\ spb ex_p2 = true /\ spb ex_p3 = true /\ spb ex_p4 = true /\
  plain ex_p1 = true /\ plain ex_p3 = true.
Proof. vm_compute. repeat split; reflexivity. Qed.

(* the model, run: the three pipelines on the stream with a final failure *)
Example ex_run_failed :
  qfailed ex_p1 (qfinal ex_tags_none ex_last ex_p1 ex_stream) = true /\
  qfailed ex_p2 (qfinal ex_tags_none ex_last ex_p2 ex_stream) = true /\
  qfailed ex_p3 (qfinal ex_tags_none ex_last ex_p3 ex_stream) = true /\
  qspec ex_tags_none ex_p1 ex_stream = true /\ qspec ex_tags_none ex_p2 ex_stream = true /\
  qspec ex_tags_none ex_p3 ex_stream = true /\ spec_failed (map snd ex_stream) = true.
Proof. vm_compute. repeat split; reflexivity. Qed.

(* without the final failure: only FailOnSkipped fails the run, and not when scenario 3 is tagged @allow.skipped;
   the retried failure alone fails nothing *)
Example ex_run_skipped :
  qfailed ex_p1 (qfinal ex_tags_none ex_last ex_p1 ex_stream_skip) = false /\
  qfailed ex_p2 (qfinal ex_tags_none ex_last ex_p2 ex_stream_skip) = true /\
  qfailed ex_p2 (qfinal ex_tags_allow ex_last ex_p2 ex_stream_skip) = false /\
  qfailed ex_p3 (qfinal ex_tags_none ex_last ex_p3 ex_stream_skip) = false /\
  qspec ex_tags_none ex_p1 ex_stream_skip = false /\ qspec ex_tags_none ex_p2 ex_stream_skip = true /\
  qspec ex_tags_allow ex_p2 ex_stream_skip = false /\ qspec ex_tags_none ex_p3 ex_stream_skip = false /\
  spec_failed (map snd ex_stream_skip) = false.
Proof. vm_compute. repeat split; reflexivity. Qed.

(* Repeat really re-delivers: the Libtest below it counts the failures twice, the verdict is unaffected *)
Example ex_repeat_doubles :
  G ex_tags_none ex_last ex_p3 ex_stream = mk_getters 2 1 2 2 0 0 /\
  G ex_tags_none ex_last ex_p1 ex_stream = mk_getters 2 1 1 1 0 0 /\
  qgetters ex_p3 (qfinal ex_tags_none ex_last ex_p3 ex_stream) = mk_getters 2 1 2 2 0 0.
Proof. vm_compute. repeat split; reflexivity. Qed.

(* an Or: the events with even metadata go to Repeat<Summarize>, the others to FailOnSkipped<Summarize> *)
Example ex_run_or :
  qfailed ex_p4 (qfinal ex_tags_none ex_last ex_p4 ex_stream) = qspec ex_tags_none ex_p4 ex_stream /\
  qfailed ex_p4 (qfinal ex_tags_none ex_last ex_p4 ex_stream_skip) = qspec ex_tags_none ex_p4 ex_stream_skip.
Proof. vm_compute. split; reflexivity. Qed.

(* the same facts from the theorem, without running the model *)
Example ex_by_theorem :
  qfailed ex_p1 (qfinal ex_tags_none ex_last ex_p1 ex_stream) = spec_failed (map snd ex_stream) /\
  qfailed ex_p3 (qfinal ex_tags_none ex_last ex_p3 ex_stream) = spec_failed (map snd ex_stream) /\
  qfailed ex_p2 (qfinal ex_tags_none ex_last ex_p2 ex_stream) =
    spec_failed (map (fos_ev (should_fail ex_tags_none FosDefault)) (map snd ex_stream)).
Proof.
  destruct ex_hyps as (C & _ & PF & K & S1 & S2 & S3 & _ & P1 & P3).
  split; [|split].
  - exact (verdict_plain_pipeline_spec ex_tags_none ex_last ex_p1 ex_stream (spb_SP _ S1) P1 C PF K).
  - exact (verdict_plain_pipeline_spec ex_tags_none ex_last ex_p3 ex_stream (spb_SP _ S3) P3 C PF K).
  - apply (verdict_fos_pipeline_spec ex_tags_none ex_last FosDefault (QNorm (QSumm (QLeaf 0))) ex_stream); auto.
    apply spb_SP. reflexivity.
Qed.

(* why `plain` excludes a Libtest under an Or: ParsingFinished goes to one side only, and a Libtest that never gets it
   never reports anything (the theorem itself covers the case: `qspec QLibtest` asks for ParsingFinished) *)
Example ex_libtest_under_or :
  let q := QOr [1000] QLibtest (QSumm (QLeaf 0)) in
  qfailed q (qfinal ex_tags_none ex_last q ex_stream) = true /\ qspec ex_tags_none q ex_stream = true /\
  let q' := QOr [1000] (QSumm (QLeaf 0)) QLibtest in
  qfailed q' (qfinal ex_tags_none ex_last q' ex_stream) = true /\ qspec ex_tags_none q' ex_stream = true /\
  let q'' := QOr [1] (QSumm (QLeaf 0)) QLibtest in   (* ParsingFinished (metadata 1) goes left: Libtest stays silent *)
  qfailed q'' (qfinal ex_tags_none ex_last q'' ex_stream) = false /\ qspec ex_tags_none q'' ex_stream = false /\
  bad (map snd ex_stream) = true.
Proof. vm_compute. repeat split; reflexivity. Qed.

(* why the sides of an Or must be Normalize-free in the theorem: the FeatureStarted of feature 5 (metadata 3) goes left,
   so the Normalize on the right never opens a queue for feature 5 and the final failure of scenario 4 is lost
   (the model drops the event; the real code panics on the missing key) *)
Example ex_norm_under_or_refuted :
  let q := QOr [3] (QSumm (QLeaf 0)) (QNorm (QSumm (QLeaf 1))) in
  contract (map snd ex_stream) = true /\
  qfailed q (qfinal ex_tags_none ex_last q ex_stream) = false /\ qspec ex_tags_none q ex_stream = true.
Proof. vm_compute. repeat split; reflexivity. Qed.
