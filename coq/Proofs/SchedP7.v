(* SchedP7.v — the coupling between a state of the scheduler model and the state of the contract automaton
   after the events emitted so far; every step of the model is a run of the automaton. *)
From CV Require Import Model.Base Model.Events Model.Contract Model.Sched
  Proofs.BaseP Proofs.SchedP Proofs.SchedP2 Proofs.SchedP3 Proofs.SchedP4 Proofs.SchedP5 Proofs.SchedP6.
From Coq Require Import Permutation Lia.

(* ---- exact shape of the updates of `running` ---- *)
Lemma set_phase_shape k a b l e r : set_phase k a b l = Some (e, r) ->
  exists l1 l2, l = l1 ++ (e, a) :: l2 /\ r = l1 ++ (e, b) :: l2 /\ key_of e = k /\ (a = Dispatched \/ a = Opened).
Proof.
  revert r. induction l as [|[e1 p1] t IH]; intros r H; cbn [set_phase] in H; [discriminate|].
  destruct (akey_eqb (key_of e1) k) eqn:K.
  - assert (KE : key_of e1 = k).
    { unfold akey_eqb in K. apply andb_prop in K as [K1 K2]. apply N.eqb_eq in K1, K2.
      destruct (key_of e1), k; cbn in *; congruence. }
    destruct p1, a; try discriminate; inversion H; subst; exists [], t; cbn; auto.
  - destruct (set_phase k a b t) as [[e' r']|] eqn:E; [|discriminate]. inversion H; subst.
    destruct (IH r' eq_refl) as (l1 & l2 & -> & -> & KE & AA). exists ((e1, p1) :: l1), l2. cbn. auto.
Qed.

Lemma remove_ended_shape l r : remove_ended l = Some r ->
  exists e l1 l2, l = l1 ++ (e, Ended) :: l2 /\ r = l1 ++ l2.
Proof.
  revert r. induction l as [|[e p] t IH]; intros r H; cbn [remove_ended] in H; [discriminate|].
  destruct p.
  - destruct (remove_ended t) as [r'|]; [|discriminate]. inversion H; subst.
    destruct (IH r' eq_refl) as (e0 & l1 & l2 & -> & ->). exists e0, ((e, Dispatched) :: l1), l2. auto.
  - destruct (remove_ended t) as [r'|]; [|discriminate]. inversion H; subst.
    destruct (IH r' eq_refl) as (e0 & l1 & l2 & -> & ->). exists e0, ((e, Opened) :: l1), l2. auto.
  - inversion H; subst. exists e, [], r. auto.
Qed.

Lemma find_open_in k l e : find_open k l = Some e -> In (e, Opened) l /\ key_of e = k.
Proof.
  induction l as [|[e1 p1] t IH]; cbn [find_open]; [discriminate|].
  destruct (akey_eqb (key_of e1) k) eqn:K.
  - destruct p1; try discriminate. intros X; inversion X; subst. split; [left; reflexivity|].
    unfold akey_eqb in K. apply andb_prop in K as [K1 K2]. apply N.eqb_eq in K1, K2.
    destruct (key_of e), k; cbn in *; congruence.
  - intros X. destruct (IH X) as [A B]. split; [right; exact A|exact B].
Qed.

(* ---- which keys a run of the automaton can add ---- *)
Lemma cstep_keys seq c e c' : cstep seq c e = Some c' ->
  (forall f, lookup N.eqb f (c_feats c') <> None -> lookup N.eqb f (c_feats c) <> None \/ e = EvFeatS f) /\
  (forall k, lookup rkey_eqb k (c_rules c') <> None -> lookup rkey_eqb k (c_rules c) <> None \/ e = EvRuleS (fst k) (snd k)) /\
  (forall k, lookup atkey_eqb k (c_atts c') <> None -> lookup atkey_eqb k (c_atts c) <> None \/
             e = EvScen (att_feat k) (att_rule k) (att_scen k) (att_retr k) ScStarted).
Proof.
  unfold cstep. destruct (c_finished c); [discriminate|].
  assert (G : forall b x, guard b x = Some c' -> b = true /\ x = c').
  { intros b x. unfold guard. destruct b; [intros X; inversion X; auto|discriminate]. }
  destruct e as [| | | |f|f|f r|f r|f r s rt x].
  - intros H. apply G in H as [_ <-]. cbn. auto.
  - intros H. apply G in H as [_ <-]. cbn. auto.
  - intros H. inversion H; subst. auto.
  - intros H. apply G in H as [_ <-]. cbn. auto.
  - intros H. apply G in H as [_ <-]. cbn [set_cfeats c_feats c_rules c_atts]. split; [|auto].
    intros f0 L. destruct (N.eq_dec f0 f) as [->|NE]; [right; reflexivity|left].
    rewrite (lookup_setk_other N.eqb N.eqb_eq) in L by exact NE. exact L.
  - intros H. apply G in H as [B <-]. cbn [set_cfeats c_feats c_rules c_atts]. split; [|auto].
    intros f0 L. left. destruct (N.eq_dec f0 f) as [->|NE].
    + apply andb_prop in B as [B _]. apply andb_prop in B as [B _].
      destruct (lookup N.eqb f (c_feats c)); [discriminate|discriminate B].
    + rewrite (lookup_setk_other N.eqb N.eqb_eq) in L by exact NE. exact L.
  - intros H. apply G in H as [_ <-]. cbn [set_crules c_feats c_rules c_atts]. split; [auto|]. split; [|auto].
    intros k L. destruct (rk_dec k (f, r)) as [->|NE]; [right; reflexivity|left].
    rewrite (lookup_setk_other rkey_eqb rkey_eqb_spec) in L by exact NE. exact L.
  - intros H. apply G in H as [B <-]. cbn [set_crules c_feats c_rules c_atts]. split; [auto|]. split; [|auto].
    intros k L. left. destruct (rk_dec k (f, r)) as [->|NE].
    + apply andb_prop in B as [B _]. destruct (lookup rkey_eqb (f, r) (c_rules c)); [discriminate|discriminate B].
    + rewrite (lookup_setk_other rkey_eqb rkey_eqb_spec) in L by exact NE. exact L.
  - destruct x; intros H; apply G in H as [B <-]; cbn [set_catts c_feats c_rules c_atts]; (split; [auto|]); (split; [auto|]);
      try (intros k L; left; exact L).
    + intros k L. destruct k as [[[f0 r0] s0] rt0]. cbn [att_feat att_rule att_scen att_retr].
      destruct (atkey_eqb (f0, r0, s0, rt0) (f, r, s, rt)) eqn:E.
      * apply atkey_eqb_spec in E. inversion E; subst. right. reflexivity.
      * left. rewrite (lookup_setk_other atkey_eqb atkey_eqb_spec) in L; [exact L|].
        intros X. rewrite X in E. rewrite (proj2 (atkey_eqb_spec _ _) eq_refl) in E. discriminate.
    + intros k L. left. destruct (atkey_eqb k (f, r, s, rt)) eqn:E.
      * apply atkey_eqb_spec in E. subst k. apply andb_prop in B as [_ B].
        destruct (lookup atkey_eqb (f, r, s, rt) (c_atts c)); [discriminate|discriminate B].
      * rewrite (lookup_setk_other atkey_eqb atkey_eqb_spec) in L; [exact L|].
        intros X. rewrite X in E. rewrite (proj2 (atkey_eqb_spec _ _) eq_refl) in E. discriminate.
Qed.

Lemma crun_keys seq : forall o c c', crun seq c o = Some c' ->
  (forall f, lookup N.eqb f (c_feats c') <> None -> lookup N.eqb f (c_feats c) <> None \/ In (EvFeatS f) o) /\
  (forall k, lookup rkey_eqb k (c_rules c') <> None -> lookup rkey_eqb k (c_rules c) <> None \/ In (EvRuleS (fst k) (snd k)) o) /\
  (forall k, lookup atkey_eqb k (c_atts c') <> None -> lookup atkey_eqb k (c_atts c) <> None \/
             In (EvScen (att_feat k) (att_rule k) (att_scen k) (att_retr k) ScStarted) o).
Proof.
  induction o as [|e o IH]; intros c c' H; cbn [crun] in H.
  - inversion H; subst. repeat split; intros; left; assumption.
  - destruct (cstep seq c e) as [c1|] eqn:S; [|discriminate].
    destruct (cstep_keys _ _ _ _ S) as (A1 & A2 & A3). destruct (IH _ _ H) as (B1 & B2 & B3).
    split; [|split].
    + intros f L. destruct (B1 f L) as [X|X]; [|right; right; exact X].
      destruct (A1 f X) as [Y|Y]; [left; exact Y|right; left; exact Y].
    + intros k L. destruct (B2 k L) as [X|X]; [|right; right; exact X].
      destruct (A2 k X) as [Y|Y]; [left; exact Y|right; left; exact Y].
    + intros k L. destruct (B3 k L) as [X|X]; [|right; right; exact X].
      destruct (A3 k X) as [Y|Y]; [left; exact Y|right; left; exact Y].
Qed.

Lemma start_feats_evs fs : forall fc e, In e (fst (start_feats fs fc)) -> exists f, e = EvFeatS f /\ In f fs.
Proof.
  induction fs as [|a fs IH]; intros fc e; cbn [start_feats]; [intros []|].
  destruct (lookupN N.eqb a fc).
  - intros H. destruct (IH _ _ H) as (f & E & I). exists f. split; [exact E|right; exact I].
  - specialize (IH (setN N.eqb a 0 fc) e). destruct (start_feats fs (setN N.eqb a 0 fc)) as [o fc']. cbn [fst] in *.
    intros [<-|H]; [exists a; split; [reflexivity|left; reflexivity]|].
    destruct (IH H) as (f & E & I). exists f. split; [exact E|right; exact I].
Qed.
Lemma start_rules_evs rs : forall rc e, In e (fst (start_rules rs rc)) -> exists k, e = EvRuleS (fst k) (snd k) /\ In k rs.
Proof.
  induction rs as [|a rs IH]; intros rc e; cbn [start_rules]; [intros []|].
  destruct (lookupN rk_eqb a rc).
  - intros H. destruct (IH _ _ H) as (f & E & I). exists f. split; [exact E|right; exact I].
  - specialize (IH (setN rk_eqb a 0 rc) e). destruct (start_rules rs (setN rk_eqb a 0 rc)) as [o rc']. cbn [fst] in *.
    intros [<-|H]; [exists a; split; [reflexivity|left; reflexivity]|].
    destruct (IH H) as (f & E & I). exists f. split; [exact E|right; exact I].
Qed.
Lemma start_scenarios_evs batch fc rc e : In e (fst (fst (start_scenarios batch fc rc))) ->
  (exists x, In x batch /\ e = EvFeatS (e_f x)) \/ (exists x r, In x batch /\ e_r x = Some r /\ e = EvRuleS (e_f x) r).
Proof.
  unfold start_scenarios.
  pose proof (start_feats_evs (dedup N.eqb (map e_f batch)) fc e) as A.
  destruct (start_feats (dedup N.eqb (map e_f batch)) fc) as [o1 fc']. cbn [fst] in A.
  set (rks := flat_map (fun e => match e_r e with Some r => [(e_f e, r)] | None => [] end) batch).
  pose proof (start_rules_evs (dedup rk_eqb rks) rc e) as B.
  destruct (start_rules (dedup rk_eqb rks) rc) as [o2 rc']. cbn [fst snd] in *.
  intros H. apply in_app_or in H as [H|H].
  - left. destruct (A H) as (f & -> & I). apply (proj1 (dedup_in N.eqb N.eqb_eq _ _)) in I.
    apply in_map_iff in I as (x & <- & Hx). exists x. auto.
  - right. destruct (B H) as (k & -> & I). apply (proj1 (dedup_in rk_eqb rk_eqb_spec _ _)) in I.
    unfold rks in I. apply in_flat_map in I as (x & Hx & Hk). destruct (e_r x) as [r|] eqn:ER; [|destruct Hk].
    destruct Hk as [<-|[]]. exists x, r. cbn. auto.
Qed.

(* ---- the coupling ---- *)
Definition akey4 (e : entry) : atkey := (e_f e, e_r e, e_s e, e_retr e).
Definition queue (s : st) : list entry := qS s ++ qC s.
Definition is_disp (p : phase) : bool := match p with Dispatched => true | _ => false end.
Definition is_opened (p : phase) : bool := match p with Opened => true | _ => false end.
Definition dispatched (r : list (entry * phase)) : list entry := map fst (filter (fun x => is_disp (snd x)) r).
Definition same_path (e : entry) (k : atkey) : bool := same_scen (e_f e) (e_r e) (e_s e) k.

(* what the automaton knows about the attempts of the scenario of a live entry that has not been opened *)
Definition older_closed (c : cstate) (e : entry) (strict : bool) : Prop :=
  forall k, same_path e k = true -> (strict = false -> k <> akey4 e) -> lookup atkey_eqb k (c_atts c) <> None ->
    lookup atkey_eqb k (c_atts c) = Some Closed /\ cur_of (att_retr k) < cur_of (e_retr e).

Record CI (insf inss : list N) (q : list entry) (run : list (entry * phase)) (ms : list msg)
          (fc : list (N * N)) (rc : list ((N * N) * N)) (c : cstate) : Prop := mk_CI {
  ci_acc : Acc (items q run ms) fc rc c;
  ci_wf : WFc c;
  ci_nf : nodupk fc;
  ci_nr : nodupk rc;
  ci_par : ParI (map item_of_entry (live_run run) ++ map item_of_msg (finals ms)) c;
  ci_itf : forall i, In i (items q run ms) -> In (it_f i) insf;
  ci_feats : forall f, lookup N.eqb f (c_feats c) <> None -> In f insf;
  ci_rules : forall k, lookup rkey_eqb k (c_rules c) <> None -> In (fst k) insf;
  ci_nodup : NoDup (map e_s (q ++ live_run run));
  ci_ids : forall e, In e (q ++ live_run run) -> In (e_s e) inss;
  ci_atts : forall k, lookup atkey_eqb k (c_atts c) <> None -> In (att_scen k) inss;
  ci_open1 : forall e, In (e, Opened) run -> lookup atkey_eqb (akey4 e) (c_atts c) = Some Open;
  ci_open2 : forall k, lookup atkey_eqb k (c_atts c) = Some Open -> exists e, In (e, Opened) run /\ akey4 e = k;
  ci_wait : forall e, In e (q ++ dispatched run) -> older_closed c e true;
  ci_prev : forall e, In e (q ++ dispatched run) -> prev_attempt_closed c (e_f e) (e_r e) (e_s e) (e_retr e) = true;
  ci_opened : forall e, In (e, Opened) run -> older_closed c e false }.

Definition CIs (insf inss : list N) (s : st) (c : cstate) : Prop :=
  CI insf inss (queue s) (running s) (msgs s) (fcount s) (rcount s) c.

Definition is_notbegun (p : pcT) : bool := match p with NotBegun => true | _ => false end.
Definition J (insf inss : list N) (s : st) (c : cstate) : Prop :=
  (pc s = Done /\ c_finished c = true) \/
  (pc s <> Done /\ CIs insf inss s c /\ c_finished c = false /\ c_started c = negb (is_notbegun (pc s)) /\
   c_pf c = pdone s).

(* ---- list facts about `running` ---- *)
Lemma live_run_mid l1 e p l2 : is_endedb p = false ->
  live_run (l1 ++ (e, p) :: l2) = live_run l1 ++ e :: live_run l2.
Proof. intros H. rewrite live_run_app. unfold live_run at 2. cbn [filter snd]. rewrite H. reflexivity. Qed.
Lemma live_run_mid_ended l1 e l2 : live_run (l1 ++ (e, Ended) :: l2) = live_run l1 ++ live_run l2.
Proof. rewrite live_run_app. reflexivity. Qed.
Lemma dispatched_app a b : dispatched (a ++ b) = dispatched a ++ dispatched b.
Proof. unfold dispatched. rewrite filter_app, map_app. reflexivity. Qed.
Lemma dispatched_mid l1 e p l2 :
  dispatched (l1 ++ (e, p) :: l2) = dispatched l1 ++ (if is_disp p then [e] else []) ++ dispatched l2.
Proof. rewrite dispatched_app. unfold dispatched at 2. cbn [filter snd]. destruct (is_disp p); reflexivity. Qed.
Lemma dispatched_new b : dispatched (map (fun e => (e, Dispatched)) b) = b.
Proof. induction b as [|e b IH]; [reflexivity|]. unfold dispatched in *. cbn. rewrite IH. reflexivity. Qed.
Lemma in_opened_mid (l1 : list (entry * phase)) (e : entry) (p : phase) l2 (x : entry) :
  In (x, Opened) (l1 ++ (e, p) :: l2) <-> (x = e /\ p = Opened) \/ In (x, Opened) (l1 ++ l2).
Proof.
  rewrite !in_app_iff. cbn [In]. split.
  - intros [H|[H|H]]; auto. inversion H; subst. auto.
  - intros [[-> ->]|[H|H]]; auto.
Qed.
Lemma in_new_opened (b : list entry) (x : entry) : ~ In (x, Opened) (map (fun e => (e, Dispatched)) b).
Proof. intros H. apply in_map_iff in H as (e & E & _). discriminate E. Qed.

Lemma nodup_map_mid {A B} (g : A -> B) a e b : NoDup (map g (a ++ e :: b)) -> forall x, In x (a ++ b) -> g x <> g e.
Proof.
  rewrite map_app. cbn [map]. intros ND x Hx E. apply NoDup_remove_2 in ND. apply ND.
  rewrite <- map_app. rewrite <- E. apply in_map. exact Hx.
Qed.

Lemma same_path_scen x k : same_path x k = true -> att_scen k = e_s x /\ att_feat k = e_f x /\ att_rule k = e_r x.
Proof.
  unfold same_path, same_scen. intros H. apply andb_prop in H as [H H3]. apply andb_prop in H as [H1 H2].
  apply N.eqb_eq in H1, H3. apply optN_eqb_spec in H2. auto.
Qed.
Lemma same_path_self e : same_path e (akey4 e) = true.
Proof.
  unfold same_path, same_scen, akey4. cbn [att_feat att_rule att_scen]. rewrite !N.eqb_refl.
  rewrite (proj2 (optN_eqb_spec _ _) eq_refl). reflexivity.
Qed.

Lemma older_closed_ext c c' x strict :
  (forall k, same_path x k = true -> (strict = false -> k <> akey4 x) ->
             lookup atkey_eqb k (c_atts c') = lookup atkey_eqb k (c_atts c)) ->
  older_closed c x strict -> older_closed c' x strict.
Proof. intros E H k SP NK L. rewrite (E k SP NK) in *. exact (H k SP NK L). Qed.

Lemma prev_closed_ext c c' x :
  (forall k, same_path x k = true -> lookup atkey_eqb k (c_atts c') = lookup atkey_eqb k (c_atts c)) ->
  prev_attempt_closed c (e_f x) (e_r x) (e_s x) (e_retr x) = true ->
  prev_attempt_closed c' (e_f x) (e_r x) (e_s x) (e_retr x) = true.
Proof.
  intros E. unfold prev_attempt_closed. destruct (e_retr x) as [[cu lf]|]; [|auto].
  destruct (cu =? 0); [auto|]. rewrite E; [auto|].
  unfold same_path, same_scen. cbn [att_feat att_rule att_scen]. rewrite !N.eqb_refl.
  rewrite (proj2 (optN_eqb_spec _ _) eq_refl). reflexivity.
Qed.

(* the automaton's step for the events of an attempt *)
Lemma cstep_scen_started c e :
  c_finished c = false -> lookup N.eqb (e_f e) (c_feats c) = Some Open ->
  (forall r, e_r e = Some r -> lookup rkey_eqb (e_f e, r) (c_rules c) = Some Open) ->
  lookup atkey_eqb (akey4 e) (c_atts c) = None ->
  open_atts_where (same_scen (e_f e) (e_r e) (e_s e)) c = false ->
  prev_attempt_closed c (e_f e) (e_r e) (e_s e) (e_retr e) = true ->
  cstep false c (scen_ev e ScStarted) = Some (set_catts c (setk atkey_eqb (akey4 e) Open (c_atts c))).
Proof.
  intros F PF PR AB NO PV. unfold cstep, scen_ev. rewrite F, PF. fold (akey4 e). rewrite AB, NO, PV.
  destruct (e_r e) as [r|]; [rewrite (PR r eq_refl)|]; reflexivity.
Qed.
Lemma cstep_scen_middle c e x :
  c_finished c = false -> lookup N.eqb (e_f e) (c_feats c) = Some Open ->
  (forall r, e_r e = Some r -> lookup rkey_eqb (e_f e, r) (c_rules c) = Some Open) ->
  lookup atkey_eqb (akey4 e) (c_atts c) = Some Open -> is_middle x = true ->
  cstep false c (scen_ev e x) = Some c.
Proof.
  intros F PF PR OP MI. unfold cstep, scen_ev. rewrite F, PF. fold (akey4 e). rewrite OP.
  destruct (e_r e) as [r|]; [rewrite (PR r eq_refl)|]; destruct x; try discriminate MI; reflexivity.
Qed.
Lemma cstep_scen_finished c e :
  c_finished c = false -> lookup N.eqb (e_f e) (c_feats c) = Some Open ->
  (forall r, e_r e = Some r -> lookup rkey_eqb (e_f e, r) (c_rules c) = Some Open) ->
  lookup atkey_eqb (akey4 e) (c_atts c) = Some Open ->
  cstep false c (scen_ev e ScFinished) = Some (set_catts c (setk atkey_eqb (akey4 e) Closed (c_atts c))).
Proof.
  intros F PF PR OP. unfold cstep, scen_ev. rewrite F, PF. fold (akey4 e). rewrite OP.
  destruct (e_r e) as [r|]; [rewrite (PR r eq_refl)|]; reflexivity.
Qed.

Lemma Acc_ext its fc rc c c' : c_feats c' = c_feats c -> c_rules c' = c_rules c -> Acc its fc rc c -> Acc its fc rc c'.
Proof. intros E1 E2 [A B]. split; intros k; [rewrite E1; apply A|rewrite E2; apply B]. Qed.
Lemma ParI_ext its c c' : c_feats c' = c_feats c -> c_rules c' = c_rules c -> ParI its c -> ParI its c'.
Proof. intros E1 E2 P i Hi. rewrite E1, E2. apply P. exact Hi. Qed.

Lemma opened_live l x : In (x, Opened) l -> In x (live_run l).
Proof.
  intros H. unfold live_run. apply in_map_iff. exists (x, Opened). split; [reflexivity|].
  apply filter_In. split; [exact H|reflexivity].
Qed.
Lemma dispatched_live l x : In x (dispatched l) -> In x (live_run l).
Proof.
  unfold dispatched, live_run. intros H. apply in_map_iff in H as ([y p] & <- & Hy). apply filter_In in Hy as [Hy P].
  apply in_map_iff. exists (y, p). split; [reflexivity|]. apply filter_In. split; [exact Hy|].
  cbn [snd] in *. destruct p; try discriminate P; reflexivity.
Qed.

Definition flags_eq (c c' : cstate) : Prop :=
  c_finished c' = c_finished c /\ c_started c' = c_started c /\ c_pf c' = c_pf c.

Lemma akey4_scen_neq x e : e_s x <> e_s e -> akey4 x <> akey4 e.
Proof. unfold akey4. intros H E. inversion E. contradiction. Qed.

Lemma att_start_ok insf inss q l1 e l2 ms fc rc c :
  CI insf inss q (l1 ++ (e, Dispatched) :: l2) ms fc rc c -> c_finished c = false ->
  exists c', cstep false c (scen_ev e ScStarted) = Some c' /\
    CI insf inss q (l1 ++ (e, Opened) :: l2) ms fc rc c' /\ flags_eq c c'.
Proof.
  intros H HF. destruct H as [Hacc Hwf Hnf Hnr Hpar Hitf Hfe Hru Hnd Hids Hatts Ho1 Ho2 Hwait Hprev Hop].
  set (run := l1 ++ (e, Dispatched) :: l2) in *. set (run' := l1 ++ (e, Opened) :: l2).
  assert (LR : live_run run' = live_run run) by (unfold run, run'; rewrite !live_run_mid by reflexivity; reflexivity).
  assert (LRe : live_run run = live_run l1 ++ e :: live_run l2) by (unfold run; apply live_run_mid; reflexivity).
  assert (IT : items q run' ms = items q run ms) by (unfold items; rewrite LR; reflexivity).
  assert (Ein : In e (q ++ dispatched run)).
  { apply in_or_app. right. unfold run. rewrite dispatched_mid. apply in_or_app. right. left. reflexivity. }
  assert (Elive : In e (live_run run)) by (rewrite LRe; apply in_or_app; right; left; reflexivity).
  pose proof (Hwait e Ein) as OC.
  assert (ABS : lookup atkey_eqb (akey4 e) (c_atts c) = None).
  { destruct (lookup atkey_eqb (akey4 e) (c_atts c)) eqn:L; [|reflexivity]. exfalso.
    destruct (OC (akey4 e) (same_path_self e)) as [_ X]; [intros X; discriminate X|rewrite L; discriminate|].
    unfold akey4 in X. cbn [att_retr] in X. lia. }
  destruct (Hpar (item_of_entry e)) as [PF PR].
  { apply in_or_app. left. apply in_map. exact Elive. }
  assert (NO : open_atts_where (same_scen (e_f e) (e_r e) (e_s e)) c = false).
  { destruct Hwf as (_ & _ & W3). apply open_atts_where_false; [exact W3|]. intros k Hk Hopen.
    destruct (OC k Hk) as [X _]; [intros X; discriminate X|rewrite Hopen; discriminate|]. congruence. }
  set (c' := set_catts c (setk atkey_eqb (akey4 e) Open (c_atts c))).
  exists c'. split; [apply cstep_scen_started; auto|]. split; [|repeat split].
  assert (OTH : forall x, In x ((q ++ live_run l1) ++ live_run l2) -> forall k, same_path x k = true ->
                  lookup atkey_eqb k (c_atts c') = lookup atkey_eqb k (c_atts c)).
  { intros x Hx k SP. cbn [c' set_catts c_atts]. apply (lookup_setk_other atkey_eqb atkey_eqb_spec).
    intros ->. apply same_path_scen in SP as (S1 & _). unfold akey4 in S1. cbn [att_scen] in S1.
    rewrite LRe, app_assoc in Hnd. exact (nodup_map_mid e_s _ _ _ Hnd x Hx (eq_sym S1)). }
  assert (QD : forall x, In x (q ++ dispatched run') -> In x (q ++ dispatched run) /\ In x ((q ++ live_run l1) ++ live_run l2)).
  { intros x Hx. unfold run, run' in *. rewrite dispatched_mid in *. cbn [is_disp app] in *.
    rewrite !in_app_iff in *. cbn [In]. split.
    - destruct Hx as [Hx|[Hx|Hx]]; auto.
    - destruct Hx as [Hx|[Hx|Hx]]; auto using dispatched_live. }
  constructor.
  - rewrite IT. exact (Acc_ext _ _ _ c c' eq_refl eq_refl Hacc).
  - destruct Hwf as (W1 & W2 & W3). split; [exact W1|split; [exact W2|]]. cbn [c' set_catts c_atts].
    apply (nodupk_setk atkey_eqb atkey_eqb_spec). exact W3.
  - exact Hnf.
  - exact Hnr.
  - rewrite LR. exact (ParI_ext _ c c' eq_refl eq_refl Hpar).
  - rewrite IT. exact Hitf.
  - exact Hfe.
  - exact Hru.
  - rewrite LR. exact Hnd.
  - rewrite LR. exact Hids.
  - intros k L. destruct (atkey_eqb k (akey4 e)) eqn:E.
    + apply atkey_eqb_spec in E. subst k. unfold akey4. cbn [att_scen]. apply Hids. apply in_or_app. right. exact Elive.
    + apply Hatts. cbn [c' set_catts c_atts] in L. rewrite (lookup_setk_other atkey_eqb atkey_eqb_spec) in L; [exact L|].
      intros ->. rewrite (proj2 (atkey_eqb_spec _ _) eq_refl) in E. discriminate.
  - intros x Hx. unfold run' in Hx. apply in_opened_mid in Hx as [[-> _]|Hx].
    + cbn [c' set_catts c_atts]. apply (lookup_setk_same atkey_eqb atkey_eqb_spec).
    + assert (Hx' : In (x, Opened) run) by (unfold run; apply in_opened_mid; right; exact Hx).
      rewrite (OTH x); [exact (Ho1 x Hx')| |apply same_path_self].
      apply opened_live in Hx. rewrite live_run_app in Hx. rewrite <- app_assoc. apply in_or_app. right. exact Hx.
  - intros k L. destruct (atkey_eqb k (akey4 e)) eqn:E.
    + apply atkey_eqb_spec in E. subst k. exists e. split; [|reflexivity]. unfold run'. apply in_opened_mid. left. auto.
    + cbn [c' set_catts c_atts] in L. rewrite (lookup_setk_other atkey_eqb atkey_eqb_spec) in L.
      * destruct (Ho2 k L) as (x & Hx & Kx). exists x. split; [|exact Kx]. unfold run in Hx.
        apply in_opened_mid in Hx as [[_ X]|Hx]; [discriminate X|]. unfold run'. apply in_opened_mid. right. exact Hx.
      * intros ->. rewrite (proj2 (atkey_eqb_spec _ _) eq_refl) in E. discriminate.
  - intros x Hx. destruct (QD x Hx) as [Q1 Q2]. eapply older_closed_ext; [|exact (Hwait x Q1)].
    intros k SP _. exact (OTH x Q2 k SP).
  - intros x Hx. destruct (QD x Hx) as [Q1 Q2]. eapply prev_closed_ext; [|exact (Hprev x Q1)].
    intros k SP. exact (OTH x Q2 k SP).
  - intros x Hx. unfold run' in Hx. apply in_opened_mid in Hx as [[-> _]|Hx].
    + intros k SP NK L. assert (NK' : k <> akey4 e) by (apply NK; reflexivity).
      cbn [c' set_catts c_atts] in *. rewrite (lookup_setk_other atkey_eqb atkey_eqb_spec) in * by exact NK'.
      apply (OC k SP); [intros X; discriminate X|exact L].
    + assert (Hx' : In (x, Opened) run) by (unfold run; apply in_opened_mid; right; exact Hx).
      eapply older_closed_ext; [|exact (Hop x Hx')]. intros k SP _. apply (OTH x); [|exact SP].
      apply opened_live in Hx. rewrite live_run_app in Hx. rewrite <- app_assoc. apply in_or_app. right. exact Hx.
Qed.

Lemma ParI_incl a b c : incl a b -> ParI b c -> ParI a c.
Proof. intros I P i Hi. apply P. apply I. exact Hi. Qed.

Lemma CI_perm_q insf inss q q' run ms fc rc c :
  Permutation q q' -> CI insf inss q run ms fc rc c -> CI insf inss q' run ms fc rc c.
Proof.
  intros P H. destruct H as [Hacc Hwf Hnf Hnr Hpar Hitf Hfe Hru Hnd Hids Hatts Ho1 Ho2 Hwait Hprev Hop].
  assert (PI : Permutation (items q run ms) (items q' run ms)).
  { unfold items. apply Permutation_app_tail. apply Permutation_map. apply Permutation_app_tail. exact P. }
  assert (IN : forall l x, In x (q' ++ l) -> In x (q ++ l)).
  { intros l x Hx. apply in_app_or in Hx as [Hx|Hx]; apply in_or_app; [left|right; exact Hx].
    eapply Permutation_in; [apply Permutation_sym; exact P|exact Hx]. }
  constructor; auto.
  - eapply Acc_perm; eauto.
  - intros i Hi. apply Hitf. eapply Permutation_in; [apply Permutation_sym; exact PI|exact Hi].
  - eapply Permutation_NoDup; [|exact Hnd]. apply Permutation_map. apply Permutation_app_tail. exact P.
Qed.

Lemma next_try_some e failed now e' : next_try e failed now = Some e' ->
  exists c0 l0, e_retr e = Some (c0, l0) /\ 0 < l0 /\ e_retr e' = Some (c0 + 1, l0 - 1) /\
    e_f e' = e_f e /\ e_r e' = e_r e /\ e_s e' = e_s e /\ e_nf e' = e_nf e /\ e_nr e' = e_nr e.
Proof.
  unfold next_try. destruct (e_retr e) as [[c0 l0]|]; [|discriminate].
  destruct failed; [|discriminate]. cbn [andb]. destruct (0 <? l0) eqn:L; [|discriminate].
  intros X. inversion X; subst. cbn. exists c0, l0. apply N.ltb_lt in L. repeat split; auto.
Qed.

Lemma att_ev_ok insf inss q run ms fc rc c e x :
  CI insf inss q run ms fc rc c -> c_finished c = false -> In (e, Opened) run -> is_middle x = true ->
  cstep false c (scen_ev e x) = Some c.
Proof.
  intros H HF Hin MI. destruct H as [Hacc Hwf Hnf Hnr Hpar Hitf Hfe Hru Hnd Hids Hatts Ho1 Ho2 Hwait Hprev Hop].
  destruct (Hpar (item_of_entry e)) as [PF PR].
  { apply in_or_app. left. apply in_map. apply opened_live. exact Hin. }
  apply cstep_scen_middle; auto.
Qed.

Lemma att_end_ok insf inss q l1 e l2 ms fc rc c failed now :
  CI insf inss q (l1 ++ (e, Opened) :: l2) ms fc rc c -> c_finished c = false ->
  exists c', cstep false c (scen_ev e ScFinished) = Some c' /\
    CI insf inss (match next_try e failed now with Some e' => e' :: q | None => q end)
       (l1 ++ (e, Ended) :: l2)
       (ms ++ [mk_msg (e_f e) (e_r e) (e_nf e) (e_nr e) failed (is_some (next_try e failed now))]) fc rc c' /\
    flags_eq c c'.
Proof.
  intros H HF. destruct H as [Hacc Hwf Hnf Hnr Hpar Hitf Hfe Hru Hnd Hids Hatts Ho1 Ho2 Hwait Hprev Hop].
  set (run := l1 ++ (e, Opened) :: l2) in *. set (run' := l1 ++ (e, Ended) :: l2).
  set (m := mk_msg (e_f e) (e_r e) (e_nf e) (e_nr e) failed (is_some (next_try e failed now))).
  assert (LR' : live_run run' = live_run l1 ++ live_run l2) by (unfold run'; apply live_run_mid_ended).
  assert (LRe : live_run run = live_run l1 ++ e :: live_run l2) by (unfold run; apply live_run_mid; reflexivity).
  assert (Ein : In (e, Opened) run) by (unfold run; apply in_opened_mid; left; auto).
  assert (Elive : In e (live_run run)) by (apply opened_live; exact Ein).
  destruct (Hpar (item_of_entry e)) as [PF PR].
  { apply in_or_app. left. apply in_map. exact Elive. }
  pose proof (Ho1 e Ein) as OP.
  set (c' := set_catts c (setk atkey_eqb (akey4 e) Closed (c_atts c))).
  exists c'. split; [apply cstep_scen_finished; auto|]. split; [|repeat split].
  assert (OTH : forall x, In x ((q ++ live_run l1) ++ live_run l2) -> forall k, same_path x k = true ->
                  lookup atkey_eqb k (c_atts c') = lookup atkey_eqb k (c_atts c)).
  { intros x Hx k SP. cbn [c' set_catts c_atts]. apply (lookup_setk_other atkey_eqb atkey_eqb_spec).
    intros ->. apply same_path_scen in SP as (S1 & _). unfold akey4 in S1. cbn [att_scen] in S1.
    rewrite LRe, app_assoc in Hnd. exact (nodup_map_mid e_s _ _ _ Hnd x Hx (eq_sym S1)). }
  assert (DR : dispatched run' = dispatched run).
  { unfold run, run'. rewrite !dispatched_mid. reflexivity. }
  assert (OPN : forall x, In (x, Opened) run' -> In (x, Opened) run /\ In x ((q ++ live_run l1) ++ live_run l2)).
  { intros x Hx. unfold run' in Hx. apply in_opened_mid in Hx as [[_ X]|Hx]; [discriminate X|]. split.
    - unfold run. apply in_opened_mid. right. exact Hx.
    - apply opened_live in Hx. rewrite live_run_app in Hx. rewrite <- app_assoc. apply in_or_app. right. exact Hx. }
  assert (QO : forall x, In x (q ++ dispatched run) -> In x ((q ++ live_run l1) ++ live_run l2)).
  { intros x Hx. unfold run in Hx. rewrite dispatched_mid in Hx. cbn [is_disp app] in Hx.
    rewrite !in_app_iff in *. destruct Hx as [Hx|[Hx|Hx]]; auto using dispatched_live. }
  assert (COMMON : forall q', Permutation (items q' run' (ms ++ [m])) (items q run ms) ->
             Permutation (map e_s (q' ++ live_run run')) (map e_s (q ++ live_run run)) \/
             (q' = q /\ m_retried m = false) ->
             (forall x, In x q' -> In x q \/ Some x = next_try e failed now) ->
             CI insf inss q' run' (ms ++ [m]) fc rc c').
  { intros q' PI PN QI.
    assert (FM : finals (ms ++ [m]) = finals ms ++ (if m_retried m then [] else [m])).
    { rewrite finals_app. unfold finals at 2. cbn [filter]. destruct (m_retried m); reflexivity. }
    constructor.
    - eapply Acc_perm; [apply Permutation_sym; exact PI|]. exact (Acc_ext _ _ _ c c' eq_refl eq_refl Hacc).
    - destruct Hwf as (W1 & W2 & W3). split; [exact W1|split; [exact W2|]]. cbn [c' set_catts c_atts].
      apply (nodupk_setk atkey_eqb atkey_eqb_spec). exact W3.
    - exact Hnf.
    - exact Hnr.
    - apply (ParI_ext _ c c' eq_refl eq_refl). eapply ParI_incl; [|exact Hpar].
      intros i Hi. apply in_app_or in Hi as [Hi|Hi].
      + apply in_map_iff in Hi as (x & <- & Hx). rewrite LR' in Hx. apply in_or_app. left. apply in_map. rewrite LRe.
        apply in_app_or in Hx as [Hx|Hx]; apply in_or_app; [left|right; right]; exact Hx.
      + rewrite FM, map_app in Hi. apply in_app_or in Hi as [Hi|Hi]; [apply in_or_app; right; exact Hi|].
        destruct (m_retried m); [destruct Hi|]. destruct Hi as [<-|[]]. apply in_or_app. left.
        change (item_of_msg m) with (item_of_entry e). apply in_map. exact Elive.
    - intros i Hi. apply Hitf. eapply Permutation_in; [exact PI|exact Hi].
    - exact Hfe.
    - exact Hru.
    - destruct PN as [PN|[-> MR]].
      + eapply Permutation_NoDup; [apply Permutation_sym; exact PN|exact Hnd].
      + rewrite LR'. rewrite LRe in Hnd. rewrite !map_app in *. cbn [map] in Hnd.
        rewrite app_assoc in Hnd. apply NoDup_remove_1 in Hnd. rewrite <- app_assoc in Hnd. exact Hnd.
    - intros x Hx. apply in_app_or in Hx as [Hx|Hx].
      + destruct (QI x Hx) as [Hq|Hn]; [apply Hids; apply in_or_app; left; exact Hq|].
        symmetry in Hn. apply next_try_some in Hn as (c0 & l0 & _ & _ & _ & _ & _ & ES & _). rewrite ES.
        apply Hids. apply in_or_app. right. exact Elive.
      + apply Hids. apply in_or_app. right. rewrite LR' in Hx. rewrite LRe. apply in_app_or in Hx as [Hx|Hx];
          apply in_or_app; [left|right; right]; exact Hx.
    - intros k L. apply Hatts. cbn [c' set_catts c_atts] in L. destruct (atkey_eqb k (akey4 e)) eqn:E.
      + apply atkey_eqb_spec in E. subst k. rewrite OP. discriminate.
      + rewrite (lookup_setk_other atkey_eqb atkey_eqb_spec) in L; [exact L|].
        intros ->. rewrite (proj2 (atkey_eqb_spec _ _) eq_refl) in E. discriminate.
    - intros x Hx. destruct (OPN x Hx) as [O1 O2]. rewrite (OTH x O2 _ (same_path_self x)). exact (Ho1 x O1).
    - intros k L. cbn [c' set_catts c_atts] in L. destruct (atkey_eqb k (akey4 e)) eqn:E.
      + apply atkey_eqb_spec in E. subst k. rewrite (lookup_setk_same atkey_eqb atkey_eqb_spec) in L. discriminate.
      + assert (NE : k <> akey4 e) by (intros ->; rewrite (proj2 (atkey_eqb_spec _ _) eq_refl) in E; discriminate).
        rewrite (lookup_setk_other atkey_eqb atkey_eqb_spec) in L by exact NE.
        destruct (Ho2 k L) as (x & Hx & Kx). exists x. split; [|exact Kx]. unfold run in Hx.
        apply in_opened_mid in Hx as [[-> _]|Hx]; [congruence|]. unfold run'. apply in_opened_mid. right. exact Hx.
    - intros x Hx. rewrite DR in Hx. apply in_app_or in Hx as [Hx|Hx].
      + destruct (QI x Hx) as [Hq|Hn].
        * assert (Q1 : In x (q ++ dispatched run)) by (apply in_or_app; left; exact Hq).
          eapply older_closed_ext; [|exact (Hwait x Q1)]. intros k SP _. exact (OTH x (QO x Q1) k SP).
        * symmetry in Hn. apply next_try_some in Hn as (c0 & l0 & RE & LP & RE' & EF & ER & ES & _).
          intros k SP _ L.
          assert (SPe : same_path e k = true) by (unfold same_path in *; rewrite <- EF, <- ER, <- ES; exact SP).
          rewrite RE'. cbn [cur_of]. destruct (atkey_eqb k (akey4 e)) eqn:E.
          -- apply atkey_eqb_spec in E. subst k. cbn [c' set_catts c_atts].
             rewrite (lookup_setk_same atkey_eqb atkey_eqb_spec). split; [reflexivity|].
             unfold akey4. cbn [att_retr]. rewrite RE. cbn [cur_of]. lia.
          -- assert (NE : k <> akey4 e) by (intros ->; rewrite (proj2 (atkey_eqb_spec _ _) eq_refl) in E; discriminate).
             cbn [c' set_catts c_atts] in *. rewrite (lookup_setk_other atkey_eqb atkey_eqb_spec) in * by exact NE.
             destruct (Hop e Ein k SPe (fun _ => NE) L) as [X Y]. split; [exact X|]. rewrite RE in Y. cbn [cur_of] in Y. lia.
      + assert (Q1 : In x (q ++ dispatched run)) by (apply in_or_app; right; exact Hx).
        eapply older_closed_ext; [|exact (Hwait x Q1)]. intros k SP _. exact (OTH x (QO x Q1) k SP).
    - intros x Hx. rewrite DR in Hx. apply in_app_or in Hx as [Hx|Hx].
      + destruct (QI x Hx) as [Hq|Hn].
        * assert (Q1 : In x (q ++ dispatched run)) by (apply in_or_app; left; exact Hq).
          eapply prev_closed_ext; [|exact (Hprev x Q1)]. intros k SP. exact (OTH x (QO x Q1) k SP).
        * symmetry in Hn. apply next_try_some in Hn as (c0 & l0 & RE & LP & RE' & EF & ER & ES & _).
          unfold prev_attempt_closed. rewrite RE', EF, ER, ES.
          replace (c0 + 1 =? 0) with false by (symmetry; apply N.eqb_neq; lia).
          replace (c0 + 1 - 1) with c0 by lia. replace (l0 - 1 + 1) with l0 by lia.
          cbn [c' set_catts c_atts]. assert (KE : (e_f e, e_r e, e_s e, Some (c0, l0)) = akey4 e) by (unfold akey4; rewrite RE; reflexivity).
          rewrite KE, (lookup_setk_same atkey_eqb atkey_eqb_spec). reflexivity.
      + assert (Q1 : In x (q ++ dispatched run)) by (apply in_or_app; right; exact Hx).
        eapply prev_closed_ext; [|exact (Hprev x Q1)]. intros k SP. exact (OTH x (QO x Q1) k SP).
    - intros x Hx. destruct (OPN x Hx) as [O1 O2]. eapply older_closed_ext; [|exact (Hop x O1)].
      intros k SP _. exact (OTH x O2 k SP). }
  destruct (next_try e failed now) as [e'|] eqn:NT.
  - destruct (next_try_some _ _ _ _ NT) as (c0 & l0 & RE & LP & RE' & EF & ER & ES & ENF & ENR).
    assert (IE : item_of_entry e' = item_of_entry e) by (unfold item_of_entry; congruence).
    apply COMMON.
    + unfold items. rewrite finals_app. unfold finals at 2. cbn [filter m m_retried is_some negb]. rewrite app_nil_r.
      apply Permutation_app_tail. rewrite LR', LRe. cbn [app map]. rewrite !map_app. cbn [map]. rewrite IE.
      rewrite (app_assoc (map item_of_entry q)). rewrite (app_assoc (map item_of_entry q) _ (_ :: _)).
      apply Permutation_middle.
    + left. rewrite LR', LRe. cbn [app map]. rewrite !map_app. cbn [map]. rewrite ES.
      rewrite (app_assoc (map e_s q)). rewrite (app_assoc (map e_s q) _ (_ :: _)). apply Permutation_middle.
    + intros x [<-|Hx]; auto.
  - apply COMMON.
    + unfold items. rewrite finals_app. unfold finals at 2. cbn [filter m m_retried is_some negb map].
      rewrite LR', LRe. rewrite !map_app. cbn [map]. rewrite <- !app_assoc. apply Permutation_app_head.
      apply Permutation_app_head. cbn [app].
      change (item_of_msg m) with (item_of_entry e).
      rewrite app_assoc. apply Permutation_sym. apply Permutation_cons_append.
    + right. split; reflexivity.
    + intros x Hx. left. exact Hx.
Qed.

(* ---- a feature is handed to the runner ---- *)
Lemma cntb_all_false {A} (P : A -> bool) l : (forall x, In x l -> P x = false) -> cntb P l = 0%nat.
Proof.
  induction l as [|x l IH]; intros H; [reflexivity|]. rewrite cntb_cons, (H x (or_introl eq_refl)).
  rewrite IH; [reflexivity|]. intros y Hy. apply H. right. exact Hy.
Qed.
Lemma cntb_all_true {A} (P : A -> bool) l : (forall x, In x l -> P x = true) -> cntb P l = length l.
Proof.
  induction l as [|x l IH]; intros H; [reflexivity|]. rewrite cntb_cons, (H x (or_introl eq_refl)).
  rewrite IH; [reflexivity|]. intros y Hy. apply H. right. exact Hy.
Qed.

Lemma insert_ok insf inss q run ms fc rc c F :
  CI insf inss q run ms fc rc c ->
  ~ In (sf_id F) insf -> NoDup (map ss_id (sf_scens F)) -> (forall sc, In sc (sf_scens F) -> ~ In (ss_id sc) inss) ->
  CI (sf_id F :: insf) (map ss_id (sf_scens F) ++ inss) (map (entry_of F) (sf_scens F) ++ q) run ms fc rc c.
Proof.
  intros H NF NDS FRESH. destruct H as [Hacc Hwf Hnf Hnr Hpar Hitf Hfe Hru Hnd Hids Hatts Ho1 Ho2 Hwait Hprev Hop].
  set (nw := map (entry_of F) (sf_scens F)).
  assert (IT : items (nw ++ q) run ms = map item_of_entry nw ++ items q run ms).
  { unfold items. rewrite <- app_assoc, map_app, <- app_assoc. reflexivity. }
  assert (NWF : forall i, In i (map item_of_entry nw) -> it_f i = sf_id F).
  { intros i Hi. apply in_map_iff in Hi as (x & <- & Hx). apply in_map_iff in Hx as (sc & <- & _). reflexivity. }
  assert (OLD0 : forall f, ~ In f insf -> cntb (itf f) (items q run ms) = 0%nat).
  { intros f Hf. apply cntb_all_false. intros i Hi. unfold itf. apply N.eqb_neq. intros E. apply Hf. rewrite <- E.
    apply Hitf. exact Hi. }
  constructor.
  - rewrite IT. destruct Hacc as [AF AR]. split.
    + intros f. destruct (N.eq_dec f (sf_id F)) as [->|NE].
      * assert (ST : lookup N.eqb (sf_id F) (c_feats c) = None).
        { destruct (lookup N.eqb (sf_id F) (c_feats c)) eqn:L; [|reflexivity]. exfalso. apply NF. apply Hfe. congruence. }
        pose proof (AF (sf_id F)) as A. rewrite ST in A. destruct A as [CN A]. rewrite ST, CN.
        apply acc1_add; [split; [reflexivity|exact A]|exact (OLD0 _ NF)|].
        intros i Hi _. rewrite cntb_all_true.
        -- apply in_map_iff in Hi as (x & <- & Hx). apply in_map_iff in Hx as (sc & <- & _).
           unfold nw. rewrite !map_length. reflexivity.
        -- intros j Hj. unfold itf. rewrite (NWF j Hj). apply N.eqb_refl.
      * apply acc1_unsel_app; [|apply AF]. intros i Hi. unfold itf. rewrite (NWF i Hi). apply N.eqb_neq. congruence.
    + intros k. destruct (N.eq_dec (fst k) (sf_id F)) as [E|NE].
      * assert (ST : lookup rkey_eqb k (c_rules c) = None).
        { destruct (lookup rkey_eqb k (c_rules c)) eqn:L; [|reflexivity]. exfalso. apply NF. rewrite <- E. apply Hru. congruence. }
        pose proof (AR k) as A. rewrite ST in A. destruct A as [CN A]. rewrite ST, CN.
        apply acc1_add; [split; [reflexivity|exact A]| |].
        -- assert (Z := OLD0 _ NF). rewrite <- E in Z.
           pose proof (cntb_le (itr k) (itf (fst k)) (items q run ms) (itr_itf k)) as LE. lia.
        -- intros i Hi Si. unfold nw. rewrite map_map, cntb_map.
           apply in_map_iff in Hi as (x & <- & Hx). apply in_map_iff in Hx as (sc & <- & Hsc).
           unfold itr, item_of_entry, entry_of, it_f, it_r in Si. cbn [e_f e_r] in Si.
           apply andb_prop in Si as [_ S2]. apply optN_eqb_spec in S2.
           unfold item_of_entry, entry_of, it_nr. cbn [e_nr]. rewrite S2. unfold scens_of_rule. f_equal.
           unfold cntb. f_equal. apply filter_ext. intros sc'.
           unfold itr, item_of_entry, it_f, it_r. cbn [e_f e_r]. rewrite E, N.eqb_refl. reflexivity.
      * apply acc1_unsel_app; [|apply AR]. intros i Hi. destruct (itr k i) eqn:S; [|reflexivity].
        apply itr_itf in S. unfold itf in S. apply N.eqb_eq in S. rewrite (NWF i Hi) in S. congruence.
  - exact Hwf.
  - exact Hnf.
  - exact Hnr.
  - exact Hpar.
  - intros i Hi. rewrite IT in Hi. apply in_app_or in Hi as [Hi|Hi]; [left; symmetry; exact (NWF i Hi)|right; apply Hitf; exact Hi].
  - intros f L. right. apply Hfe. exact L.
  - intros k L. right. apply Hru. exact L.
  - rewrite <- app_assoc, map_app. unfold nw. rewrite map_map. cbn [entry_of e_s].
    apply NoDup_app_intro; [exact NDS|exact Hnd|].
    intros x Hx Hy. apply in_map_iff in Hx as (sc & <- & Hsc). apply (FRESH sc Hsc).
    apply in_map_iff in Hy as (e0 & E0 & He0). rewrite <- E0. apply Hids. exact He0.
  - intros x Hx. rewrite <- app_assoc in Hx. apply in_app_or in Hx as [Hx|Hx]; apply in_or_app.
    + left. apply in_map_iff in Hx as (sc & <- & Hsc). cbn [entry_of e_s]. apply in_map. exact Hsc.
    + right. apply Hids. exact Hx.
  - intros k L. apply in_or_app. right. apply Hatts. exact L.
  - exact Ho1.
  - exact Ho2.
  - intros x Hx. rewrite <- app_assoc in Hx. apply in_app_or in Hx as [Hx|Hx]; [|apply Hwait; exact Hx].
    apply in_map_iff in Hx as (sc & <- & Hsc). intros k SP _ L. exfalso. apply (FRESH sc Hsc).
    apply same_path_scen in SP as (S1 & _). cbn [entry_of e_s] in S1. rewrite <- S1. apply Hatts. exact L.
  - intros x Hx. rewrite <- app_assoc in Hx. apply in_app_or in Hx as [Hx|Hx]; [|apply Hprev; exact Hx].
    apply in_map_iff in Hx as (sc & <- & Hsc). unfold prev_attempt_closed, entry_of. cbn [e_retr].
    destruct (ss_retry sc) as [[l d]|]; reflexivity.
  - exact Hop.
Qed.

(* ---- a loop turn dispatches a batch ---- *)
Lemma older_closed_atts c c' e strict : c_atts c' = c_atts c -> older_closed c e strict -> older_closed c' e strict.
Proof. intros E H. unfold older_closed. rewrite E. exact H. Qed.
Lemma prev_closed_atts c c' f r s rt : c_atts c' = c_atts c ->
  prev_attempt_closed c f r s rt = true -> prev_attempt_closed c' f r s rt = true.
Proof. intros E H. unfold prev_attempt_closed. rewrite E. exact H. Qed.

Lemma dispatch_ok insf inss batch q1 run ms fc rc c :
  CI insf inss (batch ++ q1) run ms fc rc c -> c_finished c = false -> c_started c = true ->
  exists c', crun false c (fst (fst (start_scenarios batch fc rc))) = Some c' /\
    CI insf inss q1 (run ++ map (fun e => (e, Dispatched)) batch) ms
       (snd (fst (start_scenarios batch fc rc))) (snd (start_scenarios batch fc rc)) c' /\ brk_ext c c'.
Proof.
  intros H HF HS. destruct H as [Hacc Hwf Hnf Hnr Hpar Hitf Hfe Hru Hnd Hids Hatts Ho1 Ho2 Hwait Hprev Hop].
  set (new := map (fun e => (e, Dispatched)) batch).
  assert (LR : live_run (run ++ new) = live_run run ++ batch) by (rewrite live_run_app; unfold new; rewrite live_run_dispatched; reflexivity).
  assert (DR : dispatched (run ++ new) = dispatched run ++ batch) by (rewrite dispatched_app; unfold new; rewrite dispatched_new; reflexivity).
  assert (PL : Permutation ((batch ++ q1) ++ live_run run) (q1 ++ live_run (run ++ new))).
  { rewrite LR. rewrite <- app_assoc. eapply perm_trans; [apply Permutation_app_comm|]. rewrite <- app_assoc. reflexivity. }
  assert (PI : Permutation (items (batch ++ q1) run ms) (items q1 (run ++ new) ms)).
  { unfold items. apply Permutation_app_tail. apply Permutation_map. exact PL. }
  assert (BI : forall e, In e batch -> In (item_of_entry e) (items (batch ++ q1) run ms)).
  { intros e He. unfold items. apply in_or_app. left. apply in_map. apply in_or_app. left. apply in_or_app. left. exact He. }
  destruct (start_scenarios_ok _ batch fc rc c Hacc Hwf Hnf Hnr HF HS BI)
    as (c' & R & A' & W' & NF' & NR' & B' & PB & MF & MR).
  pose proof (crun_keys false _ _ _ R) as (K1 & K2 & _).
  destruct B' as (B1 & B2 & B3 & B4).
  exists c'. split; [exact R|]. split; [|repeat split; assumption].
  assert (OPN : forall x, In (x, Opened) (run ++ new) <-> In (x, Opened) run).
  { intros x. rewrite in_app_iff. split; [intros [X|X]; [exact X|destruct (in_new_opened _ _ X)]|auto]. }
  assert (WT : forall x, In x (q1 ++ dispatched (run ++ new)) -> In x ((batch ++ q1) ++ dispatched run)).
  { intros x. rewrite DR, !in_app_iff. tauto. }
  constructor.
  - eapply Acc_perm; eauto.
  - exact W'.
  - exact NF'.
  - exact NR'.
  - intros i Hi. rewrite LR, map_app in Hi. rewrite <- app_assoc in Hi.
    apply in_app_or in Hi as [Hi|Hi]; [|apply in_app_or in Hi as [Hi|Hi]].
    + destruct (Hpar i (in_or_app _ _ _ (or_introl Hi))) as [P1 P2]. split; [apply MF; exact P1|].
      intros r Hr. apply MR. apply P2. exact Hr.
    + apply in_map_iff in Hi as (e & <- & He). exact (PB e He).
    + destruct (Hpar i (in_or_app _ _ _ (or_intror Hi))) as [P1 P2]. split; [apply MF; exact P1|].
      intros r Hr. apply MR. apply P2. exact Hr.
  - intros i Hi. apply Hitf. eapply Permutation_in; [apply Permutation_sym; exact PI|exact Hi].
  - intros f L. destruct (K1 f L) as [X|X]; [apply Hfe; exact X|].
    apply start_scenarios_evs in X as [(x & Hx & E)|(x & r & _ & _ & E)]; [|discriminate E].
    inversion E; subst. apply (Hitf (item_of_entry x)). apply BI. exact Hx.
  - intros k L. destruct (K2 k L) as [X|X]; [apply Hru; exact X|].
    apply start_scenarios_evs in X as [(x & _ & E)|(x & r & Hx & _ & E)]; [discriminate E|].
    inversion E as [[E1 E2]]. rewrite E1. apply (Hitf (item_of_entry x)). apply BI. exact Hx.
  - eapply Permutation_NoDup; [|exact Hnd]. apply Permutation_map. exact PL.
  - intros x Hx. apply Hids. eapply Permutation_in; [apply Permutation_sym; exact PL|exact Hx].
  - intros k. rewrite B4. apply Hatts.
  - intros x Hx. rewrite B4. apply Ho1. apply OPN. exact Hx.
  - intros k. rewrite B4. intros L. destruct (Ho2 k L) as (x & Hx & Kx). exists x. split; [apply OPN; exact Hx|exact Kx].
  - intros x Hx. apply (older_closed_atts c c' x true B4). apply Hwait. apply WT. exact Hx.
  - intros x Hx. apply (prev_closed_atts c c' _ _ _ _ B4). apply Hprev. apply WT. exact Hx.
  - intros x Hx. apply (older_closed_atts c c' x false B4). apply Hop. apply OPN. exact Hx.
Qed.

Definition Jout (insf inss : list N) (s' : st) (c' : cstate) (pf : bool) : Prop :=
  (pc s' = Done /\ c_finished c' = true) \/
  (pc s' <> Done /\ CIs insf inss s' c' /\ c_finished c' = false /\ c_started c' = true /\ c_pf c' = pf).

Lemma is_nil_true {A} (l : list A) : is_nil l = true -> l = [].
Proof. destruct l; [reflexivity|discriminate]. Qed.

Lemma loop_top_ok insf inss s c :
  CIs insf inss s c -> c_finished c = false -> c_started c = true ->
  exists c', crun false c (snd (loop_top s)) = Some c' /\ Jout insf inss (fst (loop_top s)) c' (c_pf c).
Proof.
  intros H HF HS. unfold loop_top.
  set (n := match flow s with Break => Some 0%nat | Cont k => k end).
  pose proof (get_perm n s) as GP. destruct (get n s) as [[[batch qs] qc] md].
  destruct (is_nil (running s) && is_nil batch) eqn:IDLE.
  - apply andb_prop in IDLE as [I1 I2]. apply is_nil_true in I1, I2. subst batch. cbn [app] in GP.
    destruct (pdone s && (is_break (flow s) || is_nil (qS s) && is_nil (qC s))) eqn:D; cbn [fst snd].
    + destruct H as [Hacc Hwf Hnf Hnr Hpar Hitf Hfe Hru Hnd Hids Hatts Ho1 Ho2 Hwait Hprev Hop].
      assert (NA : no_open_atts c).
      { intros k L. destruct (Ho2 k L) as (e & He & _). rewrite I1 in He. destruct He. }
      destruct (finish_all_ok _ _ _ c Hacc Hwf Hnf Hnr HF HS NA) as (c' & R & F').
      exists c'. split; [exact R|]. left. split; [reflexivity|exact F'].
    + exists c. split; [reflexivity|]. right. split; [cbn; discriminate|]. split; [|auto].
      unfold CIs, queue, upd. cbn [qS qC running msgs fcount rcount]. eapply CI_perm_q; [exact GP|exact H].
  - pose proof (CI_perm_q _ _ _ _ _ _ _ _ _ GP H) as H1.
    destruct (dispatch_ok _ _ batch (qs ++ qc) _ _ _ _ c H1 HF HS) as (c' & R & CI' & B1 & B2 & B3 & B4).
    destruct (start_scenarios batch (fcount s) (rcount s)) as [[o fc] rc]. cbn [fst snd] in *.
    exists c'. split; [exact R|]. right. split; [cbn; discriminate|]. split; [|repeat split; congruence].
    unfold CIs, queue, upd. cbn [qS qC running msgs fcount rcount]. exact CI'.
Qed.

(* ---- the await returned: one ended attempt leaves `running`, the finished-messages are drained ---- *)
Lemma await_ok insf inss q run ms fc rc c r ff fl :
  CI insf inss q run ms fc rc c -> c_finished c = false -> remove_ended run = Some r ->
  exists c', crun false c (dr_o (drain ff ms fl fc rc)) = Some c' /\
    CI insf inss q r [] (dr_fc (drain ff ms fl fc rc)) (dr_rc (drain ff ms fl fc rc)) c' /\ brk_ext c c'.
Proof.
  intros H HF RE. destruct H as [Hacc Hwf Hnf Hnr Hpar Hitf Hfe Hru Hnd Hids Hatts Ho1 Ho2 Hwait Hprev Hop].
  destruct (remove_ended_shape _ _ RE) as (e0 & l1 & l2 & -> & ->).
  assert (LR : live_run (l1 ++ l2) = live_run (l1 ++ (e0, Ended) :: l2)) by (rewrite live_run_mid_ended, live_run_app; reflexivity).
  assert (DR : dispatched (l1 ++ l2) = dispatched (l1 ++ (e0, Ended) :: l2)) by (rewrite dispatched_mid, dispatched_app; reflexivity).
  assert (OPN : forall x, In (x, Opened) (l1 ++ l2) <-> In (x, Opened) (l1 ++ (e0, Ended) :: l2)).
  { intros x. rewrite in_opened_mid. split; [auto|]. intros [[_ X]|X]; [discriminate X|exact X]. }
  set (run := l1 ++ (e0, Ended) :: l2) in *.
  set (base := map item_of_entry (q ++ live_run run)).
  assert (HP : ParI (map item_of_msg (finals ms)) c).
  { eapply ParI_incl; [|exact Hpar]. intros i Hi. apply in_or_app. right. exact Hi. }
  assert (HO : OA c base).
  { intros k L. destruct (Ho2 k L) as (x & Hx & <-). exists (item_of_entry x). split; [|split; reflexivity].
    unfold base. apply in_map. apply in_or_app. right. apply opened_live. exact Hx. }
  destruct (drain_ok ff base ms fl fc rc c Hacc Hwf Hnf Hnr HF HP HO) as (c' & R & A' & W' & NF' & NR' & B' & MF & MR).
  exists c'. split; [exact R|]. split; [|exact B'].
  destruct B' as (B1 & B2 & B3 & B4).
  assert (IT : items q (l1 ++ l2) [] = base).
  { unfold items, base. rewrite LR. cbn [finals filter map]. apply app_nil_r. }
  constructor.
  - rewrite IT. exact A'.
  - exact W'.
  - exact NF'.
  - exact NR'.
  - cbn [finals filter map]. rewrite app_nil_r, LR.
    eapply (ParI_mono _ base _ _ c c'); eauto.
    + intros i Hi. unfold base. rewrite map_app. apply in_or_app. right. exact Hi.
    + eapply ParI_incl; [|exact Hpar]. intros i Hi. apply in_or_app. left. exact Hi.
  - rewrite IT. intros i Hi. apply Hitf. unfold items. apply in_or_app. left. exact Hi.
  - intros f L. apply Hfe. destruct (MF f) as [E|[E _]]; [rewrite <- E; exact L|rewrite E; discriminate].
  - intros k L. apply Hru. destruct (MR k) as [E|[E _]]; [rewrite <- E; exact L|rewrite E; discriminate].
  - rewrite LR. exact Hnd.
  - rewrite LR. exact Hids.
  - intros k. rewrite B4. apply Hatts.
  - intros x Hx. rewrite B4. apply Ho1. apply OPN. exact Hx.
  - intros k. rewrite B4. intros L. destruct (Ho2 k L) as (x & Hx & Kx). exists x. split; [apply OPN; exact Hx|exact Kx].
  - intros x Hx. rewrite DR in Hx. apply (older_closed_atts c c' x true B4). apply Hwait. exact Hx.
  - intros x Hx. rewrite DR in Hx. apply (prev_closed_atts c c' _ _ _ _ B4). apply Hprev. exact Hx.
  - intros x Hx. apply (older_closed_atts c c' x false B4). apply Hop. apply OPN. exact Hx.
Qed.

(* ---- the remaining glue ---- *)
Lemma CI_ext insf inss q run ms fc rc c c' :
  c_feats c' = c_feats c -> c_rules c' = c_rules c -> c_atts c' = c_atts c ->
  CI insf inss q run ms fc rc c -> CI insf inss q run ms fc rc c'.
Proof.
  intros E1 E2 E3 H. destruct H as [Hacc Hwf Hnf Hnr Hpar Hitf Hfe Hru Hnd Hids Hatts Ho1 Ho2 Hwait Hprev Hop].
  constructor; auto.
  - exact (Acc_ext _ _ _ c c' E1 E2 Hacc).
  - unfold WFc. rewrite E1, E2, E3. exact Hwf.
  - exact (ParI_ext _ c c' E1 E2 Hpar).
  - rewrite E1. exact Hfe.
  - rewrite E2. exact Hru.
  - rewrite E3. exact Hatts.
  - intros e He. rewrite E3. apply Ho1. exact He.
  - rewrite E3. exact Ho2.
  - intros e He. apply (older_closed_atts c c' e true E3). apply Hwait. exact He.
  - intros e He. apply (prev_closed_atts c c' _ _ _ _ E3). apply Hprev. exact He.
  - intros e He. apply (older_closed_atts c c' e false E3). apply Hop. exact He.
Qed.

Lemma filter_partition_perm {A} (p : A -> bool) l :
  Permutation l (filter p l ++ filter (fun x => negb (p x)) l).
Proof.
  induction l as [|x l IH]; [constructor|]. cbn [filter]. destruct (p x); cbn [negb app].
  - constructor. exact IH.
  - apply Permutation_cons_app. exact IH.
Qed.

Lemma insert_feature_queue F s :
  Permutation (map (entry_of F) (sf_scens F) ++ queue s) (queue (insert_feature F s)).
Proof.
  unfold insert_feature, queue. set (es := map (entry_of F) (sf_scens F)).
  pose proof (filter_partition_perm e_serial es) as P.
  destruct (pf s) as [[[[a b] c0] d] e].
  destruct (is_nil (filter e_serial es)) eqn:NIL; cbn [qS qC].
  - apply is_nil_true in NIL. rewrite NIL in P. cbn [app] in P.
    eapply perm_trans; [apply Permutation_app_tail; exact P|].
    rewrite (app_assoc (qS s)). apply Permutation_app_comm.
  - eapply perm_trans; [apply Permutation_app_tail; exact P|].
    rewrite <- !app_assoc. apply Permutation_app_head.
    rewrite !app_assoc. apply Permutation_app_tail. apply Permutation_app_comm.
Qed.

Lemma insert_feature_frame F s :
  running (insert_feature F s) = running s /\ msgs (insert_feature F s) = msgs s /\
  fcount (insert_feature F s) = fcount s /\ rcount (insert_feature F s) = rcount s /\
  pc (insert_feature F s) = pc s /\ pdone (insert_feature F s) = pdone s.
Proof.
  unfold insert_feature. destruct (pf s) as [[[[a b] c0] d] e].
  destruct (is_nil _); cbn; repeat split; reflexivity.
Qed.

Lemma loop_top_frame2 s : pdone (fst (loop_top s)) = pdone s /\ pc (fst (loop_top s)) <> NotBegun.
Proof.
  unfold loop_top. destruct (get _ s) as [[[batch qs] qc] md].
  destruct (is_nil (running s) && is_nil batch).
  - destruct (pdone s && _); cbn; split; [reflexivity|discriminate|reflexivity|discriminate].
  - destruct (start_scenarios _ _ _) as [[o fc] rc]. cbn. split; [reflexivity|discriminate].
Qed.

Definition lab_ok (insf inss : list N) (l : label) : Prop :=
  match l with
  | LFeature F => ~ In (sf_id F) insf /\ NoDup (map ss_id (sf_scens F)) /\
                  forall sc, In sc (sf_scens F) -> ~ In (ss_id sc) inss
  | _ => True
  end.
Definition ins_f (insf : list N) (l : label) : list N := match l with LFeature F => sf_id F :: insf | _ => insf end.
Definition ins_s (inss : list N) (l : label) : list N :=
  match l with LFeature F => map ss_id (sf_scens F) ++ inss | _ => inss end.

Lemma Jout_J insf inss s' c' : Jout insf inss s' c' (pdone s') -> pc s' <> NotBegun -> J insf inss s' c'.
Proof.
  intros [A|(A & B & C & D & E)] NB; [left; exact A|right]. split; [exact A|]. split; [exact B|]. split; [exact C|].
  split; [|exact E]. rewrite D. destruct (pc s'); try reflexivity. contradiction.
Qed.

Lemma cstep_parse_err c id : c_finished c = false -> cstep false c (EvParseErr id) = Some c.
Proof. intros F. unfold cstep. rewrite F. reflexivity. Qed.
Lemma cstep_pf c a b d e f : c_finished c = false -> c_pf c = false ->
  cstep false c (EvParsingFinished a b d e f) = Some (set_pf c).
Proof. intros F P. unfold cstep. rewrite F, P. reflexivity. Qed.
Lemma cstep_started c : c_finished c = false -> c_started c = false -> cstep false c EvStarted = Some (set_started c).
Proof. intros F P. unfold cstep. rewrite F, P. reflexivity. Qed.

Theorem step_contract K cf insf inss s c l s' o :
  J insf inss s c -> Inv K s -> frame_ok s -> lab_ok insf inss l -> step cf s l = Some (s', o) ->
  exists c', crun false c o = Some c' /\ J (ins_f insf l) (ins_s inss l) s' c'.
Proof.
  intros HJ HI HFR HL ST. destruct HJ as [[PD CF]|(NPD & HC & CF & CS & CP)].
  { destruct (done_is_silent K cf s l s' o HI HFR PD ST) as [-> PD']. exists c. split; [reflexivity|]. left. auto. }
  destruct l as [F|id| | |k|k x|k failed|d]; cbn [step ins_f ins_s] in *.
  - (* LFeature *)
    destruct (perrs s); [discriminate|]. inversion ST; subst. exists c. split; [reflexivity|]. right.
    destruct HL as (L1 & L2 & L3). destruct (insert_feature_frame F s) as (E1 & E2 & E3 & E4 & E5 & E6).
    split; [rewrite E5; exact NPD|]. split; [|rewrite E5, E6; auto].
    unfold CIs. rewrite E1, E2, E3, E4. eapply CI_perm_q; [apply insert_feature_queue|].
    apply insert_ok; assumption.
  - (* LParseErr *)
    destruct (perrs s); [discriminate|]. destruct (pf s) as [[[[a b] c0] d] e]. inversion ST; subst.
    exists c. split; [cbn [crun]; rewrite (cstep_parse_err c id CF); reflexivity|]. right. auto.
  - (* LParserEnd *)
    destruct (pdone s) eqn:PDN; [discriminate|]. destruct (pf s) as [[[[a b] c0] d] e]. inversion ST; subst.
    exists (set_pf c). split; [cbn [crun]; rewrite (cstep_pf c _ _ _ _ _ CF CP); reflexivity|]. right.
    split; [exact NPD|]. split; [exact (CI_ext _ _ _ _ _ _ _ c (set_pf c) eq_refl eq_refl eq_refl HC)|]. auto.
  - (* LTop *)
    destruct (pc s) eqn:PC.
    + (* NotBegun *)
      set (s0 := mk_st (qS s) (qC s) (pdone s) (perrs s) (flow s) (running s) (msgs s) (fcount s) (rcount s)
                       (pf s) (now s) NotBegun true) in *.
      assert (H0 : CIs insf inss s0 (set_started c)).
      { exact (CI_ext _ _ _ _ _ _ _ c (set_started c) eq_refl eq_refl eq_refl HC). }
      destruct (loop_top_ok insf inss s0 (set_started c) H0 CF eq_refl) as (c' & R & JO).
      destruct (loop_top_frame2 s0) as [PDE NNB].
      destruct (loop_top s0) as [s1 o1]. inversion ST; subst. cbn [fst snd] in *.
      exists c'. split; [cbn [crun]; rewrite (cstep_started c CF CS); exact R|].
      apply Jout_J; [|exact NNB]. rewrite PDE. change (pdone s0) with (pdone s).
      cbn [set_started c_pf] in JO. rewrite <- CP. exact JO.
    + (* Awaiting *)
      destruct (remove_ended (running s)) as [r|] eqn:RE; [|discriminate].
      destruct (await_ok _ _ _ _ _ _ _ c r (cf_fail_fast cf) (add_slot (flow s)) HC CF RE) as (c1 & R1 & C1 & B1 & B2 & B3 & B4).
      destruct (drain (cf_fail_fast cf) (msgs s) (add_slot (flow s)) (fcount s) (rcount s)) as [[[o1 fl] fc] rc].
      cbn [dr_o dr_fc dr_rc fst snd] in *.
      set (s1 := upd s (qS s) (qC s) fl r [] fc rc (now s) Awaiting) in *.
      assert (H1 : CIs insf inss s1 c1) by exact C1.
      assert (CF1 : c_finished c1 = false) by congruence.
      assert (CS1 : c_started c1 = true) by (rewrite B2, CS; reflexivity).
      destruct (loop_top_ok insf inss s1 c1 H1 CF1 CS1) as (c' & R & JO).
      destruct (loop_top_frame2 s1) as [PDE NNB].
      destruct (loop_top s1) as [s2 o2]. inversion ST; subst. cbn [fst snd] in *.
      exists c'. split; [rewrite crun_app, R1; exact R|].
      apply Jout_J; [|exact NNB]. rewrite PDE. change (pdone s1) with (pdone s). rewrite <- CP, <- B3. exact JO.
    + (* Yielded *)
      assert (CS1 : c_started c = true) by (rewrite CS; reflexivity).
      destruct (loop_top_ok insf inss s c HC CF CS1) as (c' & R & JO).
      destruct (loop_top_frame2 s) as [PDE NNB].
      destruct (loop_top s) as [s2 o2]. inversion ST; subst. cbn [fst snd] in *.
      exists c'. split; [exact R|]. apply Jout_J; [|exact NNB]. rewrite PDE, <- CP. exact JO.
    + contradiction.
  - (* LAttStart *)
    destruct (set_phase k Dispatched Opened (running s)) as [[e r]|] eqn:SP; [|discriminate]. inversion ST; subst.
    destruct (set_phase_shape _ _ _ _ _ _ SP) as (l1 & l2 & RUN & -> & _ & _).
    unfold CIs in HC. rewrite RUN in HC.
    destruct (att_start_ok _ _ _ _ _ _ _ _ _ c HC CF) as (c' & R & C' & F1 & F2 & F3).
    exists c'. split; [cbn [crun]; rewrite R; reflexivity|]. right.
    split; [exact NPD|]. split; [exact C'|]. cbn [upd pc pdone]. repeat split; congruence.
  - (* LAttEv *)
    destruct (is_middle x) eqn:MI; [|discriminate].
    destruct (find_open k (running s)) as [e|] eqn:FO; [|discriminate]. inversion ST; subst.
    destruct (find_open_in _ _ _ FO) as [Hin _].
    exists c. split; [cbn [crun]; rewrite (att_ev_ok _ _ _ _ _ _ _ c e x HC CF Hin MI); reflexivity|]. right. auto.
  - (* LAttEnd *)
    destruct (set_phase k Opened Ended (running s)) as [[e r]|] eqn:SP; [|discriminate].
    destruct (set_phase_shape _ _ _ _ _ _ SP) as (l1 & l2 & RUN & -> & _ & _).
    unfold CIs in HC. rewrite RUN in HC.
    destruct (att_end_ok _ _ _ _ _ _ _ _ _ c failed (now s) HC CF) as (c' & R & C' & F1 & F2 & F3).
    destruct (next_try e failed (now s)) as [e'|] eqn:NT.
    + destruct (e_serial e'); inversion ST; subst; (exists c'; split; [cbn [crun]; rewrite R; reflexivity|]); right;
        (split; [exact NPD|]); (split; [|cbn [upd pc pdone]; repeat split; congruence]);
        unfold CIs, queue, upd; cbn [qS qC running msgs fcount rcount].
      * exact C'.
      * eapply CI_perm_q; [|exact C']. apply Permutation_middle.
    + inversion ST; subst. exists c'. split; [cbn [crun]; rewrite R; reflexivity|]. right.
      split; [exact NPD|]. split; [exact C'|]. cbn [upd pc pdone]. repeat split; congruence.
  - (* LTick *)
    inversion ST; subst. exists c. split; [reflexivity|]. right. auto.
Qed.

(* ---- whole runs ---- *)
Fixpoint labs_ok (insf inss : list N) (ls : list label) : Prop :=
  match ls with
  | [] => True
  | l :: t => lab_ok insf inss l /\ labs_ok (ins_f insf l) (ins_s inss l) t
  end.

Lemma exec_from_contract cf : forall ls insf inss s c s' o,
  J insf inss s c -> Inv (cf_concurrency cf) s -> frame_ok s -> labs_ok insf inss ls ->
  exec_from cf s ls = Some (s', o) ->
  exists c' insf' inss', crun false c o = Some c' /\ J insf' inss' s' c'.
Proof.
  induction ls as [|l t IH]; intros insf inss s c s' o HJ HI HF HL H; cbn [exec_from] in H.
  - inversion H; subst. exists c, insf, inss. split; [reflexivity|exact HJ].
  - destruct (step cf s l) as [[s1 o1]|] eqn:S1; [|discriminate].
    destruct (exec_from cf s1 t) as [[s2 o2]|] eqn:S2; [|discriminate]. inversion H; subst.
    destruct HL as [L1 L2].
    destruct (step_contract _ cf insf inss s c l s1 o1 HJ HI HF L1 S1) as (c1 & R1 & J1).
    destruct (IH _ _ s1 c1 s' o2 J1 (step_inv _ _ _ _ _ _ HI S1) (step_frame _ _ _ _ _ HF S1) L2 S2)
      as (c' & insf' & inss' & R2 & J2).
    exists c', insf', inss'. split; [rewrite crun_app, R1; exact R2|exact J2].
Qed.

Lemma J_init cf : J [] [] (init_st cf) cinit.
Proof.
  right. split; [cbn; discriminate|]. split; [|cbn; auto].
  unfold CIs, init_st, queue. cbn [qS qC running msgs fcount rcount app].
  constructor.
  - split; intros k; cbn; (split; [reflexivity|intros i []]).
  - unfold WFc, nodupk. cbn. repeat split; constructor.
  - constructor.
  - constructor.
  - intros i [].
  - intros i [].
  - intros f X. exfalso. apply X. reflexivity.
  - intros k X. exfalso. apply X. reflexivity.
  - constructor.
  - intros e [].
  - intros k X. exfalso. apply X. reflexivity.
  - intros e [].
  - intros k X. discriminate X.
  - intros e [].
  - intros e [].
  - intros e [].
Qed.

Definition feature_ids (ls : list label) : list N :=
  flat_map (fun l => match l with LFeature f => [sf_id f] | _ => [] end) ls.

Lemma NoDup_app_inv {A} (a b : list A) : NoDup (a ++ b) -> NoDup a /\ NoDup b /\ forall x, In x a -> ~ In x b.
Proof.
  induction a as [|x a IH]; cbn [app]; intros H.
  - split; [constructor|]. split; [exact H|intros x []].
  - inversion H as [|? ? NI H']; subst. destruct (IH H') as (A1 & A2 & A3). split; [|split; [exact A2|]].
    + constructor; [|exact A1]. intros X. apply NI. apply in_or_app. left. exact X.
    + intros y [<-|Hy] Y; [apply NI; apply in_or_app; right; exact Y|exact (A3 y Hy Y)].
Qed.

Lemma labs_ok_of_nodup : forall ls insf inss,
  NoDup (feature_ids ls) -> NoDup (inserted_ids ls) ->
  (forall x, In x insf -> ~ In x (feature_ids ls)) -> (forall x, In x inss -> ~ In x (inserted_ids ls)) ->
  labs_ok insf inss ls.
Proof.
  induction ls as [|l t IH]; intros insf inss N1 N2 D1 D2; [exact I|]. cbn [labs_ok].
  destruct l as [F|id| | |k|k x|k failed|d]; cbn [lab_ok ins_f ins_s];
    try (split; [exact I|apply IH; assumption]).
  unfold feature_ids, inserted_ids in *. cbn [flat_map app] in *.
  inversion N1 as [|? ? NI1 N1']; subst.
  destruct (NoDup_app_inv _ _ N2) as (N2a & N2b & N2c).
  split; [split; [|split]|].
  - intros X. apply (D1 _ X). left. reflexivity.
  - exact N2a.
  - intros sc Hsc X. apply (D2 _ X). apply in_or_app. left. apply in_map. exact Hsc.
  - apply IH; auto.
    + intros x [<-|Hx]; [exact NI1|]. intros Y. apply (D1 x Hx). right. exact Y.
    + intros x Hx Y. apply in_app_or in Hx as [Hx|Hx]; [exact (N2c x Hx Y)|].
      apply (D2 x Hx). apply in_or_app. right. exact Y.
Qed.

(* C03 on the model: whatever the parser delivers (distinct features, distinct scenarios), in whatever order
   attempts are polled and complete, the event stream emitted so far is accepted by the contract automaton;
   and when the loop has ended it is a complete run: closed by run-Finished with every bracket closed *)
Theorem exec_satisfies_contract cf ls s tr :
  exec cf ls = Some (s, tr) -> NoDup (feature_ids ls) -> NoDup (inserted_ids ls) ->
  contract_prefix tr = true /\ (pc s = Done -> contract tr = true).
Proof.
  intros H N1 N2.
  assert (L : labs_ok [] [] ls) by (apply labs_ok_of_nodup; auto).
  destruct (exec_from_contract cf ls [] [] _ cinit s tr (J_init cf) (init_inv cf) (init_frame cf) L H)
    as (c' & insf' & inss' & R & HJ).
  unfold contract_prefix, contract. rewrite R. split; [reflexivity|].
  intros PD. destruct HJ as [[_ F]|[NPD _]]; [exact F|contradiction].
Qed.
