(* AttemptP2.v — the World lifecycle and hook contract (C09) of the attempt model: the model's callback log
   and events always satisfy the independent recogniser AttemptSpec.c09_ok. *)
From CV Require Import Model.Base Model.Events Model.Attempt Model.AttemptSpec Proofs.BaseP Proofs.AttemptP.
From Coq Require Import Lia PeanoNat.

Definition ev_bhf (e : scev) : bool := match e with ScHook true (HFailed _) => true | _ => false end.
Definition ev_failed (e : scev) : bool := match e with ScBg _ (StFailed _) | ScStep _ (StFailed _) => true | _ => false end.
Definition ev_skipped (e : scev) : bool := match e with ScBg _ StSkipped | ScStep _ StSkipped => true | _ => false end.
Definition ev_matched (e : scev) : bool :=
  match e with
  | ScBg _ StPassed | ScStep _ StPassed | ScBg _ (StFailed (EPanic _)) | ScStep _ (StFailed (EPanic _)) => true
  | _ => false
  end.
Definition n_new (cs : list callback) : nat := length (filter is_new cs).

Lemma n_new_app a b : n_new (a ++ b) = (n_new a + n_new b)%nat.
Proof. unfold n_new. rewrite filter_app, app_length. reflexivity. Qed.

Lemma world_eqb_refl w : world_eqb w w = true.
Proof. unfold world_eqb. apply (proj2 (list_eqb_spec N.eqb N.eqb_eq w w)). reflexivity. Qed.
Lemma world_eqb_eq a b : world_eqb a b = true -> a = b.
Proof. unfold world_eqb. apply (proj1 (list_eqb_spec N.eqb N.eqb_eq a b)). Qed.

Lemma fw_app a : forall w b, final_world w (a ++ b) = final_world (final_world w a) b.
Proof. induction a as [|c a IH]; intros w b; [reflexivity|]. cbn [app final_world]. destruct c; apply IH. Qed.
Lemma ssh_app a : forall w b,
  steps_see_history w (a ++ b) = steps_see_history w a && steps_see_history (final_world w a) b.
Proof.
  induction a as [|c a IH]; intros w b; [reflexivity|]. cbn [app steps_see_history final_world].
  destruct c; rewrite IH, ?andb_assoc; reflexivity.
Qed.

Record PI (hb : bool) (es : list scev) (cs : list callback) (res : option world + failure) : Prop := mk_PI {
  pi_bhf : existsb ev_bhf es = false;
  pi_failed : existsb ev_failed es = false;
  pi_skipped : existsb ev_skipped es = match res with inr (FSkipped _) => true | _ => false end;
  pi_new_le : (n_new cs <= 1)%nat;
  pi_new_iff : Nat.eqb (n_new cs) 1 = hb || existsb ev_matched (es ++ deferred_of res);
  pi_ssh : steps_see_history [] cs = true;
  pi_world : match final_world_of res with
             | Some w => final_world [] cs = w /\ existsb is_before_call cs || existsb is_step_call cs = true /\ n_new cs = 1%nat
             | None => existsb is_before_call cs = false /\ existsb is_step_call cs = false
             end;
  pi_fresh : res = inl None -> n_new cs = 0%nat /\ hb = false;
  pi_first : if hb then (exists t, cs = CWorldNew :: CBefore [] :: t) \/
                        ((exists f, res = inr f) /\ exists t, cs = CWorldNew :: t /\
                           existsb is_before_call t = false /\ existsb is_step_call t = false)
             else existsb is_before_call cs = false;
  pi_noafter : existsb is_after cs = false }.

Arguments n_new : simpl never.
Lemma n_new_nil : n_new [] = 0%nat.
Proof. reflexivity. Qed.
Lemma n_new_one c : n_new [c] = if is_new c then 1%nat else 0%nat.
Proof. unfold n_new. cbn. destruct (is_new c); reflexivity. Qed.

Ltac evs := rewrite ?existsb_app; cbn [existsb ev_bhf ev_failed ev_skipped ev_matched is_before_call is_step_call is_after orb];
            rewrite ?orb_false_r, ?orb_true_r.

Lemma first_keep (hb : bool) (cs : list callback) (wo : option world) (res' : option world + failure) (cs' : list callback) :
  (if hb then (exists t, cs = CWorldNew :: CBefore [] :: t) \/
              ((exists f, @inl (option world) failure wo = inr f) /\ exists t, cs = CWorldNew :: t /\
                 existsb is_before_call t = false /\ existsb is_step_call t = false)
   else existsb is_before_call cs = false) ->
  existsb is_before_call cs' = false ->
  if hb then (exists t, cs ++ cs' = CWorldNew :: CBefore [] :: t) \/
              ((exists f, res' = inr f) /\ exists t, cs ++ cs' = CWorldNew :: t /\
                 existsb is_before_call t = false /\ existsb is_step_call t = false)
  else existsb is_before_call (cs ++ cs') = false.
Proof.
  intros F NB. destruct hb.
  - left. destruct F as [(t & E)|((f & X) & _)]; [|discriminate X]. rewrite E. exists (t ++ cs'). reflexivity.
  - rewrite existsb_app, F, NB. reflexivity.
Qed.

Lemma case_nomatch hb es cs wo bg st :
  PI hb es cs (inl wo) ->
  PI hb ((es ++ [step_ev bg st StStarted]) ++ [step_ev bg st StSkipped]) cs (inr (FSkipped wo)).
Proof.
  intros [Hb Hf Hs Hle Hiff Hssh Hw Hfr Hfi Hna]. cbn [final_world_of deferred_of] in *. rewrite app_nil_r in Hiff.
  constructor; cbn [final_world_of failure_world deferred_of deferred].
  - destruct bg; evs; exact Hb.
  - destruct bg; evs; exact Hf.
  - destruct bg; evs; reflexivity.
  - exact Hle.
  - rewrite Hiff, app_nil_r. destruct bg; evs; reflexivity.
  - exact Hssh.
  - exact Hw.
  - intros X; discriminate X.
  - pose proof (first_keep hb cs wo (inr (FSkipped wo)) [] Hfi eq_refl) as F. rewrite app_nil_r in F. exact F.
  - exact Hna.
Qed.

Lemma case_ambiguous hb es cs wo bg st :
  PI hb es cs (inl wo) ->
  PI hb (es ++ [step_ev bg st StStarted]) cs (inr (FStep wo bg st EAmbiguous)).
Proof.
  intros [Hb Hf Hs Hle Hiff Hssh Hw Hfr Hfi Hna]. cbn [final_world_of deferred_of] in *. rewrite app_nil_r in Hiff.
  constructor; cbn [final_world_of failure_world deferred_of deferred].
  - destruct bg; evs; exact Hb.
  - destruct bg; evs; exact Hf.
  - destruct bg; evs; exact Hs.
  - exact Hle.
  - rewrite Hiff. destruct bg; evs; reflexivity.
  - exact Hssh.
  - exact Hw.
  - intros X; discriminate X.
  - pose proof (first_keep hb cs wo (inr (FStep wo bg st EAmbiguous)) [] Hfi eq_refl) as F. rewrite app_nil_r in F. exact F.
  - exact Hna.
Qed.

Lemma fw_nocalls cs : forall w, existsb is_before_call cs = false -> existsb is_step_call cs = false -> final_world w cs = w.
Proof.
  induction cs as [|c cs IH]; intros w B S; [reflexivity|]. cbn [existsb] in B, S.
  apply orb_false_iff in B as [B1 B2]. apply orb_false_iff in S as [S1 S2].
  destruct c; try discriminate; cbn [final_world]; apply IH; assumption.
Qed.

Lemma case_match_world hb es cs w bg st pan :
  PI hb es cs (inl (Some w)) ->
  PI hb (match pan with None => (es ++ [step_ev bg st StStarted]) ++ [step_ev bg st StPassed]
                      | Some _ => es ++ [step_ev bg st StStarted] end)
     (cs ++ [CStep st w])
     (match pan with None => inl (Some (w ++ [st])) | Some p => inr (FStep (Some (w ++ [st])) bg st (EPanic p)) end).
Proof.
  intros [Hb Hf Hs Hle Hiff Hssh Hw Hfr Hfi Hna]. cbn [final_world_of deferred_of] in *. rewrite app_nil_r in Hiff.
  destruct Hw as (W1 & W2 & W3).
  destruct pan as [p|]; constructor; cbn [final_world_of failure_world deferred_of deferred].
  - destruct bg; evs; exact Hb.
  - destruct bg; evs; exact Hf.
  - destruct bg; evs; exact Hs.
  - rewrite n_new_app, n_new_one. cbn [is_new]. lia.
  - rewrite n_new_app, n_new_one, W3. cbn [is_new Nat.add Nat.eqb]. destruct bg; evs; reflexivity.
  - rewrite ssh_app, Hssh, W1. cbn [steps_see_history andb]. rewrite world_eqb_refl. reflexivity.
  - split; [rewrite fw_app, W1; reflexivity|]. split; [evs; reflexivity|rewrite n_new_app, n_new_one, W3; reflexivity].
  - intros X; discriminate X.
  - exact (first_keep hb cs (Some w) _ [CStep st w] Hfi eq_refl).
  - evs. exact Hna.
  - destruct bg; evs; exact Hb.
  - destruct bg; evs; exact Hf.
  - destruct bg; evs; exact Hs.
  - rewrite n_new_app, n_new_one. cbn [is_new]. lia.
  - rewrite n_new_app, n_new_one, W3, app_nil_r. cbn [is_new Nat.add Nat.eqb]. destruct bg; evs; reflexivity.
  - rewrite ssh_app, Hssh, W1. cbn [steps_see_history andb]. rewrite world_eqb_refl. reflexivity.
  - split; [rewrite fw_app, W1; reflexivity|]. split; [evs; reflexivity|rewrite n_new_app, n_new_one, W3; reflexivity].
  - intros X; discriminate X.
  - exact (first_keep hb cs (Some w) _ [CStep st w] Hfi eq_refl).
  - evs. exact Hna.
Qed.

Lemma case_match_fresh_ok hb es cs bg st pan :
  PI hb es cs (inl None) ->
  PI hb (match pan with None => (es ++ [step_ev bg st StStarted]) ++ [step_ev bg st StPassed]
                      | Some _ => es ++ [step_ev bg st StStarted] end)
     ((cs ++ [CWorldNew]) ++ [CStep st []])
     (match pan with None => inl (Some ([] ++ [st])) | Some p => inr (FStep (Some ([] ++ [st])) bg st (EPanic p)) end).
Proof.
  intros [Hb Hf Hs Hle Hiff Hssh Hw Hfr Hfi Hna]. cbn [final_world_of deferred_of] in *. rewrite app_nil_r in Hiff.
  destruct Hw as (W1 & W2). destruct (Hfr eq_refl) as (N0 & HB). subst hb.
  assert (FW : final_world [] cs = []) by (apply fw_nocalls; assumption).
  destruct pan as [p|]; constructor; cbn [final_world_of failure_world deferred_of deferred].
  - destruct bg; evs; exact Hb.
  - destruct bg; evs; exact Hf.
  - destruct bg; evs; exact Hs.
  - rewrite !n_new_app, !n_new_one, N0. cbn [is_new]. lia.
  - rewrite !n_new_app, !n_new_one, N0. cbn [is_new Nat.add Nat.eqb orb]. destruct bg; evs; reflexivity.
  - rewrite !ssh_app, Hssh, !fw_app, FW. reflexivity.
  - split; [rewrite !fw_app, FW; reflexivity|]. split; [evs; reflexivity|rewrite !n_new_app, !n_new_one, N0; reflexivity].
  - intros X; discriminate X.
  - evs. rewrite Hfi. reflexivity.
  - evs. exact Hna.
  - destruct bg; evs; exact Hb.
  - destruct bg; evs; exact Hf.
  - destruct bg; evs; exact Hs.
  - rewrite !n_new_app, !n_new_one, N0. cbn [is_new]. lia.
  - rewrite !n_new_app, !n_new_one, N0, app_nil_r. cbn [is_new Nat.add Nat.eqb orb]. destruct bg; evs; reflexivity.
  - rewrite !ssh_app, Hssh, !fw_app, FW. reflexivity.
  - split; [rewrite !fw_app, FW; reflexivity|]. split; [evs; reflexivity|rewrite !n_new_app, !n_new_one, N0; reflexivity].
  - intros X; discriminate X.
  - evs. rewrite Hfi. reflexivity.
  - evs. exact Hna.
Qed.

Lemma case_match_fresh_fail hb es cs bg st payload :
  PI hb es cs (inl None) ->
  PI hb (es ++ [step_ev bg st StStarted]) (cs ++ [CWorldNew]) (inr (FStep None bg st (EPanic payload))).
Proof.
  intros [Hb Hf Hs Hle Hiff Hssh Hw Hfr Hfi Hna]. cbn [final_world_of deferred_of] in *. rewrite app_nil_r in Hiff.
  destruct Hw as (W1 & W2). destruct (Hfr eq_refl) as (N0 & HB). subst hb.
  constructor; cbn [final_world_of failure_world deferred_of deferred].
  - destruct bg; evs; exact Hb.
  - destruct bg; evs; exact Hf.
  - destruct bg; evs; exact Hs.
  - rewrite !n_new_app, !n_new_one, N0. cbn [is_new]. lia.
  - rewrite !n_new_app, !n_new_one, N0. cbn [is_new Nat.add Nat.eqb orb]. destruct bg; evs; reflexivity.
  - rewrite !ssh_app, Hssh. reflexivity.
  - split; evs; assumption.
  - intros X; discriminate X.
  - evs. exact Hfi.
  - evs. exact Hna.
Qed.

Definition lift_res (x : world + failure) : option world + failure :=
  match x with inl w => inl (Some w) | inr f => inr f end.

Lemma run_step_PI i hb bg a wo s :
  PI hb (a_evs a) (a_calls a) (inl wo) ->
  PI hb (a_evs (fst (run_step i bg a wo s))) (a_calls (fst (run_step i bg a wo s))) (lift_res (snd (run_step i bg a wo s))).
Proof.
  intros H. destruct s as [st out]. unfold run_step. cbn [fst snd].
  destruct out as [| |pan].
  - cbn [emit a_evs a_calls fst snd lift_res]. apply case_nomatch. exact H.
  - cbn [emit a_evs a_calls fst snd lift_res]. apply case_ambiguous. exact H.
  - destruct wo as [w|].
    + pose proof (case_match_world hb _ _ w bg st pan H) as C.
      destruct pan as [p|]; cbn [emit call a_evs a_calls fst snd lift_res]; exact C.
    + destruct (ai_world i) eqn:AW.
      * pose proof (case_match_fresh_ok hb _ _ bg st pan H) as C.
        destruct pan as [p|]; cbn [emit call a_evs a_calls fst snd lift_res]; exact C.
      * cbn [emit call a_evs a_calls fst snd lift_res]. apply case_match_fresh_fail. exact H.
      * cbn [emit call a_evs a_calls fst snd lift_res]. apply case_match_fresh_fail. exact H.
Qed.

Lemma run_steps_PI i hb bg l : forall a wo,
  PI hb (a_evs a) (a_calls a) (inl wo) ->
  PI hb (a_evs (fst (run_steps i bg a wo l))) (a_calls (fst (run_steps i bg a wo l))) (snd (run_steps i bg a wo l)).
Proof.
  induction l as [|s t IH]; intros a wo H; cbn [run_steps]; [exact H|].
  pose proof (run_step_PI i hb bg a wo s H) as S. destruct (run_step i bg a wo s) as [a' [w|f]]; cbn [fst snd lift_res] in *.
  - apply IH. exact S.
  - exact S.
Qed.

Lemma bind_steps_PI i hb bg l r :
  PI hb (a_evs (fst r)) (a_calls (fst r)) (snd r) ->
  PI hb (a_evs (fst (bind_steps i bg l r))) (a_calls (fst (bind_steps i bg l r))) (snd (bind_steps i bg l r)).
Proof.
  destruct r as [a [wo|f]]; cbn [bind_steps fst snd]; intros H; [apply run_steps_PI; exact H|exact H].
Qed.

Lemma run_before_PI i :
  let r := run_before i (mk_acc [ScStarted] []) in
  PI (is_some (ai_before i)) (a_evs (fst r)) (a_calls (fst r)) (snd r).
Proof.
  unfold run_before. destruct (ai_before i) as [hook|]; cbn [is_some].
  - destruct (ai_world i) eqn:AW; [destruct hook as [p|]| |]; cbn [emit call a_evs a_calls fst snd app];
      constructor; cbn; auto; try (intros X; discriminate X); try lia.
    + left. exists []. reflexivity.
    + left. exists []. reflexivity.
    + right. split; [eexists; reflexivity|]. exists []. auto.
    + right. split; [eexists; reflexivity|]. exists []. auto.
  - constructor; cbn; auto.
Qed.

Lemma phases_PI i :
  PI (is_some (ai_before i)) (a_evs (fst (phases i))) (a_calls (fst (phases i))) (snd (phases i)).
Proof. unfold phases. repeat apply bind_steps_PI. apply run_before_PI. Qed.

(* ---- assembling the recogniser ---- *)
Lemma find_app {A} (p : A -> bool) a b : find p (a ++ b) = match find p a with Some x => Some x | None => find p b end.
Proof. induction a as [|x a IH]; [reflexivity|]. cbn [app find]. destruct (p x); [reflexivity|exact IH]. Qed.
Lemma find_none {A} (p : A -> bool) l : existsb p l = false -> find p l = None.
Proof.
  induction l as [|x l IH]; [reflexivity|]. cbn [existsb find]. intros H. apply orb_false_iff in H as [H1 H2].
  rewrite H1. exact (IH H2).
Qed.
Lemma existsb_rev {A} (p : A -> bool) l : existsb p (rev l) = existsb p l.
Proof.
  induction l as [|x l IH]; [reflexivity|]. cbn [rev existsb]. rewrite existsb_app, IH. cbn [existsb].
  rewrite orb_false_r. apply orb_comm.
Qed.

Lemma after_evs_flags h :
  existsb ev_bhf (after_evs h ++ [ScFinished]) = false /\ existsb ev_failed (after_evs h ++ [ScFinished]) = false /\
  existsb ev_skipped (after_evs h ++ [ScFinished]) = false /\ existsb ev_matched (after_evs h ++ [ScFinished]) = false.
Proof. destruct h as [[p|]|]; cbn; auto. Qed.

Lemma reason_eqb_refl r : reason_eqb r r = true.
Proof. destruct r as [p| | |k]; cbn; auto using N.eqb_refl, errk_eqb_refl. Qed.

Lemma true_reason_spec hb es cs res tail :
  PI hb es cs res ->
  existsb ev_bhf tail = false -> existsb ev_failed tail = false -> existsb ev_skipped tail = false ->
  true_reason (es ++ deferred_of res ++ tail) = final_reason res.
Proof.
  intros [Hb Hf Hs _ _ _ _ _ _ _] T1 T2 T3. unfold true_reason.
  change (fun e : scev => match e with ScHook true (HFailed _) => true | _ => false end) with ev_bhf.
  change (fun e : scev => match e with ScBg _ (StFailed _) | ScStep _ (StFailed _) => true | _ => false end) with ev_failed.
  change (fun e : scev => match e with ScBg _ StSkipped | ScStep _ StSkipped => true | _ => false end) with ev_skipped.
  rewrite !find_app, (find_none _ _ Hb), (find_none _ _ Hf), !existsb_app, Hs, T3.
  destruct res as [wo|[w p|w|w bg st k]]; cbn [deferred_of deferred find existsb final_reason failure_reason ev_bhf ev_failed ev_skipped orb].
  - rewrite (find_none _ _ T1), (find_none _ _ T2). reflexivity.
  - reflexivity.
  - rewrite (find_none _ _ T1), (find_none _ _ T2). reflexivity.
  - destruct bg; cbn [step_ev ev_bhf ev_failed]; rewrite ?(find_none _ _ T1); reflexivity.
Qed.

Lemma same_instance_none cs : same_instance (map (fun c : callback => (c, @None N)) cs) = true.
Proof.
  unfold same_instance.
  match goal with |- match ?X with _ => _ end = _ => assert (E : X = []) end.
  { induction cs as [|c cs IH]; [reflexivity|]. cbn [map flat_map snd app]. exact IH. }
  rewrite E. reflexivity.
Qed.

Lemma map_fst_none (cs : list callback) : map fst (map (fun c : callback => (c, @None N)) cs) = cs.
Proof. rewrite map_map. cbn [fst]. apply map_id. Qed.

(* C09 on the model: for EVERY attempt (any hooks, any World outcome, any steps and outcomes) the callback log and
   the events satisfy the lifecycle recogniser *)
Theorem attempt_c09 i :
  c09_ok (is_some (ai_before i)) (is_some (ai_after i)) (ao_events (run_attempt i))
         (map (fun c => (c, None)) (ao_calls (run_attempt i))) = true.
Proof.
  pose proof (phases_PI i) as P. rewrite events_shape, calls_shape.
  set (hb := is_some (ai_before i)) in *. set (es := a_evs (fst (phases i))) in *.
  set (cs := a_calls (fst (phases i))) in *. set (res := snd (phases i)) in *.
  destruct (after_evs_flags (ai_after i)) as (T1 & T2 & T3 & T4).
  pose proof (true_reason_spec hb es cs res _ P T1 T2 T3) as TR.
  destruct P as [Hb Hf Hs Hle Hiff Hssh Hw Hfr Hfi Hna].
  set (aft := match ai_after i with Some _ => [CAfter (final_reason res) (final_world_of res)] | None => [] end).
  assert (AN : n_new aft = 0%nat) by (unfold aft; destruct (ai_after i); reflexivity).
  assert (AB : existsb is_before_call aft = false) by (unfold aft; destruct (ai_after i); reflexivity).
  assert (AS : existsb is_step_call aft = false) by (unfold aft; destruct (ai_after i); reflexivity).
  assert (AH : forall w, steps_see_history w aft = true) by (intros w; unfold aft; destruct (ai_after i); reflexivity).
  assert (AF : forall w, final_world w aft = w) by (intros w; unfold aft; destruct (ai_after i); reflexivity).
  unfold c09_ok. rewrite map_fst_none, same_instance_none.
  fold (n_new (cs ++ aft)). rewrite n_new_app, AN. replace (n_new cs + 0)%nat with (n_new cs) by lia.
  unfold step_matched. change (fun e : scev => match e with
      | ScBg _ StPassed | ScStep _ StPassed | ScBg _ (StFailed (EPanic _)) | ScStep _ (StFailed (EPanic _)) => true
      | _ => false end) with ev_matched.
  rewrite (app_assoc es), (existsb_app ev_matched (es ++ deferred_of res)), T4, orb_false_r, <- Hiff.
  rewrite (proj2 (Nat.leb_le _ _) Hle). rewrite (ssh_app cs [] aft), Hssh, AH. rewrite !existsb_app, AB, AS, !orb_false_r.
  assert (EQB : Bool.eqb (Nat.eqb (n_new cs) 1) (Nat.eqb (n_new cs) 1) = true) by (destruct (Nat.eqb (n_new cs) 1); reflexivity).
  rewrite EQB. cbn [andb].
  (* the before hook first, on a fresh World *)
  assert (C : negb hb || match cs ++ aft with
                         | CWorldNew :: CBefore w :: _ => world_eqb w []
                         | CWorldNew :: t => negb (existsb is_before_call t) && negb (existsb is_step_call t)
                         | _ => false end = true).
  { destruct hb; [|reflexivity]. cbn [negb orb]. destruct Hfi as [(t & E)|(_ & t & E & B1 & B2)]; rewrite E.
    - reflexivity.
    - cbn [app]. destruct t as [|c t'].
      + cbn [app]. unfold aft. destruct (ai_after i); reflexivity.
      + cbn [app]. destruct c; cbn [existsb is_before_call is_step_call orb] in B1, B2 |- *;
          try discriminate B1; try discriminate B2; rewrite !existsb_app, B1, B2, AB, AS; reflexivity. }
  rewrite C. cbn [andb].
  assert (D : hb || negb (existsb is_before_call cs) = true).
  { destruct hb; [reflexivity|]. rewrite Hfi. reflexivity. }
  rewrite D. cbn [andb].
  (* the after hook *)
  unfold aft. destruct (ai_after i) as [h|]; cbn [is_some].
  - rewrite rev_app_distr. cbn [rev app]. rewrite existsb_rev, Hna. cbn [negb andb].
    rewrite app_assoc in TR. rewrite TR, reason_eqb_refl. cbn [andb].
    rewrite (fw_app cs [] _). cbn [final_world].
    destruct (final_world_of res) as [w|].
    + destruct Hw as (W1 & W2 & _). rewrite W2, W1. cbn [option_eqb]. apply world_eqb_refl.
    + destruct Hw as (W1 & W2). rewrite W1, W2. reflexivity.
  - rewrite ?app_nil_r, Hna. reflexivity.
Qed.
