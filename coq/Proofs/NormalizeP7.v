(* NormalizeP7.v — C11 "order inside an attempt": Normalize keeps the events of every scenario attempt in their
   original relative order.  The projection of the forwarded stream on any attempt key (feature, rule, scenario,
   retries) EQUALS (as a list: same events with their metadata, same order) the projection of the input stream.

   Route: (1) queueing puts an attempt event at the end of ITS attempt's own queue, and by key uniqueness (`U`)
   nothing of that attempt is buffered behind that queue, so the projection of `pending` grows by exactly the new
   event at its end; bracket events do not change any projection.  (2) Emission moves a prefix of `pending`
   (`emit_moves_a_prefix`), so per call `delivered ++ pending` keeps its projection.  (3) Induction over the run
   along the simulation with the contract automaton (`sim_step`), which maintains `nwf` and `U`. *)
From CV Require Import Proofs.SchedP5.
From CV Require Import Model.Base Model.Events Model.Contract Model.Normalize
  Proofs.BaseP Proofs.NormalizeP Proofs.NormalizeP2 Proofs.NormalizeP3.
From Coq Require Import Lia Permutation.

Definition same_att (f : N) (r : option N) (s : N) (rt : retr) (e : ev) : bool :=
  match e with EvScen f' r' s' rt' _ => (f' =? f) && option_eqb N.eqb r' r && (s' =? s) && retr_eqb rt' rt | _ => false end.

(* the projection predicate on tagged events *)
Definition proj_att (f : N) (r : option N) (s : N) (rt : retr) (e : mev) : bool := same_att f r s rt (snd e).

(* ====================================================================================== *)
(* generic list facts                                                                      *)
(* ====================================================================================== *)
Section Gen.
  Context {A : Type} (p : A -> bool).

  Lemma filter_flat_map_nil {B} (F : B -> list A) l :
    (forall x, In x l -> filter p (F x) = []) -> filter p (flat_map F l) = [].
  Proof.
    induction l as [|x t IH]; intros H; cbn [flat_map]; [reflexivity|].
    rewrite filter_app, (H x (or_introl eq_refl)), IH; [reflexivity|]. intros y Hy. apply H. right. exact Hy.
  Qed.

  (* one element inserted somewhere: the projection is the old one with the element appended, provided nothing
     behind the insertion point is selected when the element is *)
  Lemma filter_insert a b x :
    (p x = true -> filter p b = []) -> filter p (a ++ x :: b) = filter p ((a ++ b) ++ [x]).
  Proof.
    intros H. rewrite !filter_app. cbn [filter]. destruct (p x) eqn:E.
    - rewrite (H eq_refl). rewrite app_nil_r. reflexivity.
    - rewrite app_nil_r. reflexivity.
  Qed.

  Lemma filter_one_or x l : (p x = true -> filter p l = []) -> filter p [x] = [] \/ filter p l = [].
  Proof. intros H. cbn [filter]. destruct (p x); [right; apply H; reflexivity|left; reflexivity]. Qed.
End Gen.

(* association lists with unique keys, seen through a projection of their flattening *)
Section AL2.
  Context {K V : Type} (eqb : K -> K -> bool).
  Hypothesis eqb_spec : forall a b, eqb a b = true <-> a = b.
  Context {A : Type} (p : A -> bool) (F : K * V -> list A).

  Lemma rest_off k e (t : list (K * V)) :
    ~ In k (keys t) ->
    (p e = true -> forall k' v, k' <> k -> filter p (F (k', v)) = []) ->
    filter p [e] = [] \/ filter p (flat_map F t) = [].
  Proof.
    intros NI OFF. apply filter_one_or. intros PE. apply filter_flat_map_nil. intros [k' v] Hin.
    apply (OFF PE). intros ->. apply NI. exact (in_keys _ _ _ Hin).
  Qed.

  Lemma fm_amodify_same k g (l : list (K * V)) :
    (forall v, In (k, v) l -> filter p (F (k, g v)) = filter p (F (k, v))) ->
    filter p (flat_map F (amodify eqb k g l)) = filter p (flat_map F l).
  Proof.
    induction l as [|[a b] t IH]; intros H; cbn [amodify]; [reflexivity|]. destruct (eqb k a) eqn:E.
    - apply eqb_spec in E. subst a. cbn [flat_map]. rewrite !filter_app, H by (left; reflexivity). reflexivity.
    - cbn [flat_map]. rewrite !filter_app, IH; [reflexivity|]. intros v Hv. apply H. right. exact Hv.
  Qed.

  Lemma fm_amodify_add k g (l : list (K * V)) e :
    NoDup (keys l) -> In k (keys l) ->
    (forall v, In (k, v) l -> filter p (F (k, g v)) = filter p (F (k, v) ++ [e])) ->
    (p e = true -> forall k' v, k' <> k -> filter p (F (k', v)) = []) ->
    filter p (flat_map F (amodify eqb k g l)) = filter p (flat_map F l ++ [e]).
  Proof.
    induction l as [|[a b] t IH]; intros ND IK MOD OFF; cbn [amodify]; [destruct IK|].
    cbn [keys map fst] in ND. inversion ND as [|? ? NI ND']; subst. destruct (eqb k a) eqn:E.
    - apply eqb_spec in E. subst a. cbn [flat_map]. rewrite !filter_app, MOD by (left; reflexivity). rewrite filter_app.
      destruct (rest_off k e t NI OFF) as [T|T]; rewrite T, !app_nil_r; reflexivity.
    - cbn [keys map fst In] in IK. destruct IK as [IK|IK]; [subst a; rewrite (proj2 (eqb_spec k k) eq_refl) in E; discriminate|].
      cbn [flat_map]. rewrite <- app_assoc. rewrite (filter_app p (F (a, b))). rewrite (filter_app p (F (a, b))). f_equal.
      apply IH; [exact ND'|exact IK| |exact OFF]. intros v Hv. apply MOD. right. exact Hv.
  Qed.

  Lemma fm_aupsert_add k g (l : list (K * V)) e :
    NoDup (keys l) ->
    (forall v, In (k, v) l -> filter p (F (k, g (Some v))) = filter p (F (k, v) ++ [e])) ->
    filter p (F (k, g None)) = filter p [e] ->
    (p e = true -> forall k' v, k' <> k -> filter p (F (k', v)) = []) ->
    filter p (flat_map F (aupsert eqb k g l)) = filter p (flat_map F l ++ [e]).
  Proof.
    induction l as [|[a b] t IH]; intros ND MOD NEW OFF; cbn [aupsert].
    - cbn [flat_map app]. rewrite app_nil_r. exact NEW.
    - cbn [keys map fst] in ND. inversion ND as [|? ? NI ND']; subst. destruct (eqb k a) eqn:E.
      + apply eqb_spec in E. subst a. cbn [flat_map]. rewrite !filter_app, MOD by (left; reflexivity). rewrite filter_app.
        destruct (rest_off k e t NI OFF) as [T|T]; rewrite T, !app_nil_r; reflexivity.
      + cbn [flat_map]. rewrite <- app_assoc. rewrite (filter_app p (F (a, b))). rewrite (filter_app p (F (a, b))). f_equal.
        apply IH; [exact ND'| |exact NEW|exact OFF]. intros v Hv. apply MOD. right. exact Hv.
  Qed.
End AL2.

(* ====================================================================================== *)
(* projections of the buffered structure on one attempt key                                *)
(* ====================================================================================== *)
Section Proj.
  Variables (kf : N) (kr : option N) (ks : N) (krt : retr).
  Notation p := (proj_att kf kr ks krt).

  Definition katt (f' : N) (r' : option N) (k' : akey) : bool :=
    (f' =? kf) && option_eqb N.eqb r' kr && (fst k' =? ks) && retr_eqb (snd k') krt.

  Lemma p_mk_scen f' r' k' a : p (mk_scen f' r' k' a) = katt f' r' k'.
  Proof. reflexivity. Qed.

  Lemma katt_true f' r' k' : katt f' r' k' = true -> f' = kf /\ r' = kr /\ k' = (ks, krt).
  Proof.
    unfold katt. intros H. apply andb_prop in H as [H H4]. apply andb_prop in H as [H H3]. apply andb_prop in H as [H1 H2].
    apply N.eqb_eq in H1, H3. apply (option_eqb_spec _ N.eqb_eq) in H2. apply retr_eqb_eq in H4.
    destruct k' as [a b]. cbn [fst snd] in *. subst. auto.
  Qed.
  Lemma katt_false f' r' k' : (f' = kf -> r' = kr -> k' = (ks, krt) -> False) -> katt f' r' k' = false.
  Proof. intros H. destruct (katt f' r' k') eqn:E; [|reflexivity]. apply katt_true in E as (A & B & C). exfalso. auto. Qed.

  (* an attempt queue is selected entirely or not at all *)
  Lemma filter_att_evs f' r' k' es :
    filter p (att_evs f' r' (k', es)) = if katt f' r' k' then att_evs f' r' (k', es) else [].
  Proof.
    unfold att_evs. cbn [fst snd]. induction es as [|a t IH]; cbn [map filter]; [destruct (katt f' r' k'); reflexivity|].
    rewrite p_mk_scen, IH. destruct (katt f' r' k'); reflexivity.
  Qed.
  Lemma att_off f' r' k' es : katt f' r' k' = false -> filter p (att_evs f' r' (k', es)) = [].
  Proof. intros H. rewrite filter_att_evs, H. reflexivity. Qed.

  (* bracket events are never selected *)
  Lemma p_init i e : same_att kf kr ks krt e = false -> filter p (init_evs i e) = [].
  Proof. intros H. destruct i as [m|]; cbn [init_evs filter]; [|reflexivity]. unfold proj_att. cbn [snd]. rewrite H. reflexivity. Qed.
  Lemma p_fin st e : same_att kf kr ks krt e = false -> filter p (fin_evs st e) = [].
  Proof. intros H. destruct st as [|m|]; cbn [fin_evs filter]; try reflexivity. unfold proj_att. cbn [snd]. rewrite H. reflexivity. Qed.

  Lemma fp_rule f' r' rq : filter p (item_evs f' (KRule r', IRule rq)) = filter p (atts_evs f' r' (rq_atts rq)).
  Proof.
    cbn [item_evs]. rewrite !filter_app, p_init, p_fin by reflexivity. cbn [app]. rewrite app_nil_r. reflexivity.
  Qed.
  Lemma fp_feat f' q : filter p (feat_evs (f', q)) = filter p (items_evs f' (fq_items q)).
  Proof.
    unfold feat_evs. cbn [fst snd]. rewrite !filter_app, p_init, p_fin by reflexivity. cbn [app]. rewrite app_nil_r. reflexivity.
  Qed.
  Lemma fp_pending s : filter p (pending s) = filter p (feats_evs (ns_feats s)).
  Proof. unfold pending. rewrite filter_app, p_fin by reflexivity. rewrite app_nil_r. reflexivity. Qed.

  (* the item key under which the selected attempt lives *)
  Definition pik : ikey := match kr with Some r => KRule r | None => KScen (ks, krt) end.

  Lemma item_off f' ik it : f' <> kf \/ ik <> pik -> filter p (item_evs f' (ik, it)) = [].
  Proof.
    intros H. destruct ik as [r'|k']; destruct it as [rq|es]; try reflexivity.
    - rewrite fp_rule. apply filter_flat_map_nil. intros [k' es] _. apply att_off. apply katt_false. intros E1 E2 _.
      destruct H as [H|H]; [exact (H E1)|]. apply H. unfold pik. rewrite <- E2. reflexivity.
    - cbn [item_evs]. apply att_off. apply katt_false. intros E1 E2 E3.
      destruct H as [H|H]; [exact (H E1)|]. apply H. unfold pik. rewrite <- E2, E3. reflexivity.
  Qed.
  Lemma feat_off f' q : f' <> kf -> filter p (feat_evs (f', q)) = [].
  Proof.
    intros H. rewrite fp_feat. apply filter_flat_map_nil. intros [ik it] _. apply item_off. left. exact H.
  Qed.

  Lemma p_scen m f r sc rt x : p (m, EvScen f r sc rt x) = katt f r (sc, rt).
  Proof. reflexivity. Qed.

  (* ====================================================================================== *)
  (* step 1: queueing appends the event to the projection of the buffer                     *)
  (* ====================================================================================== *)
  Lemma U_feat s f q : U s -> In (f, q) (ns_feats s) -> Uits (fq_items q).
  Proof. intros [_ UI] Hq. apply (UI f). exists q. auto. Qed.

  Lemma afind_In {Kt Vt} (eqb : Kt -> Kt -> bool) (Heq : forall a b, eqb a b = true -> a = b) k (l : list (Kt * Vt)) k' v :
    afind eqb k l = Some (k', v) -> In (k, v) l.
  Proof.
    intros H. pose proof (afind_key eqb Heq _ _ _ _ H) as ->. exact (afind_in _ _ _ _ H).
  Qed.

  Lemma Neqb_eq a b : N.eqb a b = true -> a = b.
  Proof. apply N.eqb_eq. Qed.

  Theorem enqueue_proj s e :
    U s -> is_pass (snd e) = false -> naccept s (snd e) = true ->
    filter p (pending (enqueue s e)) = filter p (pending s ++ [e]).
  Proof.
    intros HU NPASS A. pose proof HU as [UN _].
    rewrite filter_app, !fp_pending, <- filter_app.
    unfold naccept in A. rewrite NPASS in A. apply andb_prop in A as [_ A].
    destruct e as [m ev0]. cbn [snd fst] in *. unfold enqueue. cbn [fst snd].
    destruct ev0 as [| | | |f|f|f r|f r|f r sc rt x]; try discriminate.
    - (* run Finished *)
      cbn [ns_feats]. rewrite filter_app. change (filter p [(m, EvFinished)]) with (@nil mev). rewrite app_nil_r. reflexivity.
    - (* Feature Started *)
      apply negb_true_iff in A. destruct (afind N.eqb f (ns_feats s)) eqn:FD; [discriminate|].
      unfold set_feats, ainsert. cbn [ns_feats]. rewrite (aremove_none N.eqb f _ FD).
      unfold feats_evs. rewrite flat_map_app, !filter_app. reflexivity.
    - (* Feature Finished *)
      unfold set_feats. cbn [ns_feats]. unfold feats_evs. rewrite (fm_amodify_same N.eqb N.eqb_eq).
      + rewrite filter_app. change (filter p [(m, EvFeatF f)]) with (@nil mev). rewrite app_nil_r. reflexivity.
      + intros v _. rewrite !fp_feat. reflexivity.
    - (* Rule Started *)
      destruct (afind N.eqb f (ns_feats s)) as [[f' q]|] eqn:FD; [|discriminate].
      apply andb_prop in A as [_ FR]. apply negb_true_iff in FR.
      destruct (afind ikey_eqb (KRule r) (fq_items q)) eqn:FI; [discriminate|].
      pose proof (afind_In N.eqb Neqb_eq _ _ _ _ FD) as Hq.
      unfold set_feats. cbn [ns_feats]. unfold feats_evs. rewrite (fm_amodify_same N.eqb N.eqb_eq).
      + rewrite filter_app. change (filter p [(m, EvRuleS f r)]) with (@nil mev). rewrite app_nil_r. reflexivity.
      + intros v Hv. rewrite (nodup_keys_unique _ _ _ _ UN Hv Hq). rewrite !fp_feat. cbn [set_fq_items fq_items].
        unfold ainsert. rewrite (aremove_none ikey_eqb _ _ FI). unfold items_evs. rewrite flat_map_app, filter_app.
        change (filter p (flat_map (item_evs f) [(KRule r, IRule (new_rq m))])) with (@nil mev). rewrite app_nil_r. reflexivity.
    - (* Rule Finished *)
      unfold set_feats. cbn [ns_feats]. unfold feats_evs. rewrite (fm_amodify_same N.eqb N.eqb_eq).
      + rewrite filter_app. change (filter p [(m, EvRuleF f r)]) with (@nil mev). rewrite app_nil_r. reflexivity.
      + intros v _. rewrite !fp_feat. cbn [set_fq_items fq_items]. unfold items_evs.
        apply (fm_amodify_same ikey_eqb ikey_eqb_spec). intros it _. destruct it as [rq|es]; [|reflexivity].
        rewrite !fp_rule. reflexivity.
    - (* a scenario event *)
      destruct (afind N.eqb f (ns_feats s)) as [[f' q]|] eqn:FD; [|destruct r; discriminate].
      pose proof (afind_In N.eqb Neqb_eq _ _ _ _ FD) as Hq.
      destruct (U_feat s f q HU Hq) as [UI UA].
      assert (OFFF : p (m, EvScen f r sc rt x) = true -> forall k' v, k' <> f -> filter p (feat_evs (k', v)) = []).
      { intros PE k' v NE. rewrite p_scen in PE. apply katt_true in PE as (E1 & _ & _). apply feat_off. congruence. }
      destruct r as [r|].
      + (* inside a rule *)
        apply andb_prop in A as [_ A].
        destruct (afind ikey_eqb (KRule r) (fq_items q)) as [[k' it]|] eqn:FI; [|discriminate].
        destruct it as [rq|es]; [|discriminate].
        pose proof (afind_In ikey_eqb ikey_eqb_eq _ _ _ _ FI) as Hrq.
        unfold set_feats. cbn [ns_feats]. unfold feats_evs.
        apply (fm_amodify_add N.eqb N.eqb_eq); [exact UN|exact (in_keys _ _ _ Hq)| |exact OFFF].
        intros v Hv. rewrite (nodup_keys_unique _ _ _ _ UN Hv Hq). rewrite filter_app, !fp_feat, <- filter_app.
        cbn [set_fq_items fq_items]. unfold items_evs.
        apply (fm_amodify_add ikey_eqb ikey_eqb_spec); [exact UI|exact (in_keys _ _ _ Hrq)| |].
        * intros it Hit. rewrite (nodup_keys_unique _ _ _ _ UI Hit Hrq). rewrite filter_app, !fp_rule, <- filter_app.
          cbn [set_rq_atts rq_atts]. unfold atts_evs.
          apply (fm_aupsert_add akey_eqb akey_eqb_spec); [exact (UA r rq Hrq)| | |].
          -- intros es _. cbn [push_ev]. rewrite att_evs_snoc. reflexivity.
          -- reflexivity.
          -- intros PE k0 v0 NE. rewrite p_scen in PE. apply katt_true in PE as (_ & _ & E3). apply att_off.
             apply katt_false. intros _ _ E. apply NE. congruence.
        * intros PE k0 v0 NE. rewrite p_scen in PE. apply katt_true in PE as (_ & E2 & _). apply item_off. right.
          unfold pik. rewrite <- E2. exact NE.
      + (* top level *)
        unfold set_feats. cbn [ns_feats]. unfold feats_evs.
        apply (fm_amodify_add N.eqb N.eqb_eq); [exact UN|exact (in_keys _ _ _ Hq)| |exact OFFF].
        intros v Hv. rewrite (nodup_keys_unique _ _ _ _ UN Hv Hq). rewrite filter_app, !fp_feat, <- filter_app.
        cbn [set_fq_items fq_items]. unfold items_evs.
        apply (fm_aupsert_add ikey_eqb ikey_eqb_spec); [exact UI| | |].
        * intros it _. destruct it as [rq|es]; [reflexivity|]. cbn [item_evs]. rewrite att_evs_snoc. reflexivity.
        * reflexivity.
        * intros PE k0 v0 NE. rewrite p_scen in PE. apply katt_true in PE as (_ & E2 & E3). apply item_off. right.
          unfold pik. rewrite <- E2. intros ->. apply NE. congruence.
  Qed.

  (* ====================================================================================== *)
  (* step 2: one call                                                                        *)
  (* ====================================================================================== *)
  (* as LISTS: what the call hands on, followed by what stays buffered, is the pass-through event (if it is one)
     followed by the buffer right after queueing *)
  Lemma nhandle_out s e :
    is_emitted (ns_state s) = false -> nwf (enqueue s e) = true ->
    snd (nhandle s e) ++ pending (fst (nhandle s e)) = (if is_pass (snd e) then [e] else []) ++ pending (enqueue s e).
  Proof.
    intros EM W1. unfold nhandle. rewrite EM.
    pose proof (emit_moves_a_prefix (enqueue s e) W1) as E. destruct (emit_feats (ns_feats (enqueue s e))) as [o1 fs].
    destruct (take_fin (ns_state (enqueue s e))) as [[m0|] st]; destruct E as (E & _); cbn [fst snd];
      rewrite <- E; rewrite <- ?app_assoc, ?app_nil_r; reflexivity.
  Qed.

  Lemma pass_not_selected e : is_pass (snd e) = true -> p e = false.
  Proof. destruct e as [m ev0]. cbn [snd]. destruct ev0; try discriminate; reflexivity. Qed.

  Theorem handle_proj s e :
    nwf s = true -> U s -> ns_state s = NotFinished -> naccept s (snd e) = true ->
    filter p (snd (nhandle s e) ++ pending (fst (nhandle s e))) = filter p (pending s ++ [e]).
  Proof.
    intros W HU NS A.
    assert (EM : is_emitted (ns_state s) = false) by (rewrite NS; reflexivity).
    assert (W1 : nwf (enqueue s e) = true).
    { destruct (is_pass (snd e)) eqn:PS; [rewrite (enqueue_pass s e PS); exact W|].
      exact (proj1 (enqueue_adds_one s e W PS A)). }
    rewrite (nhandle_out s e EM W1). destruct (is_pass (snd e)) eqn:PS.
    - rewrite (enqueue_pass s e PS). rewrite !filter_app. cbn [filter]. rewrite (pass_not_selected e PS).
      rewrite app_nil_r. reflexivity.
    - cbn [app]. apply enqueue_proj; assumption.
  Qed.

  (* ====================================================================================== *)
  (* step 3: a whole run                                                                     *)
  (* ====================================================================================== *)
  Lemma nrun_emitted : forall es s, is_emitted (ns_state s) = true -> concat (nrun_from s es) = es.
  Proof.
    induction es as [|e t IH]; intros s EM; cbn [nrun_from]; [reflexivity|].
    rewrite (nhandle_after_finished s e EM). cbn [concat app]. f_equal. apply IH. exact EM.
  Qed.

  Lemma run_proj : forall es c s c'',
    SimInv c s -> crun false c (map snd es) = Some c'' ->
    filter p (concat (nrun_from s es) ++ pending (nfinal s es)) = filter p (pending s ++ es).
  Proof.
    induction es as [|[m e] t IH]; intros c s c'' HS CR.
    - cbn [nrun_from nfinal concat app]. rewrite app_nil_r. reflexivity.
    - cbn [map snd crun] in CR. destruct (cstep false c e) as [c1|] eqn:CS; [|discriminate].
      destruct (sim_step c c1 s m e HS CS) as (AC & FIN & NXT). destruct HS as (HR & HU & W & NS).
      assert (EM : is_emitted (ns_state s) = false) by (rewrite NS; reflexivity).
      assert (NA : naccept s e = true) by (unfold accepts in AC; rewrite EM in AC; exact AC).
      assert (RS : resting s = true) by (unfold resting; rewrite NS; reflexivity).
      pose proof (handle_proj s (m, e) W HU NS NA) as HP.
      assert (PF : e = EvFinished -> pending (fst (nhandle s (m, e))) = []).
      { intros E. destruct (handle_lossless s (m, e) W RS AC) as (_ & _ & _ & PF & _). apply PF; [exact EM|exact E]. }
      cbn [nrun_from nfinal]. destruct (nhandle s (m, e)) as [s1 o] eqn:NH. cbn [fst snd concat] in *.
      change ((m, e) :: t) with ([(m, e)] ++ t).
      destruct (is_finished e) eqn:IF.
      + assert (E : e = EvFinished) by (destruct e; try discriminate IF; reflexivity).
        pose proof (FIN E) as E1. rewrite (nrun_emitted t s1 E1), (nfinal_emitted t s1 E1), (PF E).
        rewrite (PF E) in HP. rewrite !filter_app in *. rewrite !app_nil_r in *.
        rewrite HP. rewrite <- app_assoc. reflexivity.
      + assert (NE : e <> EvFinished) by (intros ->; discriminate IF).
        pose proof (IH c1 s1 c'' (NXT NE) CR) as P. rewrite !filter_app in *.
        rewrite <- app_assoc, P, app_assoc, HP, <- app_assoc. reflexivity.
  Qed.
End Proj.

(* a complete contract-abiding stream contains run-Finished *)
Lemma crun_finished_seen : forall l c0 c1,
  crun false c0 l = Some c1 -> c_finished c1 = true -> c_finished c0 = false -> existsb is_finished l = true.
Proof.
  induction l as [|e l IH]; intros c0 c1 H F0 F1; cbn [crun] in H.
  - inversion H; subst. congruence.
  - destruct (cstep false c0 e) as [c2|] eqn:CS; [|discriminate]. cbn [existsb].
    destruct (is_finished e) eqn:IF; [reflexivity|]. cbn [orb]. apply (IH c2 c1 H F0).
    unfold cstep in CS. rewrite F1 in CS. destruct e as [| | | |f|f|f r|f r|f ro sc rt x];
      try (apply guard_some in CS as [_ <-]; exact F1);
      try (inversion CS; subst; exact F1); try discriminate IF.
    destruct x; apply guard_some in CS as [_ <-]; exact F1.
Qed.

Lemma contract_finished_seen (es : list mev) : contract (map snd es) = true -> existsb (fun e => is_finished (snd e)) es = true.
Proof.
  unfold contract. destruct (crun false cinit (map snd es)) as [c''|] eqn:CR; [|discriminate]. intros C.
  pose proof (crun_finished_seen _ _ _ CR C eq_refl) as X. rewrite existsb_exists in *.
  destruct X as (e & He & IF). apply in_map_iff in He as (me & <- & Hme). exists me. auto.
Qed.

(* ====================================================================================== *)
(* THE THEOREM: the projection of the forwarded stream on any attempt is the projection of *)
(* the input stream — same tagged events, same order                                       *)
(* ====================================================================================== *)
Theorem attempt_order_preserved :
  forall es f r s rt, contract (map snd es) = true ->
    filter (fun e => same_att f r s rt (snd e)) (concat (nrun es)) = filter (fun e => same_att f r s rt (snd e)) es.
Proof.
  intros es f r s rt C.
  assert (CP : contract_prefix (map snd es) = true).
  { unfold contract in C. unfold contract_prefix. destruct (crun false cinit (map snd es)); [reflexivity|discriminate]. }
  pose proof (contract_implies_accepts es CP) as A.
  pose proof (contract_finished_seen es C) as F.
  unfold contract in C. destruct (crun false cinit (map snd es)) as [c''|] eqn:CR; [|discriminate].
  pose proof (run_proj f r s rt es cinit ninit c'' SimInv_init CR) as P.
  rewrite (pending_after_finished es ninit eq_refl eq_refl A eq_refl F), app_nil_r in P. exact P.
Qed.

(* the same under the queue discipline alone is NOT claimed here: `U` (key uniqueness) is maintained along the
   simulation with the contract automaton. *)

(* per call, for the record (the invariant of the run): *)
Theorem attempt_order_per_call :
  forall f r s rt st e, nwf st = true -> U st -> ns_state st = NotFinished -> naccept st (snd e) = true ->
    filter (fun x : mev => same_att f r s rt (snd x)) (snd (nhandle st e) ++ pending (fst (nhandle st e)))
    = filter (fun x : mev => same_att f r s rt (snd x)) (pending st ++ [e]).
Proof. intros f r s rt st e. exact (handle_proj f r s rt st e). Qed.

(* ====================================================================================== *)
(* a concrete interleaved stream                                                           *)
(* ====================================================================================== *)
(* two features; feature 1 has a retried scenario 10 (attempts (0,1) and (1,0)) whose events interleave with those
   of scenario 11; feature 2 (rule 5, scenario 20) runs concurrently and is held back behind feature 1 *)
Definition ex7 : list mev :=
  [ (0, EvStarted);
    (1, EvFeatS 1);
    (2, EvFeatS 2);
    (3, EvRuleS 2 5);
    (4, EvScen 2 (Some 5) 20 None ScStarted);
    (5, EvScen 1 None 10 (Some (0, 1)) ScStarted);
    (6, EvScen 1 None 11 None ScStarted);
    (7, EvScen 1 None 10 (Some (0, 1)) (ScStep 0 StStarted));
    (8, EvScen 2 (Some 5) 20 None (ScStep 0 StStarted));
    (9, EvScen 1 None 11 None (ScStep 0 StStarted));
    (10, EvScen 1 None 10 (Some (0, 1)) (ScStep 0 (StFailed ENotFound)));
    (11, EvScen 1 None 11 None (ScStep 0 StPassed));
    (12, EvScen 1 None 10 (Some (0, 1)) ScFinished);
    (13, EvScen 1 None 10 (Some (1, 0)) ScStarted);
    (14, EvScen 2 (Some 5) 20 None (ScStep 0 StPassed));
    (15, EvScen 1 None 10 (Some (1, 0)) (ScStep 0 StStarted));
    (16, EvScen 2 (Some 5) 20 None ScFinished);
    (17, EvScen 1 None 11 None (ScStep 1 StStarted));
    (18, EvRuleF 2 5);
    (19, EvScen 1 None 10 (Some (1, 0)) (ScStep 0 StPassed));
    (20, EvFeatF 2);
    (21, EvScen 1 None 11 None (ScStep 1 StPassed));
    (22, EvScen 1 None 10 (Some (1, 0)) ScFinished);
    (23, EvScen 1 None 11 None ScFinished);
    (24, EvFeatF 1);
    (25, EvFinished) ].

Definition ex7_keys : list (N * option N * N * retr) :=
  [ (1, None, 10, Some (0, 1)); (1, None, 10, Some (1, 0)); (1, None, 11, None); (2, Some 5, 20, None) ].

Definition proj_on (k : N * option N * N * retr) (l : list mev) : list mev :=
  match k with (f, r, s, rt) => filter (fun e => same_att f r s rt (snd e)) l end.

Example ex7_projections_agree_streams_differ :
  contract (map snd ex7) = true /\
  forallb (fun k => list_eqb mev_eqb (proj_on k (concat (nrun ex7))) (proj_on k ex7)) ex7_keys = true /\
  forallb (fun k => negb (match proj_on k ex7 with [] => true | _ => false end)) ex7_keys = true /\
  list_eqb mev_eqb (concat (nrun ex7)) ex7 = false /\
  length (concat (nrun ex7)) = length ex7.
Proof. vm_compute. repeat split; reflexivity. Qed.

(* the same, as Leibniz equalities on the four attempts, and the streams really differ *)
Example ex7_attempt_10_first :
  proj_on (1, None, 10, Some (0, 1)) (concat (nrun ex7)) = proj_on (1, None, 10, Some (0, 1)) ex7.
Proof. vm_compute. reflexivity. Qed.
Example ex7_attempt_10_retry :
  proj_on (1, None, 10, Some (1, 0)) (concat (nrun ex7)) = proj_on (1, None, 10, Some (1, 0)) ex7.
Proof. vm_compute. reflexivity. Qed.
Example ex7_attempt_11 :
  proj_on (1, None, 11, None) (concat (nrun ex7)) = proj_on (1, None, 11, None) ex7.
Proof. vm_compute. reflexivity. Qed.
Example ex7_attempt_20 :
  proj_on (2, Some 5, 20, None) (concat (nrun ex7)) = proj_on (2, Some 5, 20, None) ex7.
Proof. vm_compute. reflexivity. Qed.
Example ex7_streams_differ : concat (nrun ex7) <> ex7.
Proof.
  intros H. assert (X : list_eqb mev_eqb (concat (nrun ex7)) ex7 = false) by (vm_compute; reflexivity).
  rewrite H in X. vm_compute in X. discriminate X.
Qed.

(* the general theorem instantiated on the example (no computation) *)
Example ex7_by_theorem : forall f r s rt,
  filter (fun e => same_att f r s rt (snd e)) (concat (nrun ex7)) = filter (fun e => same_att f r s rt (snd e)) ex7.
Proof. intros. apply attempt_order_preserved. vm_compute. reflexivity. Qed.
