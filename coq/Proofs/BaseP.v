(* BaseP.v — lemmas about Base.v *)
From CV Require Import Model.Base.
From Coq Require Import Lia.

Lemma list_eqb_spec {A} (eqb : A -> A -> bool) :
  (forall x y, eqb x y = true <-> x = y) ->
  forall a b, list_eqb eqb a b = true <-> a = b.
Proof.
  intros H a; induction a as [|x a IH]; intros [|y b]; cbn; try (split; congruence).
  rewrite andb_true_iff, H, IH. split; [intros [-> ->]; reflexivity | intros E; inversion E; auto].
Qed.

Lemma str_eqb_eq a b : str_eqb a b = true <-> a = b.
Proof. apply list_eqb_spec. intros; apply N.eqb_eq. Qed.

Lemma str_eqb_refl a : str_eqb a a = true.
Proof. apply str_eqb_eq; reflexivity. Qed.

Lemma str_eqb_neq a b : str_eqb a b = false <-> a <> b.
Proof.
  destruct (str_eqb a b) eqn:E.
  - apply str_eqb_eq in E. split; congruence.
  - split; auto. intros _ H. apply str_eqb_eq in H. congruence.
Qed.

Lemma option_eqb_spec {A} (eqb : A -> A -> bool) :
  (forall x y, eqb x y = true <-> x = y) ->
  forall a b, option_eqb eqb a b = true <-> a = b.
Proof.
  intros H [x|] [y|]; cbn; try (split; congruence).
  rewrite H; split; congruence.
Qed.

Lemma pair_eqb_spec {A B} (ea : A -> A -> bool) (eb : B -> B -> bool) :
  (forall x y, ea x y = true <-> x = y) ->
  (forall x y, eb x y = true <-> x = y) ->
  forall a b, pair_eqb ea eb a b = true <-> a = b.
Proof.
  intros Ha Hb [a1 b1] [a2 b2]; unfold pair_eqb; cbn.
  rewrite andb_true_iff, Ha, Hb. split; [intros [-> ->]; auto | intros E; inversion E; auto].
Qed.

Lemma strip_prefix_app p s : strip_prefix p (p ++ s) = Some s.
Proof. induction p as [|c p IH]; cbn; auto. rewrite N.eqb_refl; auto. Qed.

Lemma strip_prefix_some p s r : strip_prefix p s = Some r -> s = p ++ r.
Proof.
  revert s; induction p as [|c p IH]; cbn; intros s H.
  - congruence.
  - destruct s as [|d s]; try discriminate.
    destruct (N.eqb_spec c d); try discriminate. subst. f_equal; auto.
Qed.

Lemma split_once_app c a b : ~ In c a -> split_once c (a ++ c :: b) = Some (a, b).
Proof.
  induction a as [|d a IH]; cbn; intros H.
  - rewrite N.eqb_refl; auto.
  - destruct (N.eqb_spec d c); [tauto|]. rewrite IH; auto.
Qed.

Lemma split_once_some c s a b :
  split_once c s = Some (a, b) -> s = a ++ c :: b /\ ~ In c a.
Proof.
  revert a; induction s as [|d s IH]; cbn; intros a H; try discriminate.
  destruct (N.eqb_spec d c).
  - inversion H; subst; cbn; auto.
  - destruct (split_once c s) as [[a' b']|]; try discriminate.
    inversion H; subst. destruct (IH a' eq_refl) as [-> Hn]. split; auto.
    cbn; intros [?|?]; auto.
Qed.

Lemma find_map_ext_in {A B} (f g : A -> option B) l :
  (forall x, In x l -> f x = g x) -> find_map f l = find_map g l.
Proof.
  induction l as [|x l IH]; cbn; intros H; auto.
  rewrite (H x) by auto. destruct (g x); auto.
Qed.

Lemma find_map_none {A B} (f : A -> option B) l :
  (forall x, In x l -> f x = None) -> find_map f l = None.
Proof.
  induction l as [|x l IH]; cbn; intros H; auto.
  rewrite (H x) by auto. auto.
Qed.

Lemma find_map_first {A B} (f : A -> option B) l1 x l2 y :
  (forall z, In z l1 -> f z = None) -> f x = Some y ->
  find_map f (l1 ++ x :: l2) = Some y.
Proof.
  induction l1 as [|z l1 IH]; cbn; intros H Hx.
  - rewrite Hx; auto.
  - rewrite (H z) by auto. auto.
Qed.

Lemma existsb_false_forall {A} (p : A -> bool) l :
  existsb p l = false -> forall x, In x l -> p x = false.
Proof.
  induction l as [|y l IH]; cbn; intros H x Hx; [tauto|].
  apply orb_false_iff in H as [H1 H2]. destruct Hx as [->|Hx]; auto.
Qed.

Lemma NoDup_app_intro {A} (a b : list A) :
  NoDup a -> NoDup b -> (forall x, In x a -> In x b -> False) -> NoDup (a ++ b).
Proof.
  induction a as [|x a IH]; cbn; intros Ha Hb H; auto.
  inversion Ha; subst. constructor.
  - rewrite in_app_iff. intros [?|?]; [tauto|]. eapply H; eauto.
  - apply IH; auto. intros y Hy. apply H; auto.
Qed.
