(* NormalizeP5.v — C11 "an already sequential stream passes through unchanged, event by event": on every stream
   accepted by the SEQUENTIAL contract automaton each handle_event call of Normalize forwards exactly its event. *)
From CV Require Import Proofs.SchedP5.
From CV Require Import Model.Base Model.Events Model.Contract Model.Normalize
  Proofs.BaseP Proofs.NormalizeP Proofs.NormalizeP2 Proofs.NormalizeP3.
From Coq Require Import Lia.

(* what is buffered while a sequential stream goes through: only the empty shells of the open entities *)
Definition shell_feat (f : N) (items : list (ikey * item)) : N * fqueue := (f, mk_fq None NotFinished items).
Definition shell_rule (r : N) (atts : list (akey * list aev)) : ikey * item := (KRule r, IRule (mk_rq None NotFinished atts)).

Definition no_open_feat (c : cstate) : Prop := forall f, lookup N.eqb f (c_feats c) <> Some Open.
Definition no_open_rule (c : cstate) : Prop := forall k, lookup rkey_eqb k (c_rules c) <> Some Open.
Definition no_open_att (c : cstate) : Prop := forall k, lookup atkey_eqb k (c_atts c) <> Some Open.
Definition only_feat (c : cstate) (f : N) : Prop :=
  lookup N.eqb f (c_feats c) = Some Open /\ forall f', lookup N.eqb f' (c_feats c) = Some Open -> f' = f.
Definition only_rule (c : cstate) (k : rkey) : Prop :=
  lookup rkey_eqb k (c_rules c) = Some Open /\ forall k', lookup rkey_eqb k' (c_rules c) = Some Open -> k' = k.
Definition only_att (c : cstate) (k : atkey) : Prop :=
  lookup atkey_eqb k (c_atts c) = Some Open /\ forall k', lookup atkey_eqb k' (c_atts c) = Some Open -> k' = k.

Inductive Sh (c : cstate) : nstate -> Prop :=
| Sh0 : no_open_feat c -> no_open_rule c -> no_open_att c -> Sh c (mk_ns [] NotFinished)
| Sh1 f : only_feat c f -> no_open_rule c -> no_open_att c -> Sh c (mk_ns [shell_feat f []] NotFinished)
| Sh2 f r : only_feat c f -> only_rule c (f, r) -> no_open_att c -> Sh c (mk_ns [shell_feat f [shell_rule r []]] NotFinished)
| Sh3 f r k : only_feat c f -> only_rule c (f, r) -> only_att c (f, Some r, fst k, snd k) ->
              Sh c (mk_ns [shell_feat f [shell_rule r [(k, [])]]] NotFinished)
| Sh4 f k : only_feat c f -> no_open_rule c -> only_att c (f, None, fst k, snd k) ->
            Sh c (mk_ns [shell_feat f [(KScen k, IScen [])]] NotFinished).

Lemma akey_eqb_rfl k : akey_eqb k k = true.
Proof. apply akey_eqb_spec. reflexivity. Qed.
Lemma ikey_eqb_rfl k : ikey_eqb k k = true.
Proof. apply ikey_eqb_spec. reflexivity. Qed.

Arguments N.eqb : simpl never.
Arguments akey_eqb : simpl never.
Ltac crunch := unfold nhandle, enqueue, shell_feat, shell_rule, new_fq, new_rq, set_feats, set_fq_items, set_fq_state,
                 set_rq_state, set_rq_atts, push_ev, ainsert;
               repeat (cbn; rewrite ?N.eqb_refl, ?akey_eqb_rfl); try reflexivity.

(* sanity: the computations the proof relies on *)
Example crunch_featS m f : nhandle (mk_ns [] NotFinished) (m, EvFeatS f) = (mk_ns [shell_feat f []] NotFinished, [(m, EvFeatS f)]).
Proof. crunch. Qed.
Example crunch_featF m f : nhandle (mk_ns [shell_feat f []] NotFinished) (m, EvFeatF f) = (mk_ns [] NotFinished, [(m, EvFeatF f)]).
Proof. crunch. Qed.
Example crunch_ruleS m f r : nhandle (mk_ns [shell_feat f []] NotFinished) (m, EvRuleS f r) =
  (mk_ns [shell_feat f [shell_rule r []]] NotFinished, [(m, EvRuleS f r)]).
Proof. crunch. Qed.
Example crunch_ruleF m f r : nhandle (mk_ns [shell_feat f [shell_rule r []]] NotFinished) (m, EvRuleF f r) =
  (mk_ns [shell_feat f []] NotFinished, [(m, EvRuleF f r)]).
Proof. crunch. Qed.
Example crunch_scenR_started m f r k : nhandle (mk_ns [shell_feat f [shell_rule r []]] NotFinished) (m, EvScen f (Some r) (fst k) (snd k) ScStarted) =
  (mk_ns [shell_feat f [shell_rule r [(k, [])]]] NotFinished, [(m, EvScen f (Some r) (fst k) (snd k) ScStarted)]).
Proof. destruct k as [sc rt]. crunch. Qed.
Example crunch_scenR_finished m f r k : nhandle (mk_ns [shell_feat f [shell_rule r [(k, [])]]] NotFinished) (m, EvScen f (Some r) (fst k) (snd k) ScFinished) =
  (mk_ns [shell_feat f [shell_rule r []]] NotFinished, [(m, EvScen f (Some r) (fst k) (snd k) ScFinished)]).
Proof. destruct k as [sc rt]. crunch. Qed.
Example crunch_scenN_started m f k : nhandle (mk_ns [shell_feat f []] NotFinished) (m, EvScen f None (fst k) (snd k) ScStarted) =
  (mk_ns [shell_feat f [(KScen k, IScen [])]] NotFinished, [(m, EvScen f None (fst k) (snd k) ScStarted)]).
Proof. destruct k as [sc rt]. crunch. Qed.
Example crunch_scenN_finished m f k : nhandle (mk_ns [shell_feat f [(KScen k, IScen [])]] NotFinished) (m, EvScen f None (fst k) (snd k) ScFinished) =
  (mk_ns [shell_feat f []] NotFinished, [(m, EvScen f None (fst k) (snd k) ScFinished)]).
Proof. destruct k as [sc rt]. crunch. Qed.

Section OnlyOpen.
  Context {K : Type} (eqb : K -> K -> bool).
  Hypothesis eqb_spec : forall a b, eqb a b = true <-> a = b.
  Hypothesis dec : forall a b : K, {a = b} + {a <> b}.

  Lemma only_after_open (l : list (K * status)) k :
    (forall k', lookup eqb k' l <> Some Open) ->
    lookup eqb k (setk eqb k Open l) = Some Open /\ forall k', lookup eqb k' (setk eqb k Open l) = Some Open -> k' = k.
  Proof.
    intros H. split; [apply (lookup_setk_same eqb eqb_spec)|]. intros k' L. destruct (dec k' k) as [E|NE]; [exact E|].
    rewrite (lookup_setk_other eqb eqb_spec) in L by exact NE. exfalso. exact (H k' L).
  Qed.
  Lemma none_after_close (l : list (K * status)) k :
    (forall k', lookup eqb k' l = Some Open -> k' = k) -> forall k', lookup eqb k' (setk eqb k Closed l) <> Some Open.
  Proof.
    intros H k' L. destruct (dec k' k) as [->|NE].
    - rewrite (lookup_setk_same eqb eqb_spec) in L. discriminate.
    - rewrite (lookup_setk_other eqb eqb_spec) in L by exact NE. exact (NE (H k' L)).
  Qed.
End OnlyOpen.

Lemma atkey_dec (a b : atkey) : {a = b} + {a <> b}.
Proof. repeat decide equality. Qed.
Lemma rkey_dec (a b : rkey) : {a = b} + {a <> b}.
Proof. repeat decide equality. Qed.

(* Sh only looks at the three status lists *)
Lemma Sh_ext c c' s : c_feats c' = c_feats c -> c_rules c' = c_rules c -> c_atts c' = c_atts c -> Sh c s -> Sh c' s.
Proof.
  intros E1 E2 E3 H. destruct H; constructor;
    unfold no_open_feat, no_open_rule, no_open_att, only_feat, only_rule, only_att in *; rewrite ?E1, ?E2, ?E3; assumption.
Qed.

(* pass-through events and events of the open attempt leave the shells as they are *)
Lemma shells_pass c s m e : Sh c s -> is_pass e = true -> nhandle s (m, e) = (s, [(m, e)]).
Proof. intros H P. destruct H; destruct e; try discriminate P; crunch. Qed.

Lemma shells_middleR m f r k x : is_sc_finished x = false ->
  nhandle (mk_ns [shell_feat f [shell_rule r [(k, [])]]] NotFinished) (m, EvScen f (Some r) (fst k) (snd k) x) =
  (mk_ns [shell_feat f [shell_rule r [(k, [])]]] NotFinished, [(m, EvScen f (Some r) (fst k) (snd k) x)]).
Proof. intros H. destruct k as [sc rt]. destruct x; try discriminate H; crunch. Qed.
Lemma shells_middleN m f k x : is_sc_finished x = false ->
  nhandle (mk_ns [shell_feat f [(KScen k, IScen [])]] NotFinished) (m, EvScen f None (fst k) (snd k) x) =
  (mk_ns [shell_feat f [(KScen k, IScen [])]] NotFinished, [(m, EvScen f None (fst k) (snd k) x)]).
Proof. intros H. destruct k as [sc rt]. destruct x; try discriminate H; crunch. Qed.
Lemma shells_finished m : exists s', nhandle (mk_ns [] NotFinished) (m, EvFinished) = (s', [(m, EvFinished)]) /\ is_emitted (ns_state s') = true.
Proof. eexists. split; [crunch|reflexivity]. Qed.

Lemma only_feat_open c f : only_feat c f -> any_open_feat c = true.
Proof. intros [H _]. exact (open_feat_seen c f H). Qed.

Theorem seq_identity_step c c' s m e :
  Sh c s -> cstep true c e = Some c' ->
  exists s', nhandle s (m, e) = (s', [(m, e)]) /\
    (e = EvFinished -> is_emitted (ns_state s') = true) /\ (e <> EvFinished -> Sh c' s').
Proof.
  intros H CS. unfold cstep in CS. destruct (c_finished c) eqn:CF; [discriminate|].
  destruct e as [| | | |f|f|f r|f r|f ro sc rt x].
  - (* Started *) apply guard_some in CS as [_ <-]. exists s. split; [apply (shells_pass c); auto|]. split; [discriminate|].
    intros _. exact (Sh_ext c (set_started c) s eq_refl eq_refl eq_refl H).
  - apply guard_some in CS as [_ <-]. exists s. split; [apply (shells_pass c); auto|]. split; [discriminate|].
    intros _. exact (Sh_ext c (set_pf c) s eq_refl eq_refl eq_refl H).
  - inversion CS; subst. exists s. split; [apply (shells_pass c'); auto|]. split; [discriminate|]. intros _. exact H.
  - (* run-Finished *)
    apply guard_some in CS as [G <-]. apply andb_prop in G as [_ G]. apply negb_true_iff in G.
    destruct H as [NF NR NA|f0 OF _ _|f0 r0 OF _ _|f0 r0 k OF _ _|f0 k OF _ _];
      try (rewrite (only_feat_open c f0 OF) in G; discriminate G).
    destruct (shells_finished m) as (s' & E & EM). exists s'. split; [exact E|]. split; [intros _; exact EM|intros X; contradiction].
  - (* Feature::Started *)
    apply guard_some in CS as [G <-]. apply andb_prop in G as [G1 G2]. cbn [negb orb] in G2. apply negb_true_iff in G2.
    destruct H as [NF NR NA|f0 OF _ _|f0 r0 OF _ _|f0 r0 k OF _ _|f0 k OF _ _];
      try (rewrite (only_feat_open c f0 OF) in G2; discriminate G2).
    eexists. split; [apply crunch_featS|]. split; [discriminate|]. intros _. apply Sh1; cbn [set_cfeats c_feats c_rules c_atts]; auto.
    exact (only_after_open N.eqb N.eqb_eq N.eq_dec (c_feats c) f NF).
  - (* Feature::Finished *)
    apply guard_some in CS as [G <-]. apply andb_prop in G as [G G3]. apply andb_prop in G as [G1 G2].
    apply is_open_some in G1. apply negb_true_iff in G2, G3.
    destruct H as [NF NR NA|f0 [OF UF] NR NA|f0 r0 [OF UF] [OR _] _|f0 r0 k [OF UF] [OR _] _|f0 k [OF UF] _ [OA _]].
    + exfalso. exact (NF f G1).
    + pose proof (UF f G1) as ->. eexists. split; [apply crunch_featF|]. split; [discriminate|]. intros _.
      apply Sh0; cbn [set_cfeats c_feats c_rules c_atts]; auto.
      exact (none_after_close N.eqb N.eqb_eq N.eq_dec (c_feats c) f0 UF).
    + pose proof (UF f G1) as ->. rewrite (open_rule_seen c f0 r0 OR) in G2. discriminate G2.
    + pose proof (UF f G1) as ->. rewrite (open_rule_seen c f0 r0 OR) in G2. discriminate G2.
    + pose proof (UF f G1) as ->. rewrite (open_att_seen c _ _ OA) in G3; [discriminate G3|]. cbn. apply N.eqb_refl.
  - (* Rule::Started *)
    apply guard_some in CS as [G <-]. apply andb_prop in G as [G G3]. apply andb_prop in G as [G1 G2].
    apply is_open_some in G1. apply is_absent_none in G2. cbn [negb orb] in G3. apply andb_prop in G3 as [G3 G4].
    apply negb_true_iff in G3, G4.
    destruct H as [NF NR NA|f0 [OF UF] NR NA|f0 r0 [OF UF] [OR _] _|f0 r0 k [OF UF] [OR _] _|f0 k [OF UF] _ [OA _]].
    + exfalso. exact (NF f G1).
    + pose proof (UF f G1) as ->. eexists. split; [apply crunch_ruleS|]. split; [discriminate|]. intros _.
      apply Sh2; cbn [set_crules c_feats c_rules c_atts]; auto; [split; assumption|].
      exact (only_after_open rkey_eqb rkey_eqb_spec rkey_dec (c_rules c) (f0, r) NR).
    + pose proof (UF f G1) as ->. rewrite (open_rule_seen c f0 r0 OR) in G3. discriminate G3.
    + pose proof (UF f G1) as ->. rewrite (open_rule_seen c f0 r0 OR) in G3. discriminate G3.
    + pose proof (UF f G1) as ->. rewrite (open_att_seen c _ _ OA) in G4; [discriminate G4|]. cbn. apply N.eqb_refl.
  - (* Rule::Finished *)
    apply guard_some in CS as [G <-]. apply andb_prop in G as [G1 G2]. apply is_open_some in G1. apply negb_true_iff in G2.
    destruct H as [NF NR NA|f0 OF NR NA|f0 r0 OF [OR UR] NA|f0 r0 k OF [OR UR] [OA _]|f0 k OF NR _].
    + exfalso. exact (NR _ G1).
    + exfalso. exact (NR _ G1).
    + pose proof (UR _ G1) as E. inversion E; subst. eexists. split; [apply crunch_ruleF|]. split; [discriminate|]. intros _.
      apply Sh1; cbn [set_crules c_feats c_rules c_atts]; auto.
      exact (none_after_close rkey_eqb rkey_eqb_spec rkey_dec (c_rules c) (f0, r0) UR).
    + pose proof (UR _ G1) as E. inversion E; subst. rewrite (open_att_seen c _ _ OA) in G2; [discriminate G2|].
      cbn. rewrite N.eqb_refl. cbn. apply N.eqb_refl.
    + exfalso. exact (NR _ G1).
  - (* scenario events *)
    set (K := (f, ro, sc, rt)) in *.
    destruct x.
    + (* Started *)
      apply guard_some in CS as [G <-]. apply andb_prop in G as [G G5]. apply andb_prop in G as [G _].
      apply andb_prop in G as [G _]. apply andb_prop in G as [GP G2]. apply is_absent_none in G2.
      cbn [negb orb] in G5. apply negb_true_iff in G5. apply andb_prop in GP as [P1 P2]. apply is_open_some in P1.
      assert (NOA : forall k', lookup atkey_eqb k' (c_atts c) <> Some Open).
      { intros k' L. rewrite (open_att_seen c (fun _ => true) k' L eq_refl) in G5. discriminate G5. }
      destruct H as [NF NR NA|f0 [OF UF] NR NA|f0 r0 [OF UF] [OR UR] NA|f0 r0 k OF _ [OA _]|f0 k OF _ [OA _]];
        try (exfalso; exact (NOA _ OA)).
      * exfalso. exact (NF f P1).
      * pose proof (UF f P1) as ->. destruct ro as [r|].
        -- apply is_open_some in P2. exfalso. exact (NR _ P2).
        -- eexists. split; [exact (crunch_scenN_started m f0 (sc, rt))|]. split; [discriminate|]. intros _.
           apply (Sh4 _ f0 (sc, rt)); cbn [set_catts c_feats c_rules c_atts fst snd]; auto; [split; assumption|].
           exact (only_after_open atkey_eqb atkey_eqb_spec atkey_dec (c_atts c) (f0, None, sc, rt) NA).
      * pose proof (UF f P1) as ->. destruct ro as [r|].
        -- apply is_open_some in P2. pose proof (UR _ P2) as E. inversion E; subst.
           eexists. split; [exact (crunch_scenR_started m f0 r0 (sc, rt))|]. split; [discriminate|]. intros _.
           apply (Sh3 _ f0 r0 (sc, rt)); cbn [set_catts c_feats c_rules c_atts fst snd]; auto; try (split; assumption).
           exact (only_after_open atkey_eqb atkey_eqb_spec atkey_dec (c_atts c) (f0, Some r0, sc, rt) NA).
        -- cbn [negb orb] in P2. apply negb_true_iff in P2. rewrite (open_rule_seen c f0 r0 OR) in P2. discriminate P2.
    + (* hook *) apply guard_some in CS as [G <-]. apply andb_prop in G as [_ G2]. apply is_open_some in G2. fold K in G2.
      destruct H as [NF NR NA|f0 OF NR NA|f0 r0 OF OR NA|f0 r0 k OF OR [OA UA]|f0 k OF NR [OA UA]];
        try (exfalso; exact (NA _ G2)).
      * pose proof (UA _ G2) as E. unfold K in E. inversion E; subst. eexists. split; [apply shells_middleR; reflexivity|].
        split; [discriminate|]. intros _. apply Sh3; auto; split; assumption.
      * pose proof (UA _ G2) as E. unfold K in E. inversion E; subst. eexists. split; [apply shells_middleN; reflexivity|].
        split; [discriminate|]. intros _. apply Sh4; auto; split; assumption.
    + (* background step *) apply guard_some in CS as [G <-]. apply andb_prop in G as [_ G2]. apply is_open_some in G2. fold K in G2.
      destruct H as [NF NR NA|f0 OF NR NA|f0 r0 OF OR NA|f0 r0 k OF OR [OA UA]|f0 k OF NR [OA UA]];
        try (exfalso; exact (NA _ G2)).
      * pose proof (UA _ G2) as E. unfold K in E. inversion E; subst. eexists. split; [apply shells_middleR; reflexivity|].
        split; [discriminate|]. intros _. apply Sh3; auto; split; assumption.
      * pose proof (UA _ G2) as E. unfold K in E. inversion E; subst. eexists. split; [apply shells_middleN; reflexivity|].
        split; [discriminate|]. intros _. apply Sh4; auto; split; assumption.
    + (* step *) apply guard_some in CS as [G <-]. apply andb_prop in G as [_ G2]. apply is_open_some in G2. fold K in G2.
      destruct H as [NF NR NA|f0 OF NR NA|f0 r0 OF OR NA|f0 r0 k OF OR [OA UA]|f0 k OF NR [OA UA]];
        try (exfalso; exact (NA _ G2)).
      * pose proof (UA _ G2) as E. unfold K in E. inversion E; subst. eexists. split; [apply shells_middleR; reflexivity|].
        split; [discriminate|]. intros _. apply Sh3; auto; split; assumption.
      * pose proof (UA _ G2) as E. unfold K in E. inversion E; subst. eexists. split; [apply shells_middleN; reflexivity|].
        split; [discriminate|]. intros _. apply Sh4; auto; split; assumption.
    + (* log *) apply guard_some in CS as [G <-]. apply andb_prop in G as [_ G2]. apply is_open_some in G2. fold K in G2.
      destruct H as [NF NR NA|f0 OF NR NA|f0 r0 OF OR NA|f0 r0 k OF OR [OA UA]|f0 k OF NR [OA UA]];
        try (exfalso; exact (NA _ G2)).
      * pose proof (UA _ G2) as E. unfold K in E. inversion E; subst. eexists. split; [apply shells_middleR; reflexivity|].
        split; [discriminate|]. intros _. apply Sh3; auto; split; assumption.
      * pose proof (UA _ G2) as E. unfold K in E. inversion E; subst. eexists. split; [apply shells_middleN; reflexivity|].
        split; [discriminate|]. intros _. apply Sh4; auto; split; assumption.
    + (* Finished *)
      apply guard_some in CS as [G <-]. apply andb_prop in G as [_ G2]. apply is_open_some in G2. fold K in G2.
      destruct H as [NF NR NA|f0 OF NR NA|f0 r0 OF OR NA|f0 r0 k OF OR [OA UA]|f0 k OF NR [OA UA]];
        try (exfalso; exact (NA _ G2)).
      * pose proof (UA _ G2) as E. unfold K in E. inversion E; subst. eexists. split; [apply crunch_scenR_finished|].
        split; [discriminate|]. intros _. apply Sh2; cbn [set_catts c_feats c_rules c_atts]; auto.
        exact (none_after_close atkey_eqb atkey_eqb_spec atkey_dec (c_atts c) _ UA).
      * pose proof (UA _ G2) as E. unfold K in E. inversion E; subst. eexists. split; [apply crunch_scenN_finished|].
        split; [discriminate|]. intros _. apply Sh1; cbn [set_catts c_feats c_rules c_atts]; auto.
        exact (none_after_close atkey_eqb atkey_eqb_spec atkey_dec (c_atts c) _ UA).
Qed.

Lemma Sh_init : Sh cinit ninit.
Proof. apply Sh0; intros k X; discriminate X. Qed.

Lemma seq_identity_from : forall es c s c'',
  Sh c s -> crun true c (map snd es) = Some c'' -> nrun_from s es = map (fun e => [e]) es.
Proof.
  induction es as [|[m e] t IH]; intros c s c'' H CR; [reflexivity|]. cbn [map snd crun] in CR.
  destruct (cstep true c e) as [c1|] eqn:CS; [|discriminate].
  destruct (seq_identity_step c c1 s m e H CS) as (s' & NH & FIN & NXT).
  cbn [nrun_from map]. rewrite NH. f_equal.
  destruct (ev_eqb e EvFinished) eqn:EF.
  - assert (E : e = EvFinished) by (destruct e; try discriminate EF; reflexivity). subst e.
    (* nothing is accepted after run-Finished *)
    destruct t as [|[m2 e2] t2]; [reflexivity|]. exfalso. cbn [map snd crun] in CR.
    unfold cstep in CS. destruct (c_finished c); [discriminate|]. apply guard_some in CS as [_ <-].
    unfold cstep in CR. cbn [set_finished c_finished] in CR. discriminate CR.
  - assert (NE : e <> EvFinished) by (intros ->; cbn in EF; discriminate EF).
    exact (IH c1 s' c'' (NXT NE) CR).
Qed.

(* C11: an already sequential stream passes through unchanged, event by event *)
Theorem sequential_stream_passes_through es :
  normalized_prefix (map snd es) = true -> nrun es = map (fun e => [e]) es.
Proof.
  unfold normalized_prefix. destruct (crun true cinit (map snd es)) as [c''|] eqn:CR; [|discriminate]. intros _.
  exact (seq_identity_from es cinit ninit c'' Sh_init CR).
Qed.
