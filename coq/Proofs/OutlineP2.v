(* OutlineP2.v — C16, second part: what an instantiated row looks like (every step text,
   doc string and table cell, not only the number of steps), which error is reported, and the
   WHOLE expansion (`expand_scenario`, `expand_list`, `expand_feature`).
   New definitions (specification vocabulary) live here; Model/Outline.v is unchanged. *)
From CV Require Import Model.Base Model.Outline Proofs.BaseP Proofs.OutlineP.
From Coq Require Import Lia.

(* ====================================================================== *)
(* 0. generic facts about `collect` and `map_err` (first error wins)       *)
(* ====================================================================== *)

Lemma collect_map_inl {A} (xs : list A) : collect (map inl xs) = inl xs.
Proof. induction xs as [|x xs IH]; cbn; [reflexivity|]. rewrite IH. reflexivity. Qed.

Theorem collect_inl_iff {A} (l : list (A + xerr)) xs : collect l = inl xs <-> l = map inl xs.
Proof. split; [apply collect_inl|]. intros ->. apply collect_map_inl. Qed.

Lemma collect_app {A} (l1 l2 : list (A + xerr)) :
  collect (l1 ++ l2) =
  match collect l1 with
  | inr e => inr e
  | inl xs => match collect l2 with inr e => inr e | inl ys => inl (xs ++ ys) end
  end.
Proof.
  induction l1 as [|[x|e] l1 IH]; cbn.
  - destruct (collect l2); reflexivity.
  - rewrite IH. destruct (collect l1) as [xs|e]; [|reflexivity].
    destruct (collect l2); reflexivity.
  - reflexivity.
Qed.

(* the error of `collect` is the FIRST `inr` of the list: everything before it is `inl` *)
Theorem collect_inr_iff {A} (l : list (A + xerr)) e :
  collect l = inr e <-> exists xs rest, l = map inl xs ++ inr e :: rest.
Proof.
  split.
  - induction l as [|[x|e'] l IH]; cbn; intros H; [discriminate| |].
    + destruct (collect l) as [ys|e2]; [discriminate|]. inversion H; subst e2.
      destruct (IH eq_refl) as (xs & rest & ->). exists (x :: xs), rest. reflexivity.
    + inversion H; subst e'. exists [], l. reflexivity.
  - intros (xs & rest & ->). rewrite collect_app, collect_map_inl. reflexivity.
Qed.

Lemma map_err_collect {A B} (f : A -> B + xerr) l : map_err f l = collect (map f l).
Proof.
  induction l as [|x l IH]; cbn; [reflexivity|]. rewrite IH. reflexivity.
Qed.

Theorem map_err_inl_iff {A B} (f : A -> B + xerr) l ys :
  map_err f l = inl ys <-> Forall2 (fun x y => f x = inl y) l ys.
Proof.
  revert ys; induction l as [|x l IH]; intros ys; cbn.
  - split; intros H; inversion H; constructor.
  - split.
    + intros H. destruct (f x) as [y|e] eqn:Fx; [|discriminate].
      destruct (map_err f l) as [zs|e] eqn:M; [|discriminate].
      inversion H; subst ys. constructor; [assumption|]. apply IH. reflexivity.
    + intros H. inversion H as [|x0 y l0 ys' Hy Hr]; subst.
      rewrite Hy. apply IH in Hr. rewrite Hr. reflexivity.
Qed.

(* `map_err f l` fails exactly with the error of the FIRST element on which `f` fails *)
Theorem map_err_inr_iff {A B} (f : A -> B + xerr) l e :
  map_err f l = inr e <->
  exists l1 x l2 ys, l = l1 ++ x :: l2 /\ Forall2 (fun a y => f a = inl y) l1 ys /\ f x = inr e.
Proof.
  split.
  - induction l as [|a l IH]; cbn; intros H; [discriminate|].
    destruct (f a) as [y|e1] eqn:Fa.
    + destruct (map_err f l) as [zs|e2]; [discriminate|]. inversion H; subst e2.
      destruct (IH eq_refl) as (l1 & x & l2 & ys & -> & Hl1 & Hx).
      exists (a :: l1), x, l2, (y :: ys). repeat split; auto.
    + inversion H; subst e1. exists [], a, l, []. repeat split; auto.
  - intros (l1 & x & l2 & ys & -> & Hl1 & Hx).
    induction Hl1 as [|a y l1 ys Ha _ IH]; cbn.
    + rewrite Hx. reflexivity.
    + rewrite Ha, IH. reflexivity.
Qed.

(* ====================================================================== *)
(* 1. substitution: success value, and WHICH placeholder an error names    *)
(* ====================================================================== *)

(* the value of a successful substitution (OutlineP.subst_known): every placeholder token
   replaced by the row's value, every other character copied *)
Definition subst_out (r : row) (s : str) : str := flat_map (tok_out r) (tokenize s).

(* all placeholders of the string name a column of the row *)
Definition str_known (r : row) (s : str) : Prop := Forall (known r) (tokenize s).

Theorem subst_inl_iff r s out :
  subst r s = inl out <-> str_known r s /\ out = subst_out r s.
Proof.
  split.
  - intros H0. pose proof H0 as H. unfold subst in H.
    destruct (render r (tokenize s) [] None) as [o e] eqn:E.
    destruct e as [n|]; [discriminate|]. inversion H; subst o.
    apply render_err in E as [[_ Hk]|(m & E & _)]; [|discriminate].
    split; [exact Hk|].
    pose proof (subst_known r s Hk) as K. rewrite H0 in K. inversion K. reflexivity.
  - intros [Hk ->]. apply subst_known. exact Hk.
Qed.

Lemma render_last r ts : forall acc err,
  snd (render r ts acc err) =
  match find_map (fun t => match t with
                           | TPh n => match row_find n r with None => Some n | Some _ => None end
                           | TLit _ => None end) (rev ts) with
  | Some n => Some n
  | None => err
  end.
Proof.
  induction ts as [|t ts IH]; intros acc err; cbn [render rev]; [reflexivity|].
  assert (FA : forall {X Y} (g : X -> option Y) l1 l2,
             find_map g (l1 ++ l2) = match find_map g l1 with Some y => Some y | None => find_map g l2 end).
  { intros X Y g l1 l2. induction l1 as [|x l1 IHl]; cbn; [reflexivity|].
    destruct (g x); [reflexivity|apply IHl]. }
  rewrite FA. cbn [find_map].
  destruct t as [c|n].
  - rewrite IH. destruct (find_map _ (rev ts)); reflexivity.
  - destruct (row_find n r) as [v|] eqn:R; rewrite IH; destruct (find_map _ (rev ts)); reflexivity.
Qed.

(* an error names the LAST unknown placeholder of the string (src: `err` is overwritten by
   every failing callback of `replace_all`) *)
Theorem subst_inr_iff r s name :
  subst r s = inr name <->
  exists ts1 ts2, tokenize s = ts1 ++ TPh name :: ts2 /\ row_find name r = None /\ Forall (known r) ts2.
Proof.
  unfold subst.
  destruct (render r (tokenize s) [] None) as [o e] eqn:E.
  assert (S : e = snd (render r (tokenize s) [] None)) by (rewrite E; reflexivity).
  rewrite render_last in S. clear E.
  set (g := fun t => match t with
                     | TPh n => match row_find n r with None => Some n | Some _ => None end
                     | TLit _ => None end) in S.
  assert (G : forall ts,
    (forall n, find_map g (rev ts) = Some n <->
       exists ts1 ts2, ts = ts1 ++ TPh n :: ts2 /\ row_find n r = None /\ Forall (known r) ts2)).
  { intros ts. induction ts as [|t ts IH] using rev_ind; intros n.
    - cbn. split; [discriminate|]. intros (ts1 & ts2 & H & _). destruct ts1; discriminate.
    - rewrite rev_app_distr. cbn [rev app find_map].
      destruct (g t) as [m|] eqn:Gt.
      + destruct t as [c|m']; cbn in Gt; [discriminate|].
        destruct (row_find m' r) eqn:R; [discriminate|]. inversion Gt; subst m'.
        split.
        * intros H; inversion H; subst m. exists ts, []. repeat split; auto.
        * intros (ts1 & ts2 & H & Hr & Hk).
          destruct ts2 as [|t2 ts2] using rev_ind.
          -- apply app_inj_tail in H as [_ H]. inversion H; reflexivity.
          -- clear IHts2. rewrite app_comm_cons, app_assoc in H.
             apply app_inj_tail in H as [_ H]. subst t2.
             apply Forall_app in Hk as [_ Hk]. inversion Hk as [|? ? K _]; subst.
             cbn in K. congruence.
      + rewrite IH. split.
        * intros (ts1 & ts2 & -> & Hr & Hk). exists ts1, (ts2 ++ [t]).
          rewrite <- app_assoc. repeat split; auto.
          apply Forall_app. split; [assumption|]. constructor; [|constructor].
          destruct t as [c|m]; cbn; [exact I|]. cbn in Gt.
          destruct (row_find m r); [discriminate|discriminate Gt].
        * intros (ts1 & ts2 & H & Hr & Hk).
          destruct ts2 as [|t2 ts2] using rev_ind.
          -- apply app_inj_tail in H as [_ H]. subst t. cbn in Gt. rewrite Hr in Gt. discriminate.
          -- clear IHts2. rewrite app_comm_cons, app_assoc in H.
             apply app_inj_tail in H as [H _]. subst ts.
             apply Forall_app in Hk as [Hk _]. exists ts1, ts2. repeat split; auto. }
  destruct (find_map g (rev (tokenize s))) as [m|] eqn:F.
  - subst e. split.
    + intros H; inversion H; subst m. apply G. exact F.
    + intros H. apply G in H. rewrite F in H. inversion H; reflexivity.
  - subst e. split; [discriminate|]. intros H. apply G in H. rewrite F in H. discriminate.
Qed.

(* ====================================================================== *)
(* 2. one step, one row: the relational characterisation (finding 1)       *)
(* ====================================================================== *)

Definition sub_ok (r : row) (s s' : str) : Prop := subst r s = inl s'.

Definition opt_rel {A B} (R : A -> B -> Prop) (a : option A) (b : option B) : Prop :=
  match a, b with
  | None, None => True
  | Some x, Some y => R x y
  | _, _ => False
  end.

(* s' is s with `subst r` applied to the text, to the doc string (if any) and to every cell of
   the table (if any; same shape, cell by cell); line and column are those of s *)
Definition step_inst (r : row) (s s' : ostep) : Prop :=
  sub_ok r (os_value s) (os_value s') /\
  opt_rel (sub_ok r) (os_doc s) (os_doc s') /\
  opt_rel (Forall2 (Forall2 (sub_ok r))) (os_table s) (os_table s') /\
  os_line s' = os_line s /\ os_col s' = os_col s.

Lemma subst_at_inl_iff r line col s out : subst_at r line col s = inl out <-> subst r s = inl out.
Proof. unfold subst_at. destruct (subst r s); split; congruence. Qed.

Lemma subst_at_inr_iff r line col s e :
  subst_at r line col s = inr e <-> exists n, subst r s = inr n /\ e = mk_xerr line col n.
Proof.
  unfold subst_at. destruct (subst r s) as [o|n]; split.
  - discriminate.
  - intros (m & H & _); discriminate.
  - intros H; inversion H. eauto.
  - intros (m & H & ->). inversion H; reflexivity.
Qed.

Definition doc_at (r : row) (line col : N) (d : option str) : option str + xerr :=
  match d with
  | None => inl None
  | Some d => match subst_at r line col d with inl d' => inl (Some d') | inr e => inr e end
  end.

Definition table_at (r : row) (line col : N) (t : option (list (list str)))
  : option (list (list str)) + xerr :=
  match t with
  | None => inl None
  | Some t => match map_err (map_err (subst_at r line col)) t with
              | inl t' => inl (Some t') | inr e => inr e end
  end.

Lemma subst_step_unfold r s :
  subst_step r s =
  match subst_at r (os_line s) (os_col s) (os_value s) with
  | inr e => inr e
  | inl v =>
    match doc_at r (os_line s) (os_col s) (os_doc s) with
    | inr e => inr e
    | inl d =>
      match table_at r (os_line s) (os_col s) (os_table s) with
      | inr e => inr e
      | inl t => inl (mk_ostep v d t (os_line s) (os_col s))
      end
    end
  end.
Proof. reflexivity. Qed.

Lemma doc_at_inl_iff r line col d d' :
  doc_at r line col d = inl d' <-> opt_rel (sub_ok r) d d'.
Proof.
  unfold doc_at, opt_rel, sub_ok. destruct d as [d|], d' as [d'|].
  - rewrite <- (subst_at_inl_iff r line col d d').
    destruct (subst_at r line col d); split; congruence.
  - destruct (subst_at r line col d); split; (discriminate || tauto).
  - split; (discriminate || tauto).
  - split; auto.
Qed.

Lemma cells_inl_iff r line col (cs cs' : list str) :
  map_err (subst_at r line col) cs = inl cs' <-> Forall2 (sub_ok r) cs cs'.
Proof.
  rewrite map_err_inl_iff. split; intros H; induction H; constructor; auto.
  - apply (subst_at_inl_iff r line col); assumption.
  - apply (subst_at_inl_iff r line col); assumption.
Qed.

Lemma table_at_inl_iff r line col t t' :
  table_at r line col t = inl t' <-> opt_rel (Forall2 (Forall2 (sub_ok r))) t t'.
Proof.
  assert (K : forall (rows rows' : list (list str)),
    map_err (map_err (subst_at r line col)) rows = inl rows' <-> Forall2 (Forall2 (sub_ok r)) rows rows').
  { intros rows rows'. rewrite map_err_inl_iff.
    split; intros H; induction H; constructor; auto; apply (cells_inl_iff r line col); assumption. }
  unfold table_at, opt_rel. destruct t as [t|], t' as [t'|].
  - rewrite <- K. destruct (map_err (map_err (subst_at r line col)) t); split; congruence.
  - destruct (map_err (map_err (subst_at r line col)) t); split; (discriminate || tauto).
  - split; (discriminate || tauto).
  - split; auto.
Qed.

(* FINDING 1, one step *)
Theorem subst_step_inl_iff r s s' : subst_step r s = inl s' <-> step_inst r s s'.
Proof.
  rewrite subst_step_unfold. unfold step_inst. split.
  - intros H.
    destruct (subst_at r (os_line s) (os_col s) (os_value s)) as [v|e] eqn:V; [|discriminate].
    destruct (doc_at r (os_line s) (os_col s) (os_doc s)) as [d|e] eqn:D; [|discriminate].
    destruct (table_at r (os_line s) (os_col s) (os_table s)) as [t|e] eqn:T; [|discriminate].
    inversion H; subst s'; cbn.
    apply subst_at_inl_iff in V. apply doc_at_inl_iff in D. apply table_at_inl_iff in T.
    repeat split; assumption.
  - destruct s' as [v' d' t' l' c']; cbn. intros (Hv & Hd & Ht & -> & ->).
    apply (subst_at_inl_iff r (os_line s) (os_col s)) in Hv.
    apply (doc_at_inl_iff r (os_line s) (os_col s)) in Hd.
    apply (table_at_inl_iff r (os_line s) (os_col s)) in Ht.
    rewrite Hv, Hd, Ht. reflexivity.
Qed.

(* FINDING 1, the instantiated scenario: EVERY field of sc' is determined.
   Note `o_examples sc' = o_examples sc`: the model keeps the outline's own Examples list in
   each instantiated scenario (it is not emptied). *)
Theorem instantiate_inl_iff sc ex id r sc' :
  instantiate sc ex id r = inl sc' <->
  sub_ok r (o_name sc) (o_name sc') /\
  o_tags sc' = o_tags sc ++ ex_tags ex /\
  Forall2 (step_inst r) (o_steps sc) (o_steps sc') /\
  o_examples sc' = o_examples sc /\
  o_line sc' = ex_line ex + (id + 2) /\ o_col sc' = ex_col ex.
Proof.
  assert (K : forall steps steps',
    map_err (subst_step r) steps = inl steps' <-> Forall2 (step_inst r) steps steps').
  { intros steps steps'. rewrite map_err_inl_iff.
    split; intros H; induction H; constructor; auto; apply subst_step_inl_iff; assumption. }
  unfold instantiate. split.
  - intros H.
    destruct (subst_at r (ex_line ex + (id + 2)) (ex_col ex) (o_name sc)) as [n|e] eqn:Nm; [|discriminate].
    destruct (map_err (subst_step r) (o_steps sc)) as [steps|e] eqn:St; [|discriminate].
    inversion H; subst sc'; cbn. apply subst_at_inl_iff in Nm. apply K in St.
    repeat split; assumption.
  - destruct sc' as [n' tg' st' exs' l' c']; cbn. intros (Hn & -> & Hs & -> & -> & ->).
    apply (subst_at_inl_iff r (ex_line ex + (id + 2)) (ex_col ex)) in Hn. apply K in Hs.
    rewrite Hn, Hs. reflexivity.
Qed.

(* the relational form in `nth_error` terms: position by position *)
Corollary instantiate_step_i sc ex id r sc' i s :
  instantiate sc ex id r = inl sc' -> nth_error (o_steps sc) i = Some s ->
  exists s', nth_error (o_steps sc') i = Some s' /\ step_inst r s s'.
Proof.
  intros H Hi. apply instantiate_inl_iff in H as (_ & _ & Hs & _).
  revert i Hi. induction Hs as [|a b l l' Hab _ IH]; intros [|i] Hi; cbn in *; try discriminate.
  - inversion Hi; subst. eauto.
  - apply IH; assumption.
Qed.

(* ====================================================================== *)
(* 3. success iff every substitution succeeds; the error is the FIRST      *)
(*    failing string in document order (finding 1, second half)            *)
(* ====================================================================== *)

Definition opt_list {A} (o : option A) : list A := match o with Some x => [x] | None => [] end.

(* the strings of a step in the order in which the model substitutes them:
   text, doc string, table cells row by row *)
Definition step_strs (s : ostep) : list str :=
  os_value s :: opt_list (os_doc s) ++ concat (unwrap_or (os_table s) []).

(* a string with the position an error in it is reported at *)
Notation pstr := (N * N * str)%type (only parsing).
Definition at_pos (line col : N) (l : list str) : list pstr := map (fun x => (line, col, x)) l.
Definition step_pstrs (s : ostep) : list pstr := at_pos (os_line s) (os_col s) (step_strs s).

(* document order of one instantiation: the name (reported at the ROW's position: line of the
   Examples keyword + id + 2, column of the Examples keyword), then the steps in order, each
   reported at the STEP's position *)
Definition inst_pstrs (sc : oscen) (ex : example) (id : N) : list pstr :=
  (ex_line ex + (id + 2), ex_col ex, o_name sc) :: flat_map step_pstrs (o_steps sc).

Fixpoint first_err (r : row) (l : list pstr) : option xerr :=
  match l with
  | [] => None
  | (line, col, s) :: l' =>
    match subst r s with
    | inr n => Some (mk_xerr line col n)
    | inl _ => first_err r l'
    end
  end.

Definition sub_succeeds (r : row) (p : pstr) : Prop := exists out, subst r (snd p) = inl out.

Lemma first_err_app r l1 l2 :
  first_err r (l1 ++ l2) = match first_err r l1 with Some e => Some e | None => first_err r l2 end.
Proof.
  induction l1 as [|[[line col] s] l1 IH]; cbn; [reflexivity|].
  destruct (subst r s); [apply IH|reflexivity].
Qed.

(* `first_err` is what its name says *)
Theorem first_err_None_iff r l : first_err r l = None <-> Forall (sub_succeeds r) l.
Proof.
  induction l as [|[[line col] s] l IH]; cbn.
  - split; auto.
  - destruct (subst r s) as [o|n] eqn:S.
    + rewrite IH. split; intros H.
      * constructor; [exists o; exact S|exact H].
      * inversion H; assumption.
    + split; [discriminate|]. intros H. inversion H as [|? ? [o Ho] _]; subst.
      cbn in Ho. congruence.
Qed.

Theorem first_err_Some_iff r l e :
  first_err r l = Some e <->
  exists l1 line col s n l2,
    l = l1 ++ (line, col, s) :: l2 /\ Forall (sub_succeeds r) l1 /\
    subst r s = inr n /\ e = mk_xerr line col n.
Proof.
  split.
  - induction l as [|[[line col] s] l IH]; cbn; [discriminate|].
    destruct (subst r s) as [o|n] eqn:S.
    + intros H. destruct (IH H) as (l1 & line' & col' & s' & n & l2 & -> & Hl1 & Hs & ->).
      exists ((line, col, s) :: l1), line', col', s', n, l2. repeat split; auto.
      constructor; [exists o; exact S|exact Hl1].
    + intros H; inversion H. exists [], line, col, s, n, l. repeat split; auto.
  - intros (l1 & line & col & s & n & l2 & -> & Hl1 & Hs & ->).
    rewrite first_err_app. apply first_err_None_iff in Hl1. rewrite Hl1. cbn. rewrite Hs. reflexivity.
Qed.

(* the closed form of a successful instantiation *)
Definition step_out (r : row) (s : ostep) : ostep :=
  mk_ostep (subst_out r (os_value s))
           (option_map (subst_out r) (os_doc s))
           (option_map (map (map (subst_out r))) (os_table s))
           (os_line s) (os_col s).

Definition inst_out (sc : oscen) (ex : example) (id : N) (r : row) : oscen :=
  mk_oscen (subst_out r (o_name sc)) (o_tags sc ++ ex_tags ex) (map (step_out r) (o_steps sc))
           (o_examples sc) (ex_line ex + (id + 2)) (ex_col ex).

Definition run {A} (r : row) (l : list pstr) (v : A) : A + xerr :=
  match first_err r l with Some e => inr e | None => inl v end.

Lemma subst_at_run r line col s :
  subst_at r line col s = run r [(line, col, s)] (subst_out r s).
Proof.
  unfold subst_at, run. cbn. destruct (subst r s) as [o|n] eqn:S; [|reflexivity].
  apply subst_inl_iff in S as [_ ->]. reflexivity.
Qed.

Lemma cells_run r line col cs :
  map_err (subst_at r line col) cs = run r (at_pos line col cs) (map (subst_out r) cs).
Proof.
  induction cs as [|c cs IH]; [reflexivity|].
  cbn [map_err]. rewrite IH, subst_at_run. unfold run. cbn.
  destruct (subst r c); [|reflexivity]. destruct (first_err r _); reflexivity.
Qed.

Lemma table_run r line col (t : list (list str)) :
  map_err (map_err (subst_at r line col)) t =
  run r (at_pos line col (concat t)) (map (map (subst_out r)) t).
Proof.
  induction t as [|cs t IH]; [reflexivity|].
  cbn [map_err]. rewrite IH, cells_run. unfold run, at_pos. cbn [List.concat].
  rewrite map_app, first_err_app. fold (at_pos line col cs).
  destruct (first_err r (at_pos line col cs)); [reflexivity|].
  destruct (first_err r _); reflexivity.
Qed.

Lemma step_run r s : subst_step r s = run r (step_pstrs s) (step_out r s).
Proof.
  rewrite subst_step_unfold. unfold step_pstrs, step_strs, step_out, doc_at, table_at.
  destruct s as [v d t line col]; cbn [os_value os_doc os_table os_line os_col].
  rewrite subst_at_run. unfold run, at_pos. cbn [map first_err].
  destruct (subst r v) as [o|n]; [|reflexivity].
  rewrite map_app, first_err_app.
  destruct d as [d|]; cbn [opt_list option_map map first_err].
  - rewrite subst_at_run. unfold run. cbn [first_err].
    destruct (subst r d) as [o'|n']; [|reflexivity].
    destruct t as [t|]; cbn [unwrap_or option_map].
    + rewrite table_run. unfold run, at_pos. destruct (first_err r _); reflexivity.
    + reflexivity.
  - destruct t as [t|]; cbn [unwrap_or option_map].
    + rewrite table_run. unfold run, at_pos. destruct (first_err r _); reflexivity.
    + reflexivity.
Qed.

Lemma steps_run r steps :
  map_err (subst_step r) steps = run r (flat_map step_pstrs steps) (map (step_out r) steps).
Proof.
  induction steps as [|s steps IH]; [reflexivity|].
  cbn [map_err flat_map map]. rewrite IH, step_run. unfold run. rewrite first_err_app.
  destruct (first_err r (step_pstrs s)); [reflexivity|].
  destruct (first_err r _); reflexivity.
Qed.

(* THE equation for one row: the result is the first failing substitution in document order,
   or, if there is none, the closed form *)
Theorem instantiate_run sc ex id r :
  instantiate sc ex id r = run r (inst_pstrs sc ex id) (inst_out sc ex id r).
Proof.
  unfold instantiate, inst_pstrs, inst_out. rewrite subst_at_run, steps_run. unfold run.
  cbn [first_err]. destruct (subst r (o_name sc)) as [o|n]; [|reflexivity].
  destruct (first_err r _); reflexivity.
Qed.

(* success iff every substitution succeeds *)
Theorem instantiate_succeeds_iff sc ex id r :
  (exists sc', instantiate sc ex id r = inl sc') <-> Forall (sub_succeeds r) (inst_pstrs sc ex id).
Proof.
  rewrite instantiate_run, <- first_err_None_iff. unfold run.
  destruct (first_err r (inst_pstrs sc ex id)); split.
  - intros [sc' H]; discriminate.
  - discriminate.
  - reflexivity.
  - eauto.
Qed.

(* ... and then the result is the closed form: steps = map (step_out r) steps, etc. *)
Theorem instantiate_inl_closed sc ex id r sc' :
  instantiate sc ex id r = inl sc' <->
  Forall (sub_succeeds r) (inst_pstrs sc ex id) /\ sc' = inst_out sc ex id r.
Proof.
  rewrite instantiate_run, <- first_err_None_iff. unfold run.
  destruct (first_err r (inst_pstrs sc ex id)); split.
  - discriminate.
  - intros [H _]; discriminate.
  - intros H; inversion H; auto.
  - intros [_ ->]; reflexivity.
Qed.

(* failure: exactly the FIRST failing string in document order (name; then per step: text, doc
   string, cells row by row), reported at the position attached to that string, naming the LAST
   unknown placeholder of that string (subst_inr_iff) *)
Theorem instantiate_inr_iff sc ex id r e :
  instantiate sc ex id r = inr e <->
  exists l1 line col s n l2,
    inst_pstrs sc ex id = l1 ++ (line, col, s) :: l2 /\ Forall (sub_succeeds r) l1 /\
    subst r s = inr n /\ e = mk_xerr line col n.
Proof.
  rewrite instantiate_run, <- first_err_Some_iff. unfold run.
  destruct (first_err r (inst_pstrs sc ex id)); split; congruence.
Qed.

(* "every placeholder names a column", on the strings of the outline *)
Definition outline_strs (sc : oscen) : list str := o_name sc :: flat_map step_strs (o_steps sc).
Definition all_known (r : row) (sc : oscen) : Prop := Forall (str_known r) (outline_strs sc).

Lemma step_pstrs_strs s : map snd (step_pstrs s) = step_strs s.
Proof. unfold step_pstrs, at_pos. rewrite map_map. cbn [snd]. apply map_id. Qed.

Lemma steps_pstrs_strs l : map snd (flat_map step_pstrs l) = flat_map step_strs l.
Proof.
  induction l as [|s l IH]; [reflexivity|].
  change (map snd (step_pstrs s ++ flat_map step_pstrs l) = step_strs s ++ flat_map step_strs l).
  rewrite map_app. rewrite IH, step_pstrs_strs. reflexivity.
Qed.

Lemma inst_pstrs_strs sc ex id : map snd (inst_pstrs sc ex id) = outline_strs sc.
Proof.
  unfold inst_pstrs, outline_strs. rewrite <- steps_pstrs_strs. reflexivity.
Qed.

Lemma sub_succeeds_known r l :
  Forall (sub_succeeds r) l <-> Forall (str_known r) (map snd l).
Proof.
  rewrite Forall_map. split; intros H; induction H as [|p l Hp _ IH]; constructor; auto.
  - destruct Hp as [o Ho]. apply subst_inl_iff in Ho as [Hk _]. exact Hk.
  - exists (subst_out r (snd p)). apply subst_inl_iff. auto.
Qed.

(* success of a row iff all placeholders of the outline name a column of that row *)
Theorem instantiate_inl_known_iff sc ex id r sc' :
  instantiate sc ex id r = inl sc' <-> all_known r sc /\ sc' = inst_out sc ex id r.
Proof.
  rewrite instantiate_inl_closed, sub_succeeds_known, inst_pstrs_strs. reflexivity.
Qed.

Corollary instantiate_known sc ex id r :
  all_known r sc -> instantiate sc ex id r = inl (inst_out sc ex id r).
Proof. intros H. apply instantiate_inl_known_iff. auto. Qed.

(* an error of a row names an unknown placeholder of one of the outline's strings *)
Corollary instantiate_error_names_placeholder sc ex id r e :
  instantiate sc ex id r = inr e ->
  exists s, In s (outline_strs sc) /\ In (TPh (xe_name e)) (tokenize s) /\ row_find (xe_name e) r = None.
Proof.
  intros H. apply instantiate_inr_iff in H as (l1 & line & col & s & n & l2 & E & _ & Hs & ->).
  exists s. cbn [xe_name]. split; [|apply subst_error; exact Hs].
  rewrite <- (inst_pstrs_strs sc ex id), E, map_app. apply in_or_app. right. left. reflexivity.
Qed.

(* "that row's value of column name": the value at the FIRST column of that name *)
Theorem row_find_combine n h v x :
  row_find n (combine h v) = Some x <->
  exists i, nth_error h i = Some n /\ nth_error v i = Some x /\
            forall j, (j < i)%nat -> nth_error h j <> Some n.
Proof.
  revert v; induction h as [|k h IH]; intros v.
  - cbn. split; [discriminate|]. intros (i & H & _). destruct i; discriminate.
  - destruct v as [|y v].
    + cbn. split; [discriminate|]. intros (i & _ & H & _). destruct i; discriminate.
    + cbn [combine row_find]. destruct (str_eqb n k) eqn:E.
      * apply str_eqb_eq in E. subst k. split.
        -- intros H; inversion H; subst y. exists 0%nat. cbn. repeat split; auto. intros j Hj; lia.
        -- intros (i & Hh & Hv & Hf). destruct i as [|i]; [cbn in Hv; congruence|].
           exfalso. apply (Hf 0%nat); [lia|reflexivity].
      * apply str_eqb_neq in E. rewrite IH. split.
        -- intros (i & Hh & Hv & Hf). exists (S i). cbn. repeat split; auto.
           intros [|j] Hj; cbn; [congruence|]. apply Hf. lia.
        -- intros (i & Hh & Hv & Hf). destruct i as [|i]; cbn in Hh, Hv; [congruence|].
           exists i. repeat split; auto. intros j Hj. apply (Hf (S j)). lia.
Qed.

(* ====================================================================== *)
(* 4. the whole expansion of one scenario (finding 2 a, b)                 *)
(* ====================================================================== *)

Fixpoint number_from {A} (id : N) (l : list A) : list (N * A) :=
  match l with
  | [] => []
  | x :: l' => (id, x) :: number_from (id + 1) l'
  end.

Lemma number_from_length {A} id (l : list A) : length (number_from id l) = length l.
Proof. revert id; induction l; cbn; auto. Qed.

Lemma number_from_snd {A} id (l : list A) : map snd (number_from id l) = l.
Proof. revert id; induction l as [|x l IH]; intros id; cbn; [reflexivity|]. rewrite IH. reflexivity. Qed.

Lemma number_from_nth {A} (l : list A) : forall id i,
  nth_error (number_from id l) i = option_map (fun x => (id + N.of_nat i, x)) (nth_error l i).
Proof.
  induction l as [|x l IH]; intros id [|i]; cbn; try reflexivity.
  - rewrite N.add_0_r. reflexivity.
  - rewrite IH. destruct (nth_error l i); cbn; [|reflexivity]. do 2 f_equal. lia.
Qed.

(* the data rows of an Examples table with their index: (0, header.zip(row 0)), (1, ...), ...;
   a table that is absent, empty or header-only has none *)
Definition data_rows (ex : example) : list (N * row) :=
  match ex_table ex with
  | Some (header :: vals) => number_from 0 (map (combine header) vals)
  | _ => []
  end.

Definition n_data_rows (ex : example) : nat :=
  match ex_table ex with Some (_ :: vals) => length vals | _ => 0%nat end.

Lemma data_rows_length ex : length (data_rows ex) = n_data_rows ex.
Proof.
  unfold data_rows, n_data_rows. destruct (ex_table ex) as [[|h vals]|]; try reflexivity.
  rewrite number_from_length, map_length. reflexivity.
Qed.

Lemma data_rows_nth ex h vals i :
  ex_table ex = Some (h :: vals) ->
  nth_error (data_rows ex) i = option_map (fun v => (N.of_nat i, combine h v)) (nth_error vals i).
Proof.
  intros E. unfold data_rows. rewrite E, number_from_nth, nth_error_map.
  destruct (nth_error vals i); reflexivity.
Qed.

Lemma data_rows_header_only ex h : ex_table ex = Some [h] -> data_rows ex = [].
Proof. intros E. unfold data_rows. rewrite E. reflexivity. Qed.

(* the expansion of one Examples table: one instantiation per data row, in row order *)
Definition expand_table (sc : oscen) (ex : example) : list (oscen + xerr) :=
  map (fun ir => instantiate sc ex (fst ir) (snd ir)) (data_rows ex).

Lemma zip_rows_closed sc ex h vals : forall id,
  zip_rows sc ex h vals id =
  map (fun ir => instantiate sc ex (fst ir) (snd ir)) (number_from id (map (combine h) vals)).
Proof.
  induction vals as [|v vals IH]; intros id; cbn; [reflexivity|]. rewrite IH. reflexivity.
Qed.

(* FINDING 2b, first form (no hypothesis on placeholders): an outline expands to the
   concatenation, in table order, of the instantiations of the data rows, in row order *)
Theorem expand_scenario_outline sc :
  o_examples sc <> [] -> expand_scenario sc = flat_map (expand_table sc) (o_examples sc).
Proof.
  intros Hne. unfold expand_scenario. destruct (o_examples sc) as [|e0 exs] eqn:E; [congruence|].
  apply flat_map_ext. intros ex. unfold expand_table, data_rows.
  destruct (ex_table ex) as [[|h vals]|]; try reflexivity. apply zip_rows_closed.
Qed.

(* one result per data row: the length is the total number of data rows *)
Theorem expand_scenario_length sc :
  o_examples sc <> [] ->
  length (expand_scenario sc) = list_sum (map n_data_rows (o_examples sc)).
Proof.
  intros Hne. rewrite expand_scenario_outline by assumption. clear Hne.
  induction (o_examples sc) as [|ex exs IH]; cbn; [reflexivity|].
  rewrite app_length, IH. f_equal. unfold expand_table. rewrite map_length. apply data_rows_length.
Qed.

(* the closed form of the successful expansion of one scenario *)
Definition table_out (sc : oscen) (ex : example) : list oscen :=
  map (fun ir => inst_out sc ex (fst ir) (snd ir)) (data_rows ex).

Definition expand_out (sc : oscen) : list oscen :=
  match o_examples sc with
  | [] => [sc]
  | exs => flat_map (table_out sc) exs
  end.

(* every placeholder of the outline names a column, for every data row of every table *)
Definition scen_known (sc : oscen) : Prop :=
  forall ex id r, In ex (o_examples sc) -> In (id, r) (data_rows ex) -> all_known r sc.

Lemma flat_map_map_inl {A B} (f : A -> list (B + xerr)) (g : A -> list B) l :
  (forall x, In x l -> f x = map inl (g x)) -> flat_map f l = map inl (flat_map g l).
Proof.
  induction l as [|x l IH]; cbn; intros H; [reflexivity|].
  rewrite map_app, (H x) by auto. f_equal. apply IH. auto.
Qed.

Lemma flat_map_map_inl_inv {A B} (f : A -> list (B + xerr)) l : forall out,
  flat_map f l = map inl out -> forall x, In x l -> exists ys, f x = map inl ys.
Proof.
  induction l as [|a l IH]; cbn; intros out H x Hx; [tauto|].
  symmetry in H. apply map_eq_app in H as (o1 & o2 & -> & H1 & H2).
  destruct Hx as [<-|Hx]; [eauto|]. apply (IH o2); auto.
Qed.

(* FINDING 2a + 2b: a scenario without Examples is returned unchanged, as the single result;
   an outline all of whose placeholders name columns expands to `map inl` of the explicit list
   (tables in order, rows in order, header-only/absent tables contribute nothing) — and
   conversely, if the expansion contains no error then all placeholders name columns *)
Theorem expand_scenario_inl_iff sc l :
  expand_scenario sc = map inl l <-> scen_known sc /\ l = expand_out sc.
Proof.
  unfold expand_out, scen_known.
  destruct (o_examples sc) as [|e0 exs] eqn:E.
  - rewrite (no_examples_unchanged sc E). split.
    + intros H. destruct l as [|x [|y l]]; cbn in H; inversion H. split; [|reflexivity].
      intros ex id r [].
    + intros [_ ->]. reflexivity.
  - rewrite expand_scenario_outline by congruence. rewrite E. split.
    + intros H.
      assert (K : forall ex id r, In ex (e0 :: exs) -> In (id, r) (data_rows ex) -> all_known r sc).
      { intros ex id r Hex Hr.
        destruct (flat_map_map_inl_inv _ _ _ H ex Hex) as (ys & Hys).
        unfold expand_table in Hys.
        assert (Hin : In (instantiate sc ex id r) (map inl ys)).
        { rewrite <- Hys. apply in_map_iff. exists (id, r). auto. }
        apply in_map_iff in Hin as (sc' & Hsc' & _). symmetry in Hsc'.
        apply instantiate_inl_known_iff in Hsc' as [Hk _]. exact Hk. }
      split; [exact K|].
      assert (G : flat_map (expand_table sc) (e0 :: exs) = map inl (flat_map (table_out sc) (e0 :: exs))).
      { apply flat_map_map_inl. intros ex Hex. unfold expand_table, table_out.
        rewrite map_map. apply map_ext_in. intros [id r] Hr. cbn.
        apply instantiate_known. apply (K ex id r); assumption. }
      rewrite G in H. clear -H.
      revert l H. generalize (flat_map (table_out sc) (e0 :: exs)) as m.
      induction m as [|a m IH]; intros [|b l] H; cbn in H; inversion H; [reflexivity|].
      f_equal. apply IH. assumption.
    + intros [K ->]. apply flat_map_map_inl. intros ex Hex. unfold expand_table, table_out.
      rewrite map_map. apply map_ext_in. intros [id r] Hr. cbn.
      apply instantiate_known. apply (K ex id r); assumption.
Qed.

Corollary expand_scenario_known sc :
  scen_known sc -> expand_scenario sc = map inl (expand_out sc).
Proof. intros H. apply expand_scenario_inl_iff. auto. Qed.

Corollary expand_scenario_plain sc :
  o_examples sc = [] -> expand_scenario sc = [inl sc] /\ scen_known sc /\ expand_out sc = [sc].
Proof.
  intros E. split; [apply no_examples_unchanged; exact E|]. unfold scen_known, expand_out.
  rewrite E. split; [intros ex id r []|reflexivity].
Qed.

Theorem expand_out_length sc :
  o_examples sc <> [] -> length (expand_out sc) = list_sum (map n_data_rows (o_examples sc)).
Proof.
  intros Hne. unfold expand_out. destruct (o_examples sc) as [|e0 exs] eqn:E; [congruence|].
  clear E Hne. induction (e0 :: exs) as [|ex l IH]; cbn; [reflexivity|].
  rewrite app_length, IH. f_equal. unfold table_out. rewrite map_length. apply data_rows_length.
Qed.

(* the k-th data row of table ex, explicitly *)
Theorem table_out_nth sc ex h vals i v :
  ex_table ex = Some (h :: vals) -> nth_error vals i = Some v ->
  nth_error (table_out sc ex) i = Some (inst_out sc ex (N.of_nat i) (combine h v)).
Proof.
  intros E Hv. unfold table_out. rewrite nth_error_map, (data_rows_nth ex h vals i E), Hv. reflexivity.
Qed.

(* all data rows of all tables of a scenario, in table order and row order *)
Definition all_rows (sc : oscen) : list (example * N * row) :=
  flat_map (fun ex => map (fun ir => (ex, fst ir, snd ir)) (data_rows ex)) (o_examples sc).

Definition inst_row (sc : oscen) (x : example * N * row) : oscen + xerr :=
  instantiate sc (fst (fst x)) (snd (fst x)) (snd x).

Theorem expand_scenario_rows sc :
  o_examples sc <> [] -> expand_scenario sc = map (inst_row sc) (all_rows sc).
Proof.
  intros Hne. rewrite expand_scenario_outline by assumption. clear Hne. unfold all_rows.
  induction (o_examples sc) as [|ex exs IH]; cbn [flat_map map]; [reflexivity|].
  rewrite map_app, IH, map_map. reflexivity.
Qed.

Lemma collect_scen_inl_iff sc l :
  collect (expand_scenario sc) = inl l <-> scen_known sc /\ l = expand_out sc.
Proof. rewrite collect_inl_iff. apply expand_scenario_inl_iff. Qed.

(* the error of one scenario: the FIRST failing row (tables in order, rows in order), all
   rows before it instantiate; the error of that row is given by instantiate_inr_iff *)
Theorem scen_first_error sc e :
  collect (expand_scenario sc) = inr e <->
  exists rows1 x rows2,
    all_rows sc = rows1 ++ x :: rows2 /\ Forall (fun y => all_known (snd y) sc) rows1 /\
    inst_row sc x = inr e.
Proof.
  destruct (o_examples sc) as [|e0 exs] eqn:E.
  - rewrite (no_examples_unchanged sc E). unfold all_rows. rewrite E. cbn. split; [discriminate|].
    intros (rows1 & x & rows2 & H & _). destruct rows1; discriminate.
  - rewrite expand_scenario_rows by congruence. rewrite <- map_err_collect, map_err_inr_iff.
    split.
    + intros (l1 & x & l2 & ys & H & Hl1 & Hx). exists l1, x, l2. repeat split; auto.
      clear -Hl1. induction Hl1 as [|a y l1 ys Ha _ IH]; constructor; auto.
      apply instantiate_inl_known_iff in Ha as [Hk _]. exact Hk.
    + intros (l1 & x & l2 & H & Hl1 & Hx).
      exists l1, x, l2, (map (fun y => inst_out sc (fst (fst y)) (snd (fst y)) (snd y)) l1).
      repeat split; auto. clear -Hl1. induction Hl1 as [|a l1 Ha _ IH]; cbn; constructor; auto.
      apply instantiate_known. exact Ha.
Qed.

(* ====================================================================== *)
(* 5. `expand_list` and `expand_feature` (finding 2 c, d)                  *)
(* ====================================================================== *)

Theorem expand_list_nil : expand_list [] = inl [].
Proof. reflexivity. Qed.

(* compositional form: the expansions are concatenated in the order of the scenarios (each
   outline's rows take the outline's place); the first error wins *)
Theorem expand_list_cons sc scs :
  expand_list (sc :: scs) =
  match collect (expand_scenario sc) with
  | inr e => inr e
  | inl xs => match expand_list scs with inr e => inr e | inl ys => inl (xs ++ ys) end
  end.
Proof. unfold expand_list. cbn [flat_map]. apply collect_app. Qed.

(* FINDING 2c, success: exactly when every placeholder of every outline names a column (for
   every data row), and then the result is the concatenation of the per-scenario expansions *)
Theorem expand_list_inl_iff scs out :
  expand_list scs = inl out <-> Forall scen_known scs /\ out = flat_map expand_out scs.
Proof.
  revert out; induction scs as [|sc scs IH]; intros out.
  - rewrite expand_list_nil. cbn. split.
    + intros H; inversion H. split; [constructor|reflexivity].
    + intros [_ ->]. reflexivity.
  - rewrite expand_list_cons. cbn [flat_map].
    destruct (collect (expand_scenario sc)) as [xs|e] eqn:C.
    + apply collect_scen_inl_iff in C as [Hk ->].
      destruct (expand_list scs) as [ys|e] eqn:L.
      * destruct (proj1 (IH ys) eq_refl) as [Hks ->]. split.
        -- intros H; inversion H. split; [constructor; assumption|reflexivity].
        -- intros [_ ->]. reflexivity.
      * split; [discriminate|]. intros [Hks _]. inversion Hks as [|? ? _ Hks']; subst.
        pose proof (proj2 (IH _) (conj Hks' eq_refl)) as K. discriminate.
    + split; [discriminate|]. intros [Hks _]. inversion Hks as [|? ? Hk _]; subst.
      assert (K : collect (expand_scenario sc) = inl (expand_out sc))
        by (apply collect_scen_inl_iff; auto).
      congruence.
Qed.

(* the same in terms of the model only (no closed form): `out` is the concatenation of lists
   ls_i with expand_scenario sc_i = map inl ls_i *)
Theorem expand_list_inl_concat scs out :
  expand_list scs = inl out <->
  exists ls, Forall2 (fun sc l => expand_scenario sc = map inl l) scs ls /\ out = List.concat ls.
Proof.
  rewrite expand_list_inl_iff. split.
  - intros [Hk ->]. exists (map expand_out scs). split; [|apply flat_map_concat_map].
    induction Hk as [|sc scs Hsc _ IH]; cbn; constructor; auto.
    apply expand_scenario_known. exact Hsc.
  - intros (ls & H & ->). induction H as [|sc l scs ls Hsc _ IH]; cbn.
    + split; [constructor|reflexivity].
    + destruct IH as [Hk E]. apply expand_scenario_inl_iff in Hsc as [Hsc ->].
      split; [constructor; assumption|]. rewrite E. reflexivity.
Qed.

(* FINDING 2c, failure: a single error, that of the FIRST scenario (in the original order)
   whose expansion contains an error; all scenarios before it expand without error; within
   that scenario it is the first failing row (scen_first_error) *)
Theorem expand_list_inr_iff scs e :
  expand_list scs = inr e <->
  exists scs1 sc scs2,
    scs = scs1 ++ sc :: scs2 /\ Forall scen_known scs1 /\ collect (expand_scenario sc) = inr e.
Proof.
  induction scs as [|a scs IH].
  - rewrite expand_list_nil. split; [discriminate|].
    intros (scs1 & sc & scs2 & H & _). destruct scs1; discriminate.
  - rewrite expand_list_cons.
    destruct (collect (expand_scenario a)) as [xs|e1] eqn:C.
    + pose proof (proj1 (collect_scen_inl_iff a xs) C) as [Hka _].
      destruct (expand_list scs) as [ys|e2] eqn:L.
      * split; [discriminate|]. intros (scs1 & sc & scs2 & H & Hk & Hc).
        destruct scs1 as [|b scs1]; cbn in H; inversion H; subst.
        -- congruence.
        -- inversion Hk; subst.
           assert (K : inl ys = inr e) by (apply IH; exists scs1, sc, scs2; auto). discriminate.
      * split.
        -- intros H; inversion H; subst e2.
           destruct (proj1 IH eq_refl) as (scs1 & sc & scs2 & -> & Hk & Hc).
           exists (a :: scs1), sc, scs2. repeat split; auto.
        -- intros (scs1 & sc & scs2 & H & Hk & Hc).
           destruct scs1 as [|b scs1]; cbn in H; inversion H; subst.
           ++ congruence.
           ++ inversion Hk; subst. apply IH. exists scs1, sc, scs2. auto.
    + split.
      * intros H; inversion H; subst e1. exists [], a, scs. repeat split; auto.
      * intros (scs1 & sc & scs2 & H & Hk & Hc).
        destruct scs1 as [|b scs1]; cbn in H; inversion H; subst.
        -- congruence.
        -- inversion Hk as [|? ? Hb _]; subst.
           assert (K : collect (expand_scenario b) = inl (expand_out b))
             by (apply collect_scen_inl_iff; auto).
           congruence.
Qed.

(* the reported error is the error of one row of one table of one scenario of the list, and
   names a placeholder of that scenario that is no column of that row *)
Corollary expand_list_error_names_placeholder scs e :
  expand_list scs = inr e ->
  exists sc ex id r s,
    In sc scs /\ In ex (o_examples sc) /\ In (id, r) (data_rows ex) /\
    instantiate sc ex id r = inr e /\
    In s (outline_strs sc) /\ In (TPh (xe_name e)) (tokenize s) /\ row_find (xe_name e) r = None.
Proof.
  intros H. apply expand_list_inr_iff in H as (scs1 & sc & scs2 & -> & _ & Hc).
  apply scen_first_error in Hc as (rows1 & [[ex id] r] & rows2 & Hr & _ & Hx).
  unfold inst_row in Hx. cbn in Hx.
  destruct (instantiate_error_names_placeholder _ _ _ _ _ Hx) as (s & Hs1 & Hs2 & Hs3).
  exists sc, ex, id, r, s.
  assert (Hin : In (ex, id, r) (all_rows sc)) by (rewrite Hr; apply in_or_app; right; left; reflexivity).
  unfold all_rows in Hin. apply in_flat_map in Hin as (ex' & Hex & Hin).
  apply in_map_iff in Hin as ([id' r'] & Heq & Hin). cbn in Heq. inversion Heq; subst.
  repeat split; auto. apply in_or_app. right. left. reflexivity.
Qed.

(* scenarios without Examples only: nothing changes *)
Corollary expand_list_plain scs :
  Forall (fun sc => o_examples sc = []) scs -> expand_list scs = inl scs.
Proof.
  intros H. apply expand_list_inl_iff. split.
  - induction H as [|sc scs Hsc _ IH]; constructor; auto. apply expand_scenario_plain; assumption.
  - induction H as [|sc scs Hsc _ IH]; cbn; [reflexivity|].
    rewrite <- IH. destruct (expand_scenario_plain sc Hsc) as (_ & _ & ->). reflexivity.
Qed.

(* FINDING 2d: `expand_feature rules top` expands each rule's scenario list separately (the
   rules stay one-to-one and in order) and the feature's own scenarios separately *)
Theorem expand_feature_inl_iff rules top rs t :
  expand_feature rules top = inl (rs, t) <->
  Forall2 (fun r r' => expand_list r = inl r') rules rs /\ expand_list top = inl t.
Proof.
  unfold expand_feature. rewrite <- map_err_inl_iff.
  destruct (map_err expand_list rules) as [rs'|e]; [|split; [discriminate|intros [H _]; discriminate]].
  destruct (expand_list top) as [t'|e]; split.
  - intros H; inversion H; auto.
  - intros [H1 H2]; inversion H1; inversion H2; reflexivity.
  - discriminate.
  - intros [_ H]; discriminate.
Qed.

Lemma rules_known_iff rules rs :
  Forall2 (fun r r' => expand_list r = inl r') rules rs <->
  Forall (Forall scen_known) rules /\ rs = map (flat_map expand_out) rules.
Proof.
  split.
  - intros H. induction H as [|r r' rules rs Hr _ [IH1 IH2]]; cbn.
    + split; [constructor|reflexivity].
    + apply expand_list_inl_iff in Hr as [Hk ->]. split; [constructor; assumption|].
      rewrite IH2. reflexivity.
  - intros [H ->]. induction H as [|r rules Hr _ IH]; cbn; constructor; auto.
    apply expand_list_inl_iff. auto.
Qed.

(* success, closed form *)
Theorem expand_feature_inl_known_iff rules top rs t :
  expand_feature rules top = inl (rs, t) <->
  Forall (Forall scen_known) rules /\ Forall scen_known top /\
  rs = map (flat_map expand_out) rules /\ t = flat_map expand_out top.
Proof.
  rewrite expand_feature_inl_iff, rules_known_iff, expand_list_inl_iff. tauto.
Qed.

(* failure: the RULES are processed first, in order, and then the feature's own (top-level)
   scenarios — so an error in any rule is reported in preference to an error in a top-level
   scenario, whatever their order in the file; the error is a single one *)
Theorem expand_feature_inr_iff rules top e :
  expand_feature rules top = inr e <->
  (exists rs1 r rs2,
     rules = rs1 ++ r :: rs2 /\ Forall (Forall scen_known) rs1 /\ expand_list r = inr e) \/
  (Forall (Forall scen_known) rules /\ expand_list top = inr e).
Proof.
  unfold expand_feature.
  destruct (map_err expand_list rules) as [rs|e1] eqn:M.
  - apply map_err_inl_iff in M. pose proof (proj1 (rules_known_iff _ _) M) as [Hk _].
    split.
    + intros H. right. split; [exact Hk|]. destruct (expand_list top) as [t|e2]; [discriminate|]. inversion H; reflexivity.
    + intros [(rs1 & r & rs2 & -> & Hk1 & Hr)|[_ Ht]].
      * exfalso. apply Forall_app in Hk as [_ Hk]. inversion Hk as [|? ? Hr' _]; subst.
        assert (K : expand_list r = inl (flat_map expand_out r)) by (apply expand_list_inl_iff; auto).
        congruence.
      * rewrite Ht. reflexivity.
  - pose proof (proj1 (map_err_inr_iff _ _ _) M) as (l1 & x & l2 & ys & -> & Hl1 & Hx).
    apply rules_known_iff in Hl1 as [Hk1 _].
    split.
    + intros H; inversion H; subst e1. left. exists l1, x, l2. auto.
    + intros [(rs1 & r & rs2 & E & Hk & Hr)|[Hk _]].
      * assert (K : map_err expand_list (l1 ++ x :: l2) = inr e).
        { rewrite E. apply map_err_inr_iff. exists rs1, r, rs2, (map (flat_map expand_out) rs1).
          repeat split; auto. apply rules_known_iff. auto. }
        congruence.
      * exfalso. apply Forall_app in Hk as [_ Hk]. inversion Hk as [|? ? Hx' _]; subst.
        assert (K : expand_list x = inl (flat_map expand_out x)) by (apply expand_list_inl_iff; auto).
        congruence.
Qed.

Corollary expand_feature_known rules top :
  Forall (Forall scen_known) rules -> Forall scen_known top ->
  expand_feature rules top = inl (map (flat_map expand_out) rules, flat_map expand_out top).
Proof. intros H1 H2. apply expand_feature_inl_known_iff. auto. Qed.

Corollary expand_feature_plain rules top :
  Forall (Forall (fun sc => o_examples sc = [])) rules -> Forall (fun sc => o_examples sc = []) top ->
  expand_feature rules top = inl (rules, top).
Proof.
  intros H1 H2. apply expand_feature_inl_iff. split; [|apply expand_list_plain; assumption].
  induction H1 as [|r rules Hr _ IH]; constructor; auto. apply expand_list_plain. assumption.
Qed.

(* totality and "a single error" are by the type: the result is either one expanded feature
   or one error *)
Theorem expand_feature_total rules top :
  (exists rs t, expand_feature rules top = inl (rs, t)) \/ (exists e, expand_feature rules top = inr e).
Proof. destruct (expand_feature rules top) as [[rs t]|e]; eauto. Qed.

(* ====================================================================== *)
(* 6. non-vacuity (finding 3)                                              *)
(* ====================================================================== *)

Module Examples.
  Definition step1 := mk_ostep (lit "I eat <n> <what>") (Some (lit "doc <what>!"))
                               (Some [[lit "a"; lit "<n>"]; [lit "<what><n>"; lit "b"]]) 5 4.
  Definition step2 := mk_ostep (lit "plain") None None 9 4.
  (* first table: a tag, two data rows *)
  Definition ex1 := mk_example 12 4 [lit "@t"]
                      (Some [[lit "n"; lit "what"]; [lit "1"; lit "x"]; [lit "2"; lit "y z"]]).
  (* second table: header only *)
  Definition ex2 := mk_example 17 4 [] (Some [[lit "n"; lit "what"]]).
  (* third table: other column order, one data row *)
  Definition ex3 := mk_example 20 4 [] (Some [[lit "what"; lit "n"]; [lit "w"; lit "3"]]).
  Definition sc := mk_oscen (lit "eat <n>") [lit "@o"] [step1; step2] [ex1; ex2; ex3] 3 2.

  Definition row1 := mk_oscen (lit "eat 1") [lit "@o"; lit "@t"]
    [mk_ostep (lit "I eat 1 x") (Some (lit "doc x!")) (Some [[lit "a"; lit "1"]; [lit "x1"; lit "b"]]) 5 4;
     step2] [ex1; ex2; ex3] 14 4.
  Definition row2 := mk_oscen (lit "eat 2") [lit "@o"; lit "@t"]
    [mk_ostep (lit "I eat 2 y z") (Some (lit "doc y z!")) (Some [[lit "a"; lit "2"]; [lit "y z2"; lit "b"]]) 5 4;
     step2] [ex1; ex2; ex3] 15 4.
  Definition row3 := mk_oscen (lit "eat 3") [lit "@o"]
    [mk_ostep (lit "I eat 3 w") (Some (lit "doc w!")) (Some [[lit "a"; lit "3"]; [lit "w3"; lit "b"]]) 5 4;
     step2] [ex1; ex2; ex3] 22 4.

  Definition plain1 := mk_oscen (lit "before <n>") [] [step1] [] 1 2.
  Definition plain2 := mk_oscen (lit "after") [] [step2] [] 30 2.

  Example expand_two_tables : expand_scenario sc = [inl row1; inl row2; inl row3].
  Proof. vm_compute. reflexivity. Qed.

  Example closed_form : expand_out sc = [row1; row2; row3] /\ data_rows ex2 = [] /\
                        list_sum (map n_data_rows (o_examples sc)) = 3%nat.
  Proof. vm_compute. auto. Qed.

  (* the hypothesis of the closed-form theorems is satisfiable: this outline is `scen_known` *)
  Example sc_known : scen_known sc.
  Proof. apply (expand_scenario_inl_iff sc [row1; row2; row3]). vm_compute. reflexivity. Qed.

  (* in the outline's place; a scenario without Examples is untouched, placeholders included *)
  Example in_place : expand_list [plain1; sc; plain2] = inl [plain1; row1; row2; row3; plain2].
  Proof. vm_compute. reflexivity. Qed.

  Example feature_ok :
    expand_feature [[sc]; [plain2]] [plain1; sc] =
    inl ([[row1; row2; row3]; [plain2]], [plain1; row1; row2; row3]).
  Proof. vm_compute. reflexivity. Qed.

  (* failing: the first failing string in document order is the cell "<a> <n> <b>" of the first
     step (text, doc string and the cell before it are fine; a later cell and a later step fail
     too); the error carries the STEP's position and the LAST unknown placeholder of that cell *)
  Definition bad_step := mk_ostep (lit "I eat <n>") (Some (lit "doc <n>"))
                           (Some [[lit "<n>"; lit "<a> <n> <b>"]; [lit "<c>"]]) 7 6.
  Definition bad_step2 := mk_ostep (lit "<zzz>") None None 8 6.
  Definition bad := mk_oscen (lit "eat <n>") [] [bad_step; bad_step2] [ex1] 3 2.
  (* failing in the name: the error carries the ROW's position (Examples line + id + 2) *)
  Definition bad_name := mk_oscen (lit "eat <q>") [] [step2] [ex2; ex1] 3 2.

  Example failing_cell :
    instantiate bad ex1 0 (combine [lit "n"; lit "what"] [lit "1"; lit "x"]) = inr (mk_xerr 7 6 (lit "b")) /\
    expand_scenario bad = [inr (mk_xerr 7 6 (lit "b")); inr (mk_xerr 7 6 (lit "b"))] /\
    expand_list [plain1; sc; bad; bad_name] = inr (mk_xerr 7 6 (lit "b")).
  Proof. vm_compute. auto. Qed.

  Example failing_name :
    expand_scenario bad_name = [inr (mk_xerr 14 4 (lit "q")); inr (mk_xerr 15 4 (lit "q"))] /\
    expand_list [sc; bad_name; bad] = inr (mk_xerr 14 4 (lit "q")).
  Proof. vm_compute. auto. Qed.

  (* rules first: the error of a rule is reported although the top-level error comes earlier *)
  Example failing_feature :
    expand_feature [[plain1]; [sc; bad]] [bad_name] = inr (mk_xerr 7 6 (lit "b")) /\
    expand_feature [[plain1]; [sc]] [bad_name] = inr (mk_xerr 14 4 (lit "q")).
  Proof. vm_compute. auto. Qed.
End Examples.
