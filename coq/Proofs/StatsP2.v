(* StatsP2.v — C12, the scenario counters of a Summarize: outside the known classes K12a-d and for
   streams whose scenarios are chains of well-formed attempts, the four scenario counters are the
   numbers of scenarios that the declarative specification classifies as passed / skipped / failed,
   and the number of scenarios with a retried step failure. *)
From CV Require Import Model.Base Model.Events Model.Stats Model.StatsSpec Model.Contract Proofs.BaseP Proofs.StatsP.
From Coq Require Import Lia PeanoNat.

(* ------------------------------------------------------------------------------------------ *)
(* 0. decidable equalities, the association list                                               *)
(* ------------------------------------------------------------------------------------------ *)
Lemma spath_eqb_eq a b : spath_eqb a b = true <-> a = b.
Proof.
  destruct a as [[f r] s], b as [[f' r'] s']; cbn.
  rewrite !andb_true_iff, !N.eqb_eq, (option_eqb_spec N.eqb N.eqb_eq). split.
  - intros [[-> ->] ->]; reflexivity.
  - intros E; inversion E; auto.
Qed.
Lemma spath_eqb_reflect a b : reflect (a = b) (spath_eqb a b).
Proof.
  destruct (spath_eqb a b) eqn:E; constructor.
  - apply spath_eqb_eq; exact E.
  - intros H. apply spath_eqb_eq in H. congruence.
Qed.
Lemma spath_eqb_refl a : spath_eqb a a = true.
Proof. apply spath_eqb_eq; reflexivity. Qed.

Lemma retr_eqb_eq a b : retr_eqb a b = true <-> a = b.
Proof.
  unfold retr_eqb. apply option_eqb_spec. apply pair_eqb_spec; apply N.eqb_eq.
Qed.
Lemma retr_eqb_reflect a b : reflect (a = b) (retr_eqb a b).
Proof.
  destruct (retr_eqb a b) eqn:E; constructor.
  - apply retr_eqb_eq; exact E.
  - intros H. apply retr_eqb_eq in H. congruence.
Qed.
Lemma retr_eqb_refl a : retr_eqb a a = true.
Proof. apply retr_eqb_eq; reflexivity. Qed.

Lemma hget_hremove p q l : hget p (hremove q l) = if spath_eqb p q then None else hget p l.
Proof.
  induction l as [|[k i] l IH]; cbn.
  - destruct (spath_eqb p q); reflexivity.
  - destruct (spath_eqb_reflect q k) as [->|Hqk]; cbn.
    + rewrite IH. destruct (spath_eqb p k); reflexivity.
    + rewrite IH. destruct (spath_eqb_reflect p k) as [->|Hpk]; auto.
      destruct (spath_eqb_reflect k q); congruence.
Qed.
Lemma hget_hinsert p q i l : hget p (hinsert q i l) = if spath_eqb p q then Some i else hget p l.
Proof.
  unfold hinsert; cbn. rewrite hget_hremove. destruct (spath_eqb p q); reflexivity.
Qed.

(* ------------------------------------------------------------------------------------------ *)
(* 1. independence: the bookkeeping of one scenario path, in isolation                         *)
(* ------------------------------------------------------------------------------------------ *)
Inductive sop := ONone | OPassed | OSkipped | OFailed | ORetried | OSkipToFail.
Definition apply_op (o : sop) (d : stats4) : stats4 :=
  match o with
  | ONone => d | OPassed => add_passed d | OSkipped => add_skipped d | OFailed => add_failed d
  | ORetried => add_retried d | OSkipToFail => skipped_to_failed d
  end.
(* the saturating `- 1` of skipped_to_failed is an honest subtraction *)
Definition op_safe (o : sop) (d : stats4) : bool :=
  match o with OSkipToFail => 0 <? n_skipped d | _ => true end.

Record pst := mk_pst { ps_ind : option indicator; ps_d : stats4; ps_ok : bool }.
Definition pinit : pst := mk_pst None (mk_stats4 0 0 0 0) true.

Fixpoint sumN (h : spath -> N) (ps : list spath) : N :=
  match ps with [] => 0 | p :: t => h p + sumN h t end.

Lemma sumN_ext h h' ps : (forall p, In p ps -> h' p = h p) -> sumN h' ps = sumN h ps.
Proof.
  induction ps as [|q ps IH]; cbn; intros H; auto.
  rewrite H by auto. rewrite IH; auto.
Qed.
Lemma sumN_update h h' ps p0 :
  NoDup ps -> In p0 ps -> (forall p, In p ps -> p <> p0 -> h' p = h p) ->
  sumN h' ps + h p0 = sumN h ps + h' p0.
Proof.
  induction ps as [|q ps IH]; cbn; intros ND I H; [tauto|].
  inversion ND as [|? ? Hq ND']; subst.
  destruct I as [->|I].
  - rewrite (sumN_ext h h' ps); [lia|].
    intros p Hp. apply H; auto. intros ->; tauto.
  - assert (q <> p0) by (intros ->; tauto).
    rewrite (H q) by auto.
    specialize (IH ND' I (fun p Hp => H p (or_intror Hp))). lia.
Qed.
Lemma sumN_b2n f ps : sumN (fun p => b2n (f p)) ps = N.of_nat (length (filter f ps)).
Proof.
  induction ps as [|q ps IH]; cbn; auto.
  rewrite IH. destruct (f q); cbn [b2n length]; lia.
Qed.

Section PP.
  Variable last_own : N -> option N.

  Definition pp_stepev (sc : N) (ind : option indicator) (st : N) (e : stepev) (rt : retr)
    : option indicator * sop :=
    match e with
    | StStarted => (ind, ONone)
    | StPassed => if is_last_own last_own sc st then (None, ONone) else (ind, ONone)
    | StSkipped => (Some ISkipped, OSkipped)
    | StFailed k =>
      if is_retried_failure rt k
      then (Some IRetried, match ind with None => ORetried | Some _ => ONone end)
      else (Some IFailed, OFailed)
    end.
  Definition pp_scev (sc : N) (ind : option indicator) (rt : retr) (x : scev) : option indicator * sop :=
    match x with
    | ScStarted | ScHook _ HStarted | ScHook _ HPassed | ScLog _ => (ind, ONone)
    | ScHook _ (HFailed _) =>
      match ind with
      | Some IFailed | Some IRetried => (ind, ONone)
      | Some ISkipped => (ind, OSkipToFail)
      | None => (Some IFailed, OFailed)
      end
    | ScBg st e | ScStep st e => pp_stepev sc ind st e rt
    | ScFinished =>
      match ind with
      | Some IRetried => (ind, ONone)
      | Some _ => (None, ONone)
      | None => (None, OPassed)
      end
    end.

  (* one event, seen from path (f, r, sc): its own indicator and counters move as pp_scev says,
     nobody else's indicator moves *)
  Lemma sm_scenario_sim s f r sc rt x :
    let p := (f, r, sc) in
    let io := pp_scev sc (hget p (sm_handled s)) rt x in
    sm_scenarios (sm_scenario last_own s p rt x) = apply_op (snd io) (sm_scenarios s) /\
    hget p (sm_handled (sm_scenario last_own s p rt x)) = fst io /\
    forall q, q <> p -> hget q (sm_handled (sm_scenario last_own s p rt x)) = hget q (sm_handled s).
  Proof.
    intros p io. subst io.
    assert (Hne : forall q, q <> p -> spath_eqb q p = false).
    { intros q Hq. destruct (spath_eqb_reflect q p); congruence. }
    assert (Fin : forall l i, (hget p (hinsert p i l) = Some i /\ forall q, q <> p -> hget q (hinsert p i l) = hget q l)
                           /\ (hget p (hremove p l) = None /\ forall q, q <> p -> hget q (hremove p l) = hget q l)).
    { intros l i. rewrite hget_hinsert, hget_hremove, spath_eqb_refl. repeat split; auto.
      - intros q Hq. rewrite hget_hinsert, Hne; auto.
      - intros q Hq. rewrite hget_hremove, Hne; auto. }
    destruct x as [|b h|st y|st y|m|]; cbn [sm_scenario pp_scev].
    - cbn; auto.
    - destruct h; try (cbn; auto; fail).
      destruct (hget p (sm_handled s)) as [[| |]|] eqn:E; cbn -[hget hinsert hremove]; rewrite ?E; auto.
      split; auto. apply Fin.
    - unfold sm_step, pp_stepev. change (snd p) with sc. destruct y as [| | |k].
      + cbn; auto.
      + destruct (is_last_own last_own sc st); cbn -[hget hinsert hremove]; auto.
        split; auto. apply (Fin (sm_handled s) IFailed).
      + cbn -[hget hinsert hremove]. split; auto. apply Fin.
      + destruct (is_retried_failure rt k); cbn -[hget hinsert hremove].
        * destruct (hget p (sm_handled s)); cbn -[hget hinsert hremove]; (split; [auto|apply Fin]).
        * split; auto. apply Fin.
    - unfold sm_step, pp_stepev. change (snd p) with sc. destruct y as [| | |k].
      + cbn; auto.
      + destruct (is_last_own last_own sc st); cbn -[hget hinsert hremove]; auto.
        split; auto. apply (Fin (sm_handled s) IFailed).
      + cbn -[hget hinsert hremove]. split; auto. apply Fin.
      + destruct (is_retried_failure rt k); cbn -[hget hinsert hremove].
        * destruct (hget p (sm_handled s)); cbn -[hget hinsert hremove]; (split; [auto|apply Fin]).
        * split; auto. apply Fin.
    - cbn; auto.
    - destruct (hget p (sm_handled s)) as [[| |]|] eqn:E; cbn -[hget hinsert hremove]; rewrite ?E; auto;
        (split; [auto|apply (Fin (sm_handled s) IFailed)]).
  Qed.

  Definition pp_step (p : spath) (st : pst) (e : ev) : pst :=
    match e with
    | EvScen f r sc rt x =>
      if spath_eqb (f, r, sc) p then
        let io := pp_scev sc (ps_ind st) rt x in
        mk_pst (fst io) (apply_op (snd io) (ps_d st)) (ps_ok st && op_safe (snd io) (ps_d st))
      else st
    | _ => st
    end.
  Definition pp_from (p : spath) (st : pst) (evs : list ev) : pst := fold_left (pp_step p) evs st.
  Definition pp_run (p : spath) (evs : list ev) : pst := pp_from p pinit evs.
  Definition cfold (s : summ) (evs : list ev) : summ := fold_left (sm_count last_own) evs s.

  Lemma pp_step_ok_mono p st e : ps_ok (pp_step p st e) = true -> ps_ok st = true.
  Proof.
    destruct e as [| | | | | | | |f r sc rt x]; cbn [pp_step]; auto.
    destruct (spath_eqb (f, r, sc) p); cbn; auto.
    intros H. apply andb_true_iff in H. tauto.
  Qed.

  Lemma pp_step_other p st e : ev_path e <> Some p -> pp_step p st e = st.
  Proof.
    destruct e as [| | | | | | | |f r sc rt x]; cbn [pp_step ev_path]; auto.
    intros H. destruct (spath_eqb_reflect (f, r, sc) p) as [E|E]; auto.
    exfalso. apply H. rewrite E. reflexivity.
  Qed.

  Lemma independence ps : NoDup ps -> forall evs,
    (forall e p, In e evs -> ev_path e = Some p -> In p ps) ->
    (forall p, In p ps -> ps_ok (pp_run p evs) = true) ->
    let s := cfold summ_init evs in
    (n_passed (sm_scenarios s) = sumN (fun p => n_passed (ps_d (pp_run p evs))) ps /\
     n_skipped (sm_scenarios s) = sumN (fun p => n_skipped (ps_d (pp_run p evs))) ps /\
     n_failed (sm_scenarios s) = sumN (fun p => n_failed (ps_d (pp_run p evs))) ps /\
     n_retried (sm_scenarios s) = sumN (fun p => n_retried (ps_d (pp_run p evs))) ps) /\
    forall p, In p ps -> hget p (sm_handled s) = ps_ind (pp_run p evs).
  Proof.
    intros ND evs. induction evs as [|e evs IH] using rev_ind; intros Hcov Hok.
    - cbn. repeat split.
      all: try (clear; induction ps as [|q l IHl]; cbn; auto; fail).
    - assert (Hcov' : forall e p, In e evs -> ev_path e = Some p -> In p ps).
      { intros e0 p0 Hin. apply Hcov. apply in_or_app; auto. }
      assert (Hok' : forall p, In p ps -> ps_ok (pp_run p evs) = true).
      { intros p Hp. specialize (Hok p Hp). unfold pp_run, pp_from in Hok. rewrite fold_left_app in Hok.
        cbn in Hok. apply pp_step_ok_mono in Hok. exact Hok. }
      specialize (IH Hcov' Hok'). cbv zeta in IH. destruct IH as [[I1 [I2 [I3 I4]]] IHh].
      cbv zeta. unfold cfold. rewrite fold_left_app. cbn [fold_left]. fold (cfold summ_init evs).
      set (s := cfold summ_init evs) in *.
      assert (Hrun : forall p, pp_run p (evs ++ [e]) = pp_step p (pp_run p evs) e).
      { intros p. unfold pp_run, pp_from. rewrite fold_left_app. reflexivity. }
      destruct (ev_path e) as [p0|] eqn:Ep.
      + destruct e as [| | | | | | | |f r sc rt x]; try discriminate.
        cbn in Ep. injection Ep as <-.
        assert (Hp0 : In (f, r, sc) ps).
        { apply (Hcov (EvScen f r sc rt x)); [apply in_or_app; right; left; reflexivity | reflexivity]. }
        cbn [sm_count].
        destruct (sm_scenario_sim s f r sc rt x) as [Hs [Hi Ho]]. cbv zeta in Hs, Hi, Ho.
        set (p0 := (f, r, sc)) in *.
        assert (Hstep0 : pp_run p0 (evs ++ [EvScen f r sc rt x]) =
                         let io := pp_scev sc (ps_ind (pp_run p0 evs)) rt x in
                         mk_pst (fst io) (apply_op (snd io) (ps_d (pp_run p0 evs)))
                                (ps_ok (pp_run p0 evs) && op_safe (snd io) (ps_d (pp_run p0 evs)))).
        { rewrite Hrun. cbn [pp_step]. fold p0. rewrite spath_eqb_refl. reflexivity. }
        assert (Hstepo : forall q, q <> p0 -> pp_run q (evs ++ [EvScen f r sc rt x]) = pp_run q evs).
        { intros q Hq. rewrite Hrun. apply pp_step_other. cbn. fold p0. congruence. }
        rewrite (IHh p0 Hp0) in Hs, Hi.
        pose proof (Hok p0 Hp0) as Hsafe. rewrite Hstep0 in Hsafe. cbv zeta in Hsafe. cbn [ps_ok] in Hsafe.
        apply andb_true_iff in Hsafe as [_ Hsafe].
        cbv zeta in Hstep0.
        set (io := pp_scev sc (ps_ind (pp_run p0 evs)) rt x) in *.
        set (d0 := ps_d (pp_run p0 evs)) in *.
        split.
        * pose proof (sumN_update (fun p => n_passed (ps_d (pp_run p evs)))
                        (fun p => n_passed (ps_d (pp_run p (evs ++ [EvScen f r sc rt x])))) ps p0 ND Hp0) as U1.
          pose proof (sumN_update (fun p => n_skipped (ps_d (pp_run p evs)))
                        (fun p => n_skipped (ps_d (pp_run p (evs ++ [EvScen f r sc rt x])))) ps p0 ND Hp0) as U2.
          pose proof (sumN_update (fun p => n_failed (ps_d (pp_run p evs)))
                        (fun p => n_failed (ps_d (pp_run p (evs ++ [EvScen f r sc rt x])))) ps p0 ND Hp0) as U3.
          pose proof (sumN_update (fun p => n_retried (ps_d (pp_run p evs)))
                        (fun p => n_retried (ps_d (pp_run p (evs ++ [EvScen f r sc rt x])))) ps p0 ND Hp0) as U4.
          cbv beta in U1, U2, U3, U4.
          rewrite Hstep0 in U1, U2, U3, U4. cbn [ps_d] in U1, U2, U3, U4.
          specialize (U1 (fun p _ Hne => f_equal (fun z => n_passed (ps_d z)) (Hstepo p Hne))).
          specialize (U2 (fun p _ Hne => f_equal (fun z => n_skipped (ps_d z)) (Hstepo p Hne))).
          specialize (U3 (fun p _ Hne => f_equal (fun z => n_failed (ps_d z)) (Hstepo p Hne))).
          specialize (U4 (fun p _ Hne => f_equal (fun z => n_retried (ps_d z)) (Hstepo p Hne))).
          fold d0 in U1, U2, U3, U4.
          rewrite Hs.
          destruct (snd io); cbn in U1, U2, U3, U4, Hsafe |- *; try apply N.ltb_lt in Hsafe; repeat split; lia.
        * intros p Hp. destruct (spath_eqb_reflect p p0) as [->|Hne].
          -- rewrite Hi, Hstep0. reflexivity.
          -- rewrite Ho, Hstepo by auto. apply IHh; auto.
      + assert (Hsame : sm_scenarios (sm_count last_own s e) = sm_scenarios s /\
                        sm_handled (sm_count last_own s e) = sm_handled s).
        { destruct e; try discriminate; cbn; auto. }
        destruct Hsame as [-> ->].
        assert (Hrun' : forall p, pp_run p (evs ++ [e]) = pp_run p evs).
        { intros p. rewrite Hrun. apply pp_step_other. congruence. }
        split.
        * rewrite I1, I2, I3, I4. repeat split; apply sumN_ext; intros p _; rewrite Hrun'; reflexivity.
        * intros p Hp. rewrite Hrun'. auto.
  Qed.

  Lemma final_from_scen es : forall s, sm_state s = InProgress ->
    sm_scenarios (final_from last_own s es) = sm_scenarios (cfold s (before_finished (map snd es))).
  Proof.
    induction es as [|e es IH]; intros s H; cbn [final_from fold_left map before_finished].
    - reflexivity.
    - fold (final_from last_own (fst (sm_handle last_own s e)) es).
      unfold Stats.sm_handle at 1. rewrite H. rewrite sm_count_state.
      destruct (snd e) eqn:E.
      all: try (rewrite H; cbn [fst]; rewrite IH by (rewrite sm_count_state, H; reflexivity);
                reflexivity).
      cbn [fst]. rewrite final_from_inert by reflexivity. reflexivity.
  Qed.
End PP.

(* ------------------------------------------------------------------------------------------ *)
(* 2. one attempt: a recogniser of its shape, and what it does to the bookkeeping of its path   *)
(* ------------------------------------------------------------------------------------------ *)
(* Shape of one attempt (logs anywhere inside): Started; optionally the before hook (Started, then
   Passed or Failed — after Failed no step runs); the declared steps in order, each result Passed,
   until the first Skipped / Failed result (which ends the steps) or until all have passed;
   optionally the after hook (Started, then Passed or Failed); Finished. *)
Inductive astate :=
| ASteps (d : list N) (can_before : bool)   (* d: declared steps still to run *)
| ABefore (d : list N)                       (* before hook started *)
| AAfter (can_hook : bool)                   (* steps are over *)
| AAfterOpen                                 (* after hook started *)
| ADone.

Definition astep_res (a : astate) (st : N) (y : stepev) : option astate :=
  match a with
  | ASteps d _ =>
    match y with
    | StStarted => Some (ASteps d false)
    | StPassed => match d with s :: d' => if st =? s then Some (ASteps d' false) else None | [] => None end
    | StSkipped | StFailed _ =>
      match d with s :: _ => if st =? s then Some (AAfter true) else None | [] => None end
    end
  | _ => None
  end.

Definition astep (a : astate) (x : scev) : option astate :=
  match x with
  | ScStarted => None
  | ScLog _ => match a with ADone => None | _ => Some a end
  | ScBg st y | ScStep st y => astep_res a st y
  | ScHook true h =>
    match a, h with
    | ASteps d true, HStarted => Some (ABefore d)
    | ABefore d, HPassed => Some (ASteps d false)
    | ABefore d, HFailed _ => Some (AAfter true)
    | _, _ => None
    end
  | ScHook false h =>
    match a, h with
    | ASteps [] _, HStarted | AAfter true, HStarted => Some AAfterOpen
    | AAfterOpen, HPassed | AAfterOpen, HFailed _ => Some (AAfter false)
    | _, _ => None
    end
  | ScFinished =>
    match a with
    | ASteps [] _ | AAfter _ => Some ADone
    | _ => None
    end
  end.

Definition astep_ev (a : astate) (e : ev) : option astate :=
  match e with EvScen _ _ _ _ x => astep a x | _ => None end.
Fixpoint arun (a : astate) (evs : list ev) : option astate :=
  match evs with
  | [] => Some a
  | e :: t => match astep_ev a e with Some a' => arun a' t | None => None end
  end.
Definition is_adone (o : option astate) : bool := match o with Some ADone => true | _ => false end.
Definition attempt_ok (decl : list N) (g : list ev) : bool :=
  match g with
  | EvScen _ _ _ _ ScStarted :: t => is_adone (arun (ASteps decl true) t)
  | _ => false
  end.

Record flags := mk_fl { f_ff : bool; f_fr : bool; f_hf : bool; f_sk : bool }.
Definition flag_ev (e : ev) : flags :=
  mk_fl (is_step_failed_final e) (is_step_failed_retried e) (is_hook_failed e) (is_step_skipped e).
Definition for_ (a b : flags) : flags :=
  mk_fl (f_ff a || f_ff b) (f_fr a || f_fr b) (f_hf a || f_hf b) (f_sk a || f_sk b).
Definition noflags := mk_fl false false false false.
Definition flags_of (evs : list ev) : flags :=
  mk_fl (existsb is_step_failed_final evs) (existsb is_step_failed_retried evs)
        (existsb is_hook_failed evs) (existsb is_step_skipped evs).
Definition is_bhook_failed (e : ev) : bool :=
  match e with EvScen _ _ _ _ (ScHook true (HFailed _)) => true | _ => false end.

Lemma flags_of_cons e t : flags_of (e :: t) = for_ (flag_ev e) (flags_of t).
Proof. reflexivity. Qed.
Lemma for_assoc a b c : for_ (for_ a b) c = for_ a (for_ b c).
Proof. unfold for_; cbn. rewrite !orb_assoc. reflexivity. Qed.
Lemma for_noflags_r a : for_ a noflags = a.
Proof. destruct a; unfold for_; cbn. rewrite !orb_false_r. reflexivity. Qed.
Lemma for_noflags_l a : for_ noflags a = a.
Proof. destruct a; reflexivity. Qed.

Lemma stats4_eq a b :
  n_passed a = n_passed b -> n_skipped a = n_skipped b -> n_failed a = n_failed b -> n_retried a = n_retried b -> a = b.
Proof. destruct a, b; cbn; intros; subst; reflexivity. Qed.

Definition dplus (d : stats4) (a b c e : N) : stats4 :=
  mk_stats4 (n_passed d + a) (n_skipped d + b) (n_failed d + c) (n_retried d + e).

Section Attempt.
  Variable last_own : N -> option N.
  Variables (f : N) (r : option N) (sc : N) (rt : retr).
  Variables (ind0 : option indicator) (d0 : stats4) (l : N).
  Hypothesis Hind0 : ind0 = None \/ ind0 = Some IRetried.
  Hypothesis Hl : ind0 = Some IRetried -> last_own sc = Some l.
  Let p : spath := (f, r, sc).

  Definition goodL (d : list N) : Prop := exists pre, d = pre ++ [l] /\ ~ In l pre.
  Definition r0 : N := match ind0 with None => 1 | Some _ => 0 end.

  Definition after_ind (fl : flags) : option indicator :=
    if f_fr fl then Some IRetried else if f_ff fl then Some IFailed
    else if f_sk fl then Some ISkipped else if f_hf fl then Some IFailed else None.
  Definition after_d (fl : flags) : stats4 :=
    if f_fr fl then dplus d0 0 0 0 r0 else if f_ff fl || f_hf fl then dplus d0 0 0 1 0
    else if f_sk fl then dplus d0 0 1 0 0 else dplus d0 0 0 0 0.
  Definition done_d (fl : flags) : stats4 :=
    if f_fr fl then dplus d0 0 0 0 r0 else if f_ff fl || f_hf fl then dplus d0 0 0 1 0
    else if f_sk fl then dplus d0 0 1 0 0 else dplus d0 1 0 0 0.

  Definition Inv (a : astate) (st : pst) (fl : flags) : Prop :=
    ps_ok st = true /\
    match a with
    | ASteps d _ | ABefore d =>
      fl = noflags /\ ps_d st = dplus d0 0 0 0 0 /\
      match ind0 with
      | None => ps_ind st = None
      | Some _ => match d with [] => ps_ind st = None | _ => ps_ind st = Some IRetried /\ goodL d end
      end
    | AAfter true | AAfterOpen =>
      ps_ind st = after_ind fl /\ ps_d st = after_d fl /\ (f_hf fl = true -> f_sk fl = false)
    | AAfter false => ps_ind st = after_ind fl /\ ps_d st = after_d fl
    | ADone => ps_ind st = (if f_fr fl then Some IRetried else None) /\ ps_d st = done_d fl
    end.

  Lemma pp_step_own st rt' x :
    pp_step last_own p st (EvScen f r sc rt' x) =
      let io := pp_scev last_own sc (ps_ind st) rt' x in
      mk_pst (fst io) (apply_op (snd io) (ps_d st)) (ps_ok st && op_safe (snd io) (ps_d st)).
  Proof. cbn [pp_step]. fold p. rewrite spath_eqb_refl. reflexivity. Qed.

  Lemma goodL_cons s d : goodL (s :: d) ->
    match d with [] => s = l | _ => s <> l /\ goodL d end.
  Proof.
    intros [pre [E Hn]]. destruct pre as [|s' pre]; cbn in E.
    - injection E as -> ->. reflexivity.
    - injection E as -> ->. destruct (pre ++ [l]) eqn:E'.
      + destruct pre; discriminate.
      + split.
        * intros ->. apply Hn. left; reflexivity.
        * exists pre. split; auto. intros H. apply Hn. right; exact H.
  Qed.

  Ltac inv_fin :=
    unfold r0 in *;
    try match goal with E : ind0 = _ |- _ => rewrite ?E in * end;
    cbn -[dplus goodL N.add N.sub] in *;
    repeat match goal with
           | H : _ /\ _ |- _ => destruct H
           | H : true = true -> _ |- _ => specialize (H eq_refl)
           end;
    subst; try discriminate;
    cbn -[dplus goodL N.add N.sub] in *;
    unfold r0 in *;
    try match goal with E : ind0 = _ |- _ => rewrite ?E in * end;
    cbn -[dplus goodL N.add N.sub] in *;
    repeat split; auto; try discriminate;
    try (apply stats4_eq; cbn; lia);
    try (apply N.ltb_lt; cbn; lia).

  Lemma inv_step a st fl x a' :
    Inv a st fl -> astep a x = Some a' ->
    (ind0 = Some IRetried -> is_bhook_failed (EvScen f r sc rt x) = false) ->
    Inv a' (pp_step last_own p st (EvScen f r sc rt x)) (for_ fl (flag_ev (EvScen f r sc rt x))).
  Proof.
    intros [Hok HI] Hs Hb. rewrite pp_step_own. destruct st as [i d ok]. cbn [ps_ok ps_ind ps_d] in *. subst ok.
    destruct fl as [ff fr hf sk].
    destruct x as [|b h|s y|s y|m|].
    - discriminate.
    - destruct b, h, a as [dd cb|dd|ch| |]; try (destruct dd); try destruct cb; try destruct ch; cbn in Hs; try discriminate;
        injection Hs as <-; unfold Inv in *; cbn [ps_ok ps_ind ps_d].
      all: destruct Hind0 as [E0|E0]; rewrite E0 in *; try (specialize (Hb eq_refl); discriminate).
      all: try (destruct HI as [HI1 [HI2 HI3]]; injection HI1 as -> -> -> ->).
      all: try (destruct ff, fr, hf, sk).
      all: inv_fin.
    - destruct a as [dd cb|dd|ch| |]; try discriminate.
      cbn [astep astep_res] in Hs.
      unfold Inv in HI. destruct HI as [HI1 [HI2 HI3]]. injection HI1 as -> -> -> ->.
      destruct y as [| | |k].
      + injection Hs as <-. destruct Hind0 as [E0|E0]; rewrite E0 in *; unfold Inv; destruct dd; inv_fin.
      + destruct dd as [|s' d']; try discriminate. destruct (N.eqb_spec s s'); try discriminate. subst s'. injection Hs as <-.
        destruct Hind0 as [E0|E0]; rewrite E0 in *.
        * unfold Inv. cbn -[dplus goodL]. destruct (is_last_own last_own sc s); inv_fin.
        * destruct HI3 as [-> HG]. apply goodL_cons in HG. specialize (Hl eq_refl).
          unfold Inv; cbn -[dplus goodL]. unfold is_last_own. rewrite Hl. destruct d'.
          -- subst s. rewrite N.eqb_refl. inv_fin.
          -- destruct HG as [Hne HG]. destruct (N.eqb_spec l s); [congruence|]. inv_fin.
      + destruct dd as [|s' d']; try discriminate. destruct (N.eqb_spec s s'); try discriminate. subst s'. injection Hs as <-.
        destruct Hind0 as [E0|E0]; rewrite E0 in *; unfold Inv; inv_fin.
      + destruct dd as [|s' d']; try discriminate. destruct (N.eqb_spec s s'); try discriminate. subst s'. injection Hs as <-.
        destruct Hind0 as [E0|E0]; rewrite E0 in *; unfold Inv; cbn -[dplus goodL];
          unfold flag_ev, is_step_failed_final, is_step_failed_retried, is_step_skipped; cbn -[dplus goodL];
          destruct (is_retried_failure rt k); inv_fin.
    - destruct a as [dd cb|dd|ch| |]; try discriminate.
      cbn [astep astep_res] in Hs.
      unfold Inv in HI. destruct HI as [HI1 [HI2 HI3]]. injection HI1 as -> -> -> ->.
      destruct y as [| | |k].
      + injection Hs as <-. destruct Hind0 as [E0|E0]; rewrite E0 in *; unfold Inv; destruct dd; inv_fin.
      + destruct dd as [|s' d']; try discriminate. destruct (N.eqb_spec s s'); try discriminate. subst s'. injection Hs as <-.
        destruct Hind0 as [E0|E0]; rewrite E0 in *.
        * unfold Inv. cbn -[dplus goodL]. destruct (is_last_own last_own sc s); inv_fin.
        * destruct HI3 as [-> HG]. apply goodL_cons in HG. specialize (Hl eq_refl).
          unfold Inv; cbn -[dplus goodL]. unfold is_last_own. rewrite Hl. destruct d'.
          -- subst s. rewrite N.eqb_refl. inv_fin.
          -- destruct HG as [Hne HG]. destruct (N.eqb_spec l s); [congruence|]. inv_fin.
      + destruct dd as [|s' d']; try discriminate. destruct (N.eqb_spec s s'); try discriminate. subst s'. injection Hs as <-.
        destruct Hind0 as [E0|E0]; rewrite E0 in *; unfold Inv; inv_fin.
      + destruct dd as [|s' d']; try discriminate. destruct (N.eqb_spec s s'); try discriminate. subst s'. injection Hs as <-.
        destruct Hind0 as [E0|E0]; rewrite E0 in *; unfold Inv; cbn -[dplus goodL];
          unfold flag_ev, is_step_failed_final, is_step_failed_retried, is_step_skipped; cbn -[dplus goodL];
          destruct (is_retried_failure rt k); inv_fin.
    - destruct a as [dd cb|dd|ch| |]; try (destruct dd); try destruct ch; cbn in Hs; try discriminate;
        injection Hs as <-; unfold Inv in *; cbn [ps_ok ps_ind ps_d].
      all: destruct Hind0 as [E0|E0]; rewrite E0 in *.
      all: try (destruct HI as [HI1 [HI2 HI3]]; injection HI1 as -> -> -> ->).
      all: try (destruct ff, fr, hf, sk).
      all: inv_fin.
    - destruct a as [dd cb|dd|ch| |]; try (destruct dd); try destruct ch; cbn in Hs; try discriminate;
        injection Hs as <-; unfold Inv in *; cbn [ps_ok ps_ind ps_d].
      all: destruct Hind0 as [E0|E0]; rewrite E0 in *.
      all: try (destruct HI as [HI1 [HI2 HI3]]; injection HI1 as -> -> -> ->).
      all: try (destruct ff, fr, hf, sk).
      all: inv_fin.
  Qed.


  Definition ev_cond (e : ev) : Prop :=
    ev_path e = Some p /\ ev_retr e = rt /\ (ind0 = Some IRetried -> is_bhook_failed e = false).

  Lemma inv_run evs : forall a st fl,
    Inv a st fl -> arun a evs = Some ADone -> Forall ev_cond evs ->
    Inv ADone (pp_from last_own p st evs) (for_ fl (flags_of evs)).
  Proof.
    induction evs as [|e evs IH]; intros a st fl HI Hr Hc.
    - cbn in Hr. injection Hr as ->. cbn [pp_from fold_left]. change (flags_of []) with noflags.
      rewrite for_noflags_r. exact HI.
    - cbn [arun] in Hr. destruct (astep_ev a e) as [a'|] eqn:Ea; try discriminate.
      inversion Hc as [|? ? [Hp [Hrt Hb]] Hc']; subst.
      destruct e as [| | | | | | | |f' r' sc' rt' x]; try discriminate.
      cbn in Hp, Ea, Hrt. injection Hp as -> -> ->. subst rt'.
      cbn [pp_from fold_left]. rewrite flags_of_cons, <- for_assoc.
      apply (IH a'); auto.
      apply inv_step with (a := a); auto.
  Qed.

  Lemma attempt_effect decl g :
    attempt_ok decl g = true -> Forall ev_cond g -> (ind0 = Some IRetried -> goodL decl) ->
    let st := pp_from last_own p (mk_pst ind0 d0 true) g in
    ps_ok st = true /\ ps_ind st = (if f_fr (flags_of g) then Some IRetried else None) /\
    ps_d st = done_d (flags_of g).
  Proof.
    intros Hok Hc Hg. destruct g as [|e g]; try discriminate.
    destruct e as [| | | | | | | |f' r' sc' rt' x]; try discriminate.
    destruct x; try discriminate. cbn [attempt_ok] in Hok.
    inversion Hc as [|? ? [Hp [Hrt Hb]] Hc']; subst.
    cbn in Hp, Hrt. injection Hp as -> -> ->. subst rt'.
    cbv zeta. cbn [pp_from fold_left]. rewrite pp_step_own. cbn [pp_scev fst snd apply_op ps_ind ps_d ps_ok op_safe andb].
    destruct (arun (ASteps decl true) g) as [[| | | |]|] eqn:Er; try discriminate.
    assert (HI : Inv (ASteps decl true) (mk_pst ind0 d0 true) noflags).
    { unfold Inv; cbn [ps_ok ps_ind ps_d]. repeat split; auto.
      - apply stats4_eq; cbn; lia.
      - destruct Hind0 as [E0|E0]; rewrite E0 in *; auto.
        destruct (Hg eq_refl) as [pre [-> _]]. destruct pre; cbn; split; auto; apply Hg; auto. }
    pose proof (inv_run g _ _ _ HI Er Hc') as [H1 [H2 H3]].
    rewrite for_noflags_l in *.
    fold (pp_from last_own p (mk_pst ind0 d0 true) g).
    rewrite flags_of_cons. change (flag_ev (EvScen f r sc rt ScStarted)) with noflags. rewrite for_noflags_l.
    auto.
  Qed.
End Attempt.

(* ------------------------------------------------------------------------------------------ *)
(* 3. the events of one scenario path as a chain of attempts                                    *)
(* ------------------------------------------------------------------------------------------ *)
(* maximal runs of consecutive events carrying the same `Retries` value *)
Fixpoint groups (evs : list ev) : list (retr * list ev) :=
  match evs with
  | [] => []
  | e :: t =>
    match groups t with
    | (rt, g) :: gs => if retr_eqb (ev_retr e) rt then (rt, e :: g) :: gs else (ev_retr e, [e]) :: (rt, g) :: gs
    | [] => [(ev_retr e, [e])]
    end
  end.
Fixpoint nodup_retr (l : list retr) : bool :=
  match l with [] => true | x :: t => negb (existsb (retr_eqb x) t) && nodup_retr t end.

(* every run is one well-formed attempt, and no `Retries` value comes back later *)
Definition wf_path (decl : list N) (evs : list ev) : bool :=
  forallb (fun g => attempt_ok decl (snd g)) (groups evs) && nodup_retr (map fst (groups evs)).

Lemma groups_concat evs : concat (map snd (groups evs)) = evs.
Proof.
  induction evs as [|e t IH]; cbn; auto.
  destruct (groups t) as [|[rt g] gs]; cbn in *.
  - subst t. reflexivity.
  - destruct (retr_eqb (ev_retr e) rt); cbn; rewrite IH; reflexivity.
Qed.

Definition group_ok (g : retr * list ev) : Prop :=
  snd g <> [] /\ Forall (fun e => ev_retr e = fst g) (snd g).
Lemma groups_ok evs : Forall group_ok (groups evs).
Proof.
  induction evs as [|e t IH]; cbn; auto.
  destruct (groups t) as [|[rt g] gs].
  - constructor; auto. split; cbn; [discriminate | auto].
  - inversion IH as [|? ? [H1 H2] IH']; subst. cbn in H1, H2.
    destruct (retr_eqb_reflect (ev_retr e) rt).
    + constructor; auto. split; cbn; [discriminate | auto].
    + constructor; [split; cbn; [discriminate | auto] | constructor; auto; split; auto].
Qed.
Lemma groups_nil evs : groups evs = [] -> evs = [].
Proof. intros H. rewrite <- (groups_concat evs), H. reflexivity. Qed.

Lemma nodup_retr_NoDup l : nodup_retr l = true -> NoDup l.
Proof.
  induction l as [|x t IH]; cbn; intros H; constructor.
  - apply andb_true_iff in H as [H _]. apply negb_true_iff in H.
    intros Hin. assert (existsb (retr_eqb x) t = true); [|congruence].
    apply existsb_exists. exists x. split; auto. apply retr_eqb_refl.
  - apply IH. apply andb_true_iff in H. tauto.
Qed.

(* ---- the declarative side, per attempt ---- *)
Definition class_body (rt : retr) (att : list ev) : sclass :=
  let completed := existsb is_sc_fin att in
  let pending_retry := existsb is_step_failed_retried att || (existsb is_hook_failed att && retries_left rt) in
  if completed && negb pending_retry then
    if existsb is_step_failed_final att || existsb is_hook_failed att then CFailed
    else if existsb is_step_skipped att then CSkipped
    else CPassed
  else CNone.

Lemma classify_unfold evs :
  classify evs = match rev evs with
                 | [] => CNone
                 | l :: _ => class_body (ev_retr l) (filter (fun e => retr_eqb (ev_retr e) (ev_retr l)) evs)
                 end.
Proof. reflexivity. Qed.

Lemma filter_all {A} (f : A -> bool) l : Forall (fun x => f x = true) l -> filter f l = l.
Proof. induction 1; cbn; auto. rewrite H. f_equal; auto. Qed.
Lemma filter_none {A} (f : A -> bool) l : Forall (fun x => f x = false) l -> filter f l = [].
Proof. induction 1; cbn; auto. rewrite H. auto. Qed.

Lemma classify_last pre g rt :
  g <> [] -> Forall (fun e => ev_retr e = rt) g -> Forall (fun e => ev_retr e <> rt) pre ->
  classify (pre ++ g) = class_body rt g.
Proof.
  intros Hne Hg Hpre. rewrite classify_unfold.
  destruct (exists_last Hne) as [g' [x ->]].
  rewrite app_assoc, rev_app_distr. cbn [rev app].
  assert (Hx : ev_retr x = rt).
  { rewrite Forall_forall in Hg. apply Hg. apply in_or_app. right; left; reflexivity. }
  rewrite Hx. rewrite <- app_assoc, filter_app.
  rewrite (filter_none _ pre), (filter_all _ (g' ++ [x])); auto.
  - eapply Forall_impl; [|exact Hg]. cbn. intros a ->. apply retr_eqb_refl.
  - eapply Forall_impl; [|exact Hpre]. cbn. intros a Ha. destruct (retr_eqb_reflect (ev_retr a) rt); congruence.
Qed.

Lemma class_body_flags rt g :
  existsb is_sc_fin g = true -> f_hf (flags_of g) && retries_left rt = false ->
  class_body rt g =
    let fl := flags_of g in
    if f_fr fl then CNone else if f_ff fl || f_hf fl then CFailed else if f_sk fl then CSkipped else CPassed.
Proof.
  intros Hc Hh. unfold class_body, flags_of in *. cbn [f_hf f_fr f_ff f_sk] in *. cbv zeta. rewrite Hc, Hh.
  destruct (existsb is_step_failed_retried g); reflexivity.
Qed.

Lemma astep_done a x : astep a x = Some ADone -> x = ScFinished.
Proof.
  destruct x as [|[] []|s []|s []|m|]; destruct a as [[|] []| |[]| |]; cbn; try discriminate; auto.
  all: try (destruct (_ =? _); discriminate).
Qed.
Lemma arun_finished g : forall a, a <> ADone -> arun a g = Some ADone -> existsb is_sc_fin g = true.
Proof.
  induction g as [|e g IH]; intros a Ha H; cbn in H.
  - congruence.
  - destruct (astep_ev a e) as [a'|] eqn:E; try discriminate.
    destruct e as [| | | | | | | |f r sc rt x]; try discriminate. cbn in E.
    cbn [existsb].
    assert (Hor : a' = ADone \/ a' <> ADone) by (destruct a'; (left; reflexivity) || (right; discriminate)).
    destruct Hor as [->|Hn].
    + apply astep_done in E. subst x. reflexivity.
    + rewrite (IH a' Hn H). apply orb_true_r.
Qed.
Lemma attempt_ok_finished decl g : attempt_ok decl g = true -> existsb is_sc_fin g = true.
Proof.
  destruct g as [|e g]; try discriminate.
  destruct e as [| | | | | | | |f r sc rt x]; try discriminate. destruct x; try discriminate.
  cbn [attempt_ok]. destruct (arun (ASteps decl true) g) as [[| | | |]|] eqn:E; try discriminate.
  intros _. cbn [existsb]. rewrite (arun_finished g (ASteps decl true)); [apply orb_true_r|discriminate|exact E].
Qed.

Lemma retried_has_retries e : is_step_failed_retried e = true -> retries_left (ev_retr e) = true.
Proof.
  unfold is_step_failed_retried.
  destruct e as [| | | | | | | |f r sc rt x]; try discriminate.
  destruct x as [|b h|s y|s y|m|]; try discriminate; destruct y; try discriminate; cbn;
    unfold is_retried_failure; destruct rt as [[c lft]|]; try discriminate; cbn;
    intros H; apply andb_true_iff in H; tauto.
Qed.

(* ---- retry consistency and K12d along the chain ---- *)
Fixpoint nonlast (P : list ev -> Prop) (gs : list (retr * list ev)) : Prop :=
  match gs with
  | [] => True
  | g :: t => match t with [] => True | _ => P (snd g) /\ nonlast P t end
  end.

Lemma rc_walk_same rt g : forall b rest,
  Forall (fun e => ev_retr e = rt) g ->
  rc_walk (Some rt) b (g ++ rest) = rc_walk (Some rt) (b || existsb retriable_failure g) rest.
Proof.
  induction g as [|e g IH]; intros b rest Hg; cbn [app existsb].
  - rewrite orb_false_r. reflexivity.
  - inversion Hg as [|? ? He Hg']; subst. cbn [rc_walk]. rewrite retr_eqb_refl.
    rewrite IH by auto. rewrite orb_assoc. reflexivity.
Qed.

Lemma rc_walk_groups gs : forall rt g b,
  Forall (fun e => ev_retr e = rt) g -> Forall group_ok gs -> NoDup (rt :: map fst gs) ->
  rc_walk (Some rt) b (g ++ concat (map snd gs)) = true ->
  (gs <> [] -> b || existsb retriable_failure g = true) /\
  nonlast (fun g => existsb retriable_failure g = true) gs.
Proof.
  induction gs as [|[rt2 g2] gs IH]; intros rt g b Hg HG ND H.
  - split; [congruence | exact I].
  - rewrite rc_walk_same in H by auto. cbn [map concat snd] in H.
    inversion HG as [|? ? [Hne2 Hr2] HG']; subst. cbn [fst snd] in *.
    destruct g2 as [|e2 g2]; [congruence|]. inversion Hr2 as [|? ? He2 Hr2']; subst.
    cbn [app rc_walk] in H.
    assert (Hneq : retr_eqb rt (ev_retr e2) = false).
    { destruct (retr_eqb_reflect rt (ev_retr e2)) as [E|E]; auto.
      inversion ND as [|? ? Hn _]; subst. exfalso. apply Hn. cbn. left. auto. }
    rewrite Hneq in H. apply andb_true_iff in H as [HB H].
    inversion ND as [|? ? _ ND']; subst. cbn [map fst] in ND'.
    destruct (IH _ _ _ Hr2' HG' ND' H) as [IH1 IH2].
    split; [intros _; exact HB|].
    cbn [nonlast snd]. destruct gs as [|g3 gs]; auto.
    split; auto. cbn [existsb]. apply IH1. discriminate.
Qed.

Lemma rc_walk_nonlast gs :
  Forall group_ok gs -> NoDup (map fst gs) -> rc_walk None false (concat (map snd gs)) = true ->
  nonlast (fun g => existsb retriable_failure g = true) gs.
Proof.
  intros HG ND H. destruct gs as [|[rt g] gs]; [exact I|].
  inversion HG as [|? ? [Hne Hr] HG']; subst. cbn [fst snd] in *.
  destruct g as [|e g]; [congruence|]. inversion Hr as [|? ? He Hr']; subst.
  cbn [map concat snd app rc_walk] in H.
  destruct (rc_walk_groups gs _ _ _ Hr' HG' ND H) as [H1 H2].
  cbn [nonlast snd]. destruct gs as [|g3 gs]; auto.
  split; auto. cbn [existsb]. apply H1. discriminate.
Qed.

Definition K1 (e : ev) : Prop := is_hook_failed e && retries_left (ev_retr e) = false.

Lemma retriable_is_retried g :
  Forall K1 g -> existsb retriable_failure g = true -> existsb is_step_failed_retried g = true.
Proof.
  induction 1 as [|e g He Hg IH]; cbn; auto.
  unfold retriable_failure at 1. unfold K1 in He. rewrite He, orb_false_r.
  destruct (is_step_failed_retried e); cbn; auto.
Qed.

Lemma nonlast_impl (P Q : list ev -> Prop) gs :
  Forall (fun g => P (snd g) -> Q (snd g)) gs -> nonlast P gs -> nonlast Q gs.
Proof.
  induction 1 as [|g gs Hg HF IH]; cbn; auto.
  destruct gs; auto. intros [H1 H2]. split; auto.
Qed.

Lemma k12d_walk_cons seen e t :
  k12d_walk seen (e :: t) =
    if is_bhook_failed e then (seen && negb (retries_left (ev_retr e))) || k12d_walk seen t
    else k12d_walk (seen || is_step_failed_retried e) t.
Proof.
  destruct e as [| | | | | | | |f r sc rt x]; try reflexivity.
  destruct x as [|[] []| | | |]; reflexivity.
Qed.
Lemma bhook_not_retried e : is_bhook_failed e = true -> is_step_failed_retried e = false /\ is_hook_failed e = true.
Proof.
  destruct e as [| | | | | | | |f r sc rt x]; try discriminate.
  destruct x as [|[] []| | | |]; try discriminate. auto.
Qed.

Lemma k12d_app a : forall seen b,
  k12d_walk seen (a ++ b) = false -> k12d_walk (seen || existsb is_step_failed_retried a) b = false.
Proof.
  induction a as [|e a IH]; intros seen b H; cbn [app existsb] in *.
  - rewrite orb_false_r. exact H.
  - rewrite k12d_walk_cons in H. destruct (is_bhook_failed e) eqn:Eb.
    + apply orb_false_iff in H as [_ H]. apply bhook_not_retried in Eb as [-> _]. cbn [orb]. auto.
    + apply IH in H. rewrite orb_assoc. exact H.
Qed.

Lemma k12d_seen b : k12d_walk true b = false -> Forall K1 b -> Forall (fun e => is_bhook_failed e = false) b.
Proof.
  induction b as [|e b IH]; intros H HK; constructor; inversion HK as [|? ? He HK']; subst;
    rewrite k12d_walk_cons in H; destruct (is_bhook_failed e) eqn:Eb; auto.
  - apply orb_false_iff in H as [H _]. cbn in H. apply negb_false_iff in H.
    apply bhook_not_retried in Eb as [_ Eh]. unfold K1 in He. rewrite Eh, H in He. discriminate.
  - apply orb_false_iff in H as [_ H]. auto.
Qed.

Lemma dplus_0 d : dplus d 0 0 0 0 = d.
Proof. apply stats4_eq; cbn; lia. Qed.

Lemma pp_from_app last_own p st a b :
  pp_from last_own p st (a ++ b) = pp_from last_own p (pp_from last_own p st a) b.
Proof. unfold pp_from. apply fold_left_app. Qed.

Lemma existsb_concat {A} (f : A -> bool) ls : existsb f (concat ls) = existsb (existsb f) ls.
Proof. induction ls as [|l ls IH]; cbn; auto. rewrite existsb_app, IH. reflexivity. Qed.

Definition class_is (c k : sclass) : bool :=
  match k, c with
  | CPassed, CPassed | CSkipped, CSkipped | CFailed, CFailed => true
  | _, _ => false
  end.

Section Path.
  Variable last_own : N -> option N.
  Variables (f : N) (r : option N) (sc : N) (decl : list N).
  Let p : spath := (f, r, sc).

  Lemma chain_R l : last_own sc = Some l -> goodL l decl -> forall gs d0,
    gs <> [] -> Forall group_ok gs -> Forall (fun g => attempt_ok decl (snd g) = true) gs ->
    Forall (fun e => ev_path e = Some p /\ is_bhook_failed e = false) (concat (map snd gs)) ->
    nonlast (fun g => existsb is_step_failed_retried g = true) gs ->
    let st := pp_from last_own p (mk_pst (Some IRetried) d0 true) (concat (map snd gs)) in
    let fl := flags_of (snd (last gs (None, []))) in
    ps_ok st = true /\ ps_ind st = (if f_fr fl then Some IRetried else None) /\
    ps_d st = done_d (Some IRetried) d0 fl.
  Proof.
    intros Hl Hg gs. induction gs as [|[rt g] gs IH]; intros d0 Hne HG HA HC HN; [congruence|].
    inversion HG as [|? ? [Hne1 Hr1] HG']; subst. inversion HA as [|? ? Ha1 HA']; subst.
    cbn [fst snd map concat] in *.
    apply Forall_app in HC as [HC1 HC2].
    assert (Hc1 : Forall (ev_cond f r sc rt (Some IRetried)) g).
    { rewrite Forall_forall in *. intros e He. destruct (HC1 e He) as [H1 H2].
      repeat split; auto. }
    pose proof (attempt_effect last_own f r sc rt (Some IRetried) d0 l (or_intror eq_refl) (fun _ => Hl)
                  decl g Ha1 Hc1 (fun _ => Hg)) as AE. cbv zeta in AE. fold p in AE.
    destruct gs as [|g2 gs].
    - cbn [map concat last]. rewrite app_nil_r. cbv zeta. exact AE.
    - cbn [nonlast snd] in HN. destruct HN as [Hfr HN].
      cbv zeta. rewrite pp_from_app.
      destruct AE as [A1 [A2 A3]].
      unfold flags_of in A2, A3. cbn [f_fr] in A2. unfold done_d in A3. cbn [f_fr] in A3. rewrite Hfr in A2, A3.
      unfold r0 in A3. rewrite dplus_0 in A3.
      destruct (pp_from last_own p (mk_pst (Some IRetried) d0 true) g) as [i d ok].
      cbn [ps_ok ps_ind ps_d] in A1, A2, A3. subst i d ok.
      change (last ((rt, g) :: g2 :: gs) (None, [])) with (last (g2 :: gs) (None, [])).
      apply (IH d0); auto. discriminate.
  Qed.
End Path.

Lemma Forall_concat_inv {A} (P : A -> Prop) ls : Forall P (concat ls) -> Forall (Forall P) ls.
Proof.
  induction ls as [|l ls IH]; cbn; intros H; constructor.
  - apply Forall_app in H. tauto.
  - apply IH. apply Forall_app in H. tauto.
Qed.

Lemma hf_K1 rt g :
  Forall K1 g -> Forall (fun e => ev_retr e = rt) g -> f_hf (flags_of g) && retries_left rt = false.
Proof.
  intros HK Hr. cbn [flags_of f_hf]. destruct (existsb is_hook_failed g) eqn:E; auto.
  apply existsb_exists in E as [e [Hin He]]. rewrite Forall_forall in HK, Hr.
  specialize (HK e Hin). specialize (Hr e Hin). unfold K1 in HK. rewrite He, Hr in HK. exact HK.
Qed.

Section Path2.
  Variable last_own : N -> option N.
  Variables (f : N) (r : option N) (sc : N) (decl : list N).
  Let p : spath := (f, r, sc).
  Variable gs : list (retr * list ev).
  Let evs := concat (map snd gs).
  Hypothesis Hne : gs <> [].
  Hypothesis HG : Forall group_ok gs.
  Hypothesis HP : Forall (fun e => ev_path e = Some p) evs.
  Hypothesis HND : NoDup (map fst gs).
  Hypothesis HA : Forall (fun g => attempt_ok decl (snd g) = true) gs.
  Hypothesis HK1 : Forall K1 evs.
  Hypothesis HRC : rc_walk None false evs = true.
  Hypothesis HKD : k12d_walk false evs = false.
  Hypothesis HL : existsb is_step_failed_retried evs = true -> exists l, last_own sc = Some l /\ goodL l decl.

  Let lastg := last gs (None, []).

  Lemma classify_chain :
    classify evs =
      let fl := flags_of (snd lastg) in
      if f_fr fl then CNone else if f_ff fl || f_hf fl then CFailed else if f_sk fl then CSkipped else CPassed.
  Proof.
    subst lastg evs. destruct (exists_last Hne) as [gsi [[rtn gn] E]].
    rewrite E in *. rewrite last_last. cbn [snd].
    rewrite map_app, concat_app in *. cbn [map concat snd] in *. rewrite app_nil_r in *.
    apply Forall_app in HG as [HGi HGn]. inversion HGn as [|? ? [Hnn Hrn] _]; subst. cbn [fst snd] in *.
    apply Forall_app in HA as [_ HAn]. inversion HAn as [|? ? Han _]; subst. cbn [snd] in Han.
    apply Forall_app in HK1 as [_ HKn].
    rewrite classify_last with (rt := rtn); auto.
    - apply class_body_flags.
      + eapply attempt_ok_finished; eauto.
      + apply hf_K1; auto.
    - rewrite ?map_app in HND. cbn [map fst] in HND.
      apply NoDup_remove_2 in HND. rewrite app_nil_r in HND.
      apply Forall_concat. rewrite Forall_forall. intros g Hg.
      apply in_map_iff in Hg as [[rt g'] [<- Hin]]. cbn [snd].
      rewrite Forall_forall in HGi. destruct (HGi _ Hin) as [_ Hr]. cbn [fst snd] in Hr.
      eapply Forall_impl; [|exact Hr]. cbn. intros e -> ->. apply HND.
      apply in_map_iff. exists (rtn, g'). auto.
  Qed.

  Theorem path_effect :
    let st := pp_run last_own p evs in
    ps_ok st = true /\
    ps_d st = mk_stats4 (b2n (class_is CPassed (classify evs))) (b2n (class_is CSkipped (classify evs)))
                        (b2n (class_is CFailed (classify evs))) (b2n (existsb is_step_failed_retried evs)).
  Proof.
    rewrite classify_chain. subst lastg. cbv zeta.
    pose proof (rc_walk_nonlast gs HG HND HRC) as HNL.
    assert (HKg : Forall (fun g => Forall K1 (snd g)) gs).
    { apply Forall_concat_inv in HK1. rewrite Forall_map in HK1. exact HK1. }
    apply (nonlast_impl _ (fun g => existsb is_step_failed_retried g = true)) in HNL.
    2: { eapply Forall_impl; [|exact HKg]. intros g Hk. apply retriable_is_retried; auto. }
    subst evs. destruct gs as [|[rt1 g1] gs'] eqn:Egs; [congruence|].
    inversion HG as [|? ? [Hne1 Hr1] HG']; subst. inversion HA as [|? ? Ha1 HA']; subst.
    cbn [fst snd map concat] in *.
    apply Forall_app in HP as [HP1 HP2].
    assert (Hc1 : Forall (ev_cond f r sc rt1 None) g1).
    { rewrite Forall_forall in *. intros e He. repeat split; auto. discriminate. }
    pose proof (attempt_effect last_own f r sc rt1 None (mk_stats4 0 0 0 0) 0 (or_introl eq_refl)
                  (fun H => ltac:(discriminate)) decl g1 Ha1 Hc1 (fun H => ltac:(discriminate))) as AE.
    cbv zeta in AE. fold p in AE. change (mk_pst None (mk_stats4 0 0 0 0) true) with pinit in AE.
    destruct gs' as [|g2 gs''].
    - cbn [map concat last snd] in *. rewrite app_nil_r in *.
      unfold pp_run. destruct AE as [A1 [A2 A3]]. split; auto. rewrite A3.
      unfold done_d, flags_of. cbn [f_fr f_ff f_hf f_sk].
      destruct (existsb is_step_failed_retried g1), (existsb is_step_failed_final g1),
        (existsb is_hook_failed g1), (existsb is_step_skipped g1); reflexivity.
    - cbn [nonlast snd] in HNL. destruct HNL as [Hfr HNL].
      assert (Hretr : existsb is_step_failed_retried (g1 ++ concat (map snd (g2 :: gs''))) = true).
      { rewrite existsb_app, Hfr. reflexivity. }
      destruct (HL Hretr) as [l [Hl Hgl]].
      apply k12d_app in HKD. rewrite Hfr in HKD. cbn [orb] in HKD.
      apply Forall_app in HK1 as [HK11 HK12].
      pose proof (k12d_seen _ HKD HK12) as Hnb.
      assert (HC : Forall (fun e => ev_path e = Some p /\ is_bhook_failed e = false) (concat (map snd (g2 :: gs'')))).
      { rewrite Forall_forall in *. intros e He. split; auto. }
      destruct AE as [A1 [A2 A3]].
      unfold flags_of in A2, A3. cbn [f_fr] in A2. unfold done_d in A3. cbn [f_fr] in A3. rewrite Hfr in A2, A3.
      unfold pp_run. rewrite pp_from_app.
      destruct (pp_from last_own p pinit g1) as [i d ok].
      cbn [ps_ok ps_ind ps_d] in A1, A2, A3. subst i d ok.
      change (last ((rt1, g1) :: g2 :: gs'') (None, [])) with (last (g2 :: gs'') (None, [])).
      pose proof (chain_R last_own f r sc decl l Hl Hgl (g2 :: gs'') (dplus (mk_stats4 0 0 0 0) 0 0 0 (r0 None))
                    ltac:(discriminate) HG' HA' HC HNL) as CR.
      cbv zeta in CR. fold p in CR. destruct CR as [C1 [C2 C3]]. split; auto.
      rewrite C3, ?Hretr.
      set (gn := snd (last (g2 :: gs'') (None, []))).
      unfold done_d, flags_of. cbn [f_fr f_ff f_hf f_sk].
      destruct (existsb is_step_failed_retried gn), (existsb is_step_failed_final gn),
        (existsb is_hook_failed gn), (existsb is_step_skipped gn); reflexivity.
  Qed.
End Path2.

(* ------------------------------------------------------------------------------------------ *)
(* 4. assembly                                                                                  *)
(* ------------------------------------------------------------------------------------------ *)
Lemma on_path_iff p e : on_path p e = true <-> ev_path e = Some p.
Proof. unfold on_path. apply option_eqb_spec. apply spath_eqb_eq. Qed.

Lemma existsb_spath_In p l : existsb (spath_eqb p) l = true <-> In p l.
Proof.
  rewrite existsb_exists. split.
  - intros [x [Hin Hx]]. apply spath_eqb_eq in Hx. subst; auto.
  - intros H. exists p. split; auto. apply spath_eqb_refl.
Qed.

Lemma paths_cons e t :
  paths (e :: t) = match ev_path e with
                   | Some p => if existsb (spath_eqb p) (paths t) then paths t else p :: paths t
                   | None => paths t
                   end.
Proof. reflexivity. Qed.

Lemma paths_in es p : In p (paths es) <-> exists e, In e es /\ ev_path e = Some p.
Proof.
  revert p. induction es as [|e t IH]; intros p.
  - cbn. split; [tauto | intros [e [[] _]]].
  - rewrite paths_cons. destruct (ev_path e) as [q|] eqn:Eq.
    + destruct (existsb (spath_eqb q) (paths t)) eqn:Ex.
      * rewrite IH. split.
        -- intros [e0 [H1 H2]]. exists e0. split; auto. right; auto.
        -- intros [e0 [[->|H1] H2]].
           ++ apply existsb_spath_In in Ex. apply IH in Ex. assert (q = p) by congruence. subst. exact Ex.
           ++ exists e0; auto.
      * cbn [In]. rewrite IH. split.
        -- intros [->|[e0 [H1 H2]]]; [exists e; split; auto; left; auto | exists e0; split; auto; right; auto].
        -- intros [e0 [[->|H1] H2]]; [left; congruence | right; exists e0; auto].
    + rewrite IH. split.
      * intros [e0 [H1 H2]]. exists e0. split; auto. right; auto.
      * intros [e0 [[->|H1] H2]]; [congruence | exists e0; auto].
Qed.

Lemma paths_nodup es : NoDup (paths es).
Proof.
  induction es as [|e t IH]; [constructor|].
  rewrite paths_cons. destruct (ev_path e) as [q|]; auto.
  destruct (existsb (spath_eqb q) (paths t)) eqn:Ex; auto.
  constructor; auto. intros H. apply existsb_spath_In in H. congruence.
Qed.

Lemma existsb_false_forall {A} (f : A -> bool) l : existsb f l = false -> forall x, In x l -> f x = false.
Proof.
  intros H x Hin. destruct (f x) eqn:E; auto.
  assert (existsb f l = true) by (apply existsb_exists; eauto). congruence.
Qed.

Lemma pp_filter last_own p evs : forall st,
  pp_from last_own p st evs = pp_from last_own p st (filter (on_path p) evs).
Proof.
  induction evs as [|e evs IH]; intros st; cbn [filter]; auto.
  destruct (on_path p e) eqn:E; cbn [pp_from fold_left].
  - apply IH.
  - rewrite pp_step_other; [apply IH|]. intros H. apply on_path_iff in H. congruence.
Qed.

Definition last_opt (l : list N) : option N := match rev l with x :: _ => Some x | [] => None end.

Lemma goodL_of l d : last_opt d = Some l -> (occurrences l d <= 1)%nat -> goodL l d.
Proof.
  unfold last_opt. intros H Ho. destruct (rev d) as [|x r'] eqn:E; try discriminate.
  injection H as ->. assert (Hd : d = rev r' ++ [l]).
  { rewrite <- (rev_involutive d), E. reflexivity. }
  exists (rev r'). split; auto.
  rewrite Hd in Ho. unfold occurrences in Ho. rewrite filter_app, app_length in Ho. cbn in Ho.
  rewrite N.eqb_refl in Ho. cbn in Ho.
  intros Hin. assert (In l (filter (N.eqb l) (rev r'))).
  { apply filter_In. split; auto. apply N.eqb_refl. }
  destruct (filter (N.eqb l) (rev r')); cbn in *; [tauto | lia].
Qed.

(* ---- the hypotheses of the theorem, all executable ---- *)
(* every scenario of the stream is a chain of well-formed attempts running the declared steps *)
Definition wf_attempts (steps_of : N -> list N) (es : list ev) : bool :=
  forallb (fun p => wf_path (steps_of (sc_of p)) (filter (on_path p) es)) (paths es).
(* for the scenarios with a retried step failure, the last own step is the last declared step *)
Definition last_own_consistent (last_own : N -> option N) (steps_of : N -> list N) (es : list ev) : bool :=
  forallb (fun p => match last_own (sc_of p) with
                    | Some l => option_eqb N.eqb (last_opt (steps_of (sc_of p))) (Some l)
                    | None => true
                    end) (retried_paths es).

Section Main.
  Variable last_own : N -> option N.
  Variable steps_of : N -> list N.
  Variable evs : list ev.
  Hypothesis HKa : k_hook_in_retried evs = false.
  Hypothesis HKb : k12b last_own evs = false.
  Hypothesis HKc : k12c last_own steps_of evs = false.
  Hypothesis HKd : k12d evs = false.
  Hypothesis HRC : retry_consistent evs = true.
  Hypothesis HWF : wf_attempts steps_of evs = true.
  Hypothesis HLO : last_own_consistent last_own steps_of evs = true.

  Lemma path_of_stream p : In p (paths evs) ->
    let fe := filter (on_path p) evs in
    let st := pp_run last_own p evs in
    ps_ok st = true /\
    ps_d st = mk_stats4 (b2n (class_is CPassed (classify fe))) (b2n (class_is CSkipped (classify fe)))
                        (b2n (class_is CFailed (classify fe))) (b2n (existsb is_step_failed_retried fe)).
  Proof.
    intros Hp. cbv zeta. unfold pp_run. rewrite pp_filter.
    set (fe := filter (on_path p) evs).
    destruct p as [[f r] sc].
    assert (Hfe : Forall (fun e => ev_path e = Some (f, r, sc)) fe).
    { apply Forall_forall. intros e He. apply filter_In in He as [_ He]. apply on_path_iff; auto. }
    assert (Hsub : forall e, In e fe -> In e evs).
    { intros e He. apply filter_In in He. tauto. }
    assert (Hne : fe <> []).
    { apply paths_in in Hp as [e [H1 H2]]. intros E.
      assert (In e fe) by (apply filter_In; split; auto; apply on_path_iff; auto).
      rewrite E in H. destruct H. }
    unfold wf_attempts in HWF. rewrite forallb_forall in HWF. specialize (HWF _ Hp).
    cbn [sc_of] in HWF. fold fe in HWF. unfold wf_path in HWF. apply andb_true_iff in HWF as [HA HND].
    pose proof (path_effect last_own f r sc (steps_of sc) (groups fe)) as PE.
    rewrite groups_concat in PE. apply PE; clear PE.
    - intros E. apply Hne. apply groups_nil; auto.
    - apply groups_ok.
    - exact Hfe.
    - apply nodup_retr_NoDup; auto.
    - rewrite forallb_forall in HA. apply Forall_forall. auto.
    - apply Forall_forall. intros e He.
      apply (existsb_false_forall _ _ HKa e (Hsub e He)).
    - unfold retry_consistent in HRC. rewrite forallb_forall in HRC. apply (HRC _ Hp).
    - apply (existsb_false_forall _ _ HKd _ Hp).
    - intros Hr.
      assert (Hrp : In (f, r, sc) (retried_paths evs)).
      { apply filter_In. split; auto. }
      pose proof (existsb_false_forall _ _ HKb _ Hrp) as Hb. cbn [sc_of] in Hb.
      pose proof (existsb_false_forall _ _ HKc _ Hrp) as Hc. cbn [sc_of] in Hc.
      unfold last_own_consistent in HLO. rewrite forallb_forall in HLO. specialize (HLO _ Hrp). cbn [sc_of] in HLO.
      destruct (last_own sc) as [l|]; [|discriminate].
      exists l. split; auto. apply goodL_of.
      + apply (option_eqb_spec N.eqb N.eqb_eq) in HLO. exact HLO.
      + apply Nat.ltb_ge in Hc. exact Hc.
  Qed.

  Theorem scenario_counters_of_cfold :
    let s := cfold last_own summ_init evs in
    [n_passed (sm_scenarios s); n_skipped (sm_scenarios s); n_failed (sm_scenarios s); n_retried (sm_scenarios s)]
    = [count_class CPassed evs; count_class CSkipped evs; count_class CFailed evs;
       N.of_nat (length (retried_paths evs))].
  Proof.
    cbv zeta.
    destruct (independence last_own (paths evs) (paths_nodup evs) evs) as [[I1 [I2 [I3 I4]]] _].
    - intros e p Hin Hp. apply paths_in. eauto.
    - intros p Hp. apply (path_of_stream p Hp).
    - rewrite I1, I2, I3, I4. unfold count_class, retried_paths.
      rewrite <- !sumN_b2n.
      f_equal; [|f_equal; [|f_equal; [|f_equal]]]; apply sumN_ext; intros p Hp;
        destruct (path_of_stream p Hp) as [_ ->]; reflexivity.
  Qed.
End Main.

(* ---- the theorem ---- *)
Theorem scenario_counters_correct last_own steps_of es :
  let evs := before_finished (map snd es) in
  k12_class last_own steps_of (map snd es) = 0 ->
  retry_consistent evs = true ->
  wf_attempts steps_of evs = true ->
  last_own_consistent last_own steps_of evs = true ->
  let s := sm_final last_own es in
  [n_passed (sm_scenarios s); n_skipped (sm_scenarios s); n_failed (sm_scenarios s); n_retried (sm_scenarios s)]
  = firstn 4 (skipn 2 (spec_counts (map snd es))).
Proof.
  intros evs HK HRC HWF HLO s.
  unfold k12_class in HK. fold evs in HK.
  destruct (k_hook_in_retried evs) eqn:Ka; [discriminate|].
  destruct (k12b last_own evs) eqn:Kb; [discriminate|].
  destruct (k12c last_own steps_of evs) eqn:Kc; [discriminate|].
  destruct (k12d evs) eqn:Kd; [discriminate|].
  subst s. unfold sm_final.
  change (fold_left (fun s e => fst (sm_handle last_own s e)) es summ_init) with (final_from last_own summ_init es).
  rewrite final_from_scen by reflexivity. fold evs.
  rewrite (scenario_counters_of_cfold last_own steps_of evs Ka Kb Kc Kd HRC HWF HLO).
  reflexivity.
Qed.

(* `retry_consistent` of the whole stream (as the checker states it) gives the hypothesis above *)
Lemma rc_walk_prefix a : forall c b rest, rc_walk c b (a ++ rest) = true -> rc_walk c b a = true.
Proof.
  induction a as [|e a IH]; intros c b rest H; cbn [app rc_walk] in *; auto.
  destruct c as [rt|].
  - destruct (retr_eqb rt (ev_retr e)).
    + eapply IH; eauto.
    + apply andb_true_iff in H as [-> H]. cbn. eapply IH; eauto.
  - eapply IH; eauto.
Qed.
Lemma before_finished_prefix es : exists rest, es = before_finished es ++ rest.
Proof.
  induction es as [|e t [rest IH]]; [exists []; reflexivity|].
  destruct e; cbn [before_finished]; try (exists rest; cbn; f_equal; exact IH).
  exists (EvFinished :: t). reflexivity.
Qed.
Lemma retry_consistent_before_finished es :
  retry_consistent es = true -> retry_consistent (before_finished es) = true.
Proof.
  unfold retry_consistent. rewrite !forallb_forall. intros H p Hp.
  destruct (before_finished_prefix es) as [rest E].
  assert (Hp' : In p (paths es)).
  { apply paths_in in Hp as [e [H1 H2]]. apply paths_in. exists e. split; auto.
    rewrite E. apply in_or_app; auto. }
  specialize (H p Hp'). rewrite E, filter_app in H. eapply rc_walk_prefix; eauto.
Qed.

Corollary scenario_counters_correct' last_own steps_of es :
  k12_class last_own steps_of (map snd es) = 0 ->
  retry_consistent (map snd es) = true ->
  wf_attempts steps_of (before_finished (map snd es)) = true ->
  last_own_consistent last_own steps_of (before_finished (map snd es)) = true ->
  let s := sm_final last_own es in
  [n_passed (sm_scenarios s); n_skipped (sm_scenarios s); n_failed (sm_scenarios s); n_retried (sm_scenarios s)]
  = firstn 4 (skipn 2 (spec_counts (map snd es))).
Proof.
  intros HK HRC HWF HLO. apply scenario_counters_correct with (steps_of := steps_of); auto.
  apply retry_consistent_before_finished; auto.
Qed.

(* ---- the hypotheses are satisfiable by a realistic stream: two scenarios running interleaved, one
   (steps 8, 9; before and after hook) fails in step 9, is retried and passes; the other (step 5)
   is skipped and its after hook fails; events replayed after run-Finished are ignored ---- *)
Definition ex_last_own (sc : N) : option N := if sc =? 2 then Some 9 else if sc =? 3 then Some 5 else None.
Definition ex_steps_of (sc : N) : list N := if sc =? 2 then [8; 9] else if sc =? 3 then [5] else [].
Definition ex_stream : list mev :=
  let a := EvScen 1 None 2 (Some (0, 1)) in
  let b := EvScen 1 None 2 (Some (1, 0)) in
  let c := EvScen 1 (Some 4) 3 None in
  [(1, EvStarted); (2, EvParsingFinished 1 1 2 3 0); (3, EvFeatS 1);
   (4, a ScStarted); (5, a (ScHook true HStarted)); (6, EvRuleS 1 4); (7, c ScStarted);
   (8, a (ScHook true HPassed)); (9, a (ScBg 8 StStarted)); (10, c (ScStep 5 StStarted));
   (11, a (ScBg 8 StPassed)); (12, a (ScLog 77)); (13, c (ScStep 5 StSkipped));
   (14, a (ScStep 9 StStarted)); (15, a (ScStep 9 (StFailed (EPanic 7))));
   (16, c (ScHook false HStarted)); (17, c (ScHook false (HFailed 6)));
   (18, a (ScHook false HStarted)); (19, a (ScHook false HPassed)); (20, c ScFinished);
   (21, a ScFinished); (22, EvRuleF 1 4);
   (23, b ScStarted); (24, b (ScHook true HStarted)); (25, b (ScHook true HPassed));
   (26, b (ScBg 8 StStarted)); (27, b (ScBg 8 StPassed)); (28, b (ScStep 9 StStarted));
   (29, b (ScStep 9 StPassed)); (30, b (ScHook false HStarted)); (31, b (ScHook false HPassed));
   (32, b ScFinished); (33, EvFeatF 1); (34, EvFinished); (35, b ScFinished)].

Example scenario_counters_nonvacuous :
  let evs := before_finished (map snd ex_stream) in
  k12_class ex_last_own ex_steps_of (map snd ex_stream) = 0 /\
  retry_consistent evs = true /\ retry_consistent (map snd ex_stream) = true /\
  wf_attempts ex_steps_of evs = true /\
  last_own_consistent ex_last_own ex_steps_of evs = true /\
  contract (map snd (firstn 34 ex_stream)) = true /\       (* the Runner's ordering contract, up to run-Finished *)
  firstn 4 (skipn 2 (spec_counts (map snd ex_stream))) = [1; 0; 1; 1] /\
  (let s := sm_final ex_last_own ex_stream in
   [n_passed (sm_scenarios s); n_skipped (sm_scenarios s); n_failed (sm_scenarios s); n_retried (sm_scenarios s)])
  = [1; 0; 1; 1].
Proof. vm_compute. repeat split; reflexivity. Qed.

(* a second one: the skipped scenario stays skipped *)
Definition ex_stream2 : list mev :=
  filter (fun e => negb (N.eqb (fst e) 16 || N.eqb (fst e) 17)) ex_stream.
Example scenario_counters_nonvacuous2 :
  let evs := before_finished (map snd ex_stream2) in
  k12_class ex_last_own ex_steps_of (map snd ex_stream2) = 0 /\
  retry_consistent evs = true /\
  wf_attempts ex_steps_of evs = true /\
  last_own_consistent ex_last_own ex_steps_of evs = true /\
  firstn 4 (skipn 2 (spec_counts (map snd ex_stream2))) = [1; 1; 0; 1].
Proof. vm_compute. repeat split; reflexivity. Qed.


(* ---- the two extra hypotheses cannot simply be dropped ---- *)
Definition counters_agree (last_own : N -> option N) (es : list mev) : bool :=
  let s := sm_final last_own es in
  list_eqb N.eqb [n_passed (sm_scenarios s); n_skipped (sm_scenarios s); n_failed (sm_scenarios s); n_retried (sm_scenarios s)]
           (firstn 4 (skipn 2 (spec_counts (map snd es)))).

(* last_own_consistent: if `last_own` is not the last declared step, a retried scenario is counted as
   retried once per failing attempt *)
Example last_own_consistent_needed :
  let a := EvScen 1 None 2 (Some (0, 2)) in
  let b := EvScen 1 None 2 (Some (1, 1)) in
  let c := EvScen 1 None 2 (Some (2, 0)) in
  let es := [(1, EvStarted); (2, EvFeatS 1);
             (3, a ScStarted); (4, a (ScStep 8 StStarted)); (5, a (ScStep 8 StPassed));
             (6, a (ScStep 9 StStarted)); (7, a (ScStep 9 (StFailed (EPanic 0)))); (8, a ScFinished);
             (9, b ScStarted); (10, b (ScStep 8 StStarted)); (11, b (ScStep 8 StPassed));
             (12, b (ScStep 9 StStarted)); (13, b (ScStep 9 (StFailed (EPanic 0)))); (14, b ScFinished);
             (15, c ScStarted); (16, c (ScStep 8 StStarted)); (17, c (ScStep 8 StPassed));
             (18, c (ScStep 9 StStarted)); (19, c (ScStep 9 StPassed)); (20, c ScFinished);
             (21, EvFeatF 1); (22, EvFinished)] in
  let lo := fun _ : N => Some 8 in
  let so := fun _ : N => [8; 9] in
  let evs := before_finished (map snd es) in
  k12_class lo so (map snd es) = 0 /\ retry_consistent evs = true /\ wf_attempts so evs = true /\
  contract (map snd es) = true /\
  last_own_consistent lo so evs = false /\ counters_agree lo es = false.
Proof. vm_compute. repeat split; reflexivity. Qed.

(* retry_consistent: a second attempt after an attempt that did not fail is counted twice *)
Example retry_consistent_needed :
  let a := EvScen 1 None 2 (Some (0, 1)) in
  let b := EvScen 1 None 2 (Some (1, 0)) in
  let es := [(1, EvStarted); (2, EvFeatS 1);
             (3, a ScStarted); (4, a (ScStep 9 StStarted)); (5, a (ScStep 9 StPassed)); (6, a ScFinished);
             (7, b ScStarted); (8, b (ScStep 9 StStarted)); (9, b (ScStep 9 StPassed)); (10, b ScFinished);
             (11, EvFeatF 1); (12, EvFinished)] in
  let lo := fun _ : N => Some 9 in
  let so := fun _ : N => [9] in
  let evs := before_finished (map snd es) in
  k12_class lo so (map snd es) = 0 /\ wf_attempts so evs = true /\ last_own_consistent lo so evs = true /\
  contract (map snd es) = true /\
  retry_consistent evs = false /\ counters_agree lo es = false.
Proof. vm_compute. repeat split; reflexivity. Qed.

(* wf_attempts: an attempt that reports a second step result after a Skipped one is counted twice *)
Example wf_attempts_needed :
  let a := EvScen 1 None 2 None in
  let es := [(1, EvStarted); (2, EvFeatS 1);
             (3, a ScStarted); (4, a (ScStep 8 StStarted)); (5, a (ScStep 8 StSkipped));
             (6, a (ScStep 9 StStarted)); (7, a (ScStep 9 (StFailed (EPanic 0)))); (8, a ScFinished);
             (9, EvFeatF 1); (10, EvFinished)] in
  let lo := fun _ : N => Some 9 in
  let so := fun _ : N => [8; 9] in
  let evs := before_finished (map snd es) in
  k12_class lo so (map snd es) = 0 /\ retry_consistent evs = true /\ last_own_consistent lo so evs = true /\
  contract (map snd es) = true /\
  wf_attempts so evs = false /\ counters_agree lo es = false.
Proof. vm_compute. repeat split; reflexivity. Qed.
