(* ReviewP.v — stronger statements that close three gaps found by a review of the STATEMENTS:
   A. C19: position-wise parsing hypothesis; #[step] arguments; `__N_` group families; the returned Err.
   B. C10 at run level: the process panic hook (`hook_suppressed`) is replaced exactly while the loop is active.
   C. C04 / C05: `flow s <> Break` follows from `cf_fail_fast c = false`; restatements with that hypothesis.
   The existing theorems stay; nothing under Model/ or Check/ is changed. *)
From CV Require Import Model.Base Model.Events Model.Glue Model.Sched Proofs.BaseP Proofs.GlueP
  Proofs.SchedP Proofs.SchedP2 Proofs.SchedP3 Proofs.SchedP4 Proofs.SchedP13 Check.C19Check.
From Coq Require Import Lia.

(* ===================================================================================================== *)
(* A. C19                                                                                                *)
(* ===================================================================================================== *)

(* ---------- A.0 capture groups and their `__N_` families ---------- *)

(* x belongs to the family opened by c *)
Definition family_of (c x : cap) : bool := in_family (family_prefix (fst c)) x.
(* one argument's worth of capture groups: a leading group followed by members of its family *)
Definition is_group (g : list cap) : Prop :=
  match g with [] => False | c :: fam => Forall (fun x => family_of c x = true) fam end.
(* the text such a group hands to FromStr: its first non-empty member *)
Definition group_text (g : list cap) : str := first_nonempty (map snd g).
(* the group is maximal: what follows does not continue the family *)
Definition not_continued (g after : list cap) : Prop :=
  match g, after with c :: _, x :: _ => family_of c x = false | _, _ => True end.
(* `gs` followed by `rest` is the segmentation of the capture list into maximal groups *)
Fixpoint groups_sep (gs : list (list cap)) (rest : list cap) : Prop :=
  match gs with
  | [] => True
  | g :: t => is_group g /\ not_continued g (concat t ++ rest) /\ groups_sep t rest
  end.

Fixpoint count_typed (args : list argk) : nat :=
  match args with [] => O | AStep :: t => count_typed t | ATyped _ :: t => S (count_typed t) end.

Lemma take_while_app_stop {A} (p : A -> bool) fam rest :
  Forall (fun x => p x = true) fam ->
  match rest with [] => True | x :: _ => p x = false end ->
  take_while p (fam ++ rest) = fam.
Proof.
  intros HF HR. induction HF as [|x fam Hx HF IH]; cbn [app take_while].
  - destruct rest as [|y t]; [reflexivity|]. cbn [take_while]. rewrite HR. reflexivity.
  - rewrite Hx, IH. reflexivity.
Qed.

Lemma skipn_app_len {A} (a b : list A) : skipn (length a) (a ++ b) = b.
Proof. induction a as [|x a IH]; cbn; auto. Qed.

Lemma take_while_skipn {A} (p : A -> bool) l :
  l = take_while p l ++ skipn (length (take_while p l)) l.
Proof.
  induction l as [|x t IH]; cbn [take_while]; [reflexivity|].
  destruct (p x); cbn [length skipn app]; [f_equal; exact IH | reflexivity].
Qed.

Lemma take_while_forall {A} (p : A -> bool) l : Forall (fun x => p x = true) (take_while p l).
Proof.
  induction l as [|x t IH]; cbn [take_while]; [constructor|].
  destruct (p x) eqn:E; [constructor; assumption | constructor].
Qed.

Lemma take_while_stops {A} (p : A -> bool) l :
  match skipn (length (take_while p l)) l with [] => True | x :: _ => p x = false end.
Proof.
  induction l as [|x t IH]; cbn [take_while]; [exact I|].
  destruct (p x) eqn:E; cbn [length skipn]; [exact IH | exact E].
Qed.

(* the rule of Glue.v for ONE argument, read declaratively: a maximal group is consumed as a whole and
   yields its first non-empty member *)
Lemma take_arg_group g rest :
  is_group g -> not_continued g rest -> take_arg (g ++ rest) = Some (group_text g, rest).
Proof.
  intros HG HN. destruct g as [|c fam]; [destruct HG|]. cbn [app]. unfold take_arg. cbv zeta.
  assert (E : take_while (in_family (family_prefix (fst c))) (fam ++ rest) = fam).
  { apply take_while_app_stop; [exact HG|]. destruct rest as [|x t]; [exact I | exact HN]. }
  rewrite E, skipn_app_len. reflexivity.
Qed.

(* EVERY capture list has such a segmentation (so the hypotheses `groups_sep` below exclude nothing) *)
Lemma segmentation_exists_len : forall n it, (length it <= n)%nat ->
  exists gs, concat gs = it /\ groups_sep gs [].
Proof.
  induction n as [|n IH]; intros it LEN.
  - destruct it; [|cbn in LEN; lia]. exists []. split; [reflexivity | exact I].
  - destruct it as [|c rest]; [exists []; split; [reflexivity | exact I]|].
    set (p := in_family (family_prefix (fst c))).
    set (fam := take_while p rest).
    set (rest' := skipn (length fam) rest).
    assert (SPL : rest = fam ++ rest') by (apply take_while_skipn).
    assert (LEN' : (length rest' <= n)%nat).
    { cbn in LEN. assert (length rest = length fam + length rest')%nat by (rewrite SPL at 1; apply app_length). lia. }
    destruct (IH rest' LEN') as (gs & CG & GS).
    exists ((c :: fam) :: gs). split.
    + cbn [concat]. rewrite CG. cbn [app]. rewrite <- SPL. reflexivity.
    + cbn [groups_sep]. split; [|split; [|exact GS]].
      * cbn [is_group]. apply take_while_forall.
      * rewrite app_nil_r, CG. unfold not_continued.
        pose proof (take_while_stops p rest) as ST. fold fam in ST. fold rest' in ST.
        destruct rest' as [|x t]; [exact I | exact ST].
Qed.

Theorem segmentation_exists : forall it, exists gs, concat gs = it /\ groups_sep gs [].
Proof. intros it. apply (segmentation_exists_len (length it)). lia. Qed.

Lemma concat_snoc {A} (gs : list (list A)) g rest : concat (gs ++ [g]) ++ rest = concat gs ++ g ++ rest.
Proof. rewrite concat_app. cbn [concat]. rewrite app_nil_r, app_assoc. reflexivity. Qed.

(* plain (unnamed or not `__`-named) groups are singleton groups *)
Lemma family_of_plain c x : plain c -> family_of c x = false.
Proof. intros H. unfold family_of. unfold plain in H. rewrite H. reflexivity. Qed.

Lemma groups_sep_plain it rest : Forall plain it -> groups_sep (map (fun c => [c]) it) rest.
Proof.
  induction 1 as [|c it Hc HF IH]; cbn [map groups_sep]; [exact I|].
  split; [cbn; constructor | split; [|exact IH]].
  unfold not_continued. destruct (concat (map (fun c0 => [c0]) it) ++ rest); [exact I|].
  apply family_of_plain. exact Hc.
Qed.

Lemma concat_singletons {A} (it : list A) : concat (map (fun c => [c]) it) = it.
Proof. induction it as [|c it IH]; cbn; [reflexivity | f_equal; exact IH]. Qed.

Lemma group_text_single c : group_text [c] = snd c.
Proof. unfold group_text. cbn [map]. apply first_nonempty_single. Qed.

Section A.
  Variable parse : N -> str -> option str.

  (* ---------- A.1 the position-wise version of `args_in_order` ---------- *)

  (* the i-th type only has to parse the i-th group; extra groups (`rest`) are left alone and need not be plain.
     `map Some ds = ...` : the function runs with EXACTLY the parsed values, in declaration order *)
  Theorem args_in_order_pointwise : forall (tys : list N) (it : list cap),
    Forall2 (fun ty (c : cap) => parse ty (snd c) <> None) tys it ->
    forall rest i, Forall plain it ->
    exists ds, extract_args parse i (map ATyped tys) (it ++ rest) = ORan ds /\
               length ds = length tys /\
               map Some ds = map (fun tc => parse (fst tc) (snd (snd tc))) (combine tys it).
  Proof.
    induction 1 as [|ty c tys it OK F2 IH]; intros rest i FP.
    - exists []. cbn. auto.
    - inversion FP as [|c0 it0 PC FP']; subst. cbn [map app extract_args].
      rewrite (take_arg_plain c (it ++ rest) PC).
      destruct (parse ty (snd c)) as [d|] eqn:PD; [|contradiction].
      destruct (IH rest (S i) FP') as (ds & E & L & M). rewrite E.
      exists (d :: ds). split; [reflexivity | split; [cbn; lia|]].
      cbn [map combine fst snd]. rewrite PD, M. reflexivity.
  Qed.

  (* the same in the shape of the old theorem: its hypothesis `forall ty c, In ty tys -> In c it -> ...` is
     replaced by the one about equal positions only *)
  Theorem args_in_order_nth : forall tys it i,
    Forall plain it -> (length tys <= length it)%nat ->
    (forall k ty c, nth_error tys k = Some ty -> nth_error it k = Some c -> parse ty (snd c) <> None) ->
    exists ds, extract_args parse i (map ATyped tys) it = ORan ds /\
               length ds = length tys /\
               forall k ty c, nth_error tys k = Some ty -> nth_error it k = Some c ->
                              nth_error ds k = parse ty (snd c).
  Proof.
    induction tys as [|ty tys IH]; intros it i FP LEN OK; cbn [map extract_args].
    - exists []. split; [reflexivity | split; [reflexivity|]]. intros k ty c Hk. destruct k; discriminate.
    - destruct it as [|c rest]; [cbn in LEN; lia|]. inversion FP as [|c0 it0 PC FP']; subst.
      rewrite (take_arg_plain c rest PC).
      destruct (parse ty (snd c)) as [d|] eqn:PD; [|exfalso; exact (OK 0%nat ty c eq_refl eq_refl PD)].
      destruct (IH rest (S i) FP') as (ds & E & L & NTH).
      + cbn in LEN. lia.
      + intros k ty' c' Hk Hc. exact (OK (S k) ty' c' Hk Hc).
      + rewrite E. exists (d :: ds). split; [reflexivity | split; [cbn; lia|]].
        intros k ty' c' Hk Hc. destruct k as [|k]; cbn in Hk, Hc |- *.
        * inversion Hk; inversion Hc; subst. symmetry. exact PD.
        * exact (NTH k ty' c' Hk Hc).
  Qed.

  (* the old theorem is an instance of the new one *)
  Corollary old_args_in_order_follows : forall tys it i,
    Forall plain it -> (length tys <= length it)%nat ->
    (forall ty c, In ty tys -> In c it -> parse ty (snd c) <> None) ->
    exists ds, extract_args parse i (map ATyped tys) it = ORan ds /\
               length ds = length tys /\
               forall k ty c, nth_error tys k = Some ty -> nth_error it k = Some c ->
                              nth_error ds k = parse ty (snd c).
  Proof.
    intros tys it i FP LEN OK. apply args_in_order_nth; [exact FP | exact LEN |].
    intros k ty c Hk Hc. apply OK; eapply nth_error_In; eassumption.
  Qed.

  (* ---------- A.2 #[step] arguments and `__N_` families ---------- *)

  (* `passes args gs ds`: reading the arguments in declaration order, every #[step] argument consumes NO group and
     is passed the step; every typed argument consumes the NEXT group (a whole family) and is passed the FromStr
     value of its first non-empty member *)
  Inductive passes : list argk -> list (list cap) -> list str -> Prop :=
  | P_nil : passes [] [] []
  | P_step args gs ds : passes args gs ds -> passes (AStep :: args) gs (lit "<step>" :: ds)
  | P_typed ty g args gs ds d :
      parse ty (group_text g) = Some d -> passes args gs ds -> passes (ATyped ty :: args) (g :: gs) (d :: ds).

  (* (1) analogue of args_in_order *)
  Theorem args_general : forall args gs ds, passes args gs ds ->
    forall rest i, groups_sep gs rest -> extract_args parse i args (concat gs ++ rest) = ORan ds.
  Proof.
    induction 1 as [|args gs ds HP IH|ty g args gs ds d PD HP IH]; intros rest i GS; cbn [extract_args].
    - reflexivity.
    - rewrite (IH rest i GS). reflexivity.
    - destruct GS as (G & NC & GS'). cbn [concat]. rewrite <- app_assoc.
      rewrite (take_arg_group g (concat gs ++ rest) G NC), PD, (IH rest (S i) GS'). reflexivity.
  Qed.

  (* (2) analogue of parse_failure_panics: the arguments before the failing one pass, its group does not parse *)
  Theorem parse_failure_general : forall args1 gs1 ds1, passes args1 gs1 ds1 ->
    forall ty args2 g rest i,
      groups_sep (gs1 ++ [g]) rest -> parse ty (group_text g) = None ->
      extract_args parse i (args1 ++ ATyped ty :: args2) (concat gs1 ++ g ++ rest)
      = OParseFailed (i + count_typed args1).
  Proof.
    induction 1 as [|args gs ds HP IH|ty0 g0 args gs ds d PD HP IH]; intros ty args2 g rest i GS PF;
      cbn [app extract_args count_typed concat].
    - destruct GS as (G & NC & _). cbn [concat app] in NC.
      rewrite (take_arg_group g rest G NC), PF. f_equal. lia.
    - rewrite (IH ty args2 g rest i GS PF). reflexivity.
    - cbn [app groups_sep] in GS. destruct GS as (G & NC & GS'). rewrite concat_snoc in NC.
      rewrite <- app_assoc. rewrite (take_arg_group g0 _ G NC), PD.
      rewrite (IH ty args2 g rest (S i) GS' PF). f_equal. lia.
  Qed.

  (* (3) analogue of too_few_groups_panics: the groups run out at a typed argument *)
  Theorem too_few_groups_general : forall args1 gs1 ds1, passes args1 gs1 ds1 ->
    forall ty args2 i,
      groups_sep gs1 [] ->
      extract_args parse i (args1 ++ ATyped ty :: args2) (concat gs1) = ONotFound (i + count_typed args1).
  Proof.
    induction 1 as [|args gs ds HP IH|ty0 g0 args gs ds d PD HP IH]; intros ty args2 i GS;
      cbn [app extract_args count_typed concat].
    - cbn. f_equal. lia.
    - rewrite (IH ty args2 i GS). reflexivity.
    - destruct GS as (G & NC & GS'). rewrite app_nil_r in NC.
      rewrite (take_arg_group g0 _ G NC), PD, (IH ty args2 (S i) GS'). f_equal. lia.
  Qed.

  (* (4) analogue of slice_gets_all: every group (family) is one element of the slice *)
  Theorem slice_general : forall ty gs ds,
    Forall2 (fun g d => parse ty (group_text g) = Some d) gs ds ->
    forall fuel i, groups_sep gs [] -> (length (concat gs) <= fuel)%nat ->
    extract_slice parse fuel i ty (concat gs) = ORan ds.
  Proof.
    intros ty. induction 1 as [|g d gs ds PD F2 IH]; intros fuel i GS LEN.
    - destruct fuel; reflexivity.
    - destruct GS as (G & NC & GS'). rewrite app_nil_r in NC. cbn [concat] in LEN |- *.
      rewrite app_length in LEN.
      assert (1 <= length g)%nat by (destruct g; [destruct G | cbn; lia]).
      destruct fuel as [|fuel]; [lia|]. cbn [extract_slice].
      rewrite (take_arg_group g _ G NC), PD, (IH fuel (S i) GS'); [reflexivity | lia].
  Qed.

  (* ... and a group that does not parse makes the slice variant panic as well *)
  Theorem slice_parse_failure_general : forall ty gs1 ds1,
    Forall2 (fun g d => parse ty (group_text g) = Some d) gs1 ds1 ->
    forall g rest fuel i,
      groups_sep (gs1 ++ [g]) rest -> parse ty (group_text g) = None ->
      (length (concat gs1 ++ g ++ rest) <= fuel)%nat ->
      extract_slice parse fuel i ty (concat gs1 ++ g ++ rest) = OParseFailed (i + length gs1).
  Proof.
    intros ty. induction 1 as [|g0 d gs ds PD F2 IH]; intros g rest fuel i GS PF LEN.
    - cbn [app concat] in *. destruct GS as (G & NC & _). cbn [concat app] in NC.
      assert (1 <= length g)%nat by (destruct g; [destruct G | cbn; lia]).
      rewrite app_length in LEN. destruct fuel as [|fuel]; [lia|]. cbn [extract_slice].
      rewrite (take_arg_group g rest G NC), PF. f_equal. cbn. lia.
    - cbn [app groups_sep] in GS. destruct GS as (G & NC & GS'). rewrite concat_snoc in NC.
      cbn [concat] in LEN |- *. rewrite <- app_assoc in LEN |- *. rewrite app_length in LEN.
      assert (1 <= length g0)%nat by (destruct g0; [destruct G | cbn; lia]).
      destruct fuel as [|fuel]; [lia|]. cbn [extract_slice].
      rewrite (take_arg_group g0 _ G NC), PD, (IH g rest fuel (S i) GS' PF); [f_equal; cbn; lia | lia].
  Qed.

  (* the same on `run_glue` (group 0, the whole match, is skipped); for the slice variant the #[step] argument
     may stand before or after the slice *)
  Theorem run_glue_args : forall args gs ds m0 rest,
    passes args gs ds -> groups_sep gs rest ->
    run_glue parse (SArgs args) (m0 :: concat gs ++ rest) = ORan ds.
  Proof. intros args gs ds m0 rest HP GS. cbn [run_glue tl]. apply args_general; assumption. Qed.

  Theorem run_glue_slice : forall ty sf sl gs ds m0,
    Forall2 (fun g d => parse ty (group_text g) = Some d) gs ds -> groups_sep gs [] ->
    run_glue parse (SSlice ty sf sl) (m0 :: concat gs)
    = ORan ((if sf then [lit "<step>"] else []) ++ [join_comma ds] ++ (if sl then [lit "<step>"] else [])).
  Proof.
    intros ty sf sl gs ds m0 F2 GS. cbn [run_glue tl].
    rewrite (slice_general ty gs ds F2 (length (concat gs)) 0%nat GS (le_n _)). reflexivity.
  Qed.

  Theorem run_glue_slice_parse_failure : forall ty sf sl gs1 ds1 g rest m0,
    Forall2 (fun g d => parse ty (group_text g) = Some d) gs1 ds1 ->
    groups_sep (gs1 ++ [g]) rest -> parse ty (group_text g) = None ->
    run_glue parse (SSlice ty sf sl) (m0 :: concat gs1 ++ g ++ rest) = OParseFailed (length gs1).
  Proof.
    intros ty sf sl gs1 ds1 g rest m0 F2 GS PF. cbn [run_glue tl].
    rewrite (slice_parse_failure_general ty gs1 ds1 F2 g rest _ 0%nat GS PF (le_n _)). reflexivity.
  Qed.

  (* ---------- what `passes` says, position by position ---------- *)
  Lemma passes_length : forall args gs ds, passes args gs ds ->
    length ds = length args /\ length gs = count_typed args.
  Proof. induction 1 as [|args gs ds HP [L1 L2]|ty g args gs ds d PD HP [L1 L2]]; cbn; split; lia. Qed.

  (* a #[step] argument at position k is passed the step *)
  Lemma passes_step_position : forall args gs ds, passes args gs ds ->
    forall k, nth_error args k = Some AStep -> nth_error ds k = Some (lit "<step>").
  Proof.
    induction 1 as [|args gs ds HP IH|ty g args gs ds d PD HP IH]; intros k Hk.
    - destruct k; discriminate.
    - destruct k as [|k]; [reflexivity | exact (IH k Hk)].
    - destruct k as [|k]; [discriminate | exact (IH k Hk)].
  Qed.

  (* a typed argument at position k is passed the parsed text of group number j, where j counts the TYPED
     arguments before it: #[step] arguments consume no group *)
  Lemma passes_typed_position : forall args gs ds, passes args gs ds ->
    forall k ty, nth_error args k = Some (ATyped ty) ->
    exists g d, nth_error gs (count_typed (firstn k args)) = Some g /\
                parse ty (group_text g) = Some d /\ nth_error ds k = Some d.
  Proof.
    induction 1 as [|args gs ds HP IH|ty0 g0 args gs ds d0 PD HP IH]; intros k ty Hk.
    - destruct k; discriminate.
    - destruct k as [|k]; [discriminate|]. cbn [firstn count_typed nth_error] in *. exact (IH k ty Hk).
    - destruct k as [|k].
      + cbn in Hk. inversion Hk; subst. exists g0, d0. cbn. auto.
      + cbn [firstn count_typed nth_error] in *. exact (IH k ty Hk).
  Qed.

  (* conversely: when there is one group per typed argument and each of them parses AT ITS OWN POSITION, the
     arguments pass (so args_general applies) *)
  Lemma passes_exists : forall args gs,
    length gs = count_typed args ->
    (forall k ty g, nth_error args k = Some (ATyped ty) ->
                    nth_error gs (count_typed (firstn k args)) = Some g -> parse ty (group_text g) <> None) ->
    exists ds, passes args gs ds.
  Proof.
    induction args as [|a args IH]; intros gs LEN OK.
    - destruct gs; [|discriminate]. exists []. constructor.
    - destruct a as [|ty].
      + destruct (IH gs LEN) as (ds & HP).
        * intros k ty g Hk Hg. exact (OK (S k) ty g Hk Hg).
        * exists (lit "<step>" :: ds). constructor. exact HP.
      + destruct gs as [|g gs]; [discriminate|]. cbn in LEN.
        destruct (parse ty (group_text g)) as [d|] eqn:PD; [|exfalso; exact (OK 0%nat ty g eq_refl eq_refl PD)].
        destruct (IH gs) as (ds & HP); [lia | |].
        * intros k ty' g' Hk Hg. exact (OK (S k) ty' g' Hk Hg).
        * exists (d :: ds). constructor; assumption.
  Qed.

  (* the whole of (1) with hypotheses on positions only *)
  Theorem args_general_nth : forall args gs rest i,
    groups_sep gs rest -> length gs = count_typed args ->
    (forall k ty g, nth_error args k = Some (ATyped ty) ->
                    nth_error gs (count_typed (firstn k args)) = Some g -> parse ty (group_text g) <> None) ->
    exists ds, extract_args parse i args (concat gs ++ rest) = ORan ds /\
      length ds = length args /\
      (forall k, nth_error args k = Some AStep -> nth_error ds k = Some (lit "<step>")) /\
      (forall k ty, nth_error args k = Some (ATyped ty) ->
         exists g, nth_error gs (count_typed (firstn k args)) = Some g /\
                   nth_error ds k = parse ty (group_text g)).
  Proof.
    intros args gs rest i GS LEN OK. destruct (passes_exists args gs LEN OK) as (ds & HP).
    exists ds. split; [exact (args_general _ _ _ HP rest i GS)|].
    split; [exact (proj1 (passes_length _ _ _ HP))|].
    split; [exact (passes_step_position _ _ _ HP)|].
    intros k ty Hk. destruct (passes_typed_position _ _ _ HP k ty Hk) as (g & d & Hg & PD & Hd).
    exists g. split; [exact Hg | rewrite PD; exact Hd].
  Qed.

  (* ---------- the #[step] case alone: plain groups, one per typed argument ---------- *)
  Theorem args_with_step_plain : forall args it ds rest i,
    Forall plain it -> passes args (map (fun c => [c]) it) ds ->
    extract_args parse i args (it ++ rest) = ORan ds.
  Proof.
    intros args it ds rest i FP HP.
    rewrite <- (concat_singletons it) at 1. apply args_general; [exact HP | apply groups_sep_plain; exact FP].
  Qed.

  Theorem parse_failure_with_step_plain : forall args1 it1 ds1 ty args2 c rest i,
    Forall plain (it1 ++ [c]) -> passes args1 (map (fun c => [c]) it1) ds1 ->
    parse ty (snd c) = None ->
    extract_args parse i (args1 ++ ATyped ty :: args2) (it1 ++ c :: rest) = OParseFailed (i + count_typed args1).
  Proof.
    intros args1 it1 ds1 ty args2 c rest i FP HP PF.
    pose proof (parse_failure_general _ _ _ HP ty args2 [c] rest i) as X.
    rewrite concat_singletons in X. cbn [app] in X. apply X.
    - pose proof (groups_sep_plain (it1 ++ [c]) rest FP) as GS. rewrite map_app in GS. exact GS.
    - rewrite group_text_single. exact PF.
  Qed.

  Theorem too_few_groups_with_step_plain : forall args1 it1 ds1 ty args2 i,
    Forall plain it1 -> passes args1 (map (fun c => [c]) it1) ds1 ->
    extract_args parse i (args1 ++ ATyped ty :: args2) it1 = ONotFound (i + count_typed args1).
  Proof.
    intros args1 it1 ds1 ty args2 i FP HP.
    pose proof (too_few_groups_general _ _ _ HP ty args2 i (groups_sep_plain it1 [] FP)) as X.
    rewrite concat_singletons in X. exact X.
  Qed.
End A.

(* ---------- A.3 the returned Err ----------
   Glue.v stops at "the function ran with these arguments" (`ORan args`); the RESULT of the function is modelled
   in Check/C19Check.v: an attribute of the zoo carries `at_err_unless`; `Some ok` means "this function returns
   Err unless its first (displayed) argument is `ok`", `None` means "returns () / Ok".  `expected` turns that into
   the observation the real step must produce. *)
Definition returns_err (att : attr) (args : list str) : bool :=
  match at_err_unless att, args with
  | Some ok, first :: _ => negb (str_eqb first ok)
  | _, _ => false
  end.

(* what `expected` is, for the one attribute that matches *)
Lemma expected_single : forall c p a att,
  pr_cands p = [a] -> find (fun x => at_id x =? a) (g_attrs c) = Some att ->
  expected c p =
  (match run_glue (parse_of c) (at_sig att) (pr_matches p) with
   | ORan args => if returns_err att args then ObErr (at_fn att) args else ObRan (at_fn att) args
   | ONotFound _ => ObNotFound (at_fn att)
   | OParseFailed _ => ObParse (at_fn att)
   end, Some a).
Proof.
  intros c p a att HC HF. unfold expected. rewrite HC, HF. f_equal.
  destruct (run_glue (parse_of c) (at_sig att) (pr_matches p)) as [args|i|i]; try reflexivity.
  unfold returns_err. destruct (at_err_unless att) as [ok|]; [|reflexivity].
  destruct args as [|first rest]; [reflexivity|]. destruct (str_eqb first ok); reflexivity.
Qed.

(* the expected observation is "the step panicked with the function's Err" EXACTLY WHEN the glue ran the function
   (all arguments extracted and parsed) and the function returned Err on those arguments *)
Theorem err_iff_function_returns_err : forall c p a att fn args,
  pr_cands p = [a] -> find (fun x => at_id x =? a) (g_attrs c) = Some att ->
  (fst (expected c p) = ObErr fn args <->
   fn = at_fn att /\ run_glue (parse_of c) (at_sig att) (pr_matches p) = ORan args /\ returns_err att args = true).
Proof.
  intros c p a att fn args HC HF. rewrite (expected_single c p a att HC HF). cbn [fst].
  destruct (run_glue (parse_of c) (at_sig att) (pr_matches p)) as [args'|i|i].
  - destruct (returns_err att args') eqn:RE; split.
    + intros E. inversion E; subst. auto.
    + intros (-> & E & _). inversion E; subst. reflexivity.
    + intros E. discriminate.
    + intros (_ & E & RE'). inversion E; subst. rewrite RE in RE'. discriminate.
  - split; [discriminate | intros (_ & E & _); discriminate].
  - split; [discriminate | intros (_ & E & _); discriminate].
Qed.

(* ... and it is "ran normally" exactly when the function ran and did NOT return Err *)
Theorem ran_iff_function_returns_ok : forall c p a att fn args,
  pr_cands p = [a] -> find (fun x => at_id x =? a) (g_attrs c) = Some att ->
  (fst (expected c p) = ObRan fn args <->
   fn = at_fn att /\ run_glue (parse_of c) (at_sig att) (pr_matches p) = ORan args /\ returns_err att args = false).
Proof.
  intros c p a att fn args HC HF. rewrite (expected_single c p a att HC HF). cbn [fst].
  destruct (run_glue (parse_of c) (at_sig att) (pr_matches p)) as [args'|i|i].
  - destruct (returns_err att args') eqn:RE; split.
    + intros E. discriminate.
    + intros (_ & E & RE'). inversion E; subst. rewrite RE in RE'. discriminate.
    + intros E. inversion E; subst. auto.
    + intros (-> & E & _). inversion E; subst. reflexivity.
  - split; [discriminate | intros (_ & E & _); discriminate].
  - split; [discriminate | intros (_ & E & _); discriminate].
Qed.

Lemma obs_eqb_err_inv f x o : obs_eqb (ObErr f x) o = true -> o = ObErr f x.
Proof.
  destruct o as [| |g y|g|g|g y]; cbn; try discriminate.
  intros H. apply andb_prop in H as [H1 H2]. apply N.eqb_eq in H1.
  apply (proj1 (list_eqb_spec str_eqb str_eqb_eq x y)) in H2. subst. reflexivity.
Qed.

(* the verdict of C19Check accepts an observation only if it equals the expected one: when the function returns
   Err, the only accepted observation is "the step panicked with that Err" — an Err that was ignored (the step
   observed as having run normally, `ObRan`) is rejected *)
Theorem returned_err_must_fail_the_step : forall c p a att args,
  pr_cands p = [a] -> find (fun x => at_id x =? a) (g_attrs c) = Some att ->
  run_glue (parse_of c) (at_sig att) (pr_matches p) = ORan args -> returns_err att args = true ->
  obs_eqb (fst (expected c p)) (pr_obs p) = true -> pr_obs p = ObErr (at_fn att) args.
Proof.
  intros c p a att args HC HF HR HE HO.
  assert (E : fst (expected c p) = ObErr (at_fn att) args)
    by (apply (err_iff_function_returns_err c p a att); auto).
  rewrite E in HO. apply obs_eqb_err_inv. exact HO.
Qed.

(* ---------- A.4 non-vacuity ---------- *)
(* a FromStr oracle: type 1 = u32 (decimal digits only, non-empty), every other type = String *)
Definition ex_is_digit (ch : N) : bool := (48 <=? ch) && (ch <=? 57).
Definition ex_parse (ty : N) (s : str) : option str :=
  if ty =? 1 then (if negb (is_nil s) && forallb ex_is_digit s then Some s else None) else Some s.
Definition ex_it : list cap := [(None, lit "3"); (None, lit "dog")].

(* fn(u32, String) on "3 and dog": the case the old hypothesis excluded (u32 does not parse "dog") *)
Example ex_u32_string_runs :
  run_glue ex_parse (SArgs [ATyped 1; ATyped 2]) ((None, lit "3 and dog") :: ex_it) = ORan [lit "3"; lit "dog"].
Proof. vm_compute. reflexivity. Qed.

Example ex_old_hypothesis_fails :
  ~ (forall ty c, In ty [1; 2] -> In c ex_it -> ex_parse ty (snd c) <> None).
Proof. intros H. apply (H 1 (None, lit "dog")); [left; reflexivity | right; left; reflexivity | vm_compute; reflexivity]. Qed.

Example ex_new_hypotheses_hold :
  Forall plain ex_it /\ Forall2 (fun ty (c : cap) => ex_parse ty (snd c) <> None) [1; 2] ex_it.
Proof. split; repeat constructor; vm_compute; discriminate. Qed.

(* the theorem, instantiated: it yields exactly the computed outcome *)
Example ex_pointwise_instance :
  exists ds, extract_args ex_parse 0 (map ATyped [1; 2]) (ex_it ++ []) = ORan ds /\ length ds = 2%nat /\
             map Some ds = [Some (lit "3"); Some (lit "dog")].
Proof.
  destruct (args_in_order_pointwise ex_parse [1; 2] ex_it (proj2 ex_new_hypotheses_hold) [] 0%nat
              (proj1 ex_new_hypotheses_hold)) as (ds & E & L & M).
  exists ds. split; [exact E | split; [exact L | exact M]].
Qed.

(* swapped types (String, u32) on the same text: u32 meets "dog" at ITS position, the step panics *)
Example ex_string_u32_panics :
  run_glue ex_parse (SArgs [ATyped 2; ATyped 1]) ((None, lit "3 and dog") :: ex_it) = OParseFailed 1.
Proof. vm_compute. reflexivity. Qed.

(* a #[step] argument between two typed ones, the first of which is a two-group family whose first group is empty *)
Definition ex_fam : list cap := [(Some (lit "__0_0"), []); (Some (lit "__0_1"), lit "dog")].
Example ex_step_and_family_runs :
  run_glue ex_parse (SArgs [ATyped 2; AStep; ATyped 1])
           ((None, lit "a dog and 3") :: ex_fam ++ [(None, lit "3")])
  = ORan [lit "dog"; lit "<step>"; lit "3"].
Proof. vm_compute. reflexivity. Qed.

Example ex_step_and_family_hypotheses :
  passes ex_parse [ATyped 2; AStep; ATyped 1] [ex_fam; [(None, lit "3")]] [lit "dog"; lit "<step>"; lit "3"] /\
  groups_sep [ex_fam; [(None, lit "3")]] [].
Proof.
  split.
  - apply P_typed; [vm_compute; reflexivity|]. apply P_step. apply P_typed; [vm_compute; reflexivity|]. apply P_nil.
  - cbn [groups_sep]. repeat split; try (repeat constructor; vm_compute; reflexivity); vm_compute; reflexivity.
Qed.

(* the returned Err on a concrete zoo: the function returns Err unless its first argument is "3" *)
Definition ex_case (unless : str) : gcase :=
  mk_gcase [mk_attr 7 70 (SArgs [ATyped 1; ATyped 2]) (Some unless)]
           [((1, lit "3"), Some (lit "3")); ((2, lit "dog"), Some (lit "dog"))] true [].
Definition ex_probe (o : obs) : probe := mk_probe [7] ((None, lit "3 and dog") :: ex_it) (Some 7) o.
Example ex_err_expected :
  fst (expected (ex_case (lit "4")) (ex_probe ObNone)) = ObErr 70 [lit "3"; lit "dog"] /\
  fst (expected (ex_case (lit "3")) (ex_probe ObNone)) = ObRan 70 [lit "3"; lit "dog"].
Proof. vm_compute. split; reflexivity. Qed.

(* ===================================================================================================== *)
(* B. C10 at run level: the process panic hook                                                           *)
(* ===================================================================================================== *)

Definition hook_ok (s : st) : Prop :=
  hook_suppressed s = match pc s with Awaiting | Yielded => true | NotBegun | Done => false end.

(* a loop turn either ends the loop and restores the hook, or goes on and leaves the hook as it was *)
Lemma loop_top_hook s :
  (pc (fst (loop_top s)) = Done /\ hook_suppressed (fst (loop_top s)) = false) \/
  ((pc (fst (loop_top s)) = Awaiting \/ pc (fst (loop_top s)) = Yielded) /\
   hook_suppressed (fst (loop_top s)) = hook_suppressed s).
Proof.
  unfold loop_top.
  destruct (get (match flow s with Break => Some 0%nat | Cont k => k end) s) as [[[batch qs] qc] md].
  destruct (is_nil (running s) && is_nil batch).
  - destruct (pdone s && (is_break (flow s) || (is_nil (qS s) && is_nil (qC s)))); cbn; auto.
  - destruct (start_scenarios batch (fcount s) (rcount s)) as [[o fc] rc]. cbn. auto.
Qed.

Lemma loop_top_hook_ok s : hook_suppressed s = true -> hook_ok (fst (loop_top s)).
Proof.
  intros H. unfold hook_ok. destruct (loop_top_hook s) as [[P Hk]|[[P|P] Hk]]; rewrite P, Hk; auto.
Qed.

Lemma step_hook c s l s' o : hook_ok s -> step c s l = Some (s', o) -> hook_ok s'.
Proof.
  intros HK H. unfold hook_ok in HK. destruct l; cbn [step] in H.
  - (* LFeature *)
    destruct (perrs s); [discriminate|]. inversion H; subst. clear H. unfold insert_feature.
    destruct (pf s) as [[[[a b] c0] d] e]. destruct (is_nil _); unfold hook_ok; cbn; exact HK.
  - (* LParseErr *)
    destruct (perrs s); [discriminate|]. destruct (pf s) as [[[[a b] c0] d] e]. inversion H; subst.
    unfold hook_ok; cbn; exact HK.
  - (* LParserEnd *)
    destruct (pdone s); [discriminate|]. destruct (pf s) as [[[[a b] c0] d] e]. inversion H; subst.
    unfold hook_ok; cbn; exact HK.
  - (* LTop *)
    destruct (pc s) eqn:P.
    + set (s0 := mk_st (qS s) (qC s) (pdone s) (perrs s) (flow s) (running s) (msgs s) (fcount s) (rcount s)
                       (pf s) (now s) NotBegun true) in *.
      pose proof (loop_top_hook_ok s0 eq_refl) as R. destruct (loop_top s0) as [s1 o1]. inversion H; subst. exact R.
    + destruct (remove_ended (running s)) as [r|]; [|discriminate].
      destruct (drain (cf_fail_fast c) (msgs s) (add_slot (flow s)) (fcount s) (rcount s)) as [[[o1 fl] fc] rc].
      set (s1 := upd s (qS s) (qC s) fl r [] fc rc (now s) Awaiting) in *.
      pose proof (loop_top_hook_ok s1 HK) as R. destruct (loop_top s1) as [s2 o2]. inversion H; subst. exact R.
    + pose proof (loop_top_hook_ok s HK) as R. destruct (loop_top s) as [s1 o1]. inversion H; subst. exact R.
    + discriminate.
  - (* LAttStart *)
    destruct (set_phase k Dispatched Opened (running s)) as [[e r]|]; [|discriminate]. inversion H; subst.
    unfold hook_ok; cbn; exact HK.
  - (* LAttEv *)
    destruct (is_middle x); [|discriminate]. destruct (find_open k (running s)); [|discriminate].
    inversion H; subst. exact HK.
  - (* LAttEnd: whether or not the attempt panicked (`failed`) *)
    destruct (set_phase k Opened Ended (running s)) as [[e r]|]; [|discriminate].
    destruct (next_try e failed (now s)) as [e'|]; [destruct (e_serial e')|]; inversion H; subst;
      unfold hook_ok; cbn; exact HK.
  - (* LTick *)
    inversion H; subst. unfold hook_ok; cbn; exact HK.
Qed.

Lemma exec_from_hook c : forall ls s s' o, hook_ok s -> exec_from c s ls = Some (s', o) -> hook_ok s'.
Proof.
  induction ls as [|l t IH]; intros s s' o HK H; cbn [exec_from] in H; [inversion H; subst; exact HK|].
  destruct (step c s l) as [[s1 o1]|] eqn:E; [|discriminate].
  destruct (exec_from c s1 t) as [[s2 o2]|] eqn:E2; [|discriminate]. inversion H; subst.
  eapply IH; [eapply step_hook; eauto | exact E2].
Qed.

(* in EVERY reachable state the process panic hook is replaced exactly while the loop has begun and not ended —
   whatever panics happen in attempts (`LAttEnd _ true`) in between *)
Theorem hook_suppressed_iff_loop_active c ls s tr :
  exec c ls = Some (s, tr) ->
  (hook_suppressed s = true <-> (pc s = Awaiting \/ pc s = Yielded)).
Proof.
  intros H. assert (HK : hook_ok s) by (eapply exec_from_hook; [|exact H]; reflexivity).
  unfold hook_ok in HK. rewrite HK. destruct (pc s); split; auto; try discriminate; intros [X|X]; discriminate.
Qed.

Corollary hook_untouched_before_the_loop c ls s tr :
  exec c ls = Some (s, tr) -> pc s = NotBegun -> hook_suppressed s = false.
Proof.
  intros H P. destruct (hook_suppressed s) eqn:E; [|reflexivity].
  apply (hook_suppressed_iff_loop_active c ls s tr H) in E. rewrite P in E. destruct E; discriminate.
Qed.

Corollary hook_restored_after_the_loop c ls s tr :
  exec c ls = Some (s, tr) -> pc s = Done -> hook_suppressed s = false.
Proof.
  intros H P. destruct (hook_suppressed s) eqn:E; [|reflexivity].
  apply (hook_suppressed_iff_loop_active c ls s tr H) in E. rewrite P in E. destruct E; discriminate.
Qed.

(* "before the first loop turn" on the label list: only LTop moves the program counter *)
Lemma step_pc_not_top c s l s' o : l <> LTop -> step c s l = Some (s', o) -> pc s' = pc s.
Proof.
  intros NT H. destruct l; cbn [step] in H.
  - destruct (perrs s); [discriminate|]. inversion H; subst. clear H. unfold insert_feature.
    destruct (pf s) as [[[[a b] c0] d] e]. destruct (is_nil _); reflexivity.
  - destruct (perrs s); [discriminate|]. destruct (pf s) as [[[[a b] c0] d] e]. inversion H; subst. reflexivity.
  - destruct (pdone s); [discriminate|]. destruct (pf s) as [[[[a b] c0] d] e]. inversion H; subst. reflexivity.
  - contradiction NT; reflexivity.
  - destruct (set_phase k Dispatched Opened (running s)) as [[e r]|]; [|discriminate]. inversion H; subst. reflexivity.
  - destruct (is_middle x); [|discriminate]. destruct (find_open k (running s)); [|discriminate].
    inversion H; subst. reflexivity.
  - destruct (set_phase k Opened Ended (running s)) as [[e r]|]; [|discriminate].
    destruct (next_try e failed (now s)) as [e'|]; [destruct (e_serial e')|]; inversion H; subst; reflexivity.
  - inversion H; subst. reflexivity.
Qed.

Lemma exec_from_pc_no_top c : forall ls s s' o,
  ~ In LTop ls -> exec_from c s ls = Some (s', o) -> pc s' = pc s.
Proof.
  induction ls as [|l t IH]; intros s s' o NT H; cbn [exec_from] in H; [inversion H; subst; reflexivity|].
  destruct (step c s l) as [[s1 o1]|] eqn:E; [|discriminate].
  destruct (exec_from c s1 t) as [[s2 o2]|] eqn:E2; [|discriminate]. inversion H; subst.
  rewrite (IH s1 s' o2); [|intros X; apply NT; right; exact X | exact E2].
  eapply step_pc_not_top; [|exact E]. intros ->. apply NT. left. reflexivity.
Qed.

Theorem hook_untouched_before_first_turn c ls s tr :
  ~ In LTop ls -> exec c ls = Some (s, tr) -> pc s = NotBegun /\ hook_suppressed s = false.
Proof.
  intros NT H. assert (P : pc s = NotBegun) by (apply (exec_from_pc_no_top c ls _ _ _ NT H)).
  split; [exact P | eapply hook_untouched_before_the_loop; eauto].
Qed.

(* non-vacuity: a run with three panicking attempts (two retries) and a passing scenario; the hook flag and the
   program counter after every prefix of the label list *)
Definition exB_c := mk_cfg (Some 1%nat) false.
Definition exB_ls : list label :=
  let f := mk_sfeature 1 [mk_sscen 11 None false (Some (2, None)); mk_sscen 12 None false None] 0 2 in
  [LFeature f; LParserEnd; LTop; LAttStart (11, 0); LAttEnd (11, 0) true; LTop; LAttStart (11, 1);
   LAttEnd (11, 1) true; LTop; LAttStart (11, 2); LAttEnd (11, 2) true; LTop; LAttStart (12, 0);
   LAttEnd (12, 0) false; LTop].
Definition exB_trace : list (option (bool * pcT)) :=
  map (fun n => match exec exB_c (firstn n exB_ls) with
                | Some (s, _) => Some (hook_suppressed s, pc s)
                | None => None
                end) (seq 0 (S (length exB_ls))).
Example exB_hook_trace :
  exB_trace =
  [Some (false, NotBegun); Some (false, NotBegun); Some (false, NotBegun);
   Some (true, Awaiting); Some (true, Awaiting); Some (true, Awaiting); Some (true, Awaiting);
   Some (true, Awaiting); Some (true, Awaiting); Some (true, Awaiting); Some (true, Awaiting);
   Some (true, Awaiting); Some (true, Awaiting); Some (true, Awaiting); Some (true, Awaiting);
   Some (false, Done)].
Proof. vm_compute. reflexivity. Qed.

(* ===================================================================================================== *)
(* C. "without fail-fast": the flow never breaks                                                         *)
(* ===================================================================================================== *)

Lemma drain_no_ff ms : forall fl fc rc,
  let '(_, fl', _, _) := drain false ms fl fc rc in fl' = fl.
Proof.
  induction ms as [|m t IH]; intros fl fc rc; cbn [drain]; [reflexivity|].
  destruct (finish_msg m fc rc) as [[o fc1] rc1]. cbn [andb].
  specialize (IH fl fc1 rc1). destruct (drain false t fl fc1 rc1) as [[[o2 fl2] fc2] rc2]. exact IH.
Qed.

Lemma loop_top_nb s : flow s <> Break -> flow (fst (loop_top s)) <> Break.
Proof.
  intros NB. unfold loop_top.
  destruct (get (match flow s with Break => Some 0%nat | Cont k => k end) s) as [[[batch qs] qc] md].
  destruct (is_nil (running s) && is_nil batch).
  - destruct (pdone s && (is_break (flow s) || (is_nil (qS s) && is_nil (qC s)))); cbn; exact NB.
  - destruct (start_scenarios batch (fcount s) (rcount s)) as [[o fc] rc]. cbn.
    destruct (flow s) as [|[n|]]; cbn; congruence.
Qed.

Lemma step_nb c s l s' o :
  cf_fail_fast c = false -> flow s <> Break -> step c s l = Some (s', o) -> flow s' <> Break.
Proof.
  intros FF NB H. destruct l; cbn [step] in H.
  - destruct (perrs s); [discriminate|]. inversion H; subst. clear H. unfold insert_feature.
    destruct (pf s) as [[[[a b] c0] d] e]. destruct (is_nil _); cbn; exact NB.
  - destruct (perrs s); [discriminate|]. destruct (pf s) as [[[[a b] c0] d] e]. inversion H; subst. cbn. exact NB.
  - destruct (pdone s); [discriminate|]. destruct (pf s) as [[[[a b] c0] d] e]. inversion H; subst. cbn. exact NB.
  - destruct (pc s) eqn:P.
    + set (s0 := mk_st (qS s) (qC s) (pdone s) (perrs s) (flow s) (running s) (msgs s) (fcount s) (rcount s)
                       (pf s) (now s) NotBegun true) in *.
      pose proof (loop_top_nb s0 NB) as R. destruct (loop_top s0) as [s1 o1]. inversion H; subst. exact R.
    + destruct (remove_ended (running s)) as [r|]; [|discriminate]. rewrite FF in H.
      pose proof (drain_no_ff (msgs s) (add_slot (flow s)) (fcount s) (rcount s)) as DF.
      destruct (drain false (msgs s) (add_slot (flow s)) (fcount s) (rcount s)) as [[[o1 fl] fc] rc]. subst fl.
      set (s1 := upd s (qS s) (qC s) (add_slot (flow s)) r [] fc rc (now s) Awaiting) in *.
      assert (NB1 : flow s1 <> Break) by (cbn; destruct (flow s) as [|[n|]]; cbn; congruence).
      pose proof (loop_top_nb s1 NB1) as R. destruct (loop_top s1) as [s2 o2]. inversion H; subst. exact R.
    + pose proof (loop_top_nb s NB) as R. destruct (loop_top s) as [s1 o1]. inversion H; subst. exact R.
    + discriminate.
  - destruct (set_phase k Dispatched Opened (running s)) as [[e r]|]; [|discriminate]. inversion H; subst. cbn. exact NB.
  - destruct (is_middle x); [|discriminate]. destruct (find_open k (running s)); [|discriminate].
    inversion H; subst. exact NB.
  - destruct (set_phase k Opened Ended (running s)) as [[e r]|]; [|discriminate].
    destruct (next_try e failed (now s)) as [e'|]; [destruct (e_serial e')|]; inversion H; subst; cbn; exact NB.
  - inversion H; subst. cbn. exact NB.
Qed.

Lemma exec_from_nb c : forall ls s s' o,
  cf_fail_fast c = false -> flow s <> Break -> exec_from c s ls = Some (s', o) -> flow s' <> Break.
Proof.
  induction ls as [|l t IH]; intros s s' o FF NB H; cbn [exec_from] in H; [inversion H; subst; exact NB|].
  destruct (step c s l) as [[s1 o1]|] eqn:E; [|discriminate].
  destruct (exec_from c s1 t) as [[s2 o2]|] eqn:E2; [|discriminate]. inversion H; subst.
  eapply IH; [exact FF | eapply step_nb; eauto | exact E2].
Qed.

(* THE BRIDGE: without fail-fast the flow is never broken, in any reachable state *)
Theorem no_fail_fast_no_break c ls s tr :
  cf_fail_fast c = false -> exec c ls = Some (s, tr) -> flow s <> Break.
Proof. intros FF H. eapply exec_from_nb; [exact FF | | exact H]. cbn. discriminate. Qed.

(* C04 conservation, with the hypothesis on the CONFIGURATION instead of the internal state *)
Theorem all_supplied_started_no_ff c ls s tr :
  cf_fail_fast c = false -> exec c ls = Some (s, tr) -> pc s = Done ->
  forall x, In x (inserted_ids ls) -> In x (started_ids tr).
Proof.
  intros FF H D. exact (all_supplied_started c ls s tr H D (no_fail_fast_no_break c ls s tr FF H)).
Qed.

(* C05 "whenever", likewise *)
Theorem failure_with_retries_left_is_retried_no_ff c ls1 k ls2 s tr s1 tr1 s2 f r sc cu l :
  cf_fail_fast c = false ->
  exec c (ls1 ++ LAttEnd k true :: ls2) = Some (s, tr) -> pc s = Done ->
  exec c ls1 = Some (s1, tr1) ->
  step c s1 (LAttEnd k true) = Some (s2, [EvScen f r sc (Some (cu, l)) ScFinished]) -> 0 < l ->
  exists mid post,
    tr = tr1 ++ EvScen f r sc (Some (cu, l)) ScFinished :: mid ++ EvScen f r sc (Some (cu + 1, l - 1)) ScStarted :: post.
Proof.
  intros FF H D H1 ST L.
  exact (failure_with_retries_left_is_retried c ls1 k ls2 s tr s1 tr1 s2 f r sc cu l H D
           (no_fail_fast_no_break c _ s tr FF H) H1 ST L).
Qed.

(* ... and on the annotated run *)
Theorem failure_with_retries_left_is_retried_run_no_ff c ls s h :
  cf_fail_fast c = false -> run c ls = Some (s, h) -> pc s = Done ->
  forall h1 h2 k f r sc cu l,
    h = h1 ++ (LAttEnd k true, [EvScen f r sc (Some (cu, l)) ScFinished]) :: h2 -> 0 < l ->
    In (att_start f r sc (cu + 1) (l - 1)) h2.
Proof.
  intros FF R D. apply (failure_with_retries_left_is_retried_run c ls s h R D).
  pose proof R as R'. unfold run in R'. apply run_from_exec in R' as [X _].
  exact (no_fail_fast_no_break c ls s (out_of h) FF X).
Qed.

(* non-vacuity of the bridge's premise on the run of part B (fail-fast off, three failed attempts, run ended) *)
Example exC_run_ends_unbroken :
  match exec exB_c exB_ls with
  | Some (s, _) => (cf_fail_fast exB_c, match pc s with Done => true | _ => false end, is_break (flow s))
  | None => (true, false, true)
  end = (false, true, false).
Proof. vm_compute. reflexivity. Qed.

(* the hypothesis cannot be dropped: with fail-fast the same labels up to the first failure break the flow *)
Example exC_fail_fast_breaks :
  match exec (mk_cfg (Some 1%nat) true)
             [LFeature (mk_sfeature 1 [mk_sscen 11 None false None; mk_sscen 12 None false None] 0 2);
              LParserEnd; LTop; LAttStart (11, 0); LAttEnd (11, 0) true; LTop] with
  | Some (s, _) => (is_break (flow s), match pc s with Done => true | _ => false end)
  | None => (false, false)
  end = (true, true).
Proof. vm_compute. reflexivity. Qed.

Print Assumptions args_in_order_pointwise.
Print Assumptions args_general_nth.
Print Assumptions parse_failure_general.
Print Assumptions too_few_groups_general.
Print Assumptions run_glue_slice.
Print Assumptions segmentation_exists.
Print Assumptions returned_err_must_fail_the_step.
Print Assumptions hook_suppressed_iff_loop_active.
Print Assumptions hook_untouched_before_first_turn.
Print Assumptions no_fail_fast_no_break.
Print Assumptions all_supplied_started_no_ff.
Print Assumptions failure_with_retries_left_is_retried_no_ff.
Print Assumptions failure_with_retries_left_is_retried_run_no_ff.
