(* TracingP.v — the log-forwarding protocol delivers every log of a step before the step's result (C20). *)
From CV Require Import Model.Base Model.Tracing Proofs.BaseP.
From Coq Require Import Lia.

Definition incl_b (a b : list N) : Prop := forall x, memN x a = true -> memN x b = true.

Lemma memN_app x a b : memN x (a ++ b) = memN x a || memN x b.
Proof. unfold memN. apply existsb_app. Qed.
Lemma memN_in x l : memN x l = true <-> In x l.
Proof.
  unfold memN. rewrite existsb_exists. split.
  - intros (y & Hy & E). apply N.eqb_eq in E. subst. exact Hy.
  - intros H. exists x. split; [exact H | apply N.eqb_refl].
Qed.

(* ---- spans whose close has been seen are closed spans ---- *)
Definition spans_ok (s : tstate) : Prop :=
  (forall x, In x (t_closes s) -> memN x (t_closed s) = true) /\
  (forall x cb, In (x, (cb, true)) (t_spans s) -> memN x (t_closed s) = true) /\
  (forall x, memN x (t_released s) = true -> memN x (t_closed s) = true).

Lemma upd_span_received x f l y cb :
  (forall v, snd (f v) = true \/ snd (f v) = snd v) ->
  In (y, (cb, true)) (upd_span x f l) -> y = x \/ exists cb', In (y, (cb', true)) l.
Proof.
  intros Hf. induction l as [|[z v] t IH]; cbn.
  - intros [E|[]]. inversion E; auto.
  - destruct (x =? z) eqn:XZ.
    + intros [E|H].
      * inversion E; subst. apply N.eqb_eq in XZ. auto.
      * right. exists cb. right. exact H.
    + intros [E|H].
      * inversion E; subst. right. exists cb. left. reflexivity.
      * destruct (IH H) as [->|(cb' & H')]; auto. right. exists cb'. right. exact H'.
Qed.

Lemma upd_span_keeps_received x l y cb :
  In (y, (cb, true)) (upd_span x (fun v => (true, snd v)) l) -> exists cb', In (y, (cb', true)) l.
Proof.
  induction l as [|[z v] t IH]; cbn.
  - intros [E|[]]. inversion E.
  - destruct (x =? z) eqn:XZ.
    + intros [E|H].
      * inversion E; subst. exists (fst v). left. destruct v; reflexivity.
      * exists cb. right. exact H.
    + intros [E|H].
      * inversion E; subst. exists cb. left. reflexivity.
      * destruct (IH H) as (cb' & H'). exists cb'. right. exact H'.
Qed.

Lemma fold_waits_keeps_received ws : forall l y cb,
  In (y, (cb, true)) (fold_left (fun acc x => upd_span x (fun v => (true, snd v)) acc) ws l) ->
  exists cb', In (y, (cb', true)) l.
Proof.
  induction ws as [|w ws IH]; intros l y cb H; cbn in H; [eauto|].
  destruct (IH _ _ _ H) as (cb1 & H1). eapply upd_span_keeps_received; eauto.
Qed.

Lemma notify_spec s : spans_ok s ->
  spans_ok (notify s) /\ t_logs (notify s) = t_logs s /\ t_closed (notify s) = t_closed s /\
  incl_b (t_released s) (t_released (notify s)).
Proof.
  intros (C & R & L). unfold notify.
  destruct (t_closes s) as [|x cl] eqn:CL.
  - (* no close to process *)
    set (sp2 := fold_left _ (t_waits s) (t_spans s)).
    split; [|split; [reflexivity|split; [reflexivity|]]].
    + split; [|split].
      * cbn [t_closes t_waits t_spans t_closed t_released t_logs]. intros y [].
      * cbn [t_closes t_waits t_spans t_closed t_released t_logs]. intros y cb H. apply filter_In in H as [H _].
        destruct (fold_waits_keeps_received _ _ _ _ H) as (cb' & H'). eapply R; eauto.
      * cbn [t_closes t_waits t_spans t_closed t_released t_logs]. intros y H. rewrite memN_app in H. apply orb_prop in H as [H|H]; [apply L; exact H|].
        apply memN_in, in_map_iff in H as ((z & (cb & rc)) & E & H). cbn in E. subst z.
        apply filter_In in H as [H F]. cbn [fst snd] in F. apply andb_prop in F as [_ F]. subst rc.
        destruct (fold_waits_keeps_received _ _ _ _ H) as (cb' & H'). eapply R; eauto.
    + intros y H. cbn [t_closes t_waits t_spans t_closed t_released t_logs]. rewrite memN_app, H. reflexivity.
  - assert (CX : memN x (t_closed s) = true) by (apply C; left; reflexivity).
    set (sp1 := upd_span x (fun v => (fst v, true)) (t_spans s)).
    assert (R1 : forall y cb, In (y, (cb, true)) sp1 -> memN y (t_closed s) = true).
    { intros y cb H. apply upd_span_received in H as [->|(cb' & H')]; [exact CX | eapply R; eauto |].
      intros v. left. reflexivity. }
    set (sp2 := fold_left _ (t_waits s) sp1).
    split; [|split; [reflexivity|split; [reflexivity|]]].
    + split; [|split].
      * cbn [t_closes t_waits t_spans t_closed t_released t_logs]. intros y H. apply C. right. exact H.
      * cbn [t_closes t_waits t_spans t_closed t_released t_logs]. intros y cb H. apply filter_In in H as [H _].
        destruct (fold_waits_keeps_received _ _ _ _ H) as (cb' & H'). eapply R1; eauto.
      * cbn [t_closes t_waits t_spans t_closed t_released t_logs]. intros y H. rewrite memN_app in H. apply orb_prop in H as [H|H]; [apply L; exact H|].
        apply memN_in, in_map_iff in H as ((z & (cb & rc)) & E & H). cbn in E. subst z.
        apply filter_In in H as [H F]. cbn [fst snd] in F. apply andb_prop in F as [_ F]. subst rc.
        destruct (fold_waits_keeps_received _ _ _ _ H) as (cb' & H'). eapply R1; eauto.
    + intros y H. cbn [t_closes t_waits t_spans t_closed t_released t_logs]. rewrite memN_app, H. reflexivity.
Qed.

Lemma fwd_call_spec s : spans_ok s ->
  spans_ok (fst (fwd_call s)) /\ t_closed (fst (fwd_call s)) = t_closed s /\
  incl_b (t_released s) (t_released (fst (fwd_call s))) /\
  match t_logs s with
  | l :: t => t_logs (fst (fwd_call s)) = t /\ snd (fwd_call s) = Some (TLog (l_scen l) (l_msg l))
  | [] => t_logs (fst (fwd_call s)) = [] /\ snd (fwd_call s) = None
  end.
Proof.
  intros OK. destruct (notify_spec s OK) as ((C & R & L) & LG & CD & RL). unfold fwd_call.
  rewrite LG. destruct (t_logs s) as [|l t]; cbn.
  - split; [split; [exact C|split; [exact R|exact L]]|]. split; [exact CD|]. split; [exact RL|]. split; [exact LG|reflexivity] || auto.
  - split; [split; [exact C|split; [exact R|exact L]]|]. split; [exact CD|]. split; [exact RL|]. auto.
Qed.

(* a run of the forwarder loop forwards ALL queued logs, in order *)
Lemma fwd_loop_spec : forall fuel s, spans_ok s -> (length (t_logs s) < fuel)%nat ->
  spans_ok (fst (fwd_loop fuel s)) /\ t_closed (fst (fwd_loop fuel s)) = t_closed s /\
  incl_b (t_released s) (t_released (fst (fwd_loop fuel s))) /\
  t_logs (fst (fwd_loop fuel s)) = [] /\
  snd (fwd_loop fuel s) = map (fun l => TLog (l_scen l) (l_msg l)) (t_logs s).
Proof.
  induction fuel as [|k IH]; intros s OK LT; [lia|]. cbn [fwd_loop].
  destruct (fwd_call_spec s OK) as (OK1 & CD & RL & LG). destruct (fwd_call s) as [s1 o]. cbn [fst snd] in *.
  destruct (t_logs s) as [|l t] eqn:E.
  - destruct LG as [LG ->]. cbn. auto.
  - destruct LG as [LG ->]. cbn in LT.
    destruct (IH s1 OK1) as (OK2 & CD2 & RL2 & LG2 & O2); [rewrite LG; lia|].
    destruct (fwd_loop k s1) as [s2 os]. cbn [fst snd] in *.
    split; [exact OK2|]. split; [congruence|]. split; [intros y H; apply RL2, RL, H|].
    split; [exact LG2|]. rewrite O2, LG. reflexivity.
Qed.

(* ---- the main invariant ---- *)
Definition emitted (ls : list tlabel) : list log :=
  flat_map (fun l => match l with TEmit sc m x => [mk_log sc m x] | _ => [] end) ls.

Definition inv (ls : list tlabel) (s : tstate) (out : list tout) : Prop :=
  spans_ok s /\
  (* a queued log belongs to a span that has not been released *)
  (forall l, In l (t_logs s) -> memN (l_span l) (t_released s) = false) /\
  (* every emitted log is either still queued or has been forwarded *)
  (forall l, In l (emitted ls) -> In l (t_logs s) \/ In (TLog (l_scen l) (l_msg l)) out).

Lemma emitted_app a b : emitted (a ++ b) = emitted a ++ emitted b.
Proof. unfold emitted. apply flat_map_app. Qed.

Lemma tstep_inv ls s out l s' o :
  inv ls s out -> tstep s l = Some (s', o) -> inv (ls ++ [l]) s' (out ++ o).
Proof.
  intros (OK & Q & E) H. destruct OK as (C & R & L). destruct l; cbn [tstep] in H.
  - (* TEmit *)
    destruct (memN span (t_closed s)) eqn:CL; [discriminate|]. inversion H; subst. clear H.
    split; [split; [exact C|split; [exact R|exact L]]|]. split.
    + cbn [t_logs t_released]. intros l Hl. apply in_app_or in Hl as [Hl|[<-|[]]]; [apply Q; exact Hl|]. cbn [l_span].
      destruct (memN span (t_released s)) eqn:RL; [|reflexivity]. rewrite (L _ RL) in CL. discriminate.
    + intros l Hl. rewrite emitted_app in Hl. apply in_app_or in Hl as [Hl|Hl].
      * destruct (E l Hl) as [A|B]; [left; cbn [t_logs]; apply in_or_app; left; exact A | right; apply in_or_app; left; exact B].
      * cbn in Hl. destruct Hl as [<-|[]]. left. cbn [t_logs]. apply in_or_app. right. left. reflexivity.
  - (* TClose *)
    destruct (memN span (t_closed s)) eqn:CL; [discriminate|]. inversion H; subst. clear H.
    assert (MC : forall y, memN y (span :: t_closed s) = (y =? span) || memN y (t_closed s)) by reflexivity.
    split; [|split].
    + split; [|split]; cbn [t_closes t_spans t_closed t_released].
      * intros x Hx. rewrite MC. apply in_app_or in Hx as [Hx|[<-|[]]].
        -- rewrite (C x Hx). apply orb_true_r.
        -- rewrite N.eqb_refl. reflexivity.
      * intros x cb Hx. rewrite MC, (R x cb Hx). apply orb_true_r.
      * intros x Hx. rewrite MC, (L x Hx). apply orb_true_r.
    + exact Q.
    + intros l Hl. rewrite emitted_app in Hl. cbn in Hl. rewrite app_nil_r in Hl. rewrite app_nil_r. exact (E l Hl).
  - (* TSub *)
    inversion H; subst. clear H.
    split; [split; [exact C|split; [exact R|exact L]]|]. split; [exact Q|].
    intros l Hl. rewrite emitted_app in Hl. cbn in Hl. rewrite app_nil_r in Hl. rewrite app_nil_r. exact (E l Hl).
  - (* TFwd *)
    destruct (fwd_loop_spec (S (length (t_logs s))) s (conj C (conj R L))) as (OK2 & CD & RL & LG & O); [lia|].
    destruct (fwd_loop (S (length (t_logs s))) s) as [s2 o2]. cbn [fst snd] in *.
    assert (s' = s2 /\ o = o2) as [-> ->] by (inversion H; auto). clear H.
    split; [exact OK2|]. split.
    + rewrite LG. intros l [].
    + intros l Hl. rewrite emitted_app in Hl. cbn in Hl. rewrite app_nil_r in Hl.
      right. apply in_or_app. destruct (E l Hl) as [A|B]; [right | left; exact B].
      rewrite O. apply in_map_iff. exists l. split; [reflexivity|exact A].
  - (* TResult *)
    destruct (memN span (t_released s)); [|discriminate]. inversion H; subst. clear H.
    split; [split; [exact C|split; [exact R|exact L]]|]. split; [exact Q|].
    intros l Hl. rewrite emitted_app in Hl. cbn in Hl. rewrite app_nil_r in Hl.
    destruct (E l Hl) as [A|B]; [left; exact A | right; apply in_or_app; left; exact B].
Qed.

Lemma texec_inv : forall ls2 ls1 s out s' o,
  inv ls1 s out -> texec s ls2 = Some (s', o) -> inv (ls1 ++ ls2) s' (out ++ o).
Proof.
  induction ls2 as [|l t IH]; intros ls1 s out s' o I H; cbn [texec] in H.
  - inversion H; subst. rewrite !app_nil_r. exact I.
  - destruct (tstep s l) as [[s1 o1]|] eqn:S1; [|discriminate].
    destruct (texec s1 t) as [[s2 o2]|] eqn:S2; [|discriminate]. inversion H; subst.
    replace (ls1 ++ l :: t) with ((ls1 ++ [l]) ++ t) by (rewrite <- app_assoc; reflexivity).
    rewrite app_assoc. eapply IH; [eapply tstep_inv; eauto | exact S2].
Qed.

Lemma init_inv : inv [] tinit [].
Proof. split; [split; [|split]; cbn; intros; try contradiction; discriminate|]. split; cbn; intros; contradiction. Qed.

(* C20: when a step's result is emitted, every log sent inside its span has already been forwarded, to the
   scenario it was emitted for — for every interleaving of tasks and forwarder *)
Theorem logs_before_result ls1 x s1 out1 sc m :
  texec tinit ls1 = Some (s1, out1) ->
  (exists s2 o, tstep s1 (TResult x) = Some (s2, o)) ->
  In (TEmit sc m x) ls1 ->
  In (TLog sc m) out1.
Proof.
  intros H (s2 & o & R) HE.
  pose proof (texec_inv ls1 [] tinit [] s1 out1 init_inv H) as (OK & Q & E). cbn in E.
  cbn [tstep] in R. destruct (memN x (t_released s1)) eqn:RL; [|discriminate].
  assert (HL : In (mk_log sc m x) (emitted ls1)).
  { unfold emitted. apply in_flat_map. exists (TEmit sc m x). split; [exact HE|left; reflexivity]. }
  destruct (E _ HL) as [A|B]; [|exact B].
  specialize (Q _ A). cbn in Q. congruence.
Qed.

(* every forwarded Log was emitted (nothing is invented), for the scenario it was emitted for *)
Definition only_emitted (ls : list tlabel) (out : list tout) : Prop :=
  forall sc m, In (TLog sc m) out -> exists x, In (TEmit sc m x) ls.

(* ---- exactly once, in emission order ---- *)
Definition logs_of (out : list tout) : list tout :=
  filter (fun o => match o with TLog _ _ => true | _ => false end) out.
Definition as_out (l : log) : tout := TLog (l_scen l) (l_msg l).

Lemma logs_of_app a b : logs_of (a ++ b) = logs_of a ++ logs_of b.
Proof. unfold logs_of. apply filter_app. Qed.
Lemma logs_of_map l : logs_of (map as_out l) = map as_out l.
Proof. induction l as [|x l IH]; [reflexivity|]. cbn. f_equal. exact IH. Qed.

(* forwarded ++ still queued = emitted, as sequences: no log is lost, duplicated or overtaken *)
Definition fifo (ls : list tlabel) (s : tstate) (out : list tout) : Prop :=
  logs_of out ++ map as_out (t_logs s) = map as_out (emitted ls).

Lemma tstep_fifo ls s out l s' o :
  inv ls s out -> fifo ls s out -> tstep s l = Some (s', o) -> fifo (ls ++ [l]) s' (out ++ o).
Proof.
  intros (OK & _ & _) F ST. unfold fifo in *. rewrite emitted_app, map_app, logs_of_app.
  destruct l as [sc m x|x|x| |x]; cbn [tstep] in ST.
  - destruct (memN x (t_closed s)); [discriminate|]. inversion ST; subst. cbn [t_logs emitted flat_map logs_of filter app map].
    rewrite app_nil_r, map_app, app_assoc, F. reflexivity.
  - destruct (memN x (t_closed s)); [discriminate|]. inversion ST; subst. cbn [t_logs emitted flat_map logs_of filter app map].
    rewrite !app_nil_r. exact F.
  - inversion ST; subst. cbn [t_logs emitted flat_map logs_of filter app map].
    rewrite !app_nil_r. exact F.
  - assert (LT : (length (t_logs s) < S (length (t_logs s)))%nat) by lia.
    destruct (fwd_loop_spec (S (length (t_logs s))) s OK LT) as (_ & _ & _ & E & O).
    destruct (fwd_loop (S (length (t_logs s))) s) as [s2 o2]. inversion ST; subst. cbn [fst snd] in E, O.
    rewrite E, O. cbn [emitted flat_map map app]. rewrite !app_nil_r. change (fun l : log => TLog (l_scen l) (l_msg l)) with as_out.
    rewrite logs_of_map. exact F.
  - destruct (memN x (t_released s)); [|discriminate]. inversion ST; subst. cbn [emitted flat_map logs_of filter app map].
    rewrite !app_nil_r. exact F.
Qed.

Theorem texec_fifo : forall ls2 ls1 s out s' o,
  inv ls1 s out -> fifo ls1 s out -> texec s ls2 = Some (s', o) -> fifo (ls1 ++ ls2) s' (out ++ o).
Proof.
  induction ls2 as [|l t IH]; intros ls1 s out s' o I F H; cbn [texec] in H.
  - inversion H; subst. rewrite !app_nil_r. exact F.
  - destruct (tstep s l) as [[s1 o1]|] eqn:S1; [|discriminate].
    destruct (texec s1 t) as [[s2 o2]|] eqn:S2; [|discriminate]. inversion H; subst.
    replace (ls1 ++ l :: t) with ((ls1 ++ [l]) ++ t) by (rewrite <- app_assoc; reflexivity).
    rewrite app_assoc. eapply IH; [eapply tstep_inv; eauto | eapply tstep_fifo; eauto | exact S2].
Qed.

(* whole runs: what has been forwarded, followed by what is still queued, is exactly what was emitted, in order *)
Theorem logs_exactly_once_in_order ls s out :
  texec tinit ls = Some (s, out) -> logs_of out ++ map as_out (t_logs s) = map as_out (emitted ls).
Proof.
  intros H. exact (texec_fifo ls [] tinit [] s out init_inv eq_refl H).
Qed.
