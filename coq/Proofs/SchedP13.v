(* SchedP13.v — C05 on whole runs of the scheduler model: "a scenario is attempted again EXACTLY WHEN its attempt
   failed and retries are left".

   Part 1 (only when): on every run, a `Started` event carrying retries (c+1, l) is preceded by the step
   `LAttEnd (sc, c) true` that emitted the `Finished` event of attempt c of the same scenario (f, r, sc), whose retries
   were (c, l+1).
   Part 2 (whenever): on a run that has ended (`pc = Done`) without a fail-fast trip (`flow <> Break`), every step
   `LAttEnd k true` that emitted `Finished` with retries (c, l), 0 < l, is followed by the step `LAttStart (sc, c+1)`
   emitting `Started` with retries (c+1, l-1) of the same scenario.

   Both are stated on the ANNOTATED run (`run`: the label list paired with what each label emitted; `run_exec` ties
   it to `exec`) and restated on `exec` / the emitted stream alone.  No hypothesis on the label list or configuration. *)
From CV Require Import Model.Base Model.Events Model.Sched
  Proofs.BaseP Proofs.SchedP Proofs.SchedP2 Proofs.SchedP3 Proofs.SchedP4.
From Coq Require Import Lia.

(* ---------- the annotated run: every label with the events it emitted ---------- *)
Definition hist := list (label * list ev).
Definition out_of (h : hist) : list ev := flat_map snd h.

Fixpoint run_from (c : cfg) (s : st) (ls : list label) : option (st * hist) :=
  match ls with
  | [] => Some (s, [])
  | l :: t =>
    match step c s l with
    | Some (s', o) => match run_from c s' t with Some (s'', h) => Some (s'', (l, o) :: h) | None => None end
    | None => None
    end
  end.
Definition run (c : cfg) (ls : list label) := run_from c (init_st c) ls.

Lemma out_of_app a b : out_of (a ++ b) = out_of a ++ out_of b.
Proof. unfold out_of. apply flat_map_app. Qed.

Lemma exec_from_run c : forall ls s s' tr,
  exec_from c s ls = Some (s', tr) -> exists h, run_from c s ls = Some (s', h) /\ map fst h = ls /\ out_of h = tr.
Proof.
  induction ls as [|l t IH]; intros s s' tr H; cbn [exec_from run_from] in *.
  - inversion H; subst. exists []. auto.
  - destruct (step c s l) as [[s1 o1]|]; [|discriminate].
    destruct (exec_from c s1 t) as [[s2 o2]|] eqn:E2; [|discriminate]. inversion H; subst.
    destruct (IH _ _ _ E2) as (h & R & M & O). rewrite R. exists ((l, o1) :: h).
    split; [reflexivity|split]; cbn [map fst out_of flat_map snd]; [rewrite M; reflexivity|].
    fold (out_of h). rewrite O. reflexivity.
Qed.

Lemma run_from_exec c : forall ls s s' h,
  run_from c s ls = Some (s', h) -> exec_from c s ls = Some (s', out_of h) /\ map fst h = ls.
Proof.
  induction ls as [|l t IH]; intros s s' h H; cbn [exec_from run_from] in *.
  - inversion H; subst. auto.
  - destruct (step c s l) as [[s1 o1]|]; [|discriminate].
    destruct (run_from c s1 t) as [[s2 h2]|] eqn:E2; [|discriminate]. inversion H; subst.
    destruct (IH _ _ _ E2) as (R & M). rewrite R. cbn [map fst out_of flat_map snd]. rewrite M. auto.
Qed.

(* `run` and `exec` are the same run *)
Theorem run_exec c ls s tr :
  exec c ls = Some (s, tr) <-> exists h, run c ls = Some (s, h) /\ out_of h = tr.
Proof.
  unfold exec, run. split.
  - intros H. destruct (exec_from_run _ _ _ _ _ H) as (h & R & _ & O). exists h. auto.
  - intros (h & R & <-). apply run_from_exec in R. apply R.
Qed.

Lemma run_from_app c : forall a b s,
  run_from c s (a ++ b) =
  match run_from c s a with
  | Some (s1, h1) => match run_from c s1 b with Some (s2, h2) => Some (s2, h1 ++ h2) | None => None end
  | None => None
  end.
Proof.
  induction a as [|l t IH]; intros b s; cbn [app run_from].
  - destruct (run_from c s b) as [[s2 h2]|]; reflexivity.
  - destruct (step c s l) as [[s1 o1]|]; [|reflexivity]. rewrite IH.
    destruct (run_from c s1 t) as [[s2 h2]|]; [|reflexivity].
    destruct (run_from c s2 b) as [[s3 h3]|]; reflexivity.
Qed.

(* an annotated run can be cut at any of its items *)
Lemma run_from_cut c : forall h1 ls s s' lab o h2,
  run_from c s ls = Some (s', h1 ++ (lab, o) :: h2) ->
  exists s1 s2, run_from c s (map fst h1) = Some (s1, h1) /\ step c s1 lab = Some (s2, o) /\
                ls = map fst h1 ++ lab :: map fst h2.
Proof.
  induction h1 as [|x h1 IH]; intros ls s s' lab o h2 H.
  - destruct ls as [|l t]; cbn [run_from app] in H; [inversion H|].
    destruct (step c s l) as [[s1 o1]|] eqn:S1; [|discriminate].
    destruct (run_from c s1 t) as [[s2 h]|] eqn:R2; [|discriminate]. inversion H; subst.
    exists s, s1. cbn [map app run_from]. apply run_from_exec in R2 as [_ M]. rewrite M. auto.
  - destruct ls as [|l t]; cbn [run_from app] in H; [inversion H|].
    destruct (step c s l) as [[s1 o1]|] eqn:S1; [|discriminate].
    destruct (run_from c s1 t) as [[s2 h]|] eqn:R2; [|discriminate]. inversion H; subst.
    destruct (IH _ _ _ _ _ _ R2) as (sa & sb & Ra & Sb & E).
    exists sa, sb. cbn [map fst app run_from]. rewrite S1, Ra, E. auto.
Qed.

(* invariants over (history so far, state) accumulate along a run *)
Section Accumulate.
  Variable c : cfg.
  Variable P : hist -> st -> Prop.
  Hypothesis P_step : forall h s l s' o, P h s -> step c s l = Some (s', o) -> P (h ++ [(l, o)]) s'.
  Lemma run_from_acc : forall ls h s s' h', P h s -> run_from c s ls = Some (s', h') -> P (h ++ h') s'.
  Proof.
    induction ls as [|l t IH]; intros h s s' h' HP H; cbn [run_from] in H.
    - inversion H; subst. rewrite app_nil_r. exact HP.
    - destruct (step c s l) as [[s1 o1]|] eqn:S1; [|discriminate].
      destruct (run_from c s1 t) as [[s2 h2]|] eqn:R2; [|discriminate]. inversion H; subst.
      pose proof (IH _ _ _ _ (P_step _ _ _ _ _ HP S1) R2) as R. rewrite <- app_assoc in R. exact R.
  Qed.
End Accumulate.

Lemma snoc_split {A} (x y : A) : forall h1 h h2,
  h ++ [x] = h1 ++ y :: h2 ->
  (h2 = [] /\ h1 = h /\ y = x) \/ (exists h2', h2 = h2' ++ [x] /\ h = h1 ++ y :: h2').
Proof.
  induction h1 as [|a h1 IH]; intros h h2 E.
  - destruct h as [|b h]; cbn [app] in E; inversion E; subst.
    + left. auto.
    + right. exists h. auto.
  - destruct h as [|b h]; cbn [app] in E; inversion E as [[E1 E2]]; subst.
    + destruct h1; discriminate.
    + destruct (IH _ _ E2) as [(-> & -> & ->)|(h2' & -> & ->)]; [left; auto|right; exists h2'; auto].
Qed.

(* ---------- membership bookkeeping ---------- *)
Lemma akey_eqb_true a b : Sched.akey_eqb a b = true -> a = b.
Proof.
  destruct a as [a1 a2], b as [b1 b2]. unfold Sched.akey_eqb. cbn [fst snd]. intros H.
  apply andb_prop in H as [A B]. apply N.eqb_eq in A, B. subst. reflexivity.
Qed.

Lemma set_phase_full k a b l e r : set_phase k a b l = Some (e, r) ->
  key_of e = k /\ In (e, a) l /\ In (e, b) r /\
  (forall x, In x l -> x = (e, a) \/ In x r) /\
  (forall x, In x r -> x = (e, b) \/ In x l).
Proof.
  revert r. induction l as [|[e1 p1] t IH]; intros r H; cbn [set_phase] in H; [discriminate|].
  destruct (Sched.akey_eqb (key_of e1) k) eqn:K.
  - apply akey_eqb_true in K.
    destruct p1, a; try discriminate; inversion H; subst; cbn [In];
      (split; [reflexivity|split; [left; reflexivity|split; [left; reflexivity|
        split; intros x [E|Hx]; [left; symmetry; exact E|right; right; exact Hx|left; symmetry; exact E|right; right; exact Hx]]]]).
  - destruct (set_phase k a b t) as [[e' r']|] eqn:E; [|discriminate]. inversion H; subst.
    destruct (IH r' eq_refl) as (K1 & I1 & I2 & F & B). cbn [In].
    split; [exact K1|split; [right; exact I1|split; [right; exact I2|split]]].
    + intros x [E1|Hx]; [right; left; exact E1|]. destruct (F x Hx) as [Y|Y]; [left; exact Y|right; right; exact Y].
    + intros x [E1|Hx]; [right; left; exact E1|]. destruct (B x Hx) as [Y|Y]; [left; exact Y|right; right; exact Y].
Qed.

Definition queued (s : st) (e : entry) : Prop := In e (qS s ++ qC s).
(* somewhere in the state / waiting for its Started event *)
Definition present (s : st) (e : entry) : Prop := queued s e \/ exists p, In (e, p) (running s).
Definition pending (s : st) (e : entry) : Prop := queued s e \/ In (e, Dispatched) (running s).

Lemma loop_top_mem s :
  (forall e, queued (fst (loop_top s)) e -> queued s e) /\
  (forall e p, In (e, p) (running (fst (loop_top s))) -> In (e, p) (running s) \/ queued s e) /\
  (forall e, queued s e -> pending (fst (loop_top s)) e) /\
  (forall x, In x (running s) -> In x (running (fst (loop_top s)))).
Proof.
  unfold queued, pending, loop_top.
  set (n := match flow s with Break => Some 0%nat | Cont k => k end).
  pose proof (get_mem n s) as GM. destruct (get n s) as [[[batch qs] qc] md].
  destruct (is_nil (running s) && is_nil batch) eqn:IDLE.
  - apply andb_prop in IDLE as [R Bn]. apply is_nil_true in Bn. subst batch.
    destruct (pdone s && _); cbn [fst qS qC running upd]; (split; [|split; [|split]]).
    + intros e H. apply GM. right. exact H.
    + intros e p H. left. exact H.
    + intros e H. apply GM in H as [[]|H]. left. exact H.
    + intros x H. exact H.
    + intros e H. apply GM. right. exact H.
    + intros e p H. left. exact H.
    + intros e H. apply GM in H as [[]|H]. left. exact H.
    + intros x H. exact H.
  - destruct (start_scenarios batch (fcount s) (rcount s)) as [[o fc] rc]. cbn [fst qS qC running upd].
    split; [|split; [|split]].
    + intros e H. apply GM. right. exact H.
    + intros e p H. apply in_app_or in H as [H|H]; [left; exact H|].
      apply in_map_iff in H as (e' & E & I). inversion E; subst. right. apply GM. left. exact I.
    + intros e H. apply GM in H as [H|H]; [|left; exact H].
      right. apply in_or_app. right. apply in_map_iff. exists e. auto.
    + intros x H. apply in_or_app. left. exact H.
Qed.

Lemma loop_top_present s e : present (fst (loop_top s)) e -> present s e.
Proof.
  destruct (loop_top_mem s) as (A & B & _ & _). intros [H|[p H]].
  - left. apply A. exact H.
  - destruct (B _ _ H) as [Y|Y]; [right; exists p; exact Y|left; exact Y].
Qed.
Lemma loop_top_pending s e : pending s e -> pending (fst (loop_top s)) e.
Proof.
  destruct (loop_top_mem s) as (_ & _ & C & D). intros [H|H]; [apply C; exact H|right; apply D; exact H].
Qed.

Lemma insert_feature_mem F s :
  (forall e, queued (insert_feature F s) e <-> queued s e \/ In e (map (entry_of F) (sf_scens F))) /\
  running (insert_feature F s) = running s.
Proof.
  unfold queued, insert_feature. set (es := map (entry_of F) (sf_scens F)).
  assert (SPLIT : forall e, In e es <-> In e (filter e_serial es) \/ In e (filter (fun e => negb (e_serial e)) es)).
  { intros e. rewrite !filter_In. destruct (e_serial e); cbn [negb]; intuition discriminate. }
  destruct (pf s) as [[[[a0 b0] c0] d0] e0].
  destruct (is_nil (filter e_serial es)) eqn:NIL.
  - apply is_nil_true in NIL. cbn [qS qC running]. split; [|reflexivity]. intros e.
    specialize (SPLIT e). rewrite NIL in SPLIT. cbn [In] in SPLIT. rewrite !in_app_iff. tauto.
  - cbn [qS qC running]. split; [|reflexivity]. intros e. specialize (SPLIT e). rewrite !in_app_iff. tauto.
Qed.

Lemma next_try_inv e failed now e' : next_try e failed now = Some e' ->
  failed = true /\ exists c0 l0, e_retr e = Some (c0, l0) /\ 0 < l0 /\ e_retr e' = Some (c0 + 1, l0 - 1) /\
    e_f e' = e_f e /\ e_r e' = e_r e /\ e_s e' = e_s e.
Proof.
  unfold next_try. destruct (e_retr e) as [[c0 l0]|]; [|discriminate].
  destruct failed; [|discriminate]. cbn [andb]. destruct (0 <? l0) eqn:L; [|discriminate].
  intros X. inversion X; subst. cbn [e_retr e_f e_r e_s]. apply N.ltb_lt in L.
  split; [reflexivity|]. exists c0, l0. repeat split; auto.
Qed.

(* ---------- what one step does to the entries ---------- *)
(* provenance: an entry of the new state was there before, or comes from a feature, or is the retry of the
   attempt this very step ended *)
Lemma step_back c s l s' o e : step c s l = Some (s', o) -> present s' e ->
  present s e \/
  (exists F sc, l = LFeature F /\ e = entry_of F sc) \/
  (exists k failed e0, l = LAttEnd k failed /\ o = [scen_ev e0 ScFinished] /\ key_of e0 = k /\
                       next_try e0 failed (now s) = Some e).
Proof.
  intros H PR. destruct l as [F|id| | |k|k x|k failed|d]; cbn [step] in H.
  - destruct (perrs s); [discriminate|]. inversion H; subst. destruct (insert_feature_mem F s) as [Q R].
    destruct PR as [PR|[p PR]].
    + apply Q in PR as [PR|PR]; [left; left; exact PR|].
      right; left. apply in_map_iff in PR as (sc & <- & _). exists F, sc. auto.
    + rewrite R in PR. left; right. exists p. exact PR.
  - destruct (perrs s); [discriminate|]. destruct (pf s) as [[[[a b] c0] d0] e1]. inversion H; subst. left. exact PR.
  - destruct (pdone s); [discriminate|]. destruct (pf s) as [[[[a b] c0] d0] e1]. inversion H; subst. left. exact PR.
  - left. destruct (pc s).
    + set (s0 := mk_st _ _ _ _ _ _ _ _ _ _ _ _ true) in H. pose proof (loop_top_present s0 e) as LP.
      destruct (loop_top s0) as [s1 o1]. inversion H; subst. exact (LP PR).
    + destruct (remove_ended (running s)) as [r|] eqn:RE; [|discriminate].
      destruct (drain _ _ _ _ _) as [[[o1 fl] fc] rc].
      set (s1 := upd s (qS s) (qC s) fl r [] fc rc (now s) Awaiting) in H.
      pose proof (loop_top_present s1 e) as LP. destruct (loop_top s1) as [s2 o2]. inversion H; subst.
      destruct (LP PR) as [Y|[p Y]]; [left; exact Y|]. right. exists p.
      destruct (remove_ended_shape _ _ RE) as [_ I]. apply I. exact Y.
    + pose proof (loop_top_present s e) as LP. destruct (loop_top s) as [s2 o2]. inversion H; subst. exact (LP PR).
    + discriminate.
  - destruct (set_phase k Dispatched Opened (running s)) as [[e0 r]|] eqn:SP; [|discriminate]. inversion H; subst.
    destruct (set_phase_full _ _ _ _ _ _ SP) as (_ & I1 & _ & _ & B). left.
    destruct PR as [PR|[p PR]]; [left; exact PR|]. right. cbn [running upd] in PR.
    destruct (B _ PR) as [Y|Y]; [inversion Y; subst; exists Dispatched; exact I1|exists p; exact Y].
  - destruct (is_middle x); [|discriminate]. destruct (find_open k (running s)); [|discriminate].
    inversion H; subst. left. exact PR.
  - destruct (set_phase k Opened Ended (running s)) as [[e0 r]|] eqn:SP; [|discriminate].
    destruct (set_phase_full _ _ _ _ _ _ SP) as (K & I1 & _ & _ & B).
    assert (RUN : forall p, In (e, p) r -> present s e).
    { intros p Y. right. destruct (B _ Y) as [Z|Z]; [inversion Z; subst; exists Opened; exact I1|exists p; exact Z]. }
    destruct (next_try e0 failed (now s)) as [e'|] eqn:NT.
    + destruct (e_serial e'); inversion H; subst; unfold present, queued in PR; cbn [qS qC running upd] in PR;
        destruct PR as [PR|[p PR]]; try (left; exact (RUN p PR)).
      * destruct PR as [<-|PR]; [|left; left; exact PR]. right; right. exists (key_of e0), failed, e0. auto.
      * apply in_app_or in PR as [PR|[<-|PR]];
          [left; left; apply in_or_app; left; exact PR| |left; left; apply in_or_app; right; exact PR].
        right; right. exists (key_of e0), failed, e0. auto.
    + inversion H; subst. unfold present, queued in PR; cbn [qS qC running upd] in PR.
      destruct PR as [PR|[p PR]]; [left; left; exact PR|left; exact (RUN p PR)].
  - inversion H; subst. left. exact PR.
Qed.

(* progress: an entry that waits for its Started keeps waiting, unless this very step is its LAttStart *)
Lemma step_fwd c s l s' o e : step c s l = Some (s', o) -> pending s e ->
  pending s' e \/ (l = LAttStart (key_of e) /\ o = [scen_ev e ScStarted]).
Proof.
  intros H PE. destruct l as [F|id| | |k|k x|k failed|d]; cbn [step] in H.
  - destruct (perrs s); [discriminate|]. inversion H; subst. destruct (insert_feature_mem F s) as [Q R]. left.
    destruct PE as [PE|PE]; [left; apply Q; left; exact PE|right; rewrite R; exact PE].
  - destruct (perrs s); [discriminate|]. destruct (pf s) as [[[[a b] c0] d0] e1]. inversion H; subst. left. exact PE.
  - destruct (pdone s); [discriminate|]. destruct (pf s) as [[[[a b] c0] d0] e1]. inversion H; subst. left. exact PE.
  - left. destruct (pc s).
    + set (s0 := mk_st _ _ _ _ _ _ _ _ _ _ _ _ true) in H. pose proof (loop_top_pending s0 e) as LP.
      destruct (loop_top s0) as [s1 o1]. inversion H; subst. exact (LP PE).
    + destruct (remove_ended (running s)) as [r|] eqn:RE; [|discriminate].
      destruct (drain _ _ _ _ _) as [[[o1 fl] fc] rc].
      set (s1 := upd s (qS s) (qC s) fl r [] fc rc (now s) Awaiting) in H.
      pose proof (loop_top_pending s1 e) as LP. destruct (loop_top s1) as [s2 o2]. inversion H; subst.
      apply LP. destruct PE as [PE|PE]; [left; exact PE|]. right. cbn [running upd].
      destruct (remove_ended_split _ _ RE) as (e0 & M). apply M in PE as [PE|PE]; [discriminate|exact PE].
    + pose proof (loop_top_pending s e) as LP. destruct (loop_top s) as [s2 o2]. inversion H; subst. exact (LP PE).
    + discriminate.
  - destruct (set_phase k Dispatched Opened (running s)) as [[e0 r]|] eqn:SP; [|discriminate]. inversion H; subst.
    destruct (set_phase_full _ _ _ _ _ _ SP) as (K & _ & _ & F & _).
    destruct PE as [PE|PE]; [left; left; exact PE|].
    destruct (F _ PE) as [Y|Y]; [inversion Y; subst; right; auto|left; right; exact Y].
  - destruct (is_middle x); [|discriminate]. destruct (find_open k (running s)); [|discriminate].
    inversion H; subst. left. exact PE.
  - destruct (set_phase k Opened Ended (running s)) as [[e0 r]|] eqn:SP; [|discriminate].
    destruct (set_phase_full _ _ _ _ _ _ SP) as (K & _ & _ & F & _). left.
    assert (RUN : In (e, Dispatched) (running s) -> In (e, Dispatched) r).
    { intros Y. destruct (F _ Y) as [Z|Z]; [discriminate|exact Z]. }
    destruct (next_try e0 failed (now s)) as [e'|]; [destruct (e_serial e')|]; inversion H; subst;
      unfold pending, queued in *; cbn [qS qC running upd];
      (destruct PE as [PE|PE]; [left|right; exact (RUN PE)]).
    + right. exact PE.
    + apply in_app_or in PE as [PE|PE]; apply in_or_app; [left; exact PE|right; right; exact PE].
    + exact PE.
  - inversion H; subst. left. exact PE.
Qed.

(* the end of an attempt emits its Finished and queues the retry, if there is one *)
Lemma step_end_creates c s k failed s' o : step c s (LAttEnd k failed) = Some (s', o) ->
  exists e0, o = [scen_ev e0 ScFinished] /\ key_of e0 = k /\
             forall e', next_try e0 failed (now s) = Some e' -> queued s' e'.
Proof.
  intros H. cbn [step] in H.
  destruct (set_phase k Opened Ended (running s)) as [[e0 r]|] eqn:SP; [|discriminate].
  destruct (set_phase_full _ _ _ _ _ _ SP) as (K & _). exists e0.
  destruct (next_try e0 failed (now s)) as [e'|]; [destruct (e_serial e')|]; inversion H; subst;
    (split; [reflexivity|split; [reflexivity|]]); intros e2 E; inversion E; subst; unfold queued; cbn [qS qC upd].
  - left. reflexivity.
  - apply in_or_app. right. left. reflexivity.
Qed.

(* only LAttStart emits a scenario-Started event, and it is that of a dispatched entry with this key *)
Lemma step_out c s l s' o f r sc rt : step c s l = Some (s', o) -> In (EvScen f r sc rt ScStarted) o ->
  exists e, l = LAttStart (key_of e) /\ o = [scen_ev e ScStarted] /\ In (e, Dispatched) (running s).
Proof.
  intros H HI.
  assert (NB : forall o', all_brk o' -> ~ In (EvScen f r sc rt ScStarted) o').
  { intros o' A Y. apply (proj1 (Forall_forall _ _) A) in Y. discriminate. }
  destruct l as [F|id| | |k|k x|k failed|d]; cbn [step] in H.
  - destruct (perrs s); [discriminate|]. inversion H; subst. destruct HI.
  - destruct (perrs s); [discriminate|]. destruct (pf s) as [[[[a b] c0] d0] e1]. inversion H; subst.
    destruct HI as [Y|[]]. discriminate.
  - destruct (pdone s); [discriminate|]. destruct (pf s) as [[[[a b] c0] d0] e1]. inversion H; subst.
    destruct HI as [Y|[]]. discriminate.
  - exfalso. destruct (pc s).
    + set (s0 := mk_st _ _ _ _ _ _ _ _ _ _ _ _ true) in H. pose proof (loop_top_brk s0) as LB.
      destruct (loop_top s0) as [s1 o1]. inversion H; subst. destruct HI as [Y|Y]; [discriminate|]. exact (NB _ LB Y).
    + destruct (remove_ended (running s)) as [r0|]; [|discriminate].
      pose proof (drain_brk (cf_fail_fast c) (msgs s) (add_slot (flow s)) (fcount s) (rcount s)) as DB.
      destruct (drain _ _ _ _ _) as [[[o1 fl] fc] rc].
      set (s1 := upd s (qS s) (qC s) fl r0 [] fc rc (now s) Awaiting) in H.
      pose proof (loop_top_brk s1) as LB. destruct (loop_top s1) as [s2 o2]. inversion H; subst.
      apply in_app_or in HI as [Y|Y]; [exact (NB _ DB Y)|exact (NB _ LB Y)].
    + pose proof (loop_top_brk s) as LB. destruct (loop_top s) as [s2 o2]. inversion H; subst. exact (NB _ LB HI).
    + discriminate.
  - destruct (set_phase k Dispatched Opened (running s)) as [[e0 r0]|] eqn:SP; [|discriminate]. inversion H; subst.
    destruct (set_phase_full _ _ _ _ _ _ SP) as (K & I1 & _). exists e0. rewrite K. auto.
  - exfalso. destruct (is_middle x) eqn:MI; [|discriminate]. destruct (find_open k (running s)) as [e0|]; [|discriminate].
    inversion H; subst. destruct HI as [Y|[]]. unfold scen_ev in Y. inversion Y; subst. discriminate.
  - exfalso. destruct (set_phase k Opened Ended (running s)) as [[e0 r0]|]; [|discriminate].
    destruct (next_try e0 failed (now s)) as [e'|]; [destruct (e_serial e')|]; inversion H; subst;
      (destruct HI as [Y|[]]; unfold scen_ev in Y; discriminate).
  - inversion H; subst. destruct HI.
Qed.

(* ---------- the items of the annotated run the two theorems talk about ---------- *)
(* attempt c of scenario (f, r, sc), whose retries were (c, l), ended with failed = true and emitted Finished *)
Definition failed_end (f : N) (r : option N) (sc c l : N) : label * list ev :=
  (LAttEnd (sc, c) true, [EvScen f r sc (Some (c, l)) ScFinished]).
(* attempt c of scenario (f, r, sc) with retries (c, l) started *)
Definition att_start (f : N) (r : option N) (sc c l : N) : label * list ev :=
  (LAttStart (sc, c), [EvScen f r sc (Some (c, l)) ScStarted]).

(* ================= Part 1: only when ================= *)
Definition P1 (h : hist) (s : st) : Prop :=
  (forall e c' l', present s e -> e_retr e = Some (c' + 1, l') ->
     In (failed_end (e_f e) (e_r e) (e_s e) c' (l' + 1)) h) /\
  (forall h1 lab o h2 f r sc c' l', h = h1 ++ (lab, o) :: h2 ->
     In (EvScen f r sc (Some (c' + 1, l')) ScStarted) o -> In (failed_end f r sc c' (l' + 1)) h1).

Lemma P1_step c h s l s' o : P1 h s -> step c s l = Some (s', o) -> P1 (h ++ [(l, o)]) s'.
Proof.
  intros [A B] ST. split.
  - intros e c' l' PR RT. apply in_or_app.
    destruct (step_back _ _ _ _ _ _ ST PR) as [Y|[(F & sc & -> & ->)|(k & failed & e0 & -> & -> & K & NT)]].
    + left. exact (A _ _ _ Y RT).
    + exfalso. unfold entry_of in RT. cbn [e_retr] in RT. destruct (ss_retry sc) as [[l0 d0]|]; [|discriminate].
      inversion RT. lia.
    + right. left. destruct (next_try_inv _ _ _ _ NT) as (-> & c0 & l0 & R0 & L0 & R1 & EF & ER & ES).
      rewrite RT in R1. inversion R1. assert (c' = c0) by lia. subst c'. subst l'.
      unfold failed_end, scen_ev. rewrite EF, ER, ES, R0. rewrite <- K. unfold key_of. rewrite R0. cbn [cur_of].
      replace (l0 - 1 + 1) with l0 by lia. reflexivity.
  - intros h1 lab o0 h2 f r sc c' l' E HI.
    destruct (snoc_split _ _ _ _ _ E) as [(-> & -> & X)|(h2' & -> & ->)].
    + inversion X; subst.
      destruct (step_out _ _ _ _ _ _ _ _ _ ST HI) as (e & -> & -> & I).
      destruct HI as [Y|[]]. unfold scen_ev in Y. inversion Y; subst.
      apply A; [right; exists Dispatched; exact I|assumption].
    + eapply B; [reflexivity|exact HI].
Qed.

Lemma P1_init c : P1 [] (init_st c).
Proof.
  split.
  - intros e c' l' [PR|[p PR]]; destruct PR.
  - intros h1 lab o h2 f r sc c' l' E. destruct h1; discriminate.
Qed.

(* Part 1 on the annotated run: whatever step emitted the Started of attempt c+1 (retries (c+1, l)), the step
   `LAttEnd (sc, c) true` that emitted the Finished of attempt c — retries (c, l+1) — of the same scenario
   comes before it *)
Theorem retry_only_after_failure_run c ls s h :
  run c ls = Some (s, h) ->
  forall h1 lab o h2 f r sc cu l,
    h = h1 ++ (lab, o) :: h2 -> In (EvScen f r sc (Some (cu + 1, l)) ScStarted) o ->
    In (failed_end f r sc cu (l + 1)) h1.
Proof.
  intros R. pose proof (run_from_acc c P1 (P1_step c) ls [] _ _ _ (P1_init c) R) as [_ B]. cbn [app] in B.
  intros h1 lab o h2 f r sc cu l E HI. eapply B; eauto.
Qed.

Lemma out_of_split x : forall h pre post,
  out_of h = pre ++ x :: post ->
  exists h1 lab o h2 o1 o2, h = h1 ++ (lab, o) :: h2 /\ o = o1 ++ x :: o2 /\ pre = out_of h1 ++ o1 /\ post = o2 ++ out_of h2.
Proof.
  induction h as [|[lab o] t IH]; intros pre post E.
  - destruct pre; discriminate.
  - cbn [out_of flat_map snd] in E. fold (out_of t) in E.
    destruct (app_eq_app _ _ _ _ E) as (m & [[E1 E2]|[E1 E2]]).
    + (* o = pre ++ m, x :: post = m ++ out_of t *)
      destruct m as [|y m].
      * cbn [app] in E2. rewrite app_nil_r in E1. subst o.
        destruct (IH [] post (eq_sym E2)) as (h1 & lab' & o' & h2 & o1 & o2 & -> & -> & P & Q).
        exists ((lab, pre) :: h1), lab', (o1 ++ x :: o2), h2, o1, o2.
        split; [reflexivity|split; [reflexivity|split; [|exact Q]]].
        cbn [out_of flat_map snd]. fold (out_of h1). rewrite <- app_assoc, <- P, app_nil_r. reflexivity.
      * cbn [app] in E2. inversion E2; subst.
        exists [], lab, (pre ++ y :: m), t, pre, m. cbn [out_of flat_map app]. auto.
    + (* pre = o ++ m, out_of t = m ++ x :: post *)
      destruct (IH m post E2) as (h1 & lab' & o' & h2 & o1 & o2 & -> & -> & P & Q).
      exists ((lab, o) :: h1), lab', (o1 ++ x :: o2), h2, o1, o2.
      split; [reflexivity|split; [reflexivity|split; [|exact Q]]].
      cbn [out_of flat_map snd]. fold (out_of h1). rewrite <- app_assoc, <- P. exact E1.
Qed.

(* Part 1 on `exec` and the emitted stream: a Started with retries (c+1, l) in the stream of ANY run is preceded
   by the Finished of attempt c (retries (c, l+1)) of the same scenario, and that Finished is the output of a label
   `LAttEnd (sc, c) true` of the label list — the attempt had failed *)
Theorem retry_only_after_failure c ls s tr :
  exec c ls = Some (s, tr) ->
  forall pre post f r sc cu l,
    tr = pre ++ EvScen f r sc (Some (cu + 1, l)) ScStarted :: post ->
    exists ls1 ls2 s1 tr1 s2 mid,
      ls = ls1 ++ LAttEnd (sc, cu) true :: ls2 /\
      exec c ls1 = Some (s1, tr1) /\
      step c s1 (LAttEnd (sc, cu) true) = Some (s2, [EvScen f r sc (Some (cu, l + 1)) ScFinished]) /\
      pre = tr1 ++ EvScen f r sc (Some (cu, l + 1)) ScFinished :: mid.
Proof.
  intros H pre post f r sc cu l E.
  destruct (proj1 (run_exec _ _ _ _) H) as (h & R & O). rewrite <- O in E. clear O.
  destruct (out_of_split _ _ _ _ E) as (h1 & lab & o & h2 & o1 & o2 & Eh & Eo & Epre & _).
  assert (HI : In (EvScen f r sc (Some (cu + 1, l)) ScStarted) o).
  { rewrite Eo. apply in_or_app. right. left. reflexivity. }
  pose proof (retry_only_after_failure_run _ _ _ _ R _ _ _ _ _ _ _ _ _ Eh HI) as FI.
  apply in_split in FI as (ha & hb & ->). unfold failed_end in Eh. rewrite <- app_assoc in Eh. cbn [app] in Eh.
  unfold run in R. rewrite Eh in R.
  destruct (run_from_cut _ _ _ _ _ _ _ _ R) as (s1 & s2 & Ra & Sb & El).
  apply run_from_exec in Ra as [Xa _].
  exists (map fst ha), (map fst (hb ++ (lab, o) :: h2)), s1, (out_of ha), s2, (out_of hb ++ o1).
  split; [exact El|split; [exact Xa|split; [exact Sb|]]].
  rewrite Epre, out_of_app. cbn [out_of flat_map snd app]. fold (out_of hb). rewrite <- app_assoc. reflexivity.
Qed.

(* ... in particular, on the stream alone *)
Corollary retry_started_after_finished c ls s tr :
  exec c ls = Some (s, tr) ->
  forall pre post f r sc cu l,
    tr = pre ++ EvScen f r sc (Some (cu + 1, l)) ScStarted :: post ->
    In (EvScen f r sc (Some (cu, l + 1)) ScFinished) pre.
Proof.
  intros H pre post f r sc cu l E.
  destruct (retry_only_after_failure _ _ _ _ H _ _ _ _ _ _ _ E) as (ls1 & ls2 & s1 & tr1 & s2 & mid & _ & _ & _ & ->).
  apply in_or_app. right. left. reflexivity.
Qed.

(* ================= Part 2: whenever ================= *)
Definition P2 (h : hist) (s : st) : Prop :=
  forall h1 h2 k f r sc cu l,
    h = h1 ++ (LAttEnd k true, [EvScen f r sc (Some (cu, l)) ScFinished]) :: h2 -> 0 < l ->
    (exists e, pending s e /\ e_f e = f /\ e_r e = r /\ e_s e = sc /\ e_retr e = Some (cu + 1, l - 1)) \/
    In (att_start f r sc (cu + 1) (l - 1)) h2.

Lemma P2_step c h s l s' o : P2 h s -> step c s l = Some (s', o) -> P2 (h ++ [(l, o)]) s'.
Proof.
  intros A ST h1 h2 k f r sc cu l0 E L.
  destruct (snoc_split _ _ _ _ _ E) as [(-> & -> & X)|(h2' & -> & ->)].
  - (* the step is this failed end: its retry is queued *)
    inversion X; subst. left.
    destruct (step_end_creates _ _ _ _ _ _ ST) as (e0 & Eo & K & Q).
    unfold scen_ev in Eo. inversion Eo as [[EF ER ES RT]].
    assert (NT : next_try e0 true (now s) =
                 Some (mk_entry (e_f e0) (e_r e0) (e_s e0) (e_serial e0) (Some (cu + 1, l0 - 1)) (e_delay e0)
                                (Some (now s)) (e_nf e0) (e_nr e0))).
    { unfold next_try. rewrite <- RT. cbn [andb]. apply N.ltb_lt in L. rewrite L. reflexivity. }
    eexists. split; [left; apply Q; exact NT|]. cbn [e_f e_r e_s e_retr]. auto.
  - destruct (A _ _ _ _ _ _ _ _ eq_refl L) as [(e & PE & EF & ER & ES & RT)|Y].
    + destruct (step_fwd _ _ _ _ _ _ ST PE) as [PE'|(-> & ->)].
      * left. exists e. auto.
      * right. apply in_or_app. right. left. unfold att_start, key_of, scen_ev.
        rewrite EF, ER, ES, RT. reflexivity.
    + right. apply in_or_app. left. exact Y.
Qed.

Lemma P2_init c : P2 [] (init_st c).
Proof. intros h1 h2 k f r sc cu l E. destruct h1; discriminate. Qed.

(* Part 2 on the annotated run: the run has ended and fail-fast did not trip. Then every failed end of an attempt
   with retries left (c, l), 0 < l, is followed by the start of attempt c+1 — retries (c+1, l-1) — of the same
   scenario *)
Theorem failure_with_retries_left_is_retried_run c ls s h :
  run c ls = Some (s, h) -> pc s = Done -> flow s <> Break ->
  forall h1 h2 k f r sc cu l,
    h = h1 ++ (LAttEnd k true, [EvScen f r sc (Some (cu, l)) ScFinished]) :: h2 -> 0 < l ->
    In (att_start f r sc (cu + 1) (l - 1)) h2.
Proof.
  intros R D NB h1 h2 k f r sc cu l E L.
  pose proof (run_from_acc c P2 (P2_step c) ls [] _ _ _ (P2_init c) R) as A. cbn [app] in A.
  destruct (A _ _ _ _ _ _ _ _ E L) as [(e & PE & _)|Y]; [exfalso|exact Y].
  unfold run in R. apply run_from_exec in R as [X _].
  destruct (exec_from_all c ls _ _ _ (init_inv c) (init_frame c) (init_end c) X) as (_ & _ & EN).
  destruct (EN D) as (RN & [FB|(Q1 & Q2)]); [contradiction|].
  unfold pending, queued in PE. rewrite Q1, Q2, RN in PE. destruct PE as [[]|[]].
Qed.

(* Part 2 on `exec` and the emitted stream: cut the label list at a label `LAttEnd k true` whose step emitted
   Finished with retries (c, l), 0 < l. If the whole run has ended without a fail-fast trip, the stream continues,
   AFTER that Finished, with the Started of the same scenario with retries (c+1, l-1) *)
Theorem failure_with_retries_left_is_retried c ls1 k ls2 s tr s1 tr1 s2 f r sc cu l :
  exec c (ls1 ++ LAttEnd k true :: ls2) = Some (s, tr) -> pc s = Done -> flow s <> Break ->
  exec c ls1 = Some (s1, tr1) ->
  step c s1 (LAttEnd k true) = Some (s2, [EvScen f r sc (Some (cu, l)) ScFinished]) -> 0 < l ->
  exists mid post,
    tr = tr1 ++ EvScen f r sc (Some (cu, l)) ScFinished :: mid ++ EvScen f r sc (Some (cu + 1, l - 1)) ScStarted :: post.
Proof.
  intros H D NB H1 ST L.
  destruct (proj1 (run_exec _ _ _ _) H) as (h & R & O). subst tr.
  destruct (proj1 (run_exec _ _ _ _) H1) as (ha & Ra & Oa). subst tr1.
  pose proof R as R'. unfold run in R', Ra. rewrite run_from_app, Ra in R'. cbn [run_from] in R'. rewrite ST in R'.
  destruct (run_from c s2 ls2) as [[s3 hb]|]; [|discriminate]. inversion R'; subst.
  pose proof (failure_with_retries_left_is_retried_run _ _ _ _ R D NB _ _ _ _ _ _ _ _ eq_refl L) as Y.
  apply in_split in Y as (hb1 & hb2 & ->). unfold att_start.
  exists (out_of hb1), (out_of hb2).
  rewrite !out_of_app. cbn [out_of flat_map snd app]. fold (out_of hb1). fold (out_of hb2).
  rewrite out_of_app. cbn [out_of flat_map snd app]. fold (out_of hb2). reflexivity.
Qed.

(* ================= Example ================= *)
(* feature 1 = [scenario 10 with @retry(2); scenario 11], both concurrent, limit 2, no fail-fast.
   Scenario 10 fails twice and then passes, interleaved with scenario 11. *)
Definition exF : sfeature :=
  mk_sfeature 1 [mk_sscen 10 None false (Some (2, None)); mk_sscen 11 None false None] 0 2.
Definition exLabels : list label :=
  [LFeature exF; LParserEnd; LTop;
   LAttStart (10, 0); LAttStart (11, 0);
   LAttEv (10, 0) (ScStep 0 StStarted); LAttEv (10, 0) (ScStep 0 (StFailed (EPanic 7)));
   LAttEnd (10, 0) true; LTop;
   LAttEv (11, 0) (ScStep 0 StStarted);
   LAttStart (10, 1);
   LAttEnd (10, 1) true; LTop;
   LAttStart (10, 2);
   LAttEv (11, 0) (ScStep 0 StPassed);
   LAttEnd (11, 0) false; LTop;
   LAttEnd (10, 2) false; LTop].
Definition exCfg : cfg := mk_cfg (Some 2%nat) false.

Definition edges_of (sc : N) (tr : list ev) : list (retr * bool) :=
  flat_map (fun e => match e with
                     | EvScen _ _ s rt ScStarted => if s =? sc then [(rt, true)] else []
                     | EvScen _ _ s rt ScFinished => if s =? sc then [(rt, false)] else []
                     | _ => []
                     end) tr.

(* the run ends (Done, not Break); the edges of scenario 10 are Started/Finished of (0,2), (1,1), (2,0), in this
   order, each Started after the previous Finished; scenario 11 has a single attempt *)
Example retry_chain_example :
  match exec exCfg exLabels with
  | Some (s, tr) =>
    match pc s with Done => true | _ => false end = true /\ is_break (flow s) = false /\
    edges_of 10 tr = [(Some (0, 2), true); (Some (0, 2), false);
                      (Some (1, 1), true); (Some (1, 1), false);
                      (Some (2, 0), true); (Some (2, 0), false)] /\
    edges_of 11 tr = [(None, true); (None, false)]
  | None => False
  end.
Proof. vm_compute. repeat split. Qed.
