(* CombinatorsP.v — C13: FailOnSkipped, Repeat, Tee, Or, discard are transparent
   in the stated sense, for arbitrary event lists and arbitrary inner pipelines. *)
From CV Require Import Model.Base Model.Events Model.Combinators Proofs.BaseP.
From Coq Require Import Lia.

(* ---------- FailOnSkipped ---------- *)
Definition skipped_step (e : ev) : option (N * option N * N * ev) :=
  match e with
  | EvScen f r s rt (ScBg st StSkipped) => Some (f, r, s, EvScen f r s rt (ScBg st (StFailed ENotFound)))
  | EvScen f r s rt (ScStep st StSkipped) => Some (f, r, s, EvScen f r s rt (ScStep st (StFailed ENotFound)))
  | _ => None
  end.

(* exactly the Skipped events of regular / background steps of selected scenarios become
   Failed(NotFound), same position, same retries; everything else is untouched *)
Theorem fos_spec sf e :
  fos_ev sf e =
    match skipped_step e with
    | Some (f, r, s, e') => if sf f r s then e' else e
    | None => e
    end.
Proof.
  destruct e as [| | | | | | | |f r s rt sc]; cbn; auto.
  destruct sc as [|b h|st x|st x|m|]; cbn; auto; destruct x; cbn; auto.
Qed.

Theorem default_should_fail_spec tags_of f r s :
  default_should_fail tags_of f r s = true <-> ~ In s_allow_skipped (tags_of f r s).
Proof.
  unfold default_should_fail. rewrite negb_true_iff. split.
  - intros H Hin. assert (existsb (fun t => str_eqb t s_allow_skipped) (tags_of f r s) = true) as E.
    { apply existsb_exists. exists s_allow_skipped. split; auto. }
    congruence.
  - intros H. destruct (existsb _ _) eqn:E; auto. apply existsb_exists in E as (x & Hx & Ex).
    apply str_eqb_eq in Ex. subst. tauto.
Qed.

Section P.
  Variable tags_of : N -> option N -> N -> list str.
  Notation handle := (handle tags_of).
  Notation run_from := (run_from tags_of).
  Notation run := (run tags_of).

  Fixpoint final (p : pipe) (s : pstate) (es : list mev) : pstate :=
    match es with
    | [] => s
    | e :: es' => final p (fst (handle p s e)) es'
    end.

  Lemma feed_spec p es : forall s acc,
    fold_left (fun acc e => let '(s2, o2) := handle p (fst acc) e in (s2, snd acc ++ o2)) es (s, acc)
    = (final p s es, acc ++ concat (run_from p s es)).
  Proof.
    induction es as [|e es IH]; intros s acc; cbn.
    - rewrite app_nil_r; auto.
    - destruct (handle p s e) as [s2 o2] eqn:E; cbn. rewrite IH. rewrite <- app_assoc. reflexivity.
  Qed.

  Lemma feed_run p s es : feed (handle p) s es = (final p s es, concat (run_from p s es)).
  Proof. unfold feed. rewrite feed_spec. reflexivity. Qed.

  Lemma run_from_app p es1 : forall s es2,
    run_from p s (es1 ++ es2) = run_from p s es1 ++ run_from p (final p s es1) es2.
  Proof.
    induction es1 as [|e es1 IH]; intros s es2; cbn; auto.
    destruct (handle p s e) as [s' o] eqn:E; cbn. rewrite IH. reflexivity.
  Qed.

  (* ---------- transparent wrappers ---------- *)
  Theorem run_fos k q es : forall sq,
    run_from (PFos k q) (SOne sq) es =
    run_from q sq (map (fun e => (fst e, fos_ev (should_fail tags_of k) (snd e))) es).
  Proof.
    induction es as [|e es IH]; intros sq; cbn; auto.
    destruct (Combinators.handle tags_of q sq _) as [sq' o] eqn:E. cbn. rewrite IH. reflexivity.
  Qed.

  Theorem run_discard_arb q es : forall sq, run_from (PDiscardArb q) (SOne sq) es = run_from q sq es.
  Proof.
    induction es as [|e es IH]; intros sq; cbn; auto.
    destruct (Combinators.handle tags_of q sq e) as [sq' o] eqn:E. cbn. rewrite IH. reflexivity.
  Qed.

  Theorem run_discard_stats q es : forall sq, run_from (PDiscardStats q) (SOne sq) es = run_from q sq es.
  Proof.
    induction es as [|e es IH]; intros sq; cbn; auto.
    destruct (Combinators.handle tags_of q sq e) as [sq' o] eqn:E. cbn. rewrite IH. reflexivity.
  Qed.

  (* ---------- Repeat ---------- *)
  (* the stream the inner writer sees *)
  Fixpoint expand (k : fltk) (buf : list mev) (es : list mev) : list mev :=
    match es with
    | [] => []
    | e :: es' =>
      let buf1 := if flt k e then buf ++ [e] else buf in
      if is_finished (snd e) then e :: buf1 ++ expand k [] es'
      else e :: expand k buf1 es'
    end.

  Theorem run_repeat k q es : forall buf sq,
    concat (run_from (PRepeat k q) (SRepeat buf sq) es) = concat (run_from q sq (expand k buf es)).
  Proof.
    induction es as [|e es IH]; intros buf sq; cbn [Combinators.run_from expand]; auto.
    cbn [Combinators.handle].
    destruct (Combinators.handle tags_of q sq e) as [s1 out1] eqn:E1.
    destruct (is_finished (snd e)) eqn:F.
    - rewrite feed_run. cbn [concat]. rewrite IH.
      cbn [Combinators.run_from]. rewrite E1. cbn [concat].
      rewrite run_from_app, concat_app.
      replace s1 with (fst (Combinators.handle tags_of q sq e)) by (rewrite E1; auto).
      rewrite <- !app_assoc. reflexivity.
    - cbn [concat]. rewrite IH. cbn [Combinators.run_from]. rewrite E1. reflexivity.
  Qed.

  (* once, in original order, right after Finished *)
  Theorem expand_once k pre fin post :
    (forall e, In e pre -> is_finished (snd e) = false) -> is_finished (snd fin) = true ->
    expand k [] (pre ++ fin :: post) =
    pre ++ fin :: filter (flt k) (pre ++ [fin]) ++ expand k [] post.
  Proof.
    intros Hpre Hfin.
    assert (forall buf, expand k buf (pre ++ fin :: post) =
                        pre ++ fin :: (buf ++ filter (flt k) (pre ++ [fin])) ++ expand k [] post) as G.
    { induction pre as [|e pre IH]; intros buf; cbn.
      - rewrite Hfin. destruct (flt k fin); cbn; rewrite ?app_nil_r; auto.
      - rewrite (Hpre e) by (left; auto). rewrite IH by (intros; apply Hpre; right; auto).
        destruct (flt k e); cbn; rewrite <- ?app_assoc; auto. }
    rewrite G. reflexivity.
  Qed.

  Lemma builtin_filters_skip_finished k e :
    (k = FSkipped \/ k = FFailed) -> is_finished (snd e) = true -> flt k e = false.
  Proof. intros [->| ->]; destruct e as [m []]; cbn; try discriminate; auto. Qed.

  (* ---------- Tee ---------- *)
  Fixpoint zip_app (a b : list outs) : list outs :=
    match a, b with
    | x :: a', y :: b' => (x ++ y) :: zip_app a' b'
    | _, _ => []
    end.

  Theorem run_tee l r es : forall sl sr,
    run_from (PTee l r) (STwo sl sr) es = zip_app (run_from l sl es) (run_from r sr es).
  Proof.
    induction es as [|e es IH]; intros sl sr; cbn; auto.
    destruct (Combinators.handle tags_of l sl e) as [sl' ol] eqn:El.
    destruct (Combinators.handle tags_of r sr e) as [sr' orr] eqn:Er. cbn. rewrite IH. reflexivity.
  Qed.

  (* ---------- Or ---------- *)
  Definition goes_left (m : list N) (e : mev) : bool := existsb (N.eqb (fst e)) m.

  Fixpoint merge_or (m : list N) (es : list mev) (ls rs : list outs) : list outs :=
    match es with
    | [] => []
    | e :: es' =>
      if goes_left m e then
        match ls with o :: ls' => o :: merge_or m es' ls' rs | [] => [] end
      else
        match rs with o :: rs' => o :: merge_or m es' ls rs' | [] => [] end
    end.

  Theorem run_or m l r es : forall sl sr,
    run_from (POr m l r) (STwo sl sr) es =
    merge_or m es (run_from l sl (filter (goes_left m) es))
                  (run_from r sr (filter (fun e => negb (goes_left m e)) es)).
  Proof.
    induction es as [|e es IH]; intros sl sr; cbn [Combinators.run_from merge_or filter]; auto.
    cbn [Combinators.handle]. fold (goes_left m e).
    destruct (goes_left m e) eqn:G; cbn [negb Combinators.run_from].
    - destruct (Combinators.handle tags_of l sl e) as [sl' o] eqn:El. rewrite IH. reflexivity.
    - destruct (Combinators.handle tags_of r sr e) as [sr' o] eqn:Er. rewrite IH. reflexivity.
  Qed.
End P.

(* ---------- statistics ---------- *)
Theorem stats_tee l r : stats (PTee l r) = cmap2 N.max (stats l) (stats r).
Proof. reflexivity. Qed.
Theorem stats_or m l r : stats (POr m l r) = cmap2 N.add (stats l) (stats r).
Proof. reflexivity. Qed.
Theorem stats_forwarded k q : stats (PFos k q) = stats q /\ (forall f, stats (PRepeat f q) = stats q).
Proof. split; reflexivity. Qed.


Lemma ltb_max a b : (0 <? N.max a b) = (0 <? a) || (0 <? b).
Proof.
  destruct (N.ltb_spec 0 a), (N.ltb_spec 0 b), (N.ltb_spec 0 (N.max a b)); cbn; auto; lia.
Qed.
Lemma ltb_add a b : (0 <? a + b) = (0 <? a) || (0 <? b).
Proof.
  destruct (N.ltb_spec 0 a), (N.ltb_spec 0 b), (N.ltb_spec 0 (a + b)); cbn; auto; lia.
Qed.


Theorem failed_tee l r :
  exec_failed (PTee l r) = has_failed (stats l) || has_failed (stats r).
Proof.
  cbn. unfold has_failed, cmap2; cbn. rewrite !ltb_max.
  destruct (0 <? k_failed (stats l)), (0 <? k_failed (stats r)), (0 <? k_parsing (stats l)),
    (0 <? k_parsing (stats r)), (0 <? k_hooks (stats l)), (0 <? k_hooks (stats r)); reflexivity.
Qed.

Theorem failed_or m l r :
  exec_failed (POr m l r) = has_failed (stats l) || has_failed (stats r).
Proof.
  cbn. unfold has_failed, cmap2; cbn. rewrite !ltb_add.
  destruct (0 <? k_failed (stats l)), (0 <? k_failed (stats r)), (0 <? k_parsing (stats l)),
    (0 <? k_parsing (stats r)), (0 <? k_hooks (stats l)), (0 <? k_hooks (stats r)); reflexivity.
Qed.

(* arbitrary writes: Tee -> both, wrappers forward, discard::Arbitrary swallows *)
Theorem write_tee l r a b : write_to l = Some a -> write_to r = Some b -> write_to (PTee l r) = Some (a ++ b).
Proof. cbn. intros -> ->. reflexivity. Qed.
