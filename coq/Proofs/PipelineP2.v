(* PipelineP2.v — the verdict of the DEFAULT pipeline shape, Normalize<Summarize<..>> (`.summarized().normalized()`):
   Summarize sees the normalized stream, a permutation of the Runner's (C11), hence the same verdict. *)
From CV Require Import Proofs.SchedP5.
From CV Require Import Model.Base Model.Events Model.Contract Model.Combinators Model.Normalize Model.Stats Model.StatsSpec
  Model.Pipeline Proofs.BaseP Proofs.StatsP Proofs.NormalizeP Proofs.NormalizeP2 Proofs.NormalizeP3 Proofs.PipelineP.
From Coq Require Import Lia Permutation.

(* a complete contract stream ends with its only run-Finished *)
Lemma contract_ends_with_finished : forall l c0 c1,
  crun false c0 l = Some c1 -> c_finished c0 = false -> c_finished c1 = true ->
  exists l0, l = l0 ++ [EvFinished] /\ existsb is_finished l0 = false.
Proof.
  induction l as [|e t IH]; intros c0 c1 H F0 F1; cbn [crun] in H; [inversion H; subst; congruence|].
  destruct (cstep false c0 e) as [c2|] eqn:CS; [|discriminate].
  destruct (c_finished c2) eqn:F2.
  - (* only run-Finished finishes, and nothing is accepted afterwards *)
    assert (E : e = EvFinished).
    { unfold cstep in CS. rewrite F0 in CS. destruct e as [| | | |f|f|f r|f r|f ro sc rt x]; try reflexivity;
        try (apply guard_some in CS as [_ <-]; cbn in F2; congruence); try (inversion CS; subst; congruence).
      destruct x; apply guard_some in CS as [_ <-]; cbn in F2; congruence. }
    destruct t as [|e2 t2].
    + exists []. subst e. auto.
    + cbn [crun] in H. unfold cstep in H. rewrite F2 in H. discriminate.
  - destruct (IH c2 c1 H F2 F1) as (l0 & -> & NF). exists (e :: l0). split; [reflexivity|]. cbn [existsb]. rewrite NF.
    destruct e; try reflexivity. unfold cstep in CS. rewrite F0 in CS. apply guard_some in CS as [_ <-]. cbn in F2. discriminate.
Qed.

Lemma before_finished_app l t : existsb is_finished l = false -> before_finished (l ++ EvFinished :: t) = l.
Proof.
  induction l as [|e l IH]; intros H; [reflexivity|]. cbn [existsb] in H. apply orb_false_iff in H as [H1 H2].
  cbn [app before_finished]. destruct e; try discriminate H1; rewrite (IH H2); reflexivity.
Qed.

Lemma existsb_perm {A} (p : A -> bool) a b : Permutation a b -> existsb p a = existsb p b.
Proof.
  induction 1 as [|x a b H IH|x y a|a b c H1 IH1 H2 IH2]; cbn [existsb]; try congruence.
  destruct (p x), (p y); reflexivity.
Qed.

Lemma nrun_from_app : forall a s b, nrun_from s (a ++ b) = nrun_from s a ++ nrun_from (nfinal s a) b.
Proof.
  induction a as [|e a IH]; intros s b; [reflexivity|]. cbn [app nrun_from nfinal].
  destruct (nhandle s e) as [s' o] eqn:H. cbn [fst]. rewrite IH. reflexivity.
Qed.

Section D.
  Variable tags_of : N -> option N -> N -> list str.
  Variable last_own : N -> option N.

  Lemma feed_summ q : forall buf sm sq (o : list (N * qop)),
    exists sq', fst (fold_left (fun acc x => let '(s2, o2) := qhandle tags_of last_own (QSumm q) (fst acc) x in (s2, snd acc ++ o2))
                               buf (TSumm sm sq, o)) =
                TSumm (fold_left (fun s e => fst (sm_handle last_own s e)) buf sm) sq'.
  Proof.
    induction buf as [|x buf IH]; intros sm sq o.
    - exists sq. reflexivity.
    - cbn [fold_left fst snd]. destruct (qhandle_summ tags_of last_own q sm sq x) as (sq1 & E).
      destruct (qhandle tags_of last_own (QSumm q) (TSumm sm sq) x) as [s2 o2]. cbn [fst] in E. subst s2. apply IH.
  Qed.

  Lemma qfinal_norm_summ q : forall es n sm sq,
    exists sq', qfinal_from tags_of last_own (QNorm (QSumm q)) (TNorm n (TSumm sm sq)) es =
                TNorm (nfinal n es) (TSumm (fold_left (fun s e => fst (sm_handle last_own s e)) (concat (nrun_from n es)) sm) sq').
  Proof.
    induction es as [|e t IH]; intros n sm sq; cbn [qfinal_from nfinal nrun_from concat fold_left]; [exists sq; reflexivity|].
    cbn [qhandle]. destruct (nhandle n e) as [n' outs] eqn:NH. cbn [fst].
    destruct (feed_summ q outs sm sq []) as (sq1 & F).
    destruct (fold_left _ outs (TSumm sm sq, [])) as [s1 out1]. cbn [fst] in *. subst s1.
    destruct (IH n' (fold_left (fun s e => fst (sm_handle last_own s e)) outs sm) sq1) as (sq' & ->).
    exists sq'. cbn [concat]. rewrite fold_left_app. reflexivity.
  Qed.

  Lemma not_emitted_without_finished : forall l s,
    nwf s = true -> resting s = true -> accepts_run s l = true -> is_emitted (ns_state s) = false ->
    existsb (fun e => is_finished (snd e)) l = false ->
    nwf (nfinal s l) = true /\ resting (nfinal s l) = true /\ is_emitted (ns_state (nfinal s l)) = false.
  Proof.
    induction l as [|e t IH]; intros s W RS A EM NF; [cbn; auto|]. cbn [accepts_run] in A. apply andb_prop in A as [A1 A2].
    cbn [existsb] in NF. apply orb_false_iff in NF as [N1 N2]. cbn [nfinal].
    destruct (handle_lossless s e W RS A1) as (W1 & RS1 & _ & _ & PN). exact (IH _ W1 RS1 A2 (PN EM N1) N2).
  Qed.

  Lemma nhandle_finished_out s m : is_emitted (ns_state s) = false ->
    exists o1, snd (nhandle s (m, EvFinished)) = o1 ++ [(m, EvFinished)].
  Proof.
    intros EM. unfold nhandle. rewrite EM. cbn [snd is_pass enqueue fst ns_feats ns_state].
    destruct (emit_feats (ns_feats s)) as [o1 fs]. cbn [take_fin snd app]. exists o1. reflexivity.
  Qed.

  (* C11: run-Finished comes last, after everything else has been forwarded *)
  Theorem finished_comes_last es :
    contract (map snd es) = true ->
    exists X m, concat (nrun es) = X ++ [(m, EvFinished)] /\ existsb is_finished (map snd X) = false.
  Proof.
    intros C. pose proof (contract_lossless es C) as PX.
    assert (CP : contract_prefix (map snd es) = true).
    { unfold contract in C. unfold contract_prefix. destruct (crun false cinit (map snd es)); [reflexivity|discriminate]. }
    unfold contract in C. destruct (crun false cinit (map snd es)) as [c''|] eqn:CR; [|discriminate].
    destruct (contract_ends_with_finished _ _ _ CR eq_refl C) as (l0' & EL & NF0).
    apply map_eq_app in EL as (l0 & lf & -> & <- & ELF).
    destruct lf as [|[m ef] [|? ?]]; try discriminate ELF. cbn in ELF. inversion ELF; subst ef. clear ELF.
    assert (NFl : existsb (fun e => is_finished (snd e)) l0 = false).
    { clear -NF0. induction l0 as [|e l IH]; [reflexivity|]. cbn [map existsb] in *. apply orb_false_iff in NF0 as [A B].
      rewrite A, (IH B). reflexivity. }
    pose proof (contract_implies_accepts _ CP) as AR.
    assert (AR0 : accepts_run ninit l0 = true).
    { clear -AR. revert AR. generalize ninit. induction l0 as [|e l IH]; intros s A; [reflexivity|].
      cbn [app accepts_run] in *. apply andb_prop in A as [A1 A2]. rewrite A1. exact (IH _ A2). }
    destruct (not_emitted_without_finished l0 ninit eq_refl eq_refl AR0 eq_refl NFl) as (_ & _ & EM).
    destruct (nhandle_finished_out (nfinal ninit l0) m EM) as (o1 & OUT).
    exists (concat (nrun l0) ++ o1), m.
    assert (XE : concat (nrun (l0 ++ [(m, EvFinished)])) = (concat (nrun l0) ++ o1) ++ [(m, EvFinished)]).
    { unfold nrun. rewrite nrun_from_app. cbn [nrun_from]. destruct (nhandle (nfinal ninit l0) (m, EvFinished)) as [s' o] eqn:NH.
      cbn [snd] in OUT. subst o. rewrite concat_app. cbn [concat]. rewrite app_nil_r, app_assoc. reflexivity. }
    split; [exact XE|]. rewrite XE in PX. apply Permutation_app_inv_r in PX.
    rewrite (existsb_perm _ _ _ (Permutation_map snd PX)). exact NF0.
  Qed.

  (* C01 for the default pipeline shape on every complete contract-abiding stream *)
  Theorem verdict_default_pipeline q es :
    contract (map snd es) = true ->
    k_hook_in_retried (before_finished (map snd es)) = false ->
    qfailed (QNorm (QSumm q)) (qfinal tags_of last_own (QNorm (QSumm q)) es) = spec_failed (map snd es).
  Proof.
    intros C K. unfold qfinal. cbn [qinit]. destruct (qfinal_norm_summ q es ninit summ_init (qinit q)) as (sq' & ->).
    cbn [qfailed qgetters]. fold (nrun es). set (X := concat (nrun es)).
    pose proof (contract_lossless es C) as PX. fold X in PX.
    (* the shape of the input *)
    assert (CP : contract_prefix (map snd es) = true).
    { unfold contract in C. unfold contract_prefix. destruct (crun false cinit (map snd es)); [reflexivity|discriminate]. }
    unfold contract in C. destruct (crun false cinit (map snd es)) as [c''|] eqn:CR; [|discriminate].
    destruct (contract_ends_with_finished _ _ _ CR eq_refl C) as (l0' & EL & NF0).
    apply map_eq_app in EL as (l0 & lf & -> & <- & ELF).
    destruct lf as [|[m ef] [|? ?]]; try discriminate ELF. cbn in ELF. inversion ELF; subst ef. clear ELF.
    rewrite existsb_map in NF0 || idtac.
    assert (NFl : existsb (fun e => is_finished (snd e)) l0 = false).
    { clear -NF0. induction l0 as [|e l IH]; [reflexivity|]. cbn [map existsb] in *. apply orb_false_iff in NF0 as [A B].
      rewrite A, (IH B). reflexivity. }
    (* the shape of the output *)
    pose proof (contract_implies_accepts _ CP) as AR.
    assert (AR0 : accepts_run ninit l0 = true).
    { clear -AR. revert AR. generalize ninit. induction l0 as [|e l IH]; intros s A; [reflexivity|].
      cbn [app accepts_run] in *. apply andb_prop in A as [A1 A2]. rewrite A1. exact (IH _ A2). }
    destruct (not_emitted_without_finished l0 ninit eq_refl eq_refl AR0 eq_refl NFl) as (_ & _ & EM).
    destruct (nhandle_finished_out (nfinal ninit l0) m EM) as (o1 & OUT).
    assert (XE : X = (concat (nrun l0) ++ o1) ++ [(m, EvFinished)]).
    { unfold X, nrun. rewrite nrun_from_app. cbn [nrun_from]. destruct (nhandle (nfinal ninit l0) (m, EvFinished)) as [s' o] eqn:NH.
      cbn [snd] in OUT. subst o. rewrite concat_app. cbn [concat]. rewrite app_nil_r, app_assoc. reflexivity. }
    set (X0 := concat (nrun l0) ++ o1) in *.
    assert (P0 : Permutation X0 l0).
    { rewrite XE in PX. apply Permutation_app_inv_r in PX. exact PX. }
    assert (NFX : existsb is_finished (map snd X0) = false).
    { rewrite (existsb_perm _ _ _ (Permutation_map snd P0)). exact NF0. }
    assert (BX : before_finished (map snd X) = map snd X0).
    { rewrite XE, map_app. cbn [map snd]. apply before_finished_app. exact NFX. }
    assert (BE : before_finished (map snd (l0 ++ [(m, EvFinished)])) = map snd l0).
    { rewrite map_app. cbn [map snd]. apply before_finished_app. exact NF0. }
    assert (PM : Permutation (map snd X0) (map snd l0)) by (apply Permutation_map; exact P0).
    assert (KX : k_hook_in_retried (before_finished (map snd X)) = false).
    { rewrite BX. rewrite BE in K. unfold k_hook_in_retried in *. rewrite (existsb_perm _ _ _ PM). exact K. }
    change (fold_left (fun s e => fst (sm_handle last_own s e)) X summ_init) with (sm_final last_own X).
    rewrite (sm_verdict last_own X KX). unfold spec_failed. rewrite BX, BE.
    rewrite !(existsb_perm _ _ _ PM). reflexivity.
  Qed.
End D.
