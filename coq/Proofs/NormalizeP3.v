(* NormalizeP3.v — the Runner contract implies the queue discipline of Normalize: a stream accepted by the
   contract automaton is accepted by `accepts_run` (so `run_lossless` applies to it), by a simulation between the
   automaton's state and what Normalize has buffered. *)
From CV Require Import Proofs.SchedP5.
From CV Require Import Model.Base Model.Events Model.Contract Model.Normalize
  Proofs.BaseP Proofs.NormalizeP Proofs.NormalizeP2.
From Coq Require Import Lia Permutation.

(* ---- association lists with unique keys ---- *)
Section AL.
  Context {K V : Type} (eqb : K -> K -> bool).
  Hypothesis eqb_spec : forall a b, eqb a b = true <-> a = b.
  Definition keys (l : list (K * V)) : list K := map fst l.

  Lemma eqb_rfl a : eqb a a = true.
  Proof. apply eqb_spec. reflexivity. Qed.
  Lemma eqb_false a b : a <> b -> eqb a b = false.
  Proof. intros H. destruct (eqb a b) eqn:E; [apply eqb_spec in E; contradiction|reflexivity]. Qed.

  Lemma in_keys k v (l : list (K * V)) : In (k, v) l -> In k (keys l).
  Proof. intros H. apply in_map_iff. exists (k, v). auto. Qed.

  Lemma afind_some_in k l v : NoDup (keys l) -> (afind eqb k l = Some (k, v) <-> In (k, v) l).
  Proof.
    induction l as [|[a b] t IH]; cbn [afind keys map fst In]; intros ND; [split; [discriminate|intros []]|].
    inversion ND as [|? ? NI ND']; subst. destruct (eqb k a) eqn:E.
    - apply eqb_spec in E. subst a. split; [intros X; inversion X; left; reflexivity|].
      intros [X|X]; [inversion X; reflexivity|]. exfalso. apply NI. exact (in_keys _ _ _ X).
    - rewrite (IH ND'). split; [auto|]. intros [X|X]; [inversion X; subst; rewrite eqb_rfl in E; discriminate|exact X].
  Qed.
  Lemma afind_none_notin k (l : list (K * V)) : afind eqb k l = None <-> ~ In k (keys l).
  Proof.
    induction l as [|[a b] t IH]; cbn [afind keys map fst In]; [tauto|]. destruct (eqb k a) eqn:E.
    - apply eqb_spec in E. subst a. split; [discriminate|]. intros H. exfalso. apply H. left. reflexivity.
    - rewrite IH. split; [|tauto]. intros H [X|X]; [subst; rewrite eqb_rfl in E; discriminate|exact (H X)].
  Qed.
  Lemma afind_key_eq k (l : list (K * V)) k' v : afind eqb k l = Some (k', v) -> k' = k.
  Proof.
    induction l as [|[a b] t IH]; cbn [afind]; [discriminate|]. destruct (eqb k a) eqn:E; [|exact IH].
    intros X. inversion X; subst. symmetry. apply eqb_spec. exact E.
  Qed.

  Lemma keys_amodify k g (l : list (K * V)) : keys (amodify eqb k g l) = keys l.
  Proof.
    induction l as [|[a b] t IH]; [reflexivity|]. cbn [amodify]. destruct (eqb k a); cbn [keys map fst]; [reflexivity|].
    f_equal. exact IH.
  Qed.
  Lemma in_amodify k g l k' v' : NoDup (keys l) ->
    (In (k', v') (amodify eqb k g l) <-> exists v, In (k', v) l /\ v' = if eqb k k' then g v else v).
  Proof.
    induction l as [|[a b] t IH]; cbn [amodify keys map fst In]; intros ND; [split; [intros []|intros (v & [] & _)]|].
    inversion ND as [|? ? NI ND']; subst. destruct (eqb k a) eqn:E.
    - apply eqb_spec in E. subst a. cbn [In]. split.
      + intros [X|X]; [inversion X; subst; exists b; rewrite eqb_rfl; auto|].
        exists v'. split; [right; exact X|]. rewrite eqb_false; [reflexivity|]. intros ->. apply NI. exact (in_keys _ _ _ X).
      + intros (v & [X|X] & ->); [inversion X; subst; rewrite eqb_rfl; left; reflexivity|].
        right. rewrite eqb_false; [exact X|]. intros ->. apply NI. exact (in_keys _ _ _ X).
    - cbn [In]. rewrite (IH ND'). split.
      + intros [X|(v & X & ->)]; [inversion X; subst; exists v'; rewrite E; auto|exists v; auto].
      + intros (v & [X|X] & ->); [inversion X; subst; rewrite E; left; reflexivity|right; exists v; auto].
  Qed.

  Lemma aremove_absent k (l : list (K * V)) : ~ In k (keys l) -> aremove eqb k l = l.
  Proof.
    induction l as [|[a b] t IH]; cbn [aremove keys map fst In]; intros H; [reflexivity|].
    rewrite eqb_false by (intros ->; apply H; left; reflexivity). f_equal. apply IH. tauto.
  Qed.
  Lemma in_ainsert k v l kv : ~ In k (keys l) -> (In kv (ainsert eqb k v l) <-> In kv l \/ kv = (k, v)).
  Proof.
    intros H. unfold ainsert. rewrite (aremove_absent k l H), in_app_iff. cbn [In]. split; [intros [X|[X|[]]]; auto|intros [X|X]; auto].
  Qed.
  Lemma nodup_ainsert k v l : ~ In k (keys l) -> NoDup (keys l) -> NoDup (keys (ainsert eqb k v l)).
  Proof.
    intros H ND. unfold ainsert. rewrite (aremove_absent k l H). unfold keys. rewrite map_app. cbn [map fst].
    apply NoDup_app_intro; [exact ND|constructor; [intros []|constructor]|]. intros x Hx [<-|[]]. exact (H Hx).
  Qed.

  Lemma in_aupsert k g l k' v' : NoDup (keys l) ->
    (In (k', v') (aupsert eqb k g l) <->
     (exists v, In (k', v) l /\ v' = if eqb k k' then g (Some v) else v) \/ (~ In k (keys l) /\ k' = k /\ v' = g None)).
  Proof.
    induction l as [|[a b] t IH]; cbn [aupsert keys map fst In]; intros ND.
    - split; [intros [X|[]]; inversion X; subst; right; auto|]. intros [(v & [] & _)|(_ & -> & ->)]. left. reflexivity.
    - inversion ND as [|? ? NI ND']; subst. destruct (eqb k a) eqn:E.
      + apply eqb_spec in E. subst a. cbn [In]. split.
        * intros [X|X]; [inversion X; subst; left; exists b; rewrite eqb_rfl; auto|].
          left. exists v'. split; [right; exact X|]. rewrite eqb_false; [reflexivity|]. intros ->. apply NI. exact (in_keys _ _ _ X).
        * intros [(v & [X|X] & ->)|(H & _)]; [inversion X; subst; rewrite eqb_rfl; left; reflexivity| |exfalso; apply H; left; reflexivity].
          right. rewrite eqb_false; [exact X|]. intros ->. apply NI. exact (in_keys _ _ _ X).
      + cbn [In]. rewrite (IH ND'). split.
        * intros [X|[(v & X & ->)|(H & -> & ->)]].
          -- inversion X; subst. left. exists v'. rewrite E. auto.
          -- left. exists v. auto.
          -- right. split; [|auto]. intros [Y|Y]; [subst; rewrite eqb_rfl in E; discriminate|exact (H Y)].
        * intros [(v & [X|X] & ->)|(H & -> & ->)].
          -- inversion X; subst. rewrite E. left. reflexivity.
          -- right. left. exists v. auto.
          -- right. right. split; [tauto|auto].
  Qed.
  Lemma keys_aupsert k g (l : list (K * V)) : keys (aupsert eqb k g l) = if existsb (eqb k) (keys l) then keys l else keys l ++ [k].
  Proof.
    induction l as [|[a b] t IH]; [reflexivity|]. cbn [aupsert keys map fst existsb]. destruct (eqb k a); cbn [orb keys map fst]; [reflexivity|].
    fold (keys t). fold (keys (aupsert eqb k g t)). rewrite IH. destruct (existsb (eqb k) (keys t)); reflexivity.
  Qed.
  Lemma nodup_aupsert k g l : NoDup (keys l) -> NoDup (keys (aupsert eqb k g l)).
  Proof.
    intros ND. rewrite keys_aupsert. destruct (existsb (eqb k) (keys l)) eqn:E; [exact ND|].
    apply NoDup_app_intro; [exact ND|constructor; [intros []|constructor]|]. intros x Hx [<-|[]].
    assert (X : existsb (eqb k) (keys l) = true) by (apply existsb_exists; exists k; split; [exact Hx|apply eqb_rfl]).
    congruence.
  Qed.
End AL.

Lemma ikey_eqb_spec a b : ikey_eqb a b = true <-> a = b.
Proof.
  split; [apply ikey_eqb_eq|]. intros <-. destruct a as [r|[sc rt]]; cbn; [apply N.eqb_refl|].
  unfold akey_eqb. cbn. rewrite N.eqb_refl. unfold retr_eqb. apply (proj2 (option_eqb_spec _ (pair_eqb_spec _ _ N.eqb_eq N.eqb_eq) rt rt)). reflexivity.
Qed.
Lemma akey_eqb_spec a b : akey_eqb a b = true <-> a = b.
Proof.
  split; [apply akey_eqb_eq|]. intros <-. destruct a as [sc rt]. unfold akey_eqb. cbn. rewrite N.eqb_refl.
  unfold retr_eqb. apply (proj2 (option_eqb_spec _ (pair_eqb_spec _ _ N.eqb_eq N.eqb_eq) rt rt)). reflexivity.
Qed.

(* ---- what is buffered, seen flat ---- *)
Definition cls (st : fstate) : status := match st with NotFinished => Open | _ => Closed end.

Definition itemsOf (s : nstate) (f : N) (its : list (ikey * item)) : Prop :=
  exists q, In (f, q) (ns_feats s) /\ fq_items q = its.
Definition bufF (s : nstate) (f : N) (st : fstate) : Prop := exists q, In (f, q) (ns_feats s) /\ fq_state q = st.
Definition bufR (s : nstate) (f r : N) (st : fstate) : Prop :=
  exists its rq, itemsOf s f its /\ In (KRule r, IRule rq) its /\ rq_state rq = st.
Definition attIn (its : list (ikey * item)) (ro : option N) (k : akey) (fin : bool) : Prop :=
  match ro with
  | None => exists es, In (KScen k, IScen es) its /\ has_fin es = fin
  | Some r => exists rq es, In (KRule r, IRule rq) its /\ In (k, es) (rq_atts rq) /\ has_fin es = fin
  end.
Definition bufA (s : nstate) (k : atkey) (fin : bool) : Prop :=
  exists its, itemsOf s (att_feat k) its /\ attIn its (att_rule k) (att_scen k, att_retr k) fin.

Definition Uits (its : list (ikey * item)) : Prop :=
  NoDup (keys its) /\ forall r rq, In (KRule r, IRule rq) its -> NoDup (keys (rq_atts rq)).
Definition U (s : nstate) : Prop :=
  NoDup (keys (ns_feats s)) /\ forall f its, itemsOf s f its -> Uits its.

Record R (c : cstate) (s : nstate) : Prop := mk_R {
  r_f1 : forall f st, bufF s f st -> lookup N.eqb f (c_feats c) = Some (cls st) /\ st <> FinEmitted;
  r_f2 : forall f, lookup N.eqb f (c_feats c) = Some Open -> bufF s f NotFinished;
  r_r1 : forall f r st, bufR s f r st -> lookup rkey_eqb (f, r) (c_rules c) = Some (cls st) /\ st <> FinEmitted;
  r_r2 : forall f r, lookup rkey_eqb (f, r) (c_rules c) = Some Open -> bufR s f r NotFinished;
  r_a1 : forall k fin, bufA s k fin -> lookup atkey_eqb k (c_atts c) = Some (if fin then Closed else Open);
  r_a2 : forall k, lookup atkey_eqb k (c_atts c) = Some Open -> bufA s k false }.

(* a feature-level update: `amodify f G` where G transforms the items by T and the state by S *)
Lemma feat_update s f G T S :
  NoDup (keys (ns_feats s)) ->
  (forall q, fq_items (G q) = T (fq_items q)) -> (forall q, fq_state (G q) = S (fq_state q)) ->
  let s' := set_feats s (amodify N.eqb f G (ns_feats s)) in
  (forall f' its', itemsOf s' f' its' <-> exists its, itemsOf s f' its /\ its' = if f =? f' then T its else its) /\
  (forall f' st', bufF s' f' st' <-> exists st, bufF s f' st /\ st' = if f =? f' then S st else st) /\
  NoDup (keys (ns_feats s')).
Proof.
  intros ND HT HS s'. unfold s', set_feats. cbn [ns_feats]. split; [|split].
  - intros f' its'. unfold itemsOf. cbn [ns_feats]. split.
    + intros (q' & Hin & E). apply (in_amodify N.eqb N.eqb_eq) in Hin as (q & Hq & ->); [|exact ND].
      exists (fq_items q). split; [exists q; auto|]. rewrite <- E. destruct (f =? f'); [apply HT|reflexivity].
    + intros (its & (q & Hq & <-) & ->). exists (if f =? f' then G q else q). split.
      * apply (in_amodify N.eqb N.eqb_eq); [exact ND|]. exists q. auto.
      * destruct (f =? f'); [apply HT|reflexivity].
  - intros f' st'. unfold bufF. cbn [ns_feats]. split.
    + intros (q' & Hin & E). apply (in_amodify N.eqb N.eqb_eq) in Hin as (q & Hq & ->); [|exact ND].
      exists (fq_state q). split; [exists q; auto|]. rewrite <- E. destruct (f =? f'); [apply HS|reflexivity].
    + intros (st & (q & Hq & <-) & ->). exists (if f =? f' then G q else q). split.
      * apply (in_amodify N.eqb N.eqb_eq); [exact ND|]. exists q. auto.
      * destruct (f =? f'); [apply HS|reflexivity].
  - rewrite keys_amodify. exact ND.
Qed.

Lemma set_cfeats_proj c l : c_feats (set_cfeats c l) = l /\ c_rules (set_cfeats c l) = c_rules c /\ c_atts (set_cfeats c l) = c_atts c.
Proof. repeat split. Qed.

Lemma bufF_keys s f st : bufF s f st -> In f (keys (ns_feats s)).
Proof. intros (q & Hq & _). exact (in_keys _ _ _ Hq). Qed.

(* ---- Feature::Started ---- *)
Lemma sim_featS c s f m :
  R c s -> U s -> lookup N.eqb f (c_feats c) = None ->
  afind N.eqb f (ns_feats s) = None /\
  R (set_cfeats c (setk N.eqb f Open (c_feats c))) (enqueue s (m, EvFeatS f)) /\ U (enqueue s (m, EvFeatS f)).
Proof.
  intros HR [UN UI] ABS. destruct HR as [F1 F2 R1 R2 A1 A2].
  assert (NK : ~ In f (keys (ns_feats s))).
  { intros H. apply in_map_iff in H as ([f' q] & E & Hq). cbn in E. subst f'.
    destruct (F1 f (fq_state q)) as [X _]; [exists q; auto|]. congruence. }
  split; [apply (afind_none_notin N.eqb N.eqb_eq); exact NK|].
  cbn [enqueue fst snd]. set (s' := set_feats s (ainsert N.eqb f (new_fq m) (ns_feats s))).
  assert (IN : forall kv, In kv (ns_feats s') <-> In kv (ns_feats s) \/ kv = (f, new_fq m)).
  { intros kv. unfold s', set_feats. cbn [ns_feats]. apply (in_ainsert N.eqb N.eqb_eq). exact NK. }
  assert (IO : forall f' its, itemsOf s' f' its <-> itemsOf s f' its \/ (f' = f /\ its = [])).
  { intros f' its. unfold itemsOf. split.
    - intros (q & Hq & E). apply IN in Hq as [Hq|Hq]; [left; exists q; auto|]. inversion Hq; subst. right. auto.
    - intros [(q & Hq & E)|(-> & ->)]; [exists q; split; [apply IN; left; exact Hq|exact E]|].
      exists (new_fq m). split; [apply IN; right; reflexivity|reflexivity]. }
  assert (BF : forall f' st, bufF s' f' st <-> bufF s f' st \/ (f' = f /\ st = NotFinished)).
  { intros f' st. unfold bufF. split.
    - intros (q & Hq & E). apply IN in Hq as [Hq|Hq]; [left; exists q; auto|]. inversion Hq; subst. right. auto.
    - intros [(q & Hq & E)|(-> & ->)]; [exists q; split; [apply IN; left; exact Hq|exact E]|].
      exists (new_fq m). split; [apply IN; right; reflexivity|reflexivity]. }
  assert (BR : forall f' r st, bufR s' f' r st <-> bufR s f' r st).
  { intros f' r st. unfold bufR. split.
    - intros (its & rq & IOs & Hin & E). apply IO in IOs as [IOs|(_ & ->)]; [exists its, rq; auto|destruct Hin].
    - intros (its & rq & IOs & Hin & E). exists its, rq. split; [apply IO; left; exact IOs|auto]. }
  assert (BA : forall k fin, bufA s' k fin <-> bufA s k fin).
  { intros k fin. unfold bufA. split.
    - intros (its & IOs & AI). apply IO in IOs as [IOs|(_ & ->)]; [exists its; auto|].
      unfold attIn in AI. destruct (att_rule k); [destruct AI as (rq & es & [] & _)|destruct AI as (es & [] & _)].
    - intros (its & IOs & AI). exists its. split; [apply IO; left; exact IOs|exact AI]. }
  split.
  - constructor; cbn [set_cfeats c_feats c_rules c_atts].
    + intros f' st H. apply BF in H as [H|(-> & ->)].
      * rewrite (lookup_setk_other N.eqb N.eqb_eq); [apply F1; exact H|].
        intros ->. apply NK. exact (bufF_keys _ _ _ H).
      * rewrite (lookup_setk_same N.eqb N.eqb_eq). split; [reflexivity|discriminate].
    + intros f' H. apply BF. destruct (N.eq_dec f' f) as [->|NE]; [right; auto|left].
      rewrite (lookup_setk_other N.eqb N.eqb_eq) in H by exact NE. apply F2. exact H.
    + intros f' r st H. apply R1. apply BR. exact H.
    + intros f' r H. apply BR. apply R2. exact H.
    + intros k fin H. apply A1. apply BA. exact H.
    + intros k H. apply BA. apply A2. exact H.
  - split.
    + unfold s', set_feats. cbn [ns_feats]. apply (nodup_ainsert N.eqb N.eqb_eq); assumption.
    + intros f' its H. apply IO in H as [H|(_ & ->)]; [exact (UI f' its H)|]. split; [constructor|intros r rq []].
Qed.

(* ---- facts extracted from a state of the automaton ---- *)
Lemma open_rule_seen c f r : lookup rkey_eqb (f, r) (c_rules c) = Some Open -> open_rules_of f c = true.
Proof.
  intros L. apply (lookup_in rkey_eqb rkey_eqb_spec) in L. unfold open_rules_of. apply existsb_exists.
  exists ((f, r), Open). split; [exact L|]. cbn. rewrite N.eqb_refl. reflexivity.
Qed.
Lemma open_att_seen c p k : lookup atkey_eqb k (c_atts c) = Some Open -> p k = true -> open_atts_where p c = true.
Proof.
  intros L P. apply (lookup_in atkey_eqb atkey_eqb_spec) in L. unfold open_atts_where. apply existsb_exists.
  exists (k, Open). split; [exact L|]. cbn. rewrite P. reflexivity.
Qed.
Lemma open_feat_seen c f : lookup N.eqb f (c_feats c) = Some Open -> any_open_feat c = true.
Proof.
  intros L. apply (lookup_in N.eqb N.eqb_eq) in L. unfold any_open_feat. apply existsb_exists.
  exists (f, Open). split; [exact L|reflexivity].
Qed.

Lemma nwf_items s f its : nwf s = true -> itemsOf s f its -> items_wf its = true.
Proof.
  unfold nwf. intros W (q & Hq & <-). apply andb_prop in W as [W _]. unfold feats_wf in W.
  pose proof (forallb_in _ _ _ W Hq) as FW. cbn [snd] in FW. unfold feat_wf in FW. apply andb_prop in FW as [FW _]. exact FW.
Qed.

Lemma bufF_afind s f st : NoDup (keys (ns_feats s)) -> bufF s f st ->
  exists q, afind N.eqb f (ns_feats s) = Some (f, q) /\ fq_state q = st.
Proof. intros ND (q & Hq & E). exists q. split; [apply (afind_some_in N.eqb N.eqb_eq); assumption|exact E]. Qed.

(* ---- Feature::Finished ---- *)
Lemma sim_featF c s f m :
  R c s -> U s -> nwf s = true ->
  lookup N.eqb f (c_feats c) = Some Open -> open_rules_of f c = false ->
  open_atts_where (fun k => att_feat k =? f) c = false ->
  (exists q, afind N.eqb f (ns_feats s) = Some (f, q) /\ not_pending (fq_state q) = true /\ items_done (fq_items q) = true) /\
  R (set_cfeats c (setk N.eqb f Closed (c_feats c))) (enqueue s (m, EvFeatF f)) /\ U (enqueue s (m, EvFeatF f)).
Proof.
  intros HR [UN UI] W OP NR NA. destruct HR as [F1 F2 R1 R2 A1 A2].
  destruct (bufF_afind s f NotFinished UN (F2 f OP)) as (q & AF & ST).
  assert (Hq : In (f, q) (ns_feats s)) by (apply (afind_some_in N.eqb N.eqb_eq) in AF; assumption).
  assert (IOq : itemsOf s f (fq_items q)) by (exists q; auto).
  split.
  { exists q. split; [exact AF|]. split; [rewrite ST; reflexivity|].
    pose proof (nwf_items s f _ W IOq) as IW. unfold items_done. apply forallb_forall. intros [k it] Hin.
    pose proof (forallb_in _ _ _ IW Hin) as KW.
    destruct k as [r|k]; destruct it as [rq|es]; cbn [item_wf item_done] in *; try discriminate.
    - destruct (rq_state rq) eqn:RS; [|reflexivity|].
      + exfalso. destruct (R1 f r NotFinished) as [X _]; [exists (fq_items q), rq; auto|].
        cbn [cls] in X. rewrite (open_rule_seen c f r X) in NR. discriminate.
      + exfalso. destruct (R1 f r FinEmitted) as [_ X]; [exists (fq_items q), rq; auto|]. apply X. reflexivity.
    - destruct (has_fin es) eqn:HF; [reflexivity|]. exfalso.
      assert (BA : bufA s (f, None, fst k, snd k) false).
      { exists (fq_items q). cbn [att_feat att_rule att_scen att_retr]. split; [exact IOq|]. exists es. destruct k; auto. }
      pose proof (A1 _ _ BA) as X. cbn in X.
      rewrite (open_att_seen c (fun k0 => att_feat k0 =? f) _ X) in NA; [discriminate|]. cbn. apply N.eqb_refl. }
  cbn [enqueue fst snd].
  destruct (feat_update s f (fun q => set_fq_state q (FinNotEmitted m)) (fun its => its) (fun _ => FinNotEmitted m) UN
              (fun _ => eq_refl) (fun _ => eq_refl)) as (IO & BF & UN').
  set (s' := set_feats s (amodify N.eqb f (fun q => set_fq_state q (FinNotEmitted m)) (ns_feats s))) in *.
  assert (IO' : forall f' its, itemsOf s' f' its <-> itemsOf s f' its).
  { intros f' its. rewrite IO. split; [intros (its0 & H & ->); destruct (f =? f'); exact H|].
    intros H. exists its. split; [exact H|destruct (f =? f'); reflexivity]. }
  assert (BR : forall f' r st, bufR s' f' r st <-> bufR s f' r st).
  { intros f' r st. unfold bufR. split; intros (its & rq & H & X); exists its, rq; (split; [apply IO'; exact H|exact X]). }
  assert (BA : forall k fin, bufA s' k fin <-> bufA s k fin).
  { intros k fin. unfold bufA. split; intros (its & H & X); exists its; (split; [apply IO'; exact H|exact X]). }
  split.
  - constructor; cbn [set_cfeats c_feats c_rules c_atts].
    + intros f' st' H. apply BF in H as (st & H & ->). destruct (N.eqb_spec f f') as [<-|NE].
      * rewrite (lookup_setk_same N.eqb N.eqb_eq). split; [reflexivity|discriminate].
      * rewrite (lookup_setk_other N.eqb N.eqb_eq) by congruence. apply F1. exact H.
    + intros f' H. destruct (N.eq_dec f' f) as [->|NE].
      * rewrite (lookup_setk_same N.eqb N.eqb_eq) in H. discriminate.
      * rewrite (lookup_setk_other N.eqb N.eqb_eq) in H by exact NE. apply BF. exists NotFinished.
        split; [apply F2; exact H|]. rewrite (proj2 (N.eqb_neq f f')); [reflexivity|congruence].
    + intros f' r st H. apply R1. apply BR. exact H.
    + intros f' r H. apply BR. apply R2. exact H.
    + intros k fin H. apply A1. apply BA. exact H.
    + intros k H. apply BA. apply A2. exact H.
  - split; [exact UN'|]. intros f' its H. apply IO' in H. exact (UI f' its H).
Qed.

(* ---- an update of the items of ONE feature, seen through the flat predicates ---- *)
Lemma nodup_keys_unique {K V} (l : list (K * V)) k v1 v2 : NoDup (keys l) -> In (k, v1) l -> In (k, v2) l -> v1 = v2.
Proof.
  induction l as [|[a b] t IH]; cbn [keys map fst In]; intros ND H1 H2; [destruct H1|].
  inversion ND as [|? ? NI ND']; subst. destruct H1 as [H1|H1], H2 as [H2|H2].
  - congruence.
  - inversion H1; subst. exfalso. apply NI. apply in_map_iff. exists (k, v2). auto.
  - inversion H2; subst. exfalso. apply NI. apply in_map_iff. exists (k, v1). auto.
  - exact (IH ND' H1 H2).
Qed.

Lemma items_view s s' f q0 (T : list (ikey * item) -> list (ikey * item)) :
  NoDup (keys (ns_feats s)) -> In (f, q0) (ns_feats s) ->
  (forall f' its', itemsOf s' f' its' <-> exists its, itemsOf s f' its /\ its' = if f =? f' then T its else its) ->
  (forall f' r st, bufR s' f' r st <->
     if f =? f' then exists rq, In (KRule r, IRule rq) (T (fq_items q0)) /\ rq_state rq = st else bufR s f' r st) /\
  (forall k fin, bufA s' k fin <->
     if f =? att_feat k then attIn (T (fq_items q0)) (att_rule k) (att_scen k, att_retr k) fin else bufA s k fin) /\
  (forall r st, bufR s f r st <-> exists rq, In (KRule r, IRule rq) (fq_items q0) /\ rq_state rq = st) /\
  (forall k fin, att_feat k = f -> (bufA s k fin <-> attIn (fq_items q0) (att_rule k) (att_scen k, att_retr k) fin)).
Proof.
  intros ND Hq0 IO.
  assert (UQ : forall its, itemsOf s f its -> its = fq_items q0).
  { intros its (q & Hq & <-). rewrite (nodup_keys_unique _ _ _ _ ND Hq Hq0). reflexivity. }
  assert (I0 : itemsOf s f (fq_items q0)) by (exists q0; auto).
  split; [|split; [|split]].
  - intros f' r st. unfold bufR. destruct (N.eqb_spec f f') as [<-|NE].
    + split.
      * intros (its' & rq & H & X). apply IO in H as (its & H & ->). rewrite N.eqb_refl in X. rewrite (UQ _ H) in X.
        exists rq. exact X.
      * intros (rq & X). exists (T (fq_items q0)), rq. split; [|exact X]. apply IO. exists (fq_items q0).
        rewrite N.eqb_refl. auto.
    + split.
      * intros (its' & rq & H & X). apply IO in H as (its & H & ->). rewrite (proj2 (N.eqb_neq f f') NE) in X.
        exists its, rq. auto.
      * intros (its & rq & H & X). exists its, rq. split; [|exact X]. apply IO. exists its.
        rewrite (proj2 (N.eqb_neq f f') NE). auto.
  - intros k fin. unfold bufA. destruct (N.eqb_spec f (att_feat k)) as [E|NE].
    + split.
      * intros (its' & H & X). apply IO in H as (its & H & ->). rewrite <- E in H. rewrite (proj2 (N.eqb_eq _ _) E) in X.
        rewrite (UQ _ H) in X. exact X.
      * intros X. exists (T (fq_items q0)). split; [|exact X]. apply IO. exists (fq_items q0).
        rewrite (proj2 (N.eqb_eq _ _) E). rewrite <- E. auto.
    + split.
      * intros (its' & H & X). apply IO in H as (its & H & ->). rewrite (proj2 (N.eqb_neq _ _) NE) in X. exists its. auto.
      * intros (its & H & X). exists its. split; [|exact X]. apply IO. exists its. rewrite (proj2 (N.eqb_neq _ _) NE). auto.
  - intros r st. unfold bufR. split.
    + intros (its & rq & H & X). rewrite (UQ _ H) in X. exists rq. exact X.
    + intros (rq & X). exists (fq_items q0), rq. auto.
  - intros k fin E. unfold bufA. rewrite E. split.
    + intros (its & H & X). rewrite (UQ _ H) in X. exact X.
    + intros X. exists (fq_items q0). auto.
Qed.

Lemma R_items_update c c' s s' f q0 T :
  R c s -> NoDup (keys (ns_feats s)) -> In (f, q0) (ns_feats s) ->
  (forall f' its', itemsOf s' f' its' <-> exists its, itemsOf s f' its /\ its' = if f =? f' then T its else its) ->
  (forall f' st, bufF s' f' st <-> bufF s f' st) ->
  c_feats c' = c_feats c ->
  (forall k, fst k <> f -> lookup rkey_eqb k (c_rules c') = lookup rkey_eqb k (c_rules c)) ->
  (forall k, att_feat k <> f -> lookup atkey_eqb k (c_atts c') = lookup atkey_eqb k (c_atts c)) ->
  (forall r st, (exists rq, In (KRule r, IRule rq) (T (fq_items q0)) /\ rq_state rq = st) ->
     lookup rkey_eqb (f, r) (c_rules c') = Some (cls st) /\ st <> FinEmitted) ->
  (forall r, lookup rkey_eqb (f, r) (c_rules c') = Some Open ->
     exists rq, In (KRule r, IRule rq) (T (fq_items q0)) /\ rq_state rq = NotFinished) ->
  (forall k fin, att_feat k = f -> attIn (T (fq_items q0)) (att_rule k) (att_scen k, att_retr k) fin ->
     lookup atkey_eqb k (c_atts c') = Some (if fin then Closed else Open)) ->
  (forall k, att_feat k = f -> lookup atkey_eqb k (c_atts c') = Some Open ->
     attIn (T (fq_items q0)) (att_rule k) (att_scen k, att_retr k) false) ->
  R c' s'.
Proof.
  intros HR ND Hq0 IO BF EF ER EA L1 L2 L3 L4. destruct HR as [F1 F2 R1 R2 A1 A2].
  destruct (items_view s s' f q0 T ND Hq0 IO) as (VR & VA & _ & _).
  constructor.
  - intros f' st H. rewrite EF. apply F1. apply BF. exact H.
  - intros f' H. rewrite EF in H. apply BF. apply F2. exact H.
  - intros f' r st H. apply VR in H. destruct (N.eqb_spec f f') as [<-|NE].
    + apply L1. exact H.
    + rewrite ER by (cbn; congruence). apply R1. exact H.
  - intros f' r H. apply VR. destruct (N.eqb_spec f f') as [<-|NE].
    + apply L2. exact H.
    + rewrite ER in H by (cbn; congruence). apply R2. exact H.
  - intros k fin H. apply VA in H. destruct (N.eqb_spec f (att_feat k)) as [E|NE].
    + apply L3; [symmetry; exact E|exact H].
    + rewrite EA by congruence. apply A1. exact H.
  - intros k H. apply VA. destruct (N.eqb_spec f (att_feat k)) as [E|NE].
    + apply L4; [symmetry; exact E|exact H].
    + rewrite EA in H by congruence. apply A2. exact H.
Qed.

(* the common preparation for an event addressed to an open feature *)
Lemma open_feature c s f :
  R c s -> U s -> lookup N.eqb f (c_feats c) = Some Open ->
  exists q0, In (f, q0) (ns_feats s) /\ afind N.eqb f (ns_feats s) = Some (f, q0) /\ fq_state q0 = NotFinished /\
             Uits (fq_items q0).
Proof.
  intros HR [UN UI] OP. destruct (bufF_afind s f NotFinished UN (r_f2 c s HR f OP)) as (q0 & AF & ST).
  assert (Hq : In (f, q0) (ns_feats s)) by (apply (afind_some_in N.eqb N.eqb_eq) in AF; assumption).
  exists q0. repeat split; auto; apply (UI f (fq_items q0)); exists q0; auto.
Qed.

Lemma items_update_U s s' f q0 T :
  U s -> In (f, q0) (ns_feats s) -> NoDup (keys (ns_feats s')) ->
  (forall f' its', itemsOf s' f' its' <-> exists its, itemsOf s f' its /\ its' = if f =? f' then T its else its) ->
  Uits (T (fq_items q0)) -> U s'.
Proof.
  intros [UN UI] Hq0 UN' IO UT. split; [exact UN'|]. intros f' its' H. apply IO in H as (its & H & ->).
  destruct (N.eqb_spec f f') as [<-|NE]; [|exact (UI f' its H)].
  destruct H as (q & Hq & <-). rewrite (nodup_keys_unique _ _ _ _ UN Hq Hq0). exact UT.
Qed.

Lemma bufR_at s f q0 r st : NoDup (keys (ns_feats s)) -> In (f, q0) (ns_feats s) ->
  (bufR s f r st <-> exists rq, In (KRule r, IRule rq) (fq_items q0) /\ rq_state rq = st).
Proof.
  intros ND Hq0. unfold bufR. split.
  - intros (its & rq & (q & Hq & <-) & X). rewrite (nodup_keys_unique _ _ _ _ ND Hq Hq0) in X. exists rq. exact X.
  - intros (rq & X). exists (fq_items q0), rq. split; [exists q0; auto|exact X].
Qed.
Lemma bufA_at s f q0 k fin : NoDup (keys (ns_feats s)) -> In (f, q0) (ns_feats s) -> att_feat k = f ->
  (bufA s k fin <-> attIn (fq_items q0) (att_rule k) (att_scen k, att_retr k) fin).
Proof.
  intros ND Hq0 E. unfold bufA. rewrite E. split.
  - intros (its & (q & Hq & <-) & X). rewrite (nodup_keys_unique _ _ _ _ ND Hq Hq0) in X. exact X.
  - intros X. exists (fq_items q0). split; [exists q0; auto|exact X].
Qed.

Lemma item_kind_rule its r it : items_wf its = true -> In (KRule r, it) its -> exists rq, it = IRule rq.
Proof. intros W H. pose proof (forallb_in _ _ _ W H) as K. destruct it as [rq|es]; [exists rq; reflexivity|discriminate K]. Qed.
Lemma item_kind_scen its k it : items_wf its = true -> In (KScen k, it) its -> exists es, it = IScen es.
Proof. intros W H. pose proof (forallb_in _ _ _ W H) as K. destruct it as [rq|es]; [discriminate K|exists es; reflexivity]. Qed.

Lemma set_crules_proj c l : c_feats (set_crules c l) = c_feats c /\ c_rules (set_crules c l) = l /\ c_atts (set_crules c l) = c_atts c.
Proof. repeat split. Qed.

(* ---- Rule::Started ---- *)
Lemma sim_ruleS c s f r m :
  R c s -> U s -> nwf s = true ->
  lookup N.eqb f (c_feats c) = Some Open -> lookup rkey_eqb (f, r) (c_rules c) = None ->
  (exists q0, afind N.eqb f (ns_feats s) = Some (f, q0) /\ not_pending (fq_state q0) = true /\
              afind ikey_eqb (KRule r) (fq_items q0) = None) /\
  R (set_crules c (setk rkey_eqb (f, r) Open (c_rules c))) (enqueue s (m, EvRuleS f r)) /\
  U (enqueue s (m, EvRuleS f r)).
Proof.
  intros HR HU W OP ABS. destruct (open_feature c s f HR HU OP) as (q0 & Hq0 & AF & ST & UQ & UQ2).
  pose proof HU as [UN UI].
  assert (IW : items_wf (fq_items q0) = true) by (apply (nwf_items s f); [exact W|exists q0; auto]).
  assert (NK : ~ In (KRule r) (keys (fq_items q0))).
  { intros H. apply in_map_iff in H as ([k it] & E & Hin). cbn in E. subst k.
    destruct (item_kind_rule _ _ _ IW Hin) as (rq & ->).
    destruct (r_r1 c s HR f r (rq_state rq)) as [X _]; [apply (bufR_at s f q0); auto; exists rq; auto|]. congruence. }
  split.
  { exists q0. split; [exact AF|]. split; [rewrite ST; reflexivity|]. apply (afind_none_notin ikey_eqb ikey_eqb_spec). exact NK. }
  cbn [enqueue fst snd].
  set (T := fun its => ainsert ikey_eqb (KRule r) (IRule (new_rq m)) its).
  destruct (feat_update s f (fun q => set_fq_items q (T (fq_items q))) T (fun st => st) UN
              (fun _ => eq_refl) (fun _ => eq_refl)) as (IO & BF & UN').
  set (s' := set_feats s (amodify N.eqb f (fun q => set_fq_items q (T (fq_items q))) (ns_feats s))) in *.
  assert (BF' : forall f' st, bufF s' f' st <-> bufF s f' st).
  { intros f' st. rewrite BF. split; [intros (st0 & H & ->); destruct (f =? f'); exact H|].
    intros H. exists st. split; [exact H|destruct (f =? f'); reflexivity]. }
  assert (TI : forall kv, In kv (T (fq_items q0)) <-> In kv (fq_items q0) \/ kv = (KRule r, IRule (new_rq m))).
  { intros kv. unfold T. apply (in_ainsert ikey_eqb ikey_eqb_spec). exact NK. }
  split.
  - apply (R_items_update c _ s s' f q0 T HR UN Hq0 IO BF'); cbn [set_crules c_feats c_rules c_atts].
    + reflexivity.
    + intros k NE. apply (lookup_setk_other rkey_eqb rkey_eqb_spec). intros ->. apply NE. reflexivity.
    + reflexivity.
    + intros r' st (rq & Hin & E). apply TI in Hin as [Hin|Hin].
      * rewrite (lookup_setk_other rkey_eqb rkey_eqb_spec).
        -- apply (r_r1 c s HR). apply (bufR_at s f q0); auto. exists rq. auto.
        -- intros X. inversion X; subst. apply NK. exact (in_keys _ _ _ Hin).
      * inversion Hin; subst. rewrite (lookup_setk_same rkey_eqb rkey_eqb_spec). cbn. split; [reflexivity|discriminate].
    + intros r' H. destruct (N.eq_dec r' r) as [->|NE].
      * exists (new_rq m). split; [apply TI; right; reflexivity|reflexivity].
      * rewrite (lookup_setk_other rkey_eqb rkey_eqb_spec) in H by congruence.
        apply (r_r2 c s HR) in H. apply (bufR_at s f q0) in H; auto. destruct H as (rq & Hin & E). exists rq.
        split; [apply TI; left; exact Hin|exact E].
    + intros k fin E AI. apply (r_a1 c s HR). apply (bufA_at s f q0); auto. unfold attIn in *.
      destruct (att_rule k) as [r'|].
      * destruct AI as (rq & es & Hin & Hes & HF). apply TI in Hin as [Hin|Hin]; [exists rq, es; auto|].
        inversion Hin; subst. destruct Hes.
      * destruct AI as (es & Hin & HF). apply TI in Hin as [Hin|Hin]; [exists es; auto|discriminate Hin].
    + intros k E H. apply (r_a2 c s HR) in H. apply (bufA_at s f q0) in H; auto. unfold attIn in *.
      destruct (att_rule k) as [r'|].
      * destruct H as (rq & es & Hin & X). exists rq, es. split; [apply TI; left; exact Hin|exact X].
      * destruct H as (es & Hin & X). exists es. split; [apply TI; left; exact Hin|exact X].
  - apply (items_update_U s s' f q0 T HU Hq0 UN' IO). split.
    + unfold T. apply (nodup_ainsert ikey_eqb ikey_eqb_spec); assumption.
    + intros r' rq Hin. apply TI in Hin as [Hin|Hin]; [exact (UQ2 r' rq Hin)|]. inversion Hin; subst. constructor.
Qed.

Lemma ikey_rule_eqb r k : ikey_eqb (KRule r) k = true <-> k = KRule r.
Proof. rewrite ikey_eqb_spec. split; congruence. Qed.

(* a rule that is not finished lives in a feature that is not finished *)
Lemma rule_open_feature_open c s f q0 r rq :
  R c s -> nwf s = true -> In (f, q0) (ns_feats s) -> In (KRule r, IRule rq) (fq_items q0) ->
  rq_state rq = NotFinished -> fq_state q0 = NotFinished.
Proof.
  intros HR W Hq Hin RS. unfold nwf in W. apply andb_prop in W as [W _]. unfold feats_wf in W.
  pose proof (forallb_in _ _ _ W Hq) as FW. cbn [snd] in FW. unfold feat_wf in FW. apply andb_prop in FW as [_ FW].
  destruct (fq_state q0) eqn:ST; [reflexivity| |].
  - cbn in FW. pose proof (forallb_in _ _ _ FW Hin) as D. cbn [item_done] in D. rewrite RS in D. discriminate.
  - exfalso. destruct (r_f1 c s HR f FinEmitted) as [_ X]; [exists q0; auto|]. apply X. reflexivity.
Qed.

(* ---- Rule::Finished ---- *)
Lemma sim_ruleF c s f r m :
  R c s -> U s -> nwf s = true ->
  lookup rkey_eqb (f, r) (c_rules c) = Some Open ->
  open_atts_where (fun k => (att_feat k =? f) && option_eqb N.eqb (att_rule k) (Some r)) c = false ->
  (exists q0 rq, afind N.eqb f (ns_feats s) = Some (f, q0) /\ not_pending (fq_state q0) = true /\
     afind ikey_eqb (KRule r) (fq_items q0) = Some (KRule r, IRule rq) /\ not_pending (rq_state rq) = true /\
     atts_done (rq_atts rq) = true) /\
  R (set_crules c (setk rkey_eqb (f, r) Closed (c_rules c))) (enqueue s (m, EvRuleF f r)) /\
  U (enqueue s (m, EvRuleF f r)).
Proof.
  intros HR HU W OP NA. pose proof HU as [UN UI].
  destruct (r_r2 c s HR f r OP) as (its & rq & (q0 & Hq0 & <-) & Hrq & RS).
  pose proof (rule_open_feature_open c s f q0 r rq HR W Hq0 Hrq RS) as ST.
  assert (UQ : Uits (fq_items q0)) by (apply (UI f); exists q0; auto). destruct UQ as [UQ UQ2].
  assert (IW : items_wf (fq_items q0) = true) by (apply (nwf_items s f); [exact W|exists q0; auto]).
  split.
  { exists q0, rq. split; [apply (afind_some_in N.eqb N.eqb_eq); assumption|]. split; [rewrite ST; reflexivity|].
    split; [apply (afind_some_in ikey_eqb ikey_eqb_spec); assumption|]. split; [rewrite RS; reflexivity|].
    unfold atts_done. apply forallb_forall. intros [k es] Hes. cbn [snd]. destruct (has_fin es) eqn:HF; [reflexivity|]. exfalso.
    assert (BA : bufA s (f, Some r, fst k, snd k) false).
    { apply (bufA_at s f q0); auto. cbn [att_rule att_scen att_retr attIn]. exists rq, es. destruct k; auto. }
    pose proof (r_a1 c s HR _ _ BA) as X. cbn in X.
    rewrite (open_att_seen c _ _ X) in NA; [discriminate|]. cbn. rewrite N.eqb_refl, N.eqb_refl. reflexivity. }
  cbn [enqueue fst snd].
  set (H := fun it => match it with IRule rq => IRule (set_rq_state rq (FinNotEmitted m)) | x => x end).
  set (T := fun its => amodify ikey_eqb (KRule r) H its).
  destruct (feat_update s f (fun q => set_fq_items q (T (fq_items q))) T (fun st => st) UN
              (fun _ => eq_refl) (fun _ => eq_refl)) as (IO & BF & UN').
  set (s' := set_feats s (amodify N.eqb f (fun q => set_fq_items q (T (fq_items q))) (ns_feats s))) in *.
  assert (BF' : forall f' st, bufF s' f' st <-> bufF s f' st).
  { intros f' st. rewrite BF. split; [intros (st0 & H0 & ->); destruct (f =? f'); exact H0|].
    intros H0. exists st. split; [exact H0|destruct (f =? f'); reflexivity]. }
  assert (TI : forall k' it', In (k', it') (T (fq_items q0)) <->
                 exists it, In (k', it) (fq_items q0) /\ it' = if ikey_eqb (KRule r) k' then H it else it).
  { intros k' it'. unfold T. apply (in_amodify ikey_eqb ikey_eqb_spec). exact UQ. }
  assert (RULES : forall r' rq', In (KRule r', IRule rq') (T (fq_items q0)) <->
                    exists rq0, In (KRule r', IRule rq0) (fq_items q0) /\
                                rq' = if r =? r' then set_rq_state rq0 (FinNotEmitted m) else rq0).
  { intros r' rq'. rewrite TI. cbn [ikey_eqb]. split.
    - intros (it & Hin & E). destruct (item_kind_rule _ _ _ IW Hin) as (rq0 & ->). exists rq0. split; [exact Hin|].
      destruct (r =? r'); cbn [H] in E; inversion E; reflexivity.
    - intros (rq0 & Hin & ->). exists (IRule rq0). split; [exact Hin|]. destruct (r =? r'); reflexivity. }
  assert (SCENS : forall k es, In (KScen k, IScen es) (T (fq_items q0)) <-> In (KScen k, IScen es) (fq_items q0)).
  { intros k es. rewrite TI. cbn [ikey_eqb]. split; [intros (it & Hin & ->); exact Hin|]. intros Hin. exists (IScen es). auto. }
  assert (ATT : forall ro key fin, attIn (T (fq_items q0)) ro key fin <-> attIn (fq_items q0) ro key fin).
  { intros ro key fin. unfold attIn. destruct ro as [r'|].
    - split.
      + intros (rq' & es & Hin & X). apply RULES in Hin as (rq0 & Hin & ->). exists rq0, es. split; [exact Hin|].
        destruct (r =? r'); exact X.
      + intros (rq0 & es & Hin & X). exists (if r =? r' then set_rq_state rq0 (FinNotEmitted m) else rq0), es.
        split; [apply RULES; exists rq0; auto|]. destruct (r =? r'); exact X.
    - split; intros (es & Hin & X); exists es; (split; [apply SCENS; exact Hin|exact X]). }
  split.
  - apply (R_items_update c _ s s' f q0 T HR UN Hq0 IO BF'); cbn [set_crules c_feats c_rules c_atts].
    + reflexivity.
    + intros k NE. apply (lookup_setk_other rkey_eqb rkey_eqb_spec). intros ->. apply NE. reflexivity.
    + reflexivity.
    + intros r' st (rq' & Hin & E). apply RULES in Hin as (rq0 & Hin & ->). destruct (N.eqb_spec r r') as [<-|NE].
      * rewrite (lookup_setk_same rkey_eqb rkey_eqb_spec). cbn in E. subst st. split; [reflexivity|discriminate].
      * rewrite (lookup_setk_other rkey_eqb rkey_eqb_spec) by congruence.
        apply (r_r1 c s HR). apply (bufR_at s f q0); auto. exists rq0. auto.
    + intros r' H0. destruct (N.eq_dec r' r) as [->|NE].
      * rewrite (lookup_setk_same rkey_eqb rkey_eqb_spec) in H0. discriminate.
      * rewrite (lookup_setk_other rkey_eqb rkey_eqb_spec) in H0 by congruence.
        apply (r_r2 c s HR) in H0. apply (bufR_at s f q0) in H0; auto. destruct H0 as (rq0 & Hin & E). exists rq0.
        split; [|exact E]. apply RULES. exists rq0. split; [exact Hin|]. rewrite (proj2 (N.eqb_neq r r')); [reflexivity|congruence].
    + intros k fin E AI. apply (r_a1 c s HR). apply (bufA_at s f q0); auto. apply ATT. exact AI.
    + intros k E H0. apply ATT. apply (bufA_at s f q0); auto. apply (r_a2 c s HR). exact H0.
  - apply (items_update_U s s' f q0 T HU Hq0 UN' IO). split.
    + unfold T. rewrite keys_amodify. exact UQ.
    + intros r' rq' Hin. apply RULES in Hin as (rq0 & Hin & ->). destruct (r =? r'); cbn; exact (UQ2 r' rq0 Hin).
Qed.

Lemma has_fin_snoc es m x : has_fin (es ++ [(m, x)]) = has_fin es || is_sc_finished x.
Proof. unfold has_fin. rewrite existsb_app. cbn. rewrite orb_false_r. reflexivity. Qed.

Definition sta_of (x : scev) : status := if is_sc_finished x then Closed else Open.

(* ---- an event of a top-level scenario attempt ---- *)
Lemma sim_scenN c c' s f sc rt x m :
  R c s -> U s -> nwf s = true ->
  lookup N.eqb f (c_feats c) = Some Open ->
  lookup atkey_eqb (f, None, sc, rt) (c_atts c) <> Some Closed ->
  c_feats c' = c_feats c -> c_rules c' = c_rules c ->
  lookup atkey_eqb (f, None, sc, rt) (c_atts c') = Some (sta_of x) ->
  (forall k, k <> (f, None, sc, rt) -> lookup atkey_eqb k (c_atts c') = lookup atkey_eqb k (c_atts c)) ->
  (exists q0, afind N.eqb f (ns_feats s) = Some (f, q0) /\ not_pending (fq_state q0) = true /\
     match afind ikey_eqb (KScen (sc, rt)) (fq_items q0) with
     | Some (_, IScen es) => negb (has_fin es) | Some (_, IRule _) => false | None => true end = true) /\
  R c' (enqueue s (m, EvScen f None sc rt x)) /\ U (enqueue s (m, EvScen f None sc rt x)).
Proof.
  intros HR HU W OP NC EF ER LK LO. destruct (open_feature c s f HR HU OP) as (q0 & Hq0 & AF & ST & UQ & UQ2).
  pose proof HU as [UN UI].
  assert (IW : items_wf (fq_items q0) = true) by (apply (nwf_items s f); [exact W|exists q0; auto]).
  set (K := (f, @None N, sc, rt)) in *. set (key := (sc, rt)).
  assert (NOFIN : forall es, In (KScen key, IScen es) (fq_items q0) -> has_fin es = false).
  { intros es Hin. destruct (has_fin es) eqn:HF; [|reflexivity]. exfalso. apply NC.
    apply (r_a1 c s HR K true). apply (bufA_at s f q0); auto. cbn [K att_rule att_scen att_retr attIn]. exists es. auto. }
  split.
  { exists q0. split; [exact AF|]. split; [rewrite ST; reflexivity|].
    destruct (afind ikey_eqb (KScen key) (fq_items q0)) as [[k' it]|] eqn:FD; [|reflexivity].
    pose proof (afind_key_eq ikey_eqb ikey_eqb_spec _ _ _ _ FD) as ->.
    apply (afind_some_in ikey_eqb ikey_eqb_spec) in FD; [|exact UQ].
    destruct (item_kind_scen _ _ _ IW FD) as (es & ->). rewrite (NOFIN es FD). reflexivity. }
  cbn [enqueue fst snd].
  set (P := fun o => match o with Some (IScen es) => IScen (es ++ [(m, x)]) | _ => IScen [(m, x)] end).
  set (T := fun its => aupsert ikey_eqb (KScen key) P its).
  destruct (feat_update s f (fun q => set_fq_items q (T (fq_items q))) T (fun st => st) UN
              (fun _ => eq_refl) (fun _ => eq_refl)) as (IO & BF & UN').
  set (s' := set_feats s (amodify N.eqb f (fun q => set_fq_items q (T (fq_items q))) (ns_feats s))) in *.
  assert (BF' : forall f' st, bufF s' f' st <-> bufF s f' st).
  { intros f' st. rewrite BF. split; [intros (st0 & H0 & ->); destruct (f =? f'); exact H0|].
    intros H0. exists st. split; [exact H0|destruct (f =? f'); reflexivity]. }
  assert (TI : forall k' it', In (k', it') (T (fq_items q0)) <->
     (exists it, In (k', it) (fq_items q0) /\ it' = if ikey_eqb (KScen key) k' then P (Some it) else it) \/
     (~ In (KScen key) (keys (fq_items q0)) /\ k' = KScen key /\ it' = P None)).
  { intros k' it'. unfold T. apply (in_aupsert ikey_eqb ikey_eqb_spec). exact UQ. }
  assert (RULES : forall r' rq, In (KRule r', IRule rq) (T (fq_items q0)) <-> In (KRule r', IRule rq) (fq_items q0)).
  { intros r' rq. rewrite TI. cbn [ikey_eqb]. split.
    - intros [(it & Hin & ->)|(_ & X & _)]; [exact Hin|discriminate X].
    - intros Hin. left. exists (IRule rq). auto. }
  assert (SCENS : forall key' es', In (KScen key', IScen es') (T (fq_items q0)) <->
     (key' <> key /\ In (KScen key', IScen es') (fq_items q0)) \/
     (key' = key /\ ((exists es, In (KScen key, IScen es) (fq_items q0) /\ es' = es ++ [(m, x)]) \/
                     (~ In (KScen key) (keys (fq_items q0)) /\ es' = [(m, x)])))).
  { intros key' es'. rewrite TI. cbn [ikey_eqb]. split.
    - intros [(it & Hin & E)|(NI & X & E)].
      + destruct (akey_eqb key key') eqn:KE.
        * apply akey_eqb_spec in KE. subst key'. right. split; [reflexivity|]. left.
          destruct (item_kind_scen _ _ _ IW Hin) as (es & ->). cbn [P] in E. inversion E. exists es. auto.
        * left. subst it. split; [|exact Hin]. intros ->. rewrite (proj2 (akey_eqb_spec key key) eq_refl) in KE. discriminate.
      + inversion X; subst. right. split; [reflexivity|]. right. cbn [P] in E. inversion E. auto.
    - intros [(NE & Hin)|(-> & [(es & Hin & ->)|(NI & ->)])].
      + left. exists (IScen es'). split; [exact Hin|]. destruct (akey_eqb key key') eqn:KE; [|reflexivity].
        apply akey_eqb_spec in KE. congruence.
      + left. exists (IScen es). split; [exact Hin|]. rewrite (proj2 (akey_eqb_spec key key) eq_refl). reflexivity.
      + right. auto. }
  assert (KEQ : forall k, att_feat k = f -> att_rule k = None -> (att_scen k, att_retr k) = key -> k = K).
  { intros [[[f0 r0] s0] t0] E1 E2 E3. cbn in *. inversion E3. subst. reflexivity. }
  split.
  - apply (R_items_update c c' s s' f q0 T HR UN Hq0 IO BF' EF).
    + intros k NE. rewrite ER. reflexivity.
    + intros k NE. apply LO. intros ->. apply NE. reflexivity.
    + intros r' st (rq & Hin & E). rewrite ER. apply (r_r1 c s HR). apply (bufR_at s f q0); auto. exists rq.
      split; [apply RULES; exact Hin|exact E].
    + intros r' H0. rewrite ER in H0. apply (r_r2 c s HR) in H0. apply (bufR_at s f q0) in H0; auto.
      destruct H0 as (rq & Hin & E). exists rq. split; [apply RULES; exact Hin|exact E].
    + intros k fin E AI. unfold attIn in AI. destruct (att_rule k) as [r'|] eqn:AR.
      * destruct AI as (rq & es & Hin & X). rewrite LO by (intros ->; discriminate AR).
        apply (r_a1 c s HR). apply (bufA_at s f q0); auto. rewrite AR. exists rq, es. split; [apply RULES; exact Hin|exact X].
      * destruct AI as (es' & Hin & HF). apply SCENS in Hin as [(NE & Hin)|(KE & Hin)].
        -- rewrite LO by (intros ->; apply NE; reflexivity).
           apply (r_a1 c s HR). apply (bufA_at s f q0); auto. rewrite AR. exists es'. auto.
        -- rewrite (KEQ k E AR KE), LK. destruct Hin as [(es & Hin & ->)|(_ & ->)].
           ++ rewrite has_fin_snoc, (NOFIN es Hin) in HF. cbn [orb] in HF. unfold sta_of. rewrite HF. reflexivity.
           ++ unfold has_fin in HF. cbn in HF. rewrite orb_false_r in HF. unfold sta_of. rewrite HF. reflexivity.
    + intros k E H0. unfold attIn. destruct (att_rule k) as [r'|] eqn:AR.
      * rewrite LO in H0 by (intros ->; discriminate AR). apply (r_a2 c s HR) in H0.
        apply (bufA_at s f q0) in H0; auto. rewrite AR in H0. destruct H0 as (rq & es & Hin & X).
        exists rq, es. split; [apply RULES; exact Hin|exact X].
      * destruct (akey_eqb key (att_scen k, att_retr k)) eqn:KE.
        -- apply akey_eqb_spec in KE. symmetry in KE. rewrite (KEQ k E AR KE), LK in H0.
           assert (XF : is_sc_finished x = false) by (unfold sta_of in H0; destruct (is_sc_finished x); [discriminate|reflexivity]).
           rewrite KE. destruct (afind ikey_eqb (KScen key) (fq_items q0)) as [[k' it]|] eqn:FD.
           ++ pose proof (afind_key_eq ikey_eqb ikey_eqb_spec _ _ _ _ FD) as ->.
              apply (afind_some_in ikey_eqb ikey_eqb_spec) in FD; [|exact UQ].
              destruct (item_kind_scen _ _ _ IW FD) as (es & ->). exists (es ++ [(m, x)]). split.
              ** apply SCENS. right. split; [reflexivity|]. left. exists es. auto.
              ** rewrite has_fin_snoc, (NOFIN es FD), XF. reflexivity.
           ++ apply (afind_none_notin ikey_eqb ikey_eqb_spec) in FD. exists [(m, x)]. split.
              ** apply SCENS. right. split; [reflexivity|]. right. auto.
              ** unfold has_fin. cbn. rewrite XF. reflexivity.
        -- assert (NK : k <> K).
           { intros ->. change (att_scen K, att_retr K) with key in KE. rewrite (proj2 (akey_eqb_spec key key) eq_refl) in KE. discriminate. }
           rewrite LO in H0 by exact NK. apply (r_a2 c s HR) in H0. apply (bufA_at s f q0) in H0; auto.
           rewrite AR in H0. destruct H0 as (es & Hin & HF). exists es. split; [|exact HF]. apply SCENS. left.
           split; [|exact Hin]. intros X. rewrite X, (proj2 (akey_eqb_spec key key) eq_refl) in KE. discriminate.
  - apply (items_update_U s s' f q0 T HU Hq0 UN' IO). split.
    + unfold T. apply (nodup_aupsert ikey_eqb ikey_eqb_spec). exact UQ.
    + intros r' rq Hin. apply RULES in Hin. exact (UQ2 r' rq Hin).
Qed.

(* ---- an event of a scenario attempt inside a rule ---- *)
Lemma sim_scenR c c' s f r sc rt x m :
  R c s -> U s -> nwf s = true ->
  lookup rkey_eqb (f, r) (c_rules c) = Some Open ->
  lookup atkey_eqb (f, Some r, sc, rt) (c_atts c) <> Some Closed ->
  c_feats c' = c_feats c -> c_rules c' = c_rules c ->
  lookup atkey_eqb (f, Some r, sc, rt) (c_atts c') = Some (sta_of x) ->
  (forall k, k <> (f, Some r, sc, rt) -> lookup atkey_eqb k (c_atts c') = lookup atkey_eqb k (c_atts c)) ->
  (exists q0 rq0, afind N.eqb f (ns_feats s) = Some (f, q0) /\ not_pending (fq_state q0) = true /\
     afind ikey_eqb (KRule r) (fq_items q0) = Some (KRule r, IRule rq0) /\ not_pending (rq_state rq0) = true /\
     accept_att (afind akey_eqb (sc, rt) (rq_atts rq0)) = true) /\
  R c' (enqueue s (m, EvScen f (Some r) sc rt x)) /\ U (enqueue s (m, EvScen f (Some r) sc rt x)).
Proof.
  intros HR HU W OP NC EF ER LK LO. pose proof HU as [UN UI].
  destruct (r_r2 c s HR f r OP) as (its & rq0 & (q0 & Hq0 & <-) & Hrq & RS).
  pose proof (rule_open_feature_open c s f q0 r rq0 HR W Hq0 Hrq RS) as ST.
  assert (UQ : Uits (fq_items q0)) by (apply (UI f); exists q0; auto). destruct UQ as [UQ UQ2].
  assert (IW : items_wf (fq_items q0) = true) by (apply (nwf_items s f); [exact W|exists q0; auto]).
  pose proof (UQ2 r rq0 Hrq) as UA.
  set (K := (f, Some r, sc, rt)) in *. set (key := (sc, rt)).
  assert (RQ0 : forall rq1, In (KRule r, IRule rq1) (fq_items q0) -> rq1 = rq0).
  { intros rq1 H1. pose proof (nodup_keys_unique _ _ _ _ UQ H1 Hrq) as X. inversion X. reflexivity. }
  assert (NOFIN : forall es, In (key, es) (rq_atts rq0) -> has_fin es = false).
  { intros es Hin. destruct (has_fin es) eqn:HF; [|reflexivity]. exfalso. apply NC.
    apply (r_a1 c s HR K true). apply (bufA_at s f q0); auto. cbn [K att_rule att_scen att_retr attIn]. exists rq0, es. auto. }
  split.
  { exists q0, rq0. split; [apply (afind_some_in N.eqb N.eqb_eq); assumption|]. split; [rewrite ST; reflexivity|].
    split; [apply (afind_some_in ikey_eqb ikey_eqb_spec); assumption|]. split; [rewrite RS; reflexivity|].
    destruct (afind akey_eqb key (rq_atts rq0)) as [[k' es]|] eqn:FD; [|reflexivity].
    pose proof (afind_key_eq akey_eqb akey_eqb_spec _ _ _ _ FD) as ->.
    apply (afind_some_in akey_eqb akey_eqb_spec) in FD; [|exact UA]. cbn [accept_att]. rewrite (NOFIN es FD). reflexivity. }
  cbn [enqueue fst snd].
  set (H := fun it => match it with
                      | IRule rq => IRule (set_rq_atts rq (aupsert akey_eqb key (push_ev (m, x)) (rq_atts rq)))
                      | y => y end).
  set (T := fun its => amodify ikey_eqb (KRule r) H its).
  destruct (feat_update s f (fun q => set_fq_items q (T (fq_items q))) T (fun st => st) UN
              (fun _ => eq_refl) (fun _ => eq_refl)) as (IO & BF & UN').
  set (s' := set_feats s (amodify N.eqb f (fun q => set_fq_items q (T (fq_items q))) (ns_feats s))) in *.
  assert (BF' : forall f' st, bufF s' f' st <-> bufF s f' st).
  { intros f' st. rewrite BF. split; [intros (st0 & H0 & ->); destruct (f =? f'); exact H0|].
    intros H0. exists st. split; [exact H0|destruct (f =? f'); reflexivity]. }
  assert (TI : forall k' it', In (k', it') (T (fq_items q0)) <->
                 exists it, In (k', it) (fq_items q0) /\ it' = if ikey_eqb (KRule r) k' then H it else it).
  { intros k' it'. unfold T. apply (in_amodify ikey_eqb ikey_eqb_spec). exact UQ. }
  set (atts' := aupsert akey_eqb key (push_ev (m, x)) (rq_atts rq0)).
  assert (RULES : forall r' rq', In (KRule r', IRule rq') (T (fq_items q0)) <->
                    (r' <> r /\ In (KRule r', IRule rq') (fq_items q0)) \/ (r' = r /\ rq' = set_rq_atts rq0 atts')).
  { intros r' rq'. rewrite TI. cbn [ikey_eqb]. split.
    - intros (it & Hin & E). destruct (item_kind_rule _ _ _ IW Hin) as (rq1 & ->). destruct (N.eqb_spec r r') as [<-|NE].
      + right. split; [reflexivity|]. rewrite (RQ0 rq1 Hin) in E. cbn [H] in E. inversion E. reflexivity.
      + left. inversion E; subst. split; [congruence|exact Hin].
    - intros [(NE & Hin)|(-> & ->)].
      + exists (IRule rq'). split; [exact Hin|]. rewrite (proj2 (N.eqb_neq r r')); [reflexivity|congruence].
      + exists (IRule rq0). split; [exact Hrq|]. rewrite N.eqb_refl. reflexivity. }
  assert (SCENS : forall k es, In (KScen k, IScen es) (T (fq_items q0)) <-> In (KScen k, IScen es) (fq_items q0)).
  { intros k es. rewrite TI. cbn [ikey_eqb]. split; [intros (it & Hin & ->); exact Hin|]. intros Hin. exists (IScen es). auto. }
  assert (ATTS : forall key' es', In (key', es') atts' <->
     (key' <> key /\ In (key', es') (rq_atts rq0)) \/
     (key' = key /\ ((exists es, In (key, es) (rq_atts rq0) /\ es' = es ++ [(m, x)]) \/
                     (~ In key (keys (rq_atts rq0)) /\ es' = [(m, x)])))).
  { intros key' es'. unfold atts'. rewrite (in_aupsert akey_eqb akey_eqb_spec) by exact UA. split.
    - intros [(es & Hin & E)|(NI & X & E)].
      + destruct (akey_eqb key key') eqn:KE.
        * apply akey_eqb_spec in KE. subst key'. right. split; [reflexivity|]. left. exists es. cbn [push_ev] in E. auto.
        * left. subst es'. split; [|exact Hin]. intros ->. rewrite (proj2 (akey_eqb_spec key key) eq_refl) in KE. discriminate.
      + subst. right. split; [reflexivity|]. right. auto.
    - intros [(NE & Hin)|(-> & [(es & Hin & ->)|(NI & ->)])].
      + left. exists es'. split; [exact Hin|]. destruct (akey_eqb key key') eqn:KE; [|reflexivity].
        apply akey_eqb_spec in KE. congruence.
      + left. exists es. split; [exact Hin|]. rewrite (proj2 (akey_eqb_spec key key) eq_refl). reflexivity.
      + right. auto. }
  assert (KEQ : forall k, att_feat k = f -> att_rule k = Some r -> (att_scen k, att_retr k) = key -> k = K).
  { intros [[[f0 r0] s0] t0] E1 E2 E3. cbn in *. inversion E3. subst. reflexivity. }
  split.
  - apply (R_items_update c c' s s' f q0 T HR UN Hq0 IO BF' EF).
    + intros k NE. rewrite ER. reflexivity.
    + intros k NE. apply LO. intros ->. apply NE. reflexivity.
    + intros r' st (rq' & Hin & E). rewrite ER. apply (r_r1 c s HR). apply (bufR_at s f q0); auto.
      apply RULES in Hin as [(NE & Hin)|(-> & ->)]; [exists rq'; auto|]. exists rq0. split; [exact Hrq|exact E].
    + intros r' H0. rewrite ER in H0. apply (r_r2 c s HR) in H0. apply (bufR_at s f q0) in H0; auto.
      destruct H0 as (rq1 & Hin & E). destruct (N.eq_dec r' r) as [->|NE].
      * rewrite (RQ0 rq1 Hin) in E. exists (set_rq_atts rq0 atts'). split; [apply RULES; right; auto|exact E].
      * exists rq1. split; [apply RULES; left; auto|exact E].
    + intros k fin E AI. unfold attIn in AI. destruct (att_rule k) as [r'|] eqn:AR.
      * destruct AI as (rq' & es' & Hin & Hes & HF). apply RULES in Hin as [(NE & Hin)|(-> & ->)].
        -- rewrite LO by (intros ->; apply NE; cbn in AR; congruence).
           apply (r_a1 c s HR). apply (bufA_at s f q0); auto. rewrite AR. exists rq', es'. auto.
        -- cbn [set_rq_atts rq_atts] in Hes. apply ATTS in Hes as [(NE & Hes)|(KE & Hes)].
           ++ rewrite LO by (intros ->; apply NE; reflexivity).
              apply (r_a1 c s HR). apply (bufA_at s f q0); auto. rewrite AR. exists rq0, es'. auto.
           ++ rewrite (KEQ k E AR KE), LK. destruct Hes as [(es & Hes & ->)|(_ & ->)].
              ** rewrite has_fin_snoc, (NOFIN es Hes) in HF. cbn [orb] in HF. unfold sta_of. rewrite HF. reflexivity.
              ** unfold has_fin in HF. cbn in HF. rewrite orb_false_r in HF. unfold sta_of. rewrite HF. reflexivity.
      * destruct AI as (es & Hin & HF). rewrite LO by (intros ->; discriminate AR).
        apply (r_a1 c s HR). apply (bufA_at s f q0); auto. rewrite AR. exists es. split; [apply SCENS; exact Hin|exact HF].
    + intros k E H0. unfold attIn. destruct (att_rule k) as [r'|] eqn:AR.
      * destruct (N.eq_dec r' r) as [->|NR].
        -- destruct (akey_eqb key (att_scen k, att_retr k)) eqn:KE.
           ++ apply akey_eqb_spec in KE. symmetry in KE. rewrite (KEQ k E AR KE), LK in H0.
              assert (XF : is_sc_finished x = false) by (unfold sta_of in H0; destruct (is_sc_finished x); [discriminate|reflexivity]).
              rewrite KE. destruct (afind akey_eqb key (rq_atts rq0)) as [[k' es]|] eqn:FD.
              ** pose proof (afind_key_eq akey_eqb akey_eqb_spec _ _ _ _ FD) as ->.
                 apply (afind_some_in akey_eqb akey_eqb_spec) in FD; [|exact UA].
                 exists (set_rq_atts rq0 atts'), (es ++ [(m, x)]). split; [apply RULES; right; auto|]. split.
                 --- cbn [set_rq_atts rq_atts]. apply ATTS. right. split; [reflexivity|]. left. exists es. auto.
                 --- rewrite has_fin_snoc, (NOFIN es FD), XF. reflexivity.
              ** apply (afind_none_notin akey_eqb akey_eqb_spec) in FD.
                 exists (set_rq_atts rq0 atts'), [(m, x)]. split; [apply RULES; right; auto|]. split.
                 --- cbn [set_rq_atts rq_atts]. apply ATTS. right. split; [reflexivity|]. right. auto.
                 --- unfold has_fin. cbn. rewrite XF. reflexivity.
           ++ assert (NK : k <> K).
              { intros ->. change (att_scen K, att_retr K) with key in KE. rewrite (proj2 (akey_eqb_spec key key) eq_refl) in KE. discriminate. }
              rewrite LO in H0 by exact NK. apply (r_a2 c s HR) in H0. apply (bufA_at s f q0) in H0; auto.
              rewrite AR in H0. destruct H0 as (rq1 & es & Hin & Hes & HF). rewrite (RQ0 rq1 Hin) in Hes.
              exists (set_rq_atts rq0 atts'), es. split; [apply RULES; right; auto|]. split; [|exact HF].
              cbn [set_rq_atts rq_atts]. apply ATTS. left. split; [|exact Hes].
              intros X. rewrite X, (proj2 (akey_eqb_spec key key) eq_refl) in KE. discriminate.
        -- rewrite LO in H0 by (intros ->; cbn in AR; congruence). apply (r_a2 c s HR) in H0.
           apply (bufA_at s f q0) in H0; auto. rewrite AR in H0. destruct H0 as (rq1 & es & Hin & X).
           exists rq1, es. split; [apply RULES; left; auto|exact X].
      * rewrite LO in H0 by (intros ->; discriminate AR). apply (r_a2 c s HR) in H0.
        apply (bufA_at s f q0) in H0; auto. rewrite AR in H0. destruct H0 as (es & Hin & X).
        exists es. split; [apply SCENS; exact Hin|exact X].
  - apply (items_update_U s s' f q0 T HU Hq0 UN' IO). split.
    + unfold T. rewrite keys_amodify. exact UQ.
    + intros r' rq' Hin. apply RULES in Hin as [(NE & Hin)|(-> & ->)]; [exact (UQ2 r' rq' Hin)|].
      cbn [set_rq_atts rq_atts]. unfold atts'. apply (nodup_aupsert akey_eqb akey_eqb_spec). exact UA.
Qed.

(* ---- emission only removes finished entities and drains events: the residue relations ---- *)
Definition res_atts (l l' : list (akey * list aev)) : Prop :=
  (forall k es', In (k, es') l' -> exists es, In (k, es) l /\ has_fin es' = has_fin es) /\
  (forall k es, In (k, es) l -> has_fin es = false -> exists es', In (k, es') l' /\ has_fin es' = false) /\
  (NoDup (keys l) -> NoDup (keys l')).

Lemma res_atts_refl l : res_atts l l.
Proof. split; [|split]; auto; intros k es H; eauto. Qed.

Lemma emit_atts_res f r l : atts_wf l = true -> res_atts l (snd (emit_atts f r l)).
Proof.
  induction l as [|[k es] t IH]; intros W; cbn [emit_atts]; [apply res_atts_refl|].
  unfold atts_wf in W. cbn [forallb snd] in W. apply andb_prop in W as [W1 W2].
  rewrite (emit_att_wf f (Some r) k es W1). destruct (has_fin es) eqn:HF.
  - specialize (IH W2). destruct (emit_atts f r t) as [o2 l2]. cbn [snd] in *. destruct IH as (A & B & C).
    split; [|split].
    + intros k' es' H. destruct (A k' es' H) as (es0 & H0 & E). exists es0. split; [right; exact H0|exact E].
    + intros k' es0 [H|H] NF; [inversion H; subst; congruence|exact (B k' es0 H NF)].
    + intros ND. inversion ND; subst. auto.
  - cbn [snd]. split; [|split].
    + intros k' es' [H|H]; [inversion H; subst; exists es; split; [left; reflexivity|rewrite HF; reflexivity]|].
      exists es'. split; [right; exact H|reflexivity].
    + intros k' es0 [H|H] NF; [inversion H; subst; exists []; split; [left; reflexivity|reflexivity]|].
      exists es0. split; [right; exact H|exact NF].
    + auto.
Qed.

Definition res_item (it it' : item) : Prop :=
  match it, it' with
  | IRule rq, IRule rq' => rq_state rq' = rq_state rq /\ res_atts (rq_atts rq) (rq_atts rq')
  | IScen es, IScen es' => has_fin es' = has_fin es
  | _, _ => False
  end.
Lemma res_item_refl it : res_item it it.
Proof. destruct it; cbn; [split; [reflexivity|apply res_atts_refl]|reflexivity]. Qed.

Definition res_items (l l' : list (ikey * item)) : Prop :=
  (forall k it', In (k, it') l' -> exists it, In (k, it) l /\ res_item it it') /\
  (forall k it, In (k, it) l -> item_done (k, it) = false -> exists it', In (k, it') l' /\ res_item it it') /\
  (NoDup (keys l) -> NoDup (keys l')).
Lemma res_items_refl l : res_items l l.
Proof. split; [|split]; auto; intros k it H; eauto using res_item_refl. Qed.

Lemma emit_items_res f l : items_wf l = true -> res_items l (snd (emit_items f l)).
Proof.
  induction l as [|[k it] t IH]; intros W; cbn [emit_items]; [apply res_items_refl|].
  unfold items_wf in W. cbn [forallb] in W. apply andb_prop in W as [W1 W2]. specialize (IH W2).
  assert (DROP : res_items t (snd (emit_items f t)) -> item_done (k, it) = true ->
                 res_items ((k, it) :: t) (snd (emit_items f t))).
  { intros (A & B & C) D. split; [|split].
    - intros k' it' H. destruct (A k' it' H) as (it0 & H0 & E). exists it0. split; [right; exact H0|exact E].
    - intros k' it0 [H|H] NF; [inversion H; subst; congruence|exact (B k' it0 H NF)].
    - intros ND. inversion ND; subst. auto. }
  assert (KEEP : forall it', res_item it it' -> res_items ((k, it) :: t) ((k, it') :: t)).
  { intros it' RI. split; [|split].
    - intros k' it0 [H|H]; [inversion H; subst; exists it; split; [left; reflexivity|exact RI]|].
      exists it0. split; [right; exact H|apply res_item_refl].
    - intros k' it0 [H|H] NF; [inversion H; subst; exists it'; split; [left; reflexivity|exact RI]|].
      exists it0. split; [right; exact H|apply res_item_refl].
    - auto. }
  destruct k as [r|k]; destruct it as [rq|es]; cbn [item_wf] in W1; try discriminate.
  - pose proof (emit_rule_wf f r rq W1) as RW. unfold emit_rule in *.
    unfold rule_wf in W1. apply andb_prop in W1 as [WA _].
    pose proof (emit_atts_res f r (rq_atts rq) WA) as RA. destruct (emit_atts f r (rq_atts rq)) as [o2 atts]. cbn [snd] in RA.
    destruct (rq_state rq) as [|m0|] eqn:RS; cbn [take_fin] in *.
    + cbn [snd]. apply KEEP. cbn [res_item rq_state rq_atts]. split; [symmetry; exact RS|exact RA].
    + destruct (emit_items f t) as [o3 l3]. cbn [snd] in *. apply DROP; [exact IH|]. cbn [item_done]. rewrite RS. reflexivity.
    + cbn [snd]. apply KEEP. cbn [res_item rq_state rq_atts]. split; [symmetry; exact RS|exact RA].
  - rewrite (emit_att_wf f None k es W1). destruct (has_fin es) eqn:HF.
    + destruct (emit_items f t) as [o3 l3]. cbn [snd] in *. apply DROP; [exact IH|]. cbn [item_done]. exact HF.
    + cbn [snd]. apply KEEP. cbn [res_item]. rewrite HF. reflexivity.
Qed.

Definition res_feat (q q' : fqueue) : Prop := fq_state q' = fq_state q /\ res_items (fq_items q) (fq_items q').
Definition res_feats (l l' : list (N * fqueue)) : Prop :=
  (forall f q', In (f, q') l' -> exists q, In (f, q) l /\ res_feat q q') /\
  (forall f q, In (f, q) l -> fin_pending (fq_state q) = false -> exists q', In (f, q') l' /\ res_feat q q') /\
  (NoDup (keys l) -> NoDup (keys l')).
Lemma res_feat_refl q : res_feat q q.
Proof. split; [reflexivity|apply res_items_refl]. Qed.
Lemma res_feats_refl l : res_feats l l.
Proof. split; [|split]; auto; intros f q H; eauto using res_feat_refl. Qed.

Lemma emit_feats_res l : feats_wf l = true -> res_feats l (snd (emit_feats l)).
Proof.
  induction l as [|[f q] t IH]; intros W; cbn [emit_feats]; [apply res_feats_refl|].
  unfold feats_wf in W. cbn [forallb snd] in W. apply andb_prop in W as [W1 W2]. specialize (IH W2).
  unfold emit_feat. unfold feat_wf in W1. apply andb_prop in W1 as [WI _].
  pose proof (emit_items_res f (fq_items q) WI) as RI. destruct (emit_items f (fq_items q)) as [o2 items]. cbn [snd] in RI.
  assert (KEEP : forall q', res_feat q q' -> res_feats ((f, q) :: t) ((f, q') :: t)).
  { intros q' RF. split; [|split].
    - intros f' q0 [H|H]; [inversion H; subst; exists q; split; [left; reflexivity|exact RF]|].
      exists q0. split; [right; exact H|apply res_feat_refl].
    - intros f' q0 [H|H] NF; [inversion H; subst; exists q'; split; [left; reflexivity|exact RF]|].
      exists q0. split; [right; exact H|apply res_feat_refl].
    - auto. }
  destruct (fq_state q) as [|m0|] eqn:FS; cbn [take_fin].
  - cbn [snd]. apply KEEP. split; [symmetry; exact FS|exact RI].
  - destruct (emit_feats t) as [o3 l3]. cbn [snd] in *. destruct IH as (A & B & C). split; [|split].
    + intros f' q' H. destruct (A f' q' H) as (q0 & H0 & E). exists q0. split; [right; exact H0|exact E].
    + intros f' q0 [H|H] NF; [inversion H; subst; rewrite FS in NF; discriminate|exact (B f' q0 H NF)].
    + intros ND. inversion ND; subst. auto.
  - cbn [snd]. apply KEEP. split; [symmetry; exact FS|exact RI].
Qed.

Lemma feat_wf_of s f q : nwf s = true -> In (f, q) (ns_feats s) -> feat_wf q = true.
Proof.
  unfold nwf. intros W Hq. apply andb_prop in W as [W _]. unfold feats_wf in W. exact (forallb_in _ _ _ W Hq).
Qed.

Lemma R_residue c s l' st' :
  R c s -> nwf s = true -> U s -> res_feats (ns_feats s) l' -> R c (mk_ns l' st') /\ U (mk_ns l' st').
Proof.
  intros HR W [UN UI] (A & B & C). destruct HR as [F1 F2 R1 R2 A1 A2].
  set (s' := mk_ns l' st').
  (* an unfinished item of a buffered feature: the feature is unfinished too *)
  assert (FOPEN : forall f q k it, In (f, q) (ns_feats s) -> In (k, it) (fq_items q) -> item_done (k, it) = false ->
                    fin_pending (fq_state q) = false).
  { intros f q k it Hq Hin ND. pose proof (feat_wf_of s f q W Hq) as FW. unfold feat_wf in FW.
    apply andb_prop in FW as [_ FW]. destruct (fin_pending (fq_state q)); [|reflexivity]. cbn in FW.
    rewrite (forallb_in _ _ _ FW Hin) in ND. discriminate. }
  split.
  - constructor.
    + intros f st (q' & Hq' & E). destruct (A f q' Hq') as (q & Hq & ES & _). apply F1. exists q. split; [exact Hq|congruence].
    + intros f OP. destruct (F2 f OP) as (q & Hq & E). destruct (B f q Hq) as (q' & Hq' & ES & _); [rewrite E; reflexivity|].
      exists q'. split; [exact Hq'|congruence].
    + intros f r st (its' & rq' & (q' & Hq' & <-) & Hin & E). destruct (A f q' Hq') as (q & Hq & _ & (IA & _ & _)).
      destruct (IA _ _ Hin) as (it & Hit & RI). destruct it as [rq|es]; [|destruct RI]. destruct RI as [ES _].
      apply R1. exists (fq_items q), rq. split; [exists q; auto|]. split; [exact Hit|congruence].
    + intros f r OP. destruct (R2 f r OP) as (its & rq & (q & Hq & <-) & Hin & E).
      assert (ND : item_done (KRule r, IRule rq) = false) by (cbn; rewrite E; reflexivity).
      destruct (B f q Hq (FOPEN f q _ _ Hq Hin ND)) as (q' & Hq' & _ & (_ & IB & _)).
      destruct (IB _ _ Hin ND) as (it' & Hit' & RI). destruct it' as [rq'|es']; [|destruct RI]. destruct RI as [ES _].
      exists (fq_items q'), rq'. split; [exists q'; auto|]. split; [exact Hit'|congruence].
    + intros k fin (its' & (q' & Hq' & <-) & AI). destruct (A _ q' Hq') as (q & Hq & _ & (IA & _ & _)).
      apply A1. exists (fq_items q). split; [exists q; auto|]. unfold attIn in *. destruct (att_rule k) as [r|].
      * destruct AI as (rq' & es' & Hin & Hes & HF). destruct (IA _ _ Hin) as (it & Hit & RI).
        destruct it as [rq|es]; [|destruct RI]. destruct RI as [_ (AA & _ & _)].
        destruct (AA _ _ Hes) as (es & Hes0 & EF). exists rq, es. split; [exact Hit|]. split; [exact Hes0|congruence].
      * destruct AI as (es' & Hin & HF). destruct (IA _ _ Hin) as (it & Hit & RI).
        destruct it as [rq|es]; [destruct RI|]. cbn in RI. exists es. split; [exact Hit|congruence].
    + intros k OP. destruct (A2 k OP) as (its & (q & Hq & <-) & AI). unfold bufA, attIn in *.
      destruct (att_rule k) as [r|].
      * destruct AI as (rq & es & Hin & Hes & HF).
        assert (RW : rule_wf rq = true).
        { pose proof (feat_wf_of s _ q W Hq) as FW. unfold feat_wf in FW. apply andb_prop in FW as [FW _].
          exact (forallb_in _ _ _ FW Hin). }
        assert (ND : item_done (KRule r, IRule rq) = false).
        { cbn. unfold rule_wf in RW. apply andb_prop in RW as [_ RW]. destruct (fin_pending (rq_state rq)); [|reflexivity].
          cbn in RW. unfold atts_done in RW. pose proof (forallb_in _ _ _ RW Hes) as X. cbn [snd] in X. congruence. }
        destruct (B _ q Hq (FOPEN _ q _ _ Hq Hin ND)) as (q' & Hq' & _ & (_ & IB & _)).
        destruct (IB _ _ Hin ND) as (it' & Hit' & RI). destruct it' as [rq'|es']; [|destruct RI].
        destruct RI as [_ (_ & AB & _)]. destruct (AB _ _ Hes HF) as (es' & Hes' & HF').
        exists (fq_items q'). split; [exists q'; auto|]. exists rq', es'. auto.
      * destruct AI as (es & Hin & HF).
        assert (ND : item_done (KScen (att_scen k, att_retr k), IScen es) = false) by (cbn; exact HF).
        destruct (B _ q Hq (FOPEN _ q _ _ Hq Hin ND)) as (q' & Hq' & _ & (_ & IB & _)).
        destruct (IB _ _ Hin ND) as (it' & Hit' & RI). destruct it' as [rq'|es']; [destruct RI|]. cbn in RI.
        exists (fq_items q'). split; [exists q'; auto|]. exists es'. split; [exact Hit'|congruence].
  - split; [exact (C UN)|]. intros f its' (q' & Hq' & <-). destruct (A f q' Hq') as (q & Hq & _ & (IA & _ & IC)).
    destruct (UI f (fq_items q)) as [U1 U2]; [exists q; auto|]. split; [exact (IC U1)|].
    intros r rq' Hin. destruct (IA _ _ Hin) as (it & Hit & RI). destruct it as [rq|es]; [|destruct RI].
    destruct RI as [_ (_ & _ & AC)]. exact (AC (U2 r rq Hit)).
Qed.

(* ---- one call of handle_event against one step of the automaton ---- *)
Lemma nhandle_fst s e : is_emitted (ns_state s) = false ->
  fst (nhandle s e) = mk_ns (snd (emit_feats (ns_feats (enqueue s e)))) (snd (take_fin (ns_state (enqueue s e)))).
Proof.
  intros EM. unfold nhandle. rewrite EM. destruct (emit_feats (ns_feats (enqueue s e))) as [o1 fs].
  destruct (take_fin (ns_state (enqueue s e))) as [[m0|] st]; reflexivity.
Qed.

Lemma R_ext c c' s : c_feats c' = c_feats c -> c_rules c' = c_rules c -> c_atts c' = c_atts c -> R c s -> R c' s.
Proof. intros E1 E2 E3 [F1 F2 R1 R2 A1 A2]. constructor; rewrite ?E1, ?E2, ?E3; assumption. Qed.

Lemma guard_some b (x y : cstate) : guard b x = Some y -> b = true /\ x = y.
Proof. unfold guard. destruct b; [intros H; inversion H; auto|discriminate]. Qed.

Lemma is_open_some o : is_open o = true -> o = Some Open.
Proof. destruct o as [[|]|]; cbn; congruence. Qed.
Lemma is_absent_none o : is_absent o = true -> o = None.
Proof. destruct o; cbn; congruence. Qed.

Lemma enqueue_state s e : snd e <> EvFinished -> ns_state (enqueue s e) = ns_state s.
Proof.
  destruct e as [m ev0]. cbn [snd]. intros NF. unfold enqueue. cbn [fst snd].
  destruct ev0 as [| | | |f|f|f r|f r|f [r|] sc rt x]; try reflexivity. contradiction.
Qed.

(* after the residue step *)
Lemma after_emission c s1 st' :
  R c s1 -> U s1 -> nwf s1 = true ->
  R c (mk_ns (snd (emit_feats (ns_feats s1))) st') /\ U (mk_ns (snd (emit_feats (ns_feats s1))) st').
Proof.
  intros HR HU W. apply (R_residue c s1); auto. apply emit_feats_res. unfold nwf in W. apply andb_prop in W as [W _]. exact W.
Qed.

Definition SimInv (c : cstate) (s : nstate) : Prop :=
  R c s /\ U s /\ nwf s = true /\ ns_state s = NotFinished.

Theorem sim_step c c' s m e :
  SimInv c s -> cstep false c e = Some c' ->
  accepts s e = true /\
  (e = EvFinished -> is_emitted (ns_state (fst (nhandle s (m, e)))) = true) /\
  (e <> EvFinished -> SimInv c' (fst (nhandle s (m, e)))).
Proof.
  intros (HR & HU & W & NS) CS.
  assert (EM : is_emitted (ns_state s) = false) by (rewrite NS; reflexivity).
  assert (RS : resting s = true) by (unfold resting; rewrite NS; reflexivity).
  assert (NP : not_pending (ns_state s) = true) by (rewrite NS; reflexivity).
  unfold accepts. rewrite EM. cbn [orb].
  (* everything follows once the event is accepted and R, U hold after queueing *)
  assert (FINISH : forall c1, naccept s e = true -> e <> EvFinished ->
            R c1 (enqueue s (m, e)) -> U (enqueue s (m, e)) ->
            naccept s e = true /\ (e = EvFinished -> is_emitted (ns_state (fst (nhandle s (m, e)))) = true) /\
            (e <> EvFinished -> SimInv c1 (fst (nhandle s (m, e))))).
  { intros c1 NA NF R1 U1. split; [exact NA|]. split; [intros X; contradiction|]. intros _.
    assert (AC : accepts s (snd (m, e)) = true) by (unfold accepts; rewrite EM; exact NA).
    destruct (handle_lossless s (m, e) W RS AC) as (W' & RS' & _ & _ & _).
    rewrite (nhandle_fst s (m, e) EM) in *.
    assert (W1 : nwf (enqueue s (m, e)) = true).
    { destruct (is_pass e) eqn:PS; [rewrite (enqueue_pass s (m, e) PS); exact W|].
      exact (proj1 (enqueue_adds_one s (m, e) W PS NA)). }
    destruct (after_emission c1 _ (snd (take_fin (ns_state (enqueue s (m, e))))) R1 U1 W1) as (R2 & U2).
    split; [exact R2|]. split; [exact U2|]. split; [exact W'|].
    cbn [ns_state]. rewrite (enqueue_state s (m, e)) by exact NF. rewrite NS. reflexivity. }
  unfold cstep in CS. destruct (c_finished c) eqn:CF; [discriminate|].
  destruct e as [| | | |f|f|f r|f r|f ro sc rt x].
  - (* Started *) apply guard_some in CS as [_ <-]. apply (FINISH (set_started c)); try reflexivity; try discriminate.
    + rewrite enqueue_pass by reflexivity. exact (R_ext c (set_started c) s eq_refl eq_refl eq_refl HR).
    + rewrite enqueue_pass by reflexivity. exact HU.
  - (* ParsingFinished *) apply guard_some in CS as [_ <-]. apply (FINISH (set_pf c)); try reflexivity; try discriminate.
    + rewrite enqueue_pass by reflexivity. exact (R_ext c (set_pf c) s eq_refl eq_refl eq_refl HR).
    + rewrite enqueue_pass by reflexivity. exact HU.
  - (* parser error *) inversion CS; subst. apply (FINISH c'); try reflexivity; try discriminate.
    + rewrite enqueue_pass by reflexivity. exact HR.
    + rewrite enqueue_pass by reflexivity. exact HU.
  - (* run Finished *)
    apply guard_some in CS as [G <-]. apply andb_prop in G as [_ G]. apply negb_true_iff in G.
    assert (NA : naccept s EvFinished = true).
    { unfold naccept. cbn [is_pass]. rewrite NP. cbn [andb]. unfold feats_done. apply forallb_forall. intros [f q] Hq. cbn [snd].
      destruct (fq_state q) eqn:FS; [|reflexivity|].
      - exfalso. destruct (r_f1 c s HR f NotFinished) as [X _]; [exists q; auto|]. cbn in X.
        rewrite (open_feat_seen c f X) in G. discriminate.
      - exfalso. destruct (r_f1 c s HR f FinEmitted) as [_ X]; [exists q; auto|]. apply X. reflexivity. }
    split; [exact NA|]. split; [|intros X; contradiction]. intros _.
    assert (AC : accepts s (snd (m, EvFinished)) = true) by (unfold accepts; rewrite EM; exact NA).
    destruct (handle_lossless s (m, EvFinished) W RS AC) as (_ & _ & _ & FE & _). exact (proj2 (FE EM eq_refl)).
  - (* Feature::Started *)
    apply guard_some in CS as [G <-]. apply andb_prop in G as [G _]. apply andb_prop in G as [_ G]. apply is_absent_none in G.
    destruct (sim_featS c s f m HR HU G) as (AF & R1 & U1).
    apply (FINISH _); try discriminate; auto. unfold naccept. cbn [is_pass]. rewrite NP, AF. reflexivity.
  - (* Feature::Finished *)
    apply guard_some in CS as [G <-]. apply andb_prop in G as [G G3]. apply andb_prop in G as [G1 G2].
    apply is_open_some in G1. apply negb_true_iff in G2, G3.
    destruct (sim_featF c s f m HR HU W G1 G2 G3) as ((q & AF & P1 & P2) & R1 & U1).
    apply (FINISH _); try discriminate; auto. unfold naccept. cbn [is_pass]. rewrite NP, AF, P1, P2. reflexivity.
  - (* Rule::Started *)
    apply guard_some in CS as [G <-]. apply andb_prop in G as [G _]. apply andb_prop in G as [G1 G2].
    apply is_open_some in G1. apply is_absent_none in G2.
    destruct (sim_ruleS c s f r m HR HU W G1 G2) as ((q & AF & P1 & P2) & R1 & U1).
    apply (FINISH _); try discriminate; auto. unfold naccept. cbn [is_pass]. rewrite NP, AF, P1, P2. reflexivity.
  - (* Rule::Finished *)
    apply guard_some in CS as [G <-]. apply andb_prop in G as [G1 G2]. apply is_open_some in G1. apply negb_true_iff in G2.
    destruct (sim_ruleF c s f r m HR HU W G1 G2) as ((q & rq & AF & P1 & AR & P2 & P3) & R1 & U1).
    apply (FINISH _); try discriminate; auto. unfold naccept. cbn [is_pass]. rewrite NP, AF, P1, AR, P2, P3. reflexivity.
  - (* scenario events *)
    set (K := (f, ro, sc, rt)) in *.
    assert (FACTS : lookup N.eqb f (c_feats c) = Some Open /\
                    (forall r, ro = Some r -> lookup rkey_eqb (f, r) (c_rules c) = Some Open) /\
                    lookup atkey_eqb K (c_atts c) <> Some Closed /\
                    c_feats c' = c_feats c /\ c_rules c' = c_rules c /\
                    lookup atkey_eqb K (c_atts c') = Some (sta_of x) /\
                    (forall k, k <> K -> lookup atkey_eqb k (c_atts c') = lookup atkey_eqb k (c_atts c))).
    { assert (PAR : forall b, (is_open (lookup N.eqb f (c_feats c)) &&
                        match ro with Some r' => is_open (lookup rkey_eqb (f, r') (c_rules c)) | None => negb false || b end) = true ->
                      lookup N.eqb f (c_feats c) = Some Open /\
                      (forall r, ro = Some r -> lookup rkey_eqb (f, r) (c_rules c) = Some Open)).
      { intros b P. apply andb_prop in P as [P1 P2]. split; [apply is_open_some; exact P1|].
        intros r ->. apply is_open_some. exact P2. }
      destruct x; apply guard_some in CS as [G <-].
      - (* ScStarted *)
        apply andb_prop in G as [G _]. apply andb_prop in G as [G _]. apply andb_prop in G as [G _].
        apply andb_prop in G as [G1 G2]. apply is_absent_none in G2. destruct (PAR _ G1) as [P1 P2].
        split; [exact P1|]. split; [exact P2|]. split; [fold K in G2; rewrite G2; discriminate|].
        split; [reflexivity|]. split; [reflexivity|]. cbn [set_catts c_atts]. split.
        + apply (lookup_setk_same atkey_eqb atkey_eqb_spec).
        + intros k NE. apply (lookup_setk_other atkey_eqb atkey_eqb_spec). exact NE.
      - (* hook *) apply andb_prop in G as [G1 G2]. apply is_open_some in G2. destruct (PAR _ G1) as [P1 P2].
        split; [exact P1|]. split; [exact P2|]. split; [fold K in G2; rewrite G2; discriminate|]. repeat split; auto.
      - (* background step *) apply andb_prop in G as [G1 G2]. apply is_open_some in G2. destruct (PAR _ G1) as [P1 P2].
        split; [exact P1|]. split; [exact P2|]. split; [fold K in G2; rewrite G2; discriminate|]. repeat split; auto.
      - (* step *) apply andb_prop in G as [G1 G2]. apply is_open_some in G2. destruct (PAR _ G1) as [P1 P2].
        split; [exact P1|]. split; [exact P2|]. split; [fold K in G2; rewrite G2; discriminate|]. repeat split; auto.
      - (* log *) apply andb_prop in G as [G1 G2]. apply is_open_some in G2. destruct (PAR _ G1) as [P1 P2].
        split; [exact P1|]. split; [exact P2|]. split; [fold K in G2; rewrite G2; discriminate|]. repeat split; auto.
      - (* ScFinished *) apply andb_prop in G as [G1 G2]. apply is_open_some in G2. destruct (PAR _ G1) as [P1 P2].
        split; [exact P1|]. split; [exact P2|]. split; [fold K in G2; rewrite G2; discriminate|].
        split; [reflexivity|]. split; [reflexivity|]. cbn [set_catts c_atts]. split.
        + apply (lookup_setk_same atkey_eqb atkey_eqb_spec).
        + intros k NE. apply (lookup_setk_other atkey_eqb atkey_eqb_spec). exact NE. }
    destruct FACTS as (P1 & P2 & NC & EF & ER & LK & LO). destruct ro as [r|].
    + destruct (sim_scenR c c' s f r sc rt x m HR HU W (P2 r eq_refl) NC EF ER LK LO)
        as ((q & rq & AF & Q1 & AR & Q2 & Q3) & R1 & U1).
      apply (FINISH _); try discriminate; auto. unfold naccept. cbn [is_pass]. rewrite NP, AF, Q1, AR, Q2, Q3. reflexivity.
    + destruct (sim_scenN c c' s f sc rt x m HR HU W P1 NC EF ER LK LO) as ((q & AF & Q1 & Q2) & R1 & U1).
      apply (FINISH _); try discriminate; auto. unfold naccept. cbn [is_pass]. rewrite NP, AF, Q1. cbn [andb]. exact Q2.
Qed.

(* ---- whole streams ---- *)
Lemma accepts_run_emitted : forall es s, is_emitted (ns_state s) = true -> accepts_run s es = true.
Proof.
  induction es as [|e t IH]; intros s EM; [reflexivity|]. cbn [accepts_run]. unfold accepts. rewrite EM. cbn [orb andb].
  rewrite (nhandle_after_finished s e EM). cbn [fst]. apply IH. exact EM.
Qed.

Lemma SimInv_init : SimInv cinit ninit.
Proof.
  split; [|split; [|split]]; try reflexivity.
  - constructor; cbn.
    + intros f st (q & [] & _).
    + intros f X. discriminate X.
    + intros f r st (its & rq & (q & [] & _) & _).
    + intros f r X. discriminate X.
    + intros k fin (its & (q & [] & _) & _).
    + intros k X. discriminate X.
  - split; [constructor|]. intros f its (q & [] & _).
Qed.

Lemma sim_run : forall es c s c'', SimInv c s -> crun false c (map snd es) = Some c'' -> accepts_run s es = true.
Proof.
  induction es as [|[m e] t IH]; intros c s c'' HS CR; [reflexivity|]. cbn [map snd crun] in CR.
  destruct (cstep false c e) as [c1|] eqn:CS; [|discriminate].
  destruct (sim_step c c1 s m e HS CS) as (AC & FIN & NXT). cbn [accepts_run snd]. rewrite AC. cbn [andb].
  destruct (ev_eqb e EvFinished) eqn:EF.
  - assert (E : e = EvFinished) by (destruct e; try discriminate EF; reflexivity).
    apply accepts_run_emitted. exact (FIN E).
  - assert (NE : e <> EvFinished) by (intros ->; cbn in EF; discriminate EF).
    exact (IH c1 _ c'' (NXT NE) CR).
Qed.

(* a stream that the contract automaton accepts respects the queue discipline of Normalize *)
Theorem contract_implies_accepts es : contract_prefix (map snd es) = true -> accepts_run ninit es = true.
Proof.
  unfold contract_prefix. destruct (crun false cinit (map snd es)) as [c''|] eqn:CR; [|discriminate]. intros _.
  exact (sim_run es cinit ninit c'' SimInv_init CR).
Qed.

(* so Normalize is lossless on every complete contract-abiding stream *)
Theorem contract_lossless es : contract (map snd es) = true -> Permutation (concat (nrun es)) es.
Proof.
  intros C. apply run_lossless_complete.
  - apply contract_implies_accepts. unfold contract in C. unfold contract_prefix.
    destruct (crun false cinit (map snd es)); [reflexivity|discriminate].
  - unfold contract in C. destruct (crun false cinit (map snd es)) as [c''|] eqn:CR; [|discriminate].
    (* a finished automaton has seen run-Finished *)
    assert (G : forall l c0 c1, crun false c0 l = Some c1 -> c_finished c1 = true -> c_finished c0 = false ->
                  existsb is_finished l = true).
    { induction l as [|e l IH]; intros c0 c1 H F0 F1; cbn [crun] in H.
      - inversion H; subst. congruence.
      - destruct (cstep false c0 e) as [c2|] eqn:CS; [|discriminate]. cbn [existsb].
        destruct (is_finished e) eqn:IF; [reflexivity|]. cbn [orb]. apply (IH c2 c1 H F0).
        unfold cstep in CS. rewrite F1 in CS. destruct e as [| | | |f|f|f r|f r|f ro sc rt x];
          try (apply guard_some in CS as [_ <-]; exact F1);
          try (inversion CS; subst; exact F1); try discriminate IF.
        destruct x; apply guard_some in CS as [_ <-]; exact F1. }
    rewrite existsb_exists. assert (X := G _ _ _ CR C eq_refl). apply existsb_exists in X as (e & He & IF).
    apply in_map_iff in He as (me & <- & Hme). exists me. auto.
Qed.
