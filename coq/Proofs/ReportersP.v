(* ReportersP.v — whole-document facts about the libtest report model: the totals of every suite-result line agree
   with the individual entries written before it, for EVERY event list. *)
From CV Require Import Model.Base Model.Events Model.Stats Model.StatsSpec Model.Reporters Proofs.BaseP.
From Coq Require Import Lia.

Definition kcount (k : N) (ls : list rf) : N :=
  N.of_nat (length (filter (fun r => match r with RTest k' _ => k' =? k | _ => false end) ls)).

Lemma kcount_app k a b : kcount k (a ++ b) = kcount k a + kcount k b.
Proof. unfold kcount. rewrite filter_app, app_length. lia. Qed.
Lemma kcount_nil k : kcount k [] = 0.
Proof. reflexivity. Qed.

Section L.
  Variable has_path : N -> bool.

  (* counters of the writer = lines written so far *)
  Definition linv (w : ltw) (ls : list rf) : Prop :=
    lt_passed (lw_c w) = kcount 1 ls /\ lt_ignored (lw_c w) = kcount 3 ls /\
    lt_failed (lw_c w) + lt_retried (lw_c w) + lt_parsing (lw_c w) + lt_hooks (lw_c w) = kcount 2 ls.

  (* every suite-result line states the totals of what precedes it *)
  Definition good (ls : list rf) : Prop :=
    forall pre ok p f i post, ls = pre ++ RSuiteResult ok p f i :: post ->
      p = kcount 1 pre /\ i = kcount 3 pre /\ f <= kcount 2 pre /\ ok = (f =? 0).

  Lemma good_app_plain ls o : good ls -> (forall x, In x o -> match x with RSuiteResult _ _ _ _ => False | _ => True end) ->
    good (ls ++ o).
  Proof.
    intros G NO pre ok p f i post E. apply app_eq_app in E as (l & [(E1 & E2)|(E1 & E2)]).
    - (* the result line lies in ls *)
      destruct l as [|x l].
      + rewrite app_nil_r in E1. subst pre. cbn in E2. subst o. exfalso. exact (NO _ (or_introl eq_refl)).
      + cbn in E2. inversion E2; subst. apply (G pre ok p f i l). reflexivity.
    - subst pre. destruct l as [|x l]; cbn in E2.
      + subst o. exfalso. exact (NO _ (or_introl eq_refl)).
      + exfalso. assert (In (RSuiteResult ok p f i) o) by (rewrite E2; right; apply in_or_app; right; left; reflexivity).
        exact (NO _ H).
  Qed.

  Lemma expand_inv w ls e : linv w ls -> good ls ->
    linv (fst (lt_expand has_path w e)) (ls ++ snd (lt_expand has_path w e)) /\
    good (ls ++ snd (lt_expand has_path w e)).
  Proof.
    intros (I1 & I2 & I3) G. unfold lt_expand.
    destruct e as [|fe re se ste er|id| |f|f|f r|f r|f r s rt x].
    - cbn [fst snd]. rewrite app_nil_r. split; [split; auto|exact G].
    - cbn [fst snd]. split; [unfold linv; rewrite !kcount_app; cbn; repeat split; lia|].
      apply good_app_plain; [exact G|]. intros x [<-|[]]. exact I.
    - cbn [fst snd lw_c]. split.
      + unfold linv. rewrite !kcount_app. cbn [lt_count lt_passed lt_ignored lt_failed lt_retried lt_parsing lt_hooks].
        unfold kcount at 2 4 6. cbn. repeat split; lia.
      + apply good_app_plain; [exact G|]. intros x [<-|[<-|[]]]; exact I.
    - (* run-Finished: the result line *)
      cbn [fst snd]. split.
      + unfold linv. rewrite !kcount_app. unfold kcount at 2 4 6. cbn. repeat split; lia.
      + intros pre ok p f i post E. apply app_eq_app in E as (l & [(E1 & E2)|(E1 & E2)]).
        * destruct l as [|x l].
          -- rewrite app_nil_r in E1. subst pre. cbn in E2. inversion E2; subst. repeat split; auto. lia.
          -- cbn in E2. inversion E2; subst. apply (G pre ok p f i l). reflexivity.
        * subst pre. destruct l as [|x l]; cbn in E2.
          -- inversion E2; subst. rewrite app_nil_r. repeat split; auto. lia.
          -- inversion E2 as [[X Y]]. destruct l; discriminate Y.
    - cbn [fst snd]. rewrite app_nil_r. split; [split; auto|exact G].
    - cbn [fst snd]. rewrite app_nil_r. split; [split; auto|exact G].
    - cbn [fst snd]. rewrite app_nil_r. split; [split; auto|exact G].
    - cbn [fst snd]. rewrite app_nil_r. split; [split; auto|exact G].
    - destruct x as [|b h|st y|st y|m|].
      + cbn [fst snd]. rewrite app_nil_r. split; [split; auto|exact G].
      + destruct h as [| |p]; try (cbn [fst snd]; rewrite app_nil_r; split; [split; auto|exact G]).
        destruct (has_path f); cbn [fst snd lw_c]; (split; [unfold linv; rewrite !kcount_app;
          cbn [lt_count lt_passed lt_ignored lt_failed lt_retried lt_parsing lt_hooks]; unfold kcount at 2 4 6; cbn; repeat split; lia|
          apply good_app_plain; [exact G|]; intros x [<-|[<-|[]]]; exact I]).
      + destruct (has_path f); cbn [fst snd lw_c]; (split; [unfold linv; rewrite !kcount_app;
          destruct y as [| | |k]; cbn [lt_count lt_passed lt_ignored lt_failed lt_retried lt_parsing lt_hooks];
          try destruct (is_retried_failure rt k); cbn [lt_passed lt_ignored lt_failed lt_retried lt_parsing lt_hooks];
          unfold kcount at 2 4 6; cbn; repeat split; lia|
          apply good_app_plain; [exact G|]; intros x [<-|[]]; exact I]).
      + destruct (has_path f); cbn [fst snd lw_c]; (split; [unfold linv; rewrite !kcount_app;
          destruct y as [| | |k]; cbn [lt_count lt_passed lt_ignored lt_failed lt_retried lt_parsing lt_hooks];
          try destruct (is_retried_failure rt k); cbn [lt_passed lt_ignored lt_failed lt_retried lt_parsing lt_hooks];
          unfold kcount at 2 4 6; cbn; repeat split; lia|
          apply good_app_plain; [exact G|]; intros x [<-|[]]; exact I]).
      + cbn [fst snd]. rewrite app_nil_r. split; [split; auto|exact G].
      + cbn [fst snd]. rewrite app_nil_r. split; [split; auto|exact G].
  Qed.

  Lemma linv_c w w' ls : lw_c w' = lw_c w -> linv w ls -> linv w' ls.
  Proof. unfold linv. intros ->. auto. Qed.

  Lemma feed_inv : forall es w acc ls0,
    linv w (ls0 ++ acc) -> good (ls0 ++ acc) ->
    let r := fold_left (fun a e => let '(w', o) := lt_expand has_path (fst a) e in (w', snd a ++ o)) es (w, acc) in
    linv (fst r) (ls0 ++ snd r) /\ good (ls0 ++ snd r).
  Proof.
    induction es as [|e t IH]; intros w acc ls0 I G; cbn [fold_left fst snd]; [auto|].
    destruct (expand_inv w (ls0 ++ acc) e I G) as [I' G'].
    destruct (lt_expand has_path w e) as [w' o]. cbn [fst snd] in *. rewrite <- app_assoc in I', G'.
    exact (IH w' (acc ++ o) ls0 I' G').
  Qed.

  Lemma handle_inv w ls e : linv w ls -> good ls ->
    linv (fst (lt_handle_w has_path w e)) (ls ++ snd (lt_handle_w has_path w e)) /\
    good (ls ++ snd (lt_handle_w has_path w e)).
  Proof.
    intros I G. unfold lt_handle_w. destruct (lw_parsed w); [apply expand_inv; assumption|].
    assert (BUF : linv (mk_ltw (lw_buf w ++ [e]) false (lw_c w) (lw_fwp w)) (ls ++ []) /\ good (ls ++ [])).
    { rewrite app_nil_r. split; [exact (linv_c w _ ls eq_refl I)|exact G]. }
    destruct e; try exact BUF.
    unfold lt_feed. apply (feed_inv _ (mk_ltw [] true (lw_c w) (lw_fwp w)) [] ls); rewrite app_nil_r;
      [exact (linv_c w _ ls eq_refl I)|exact G].
  Qed.

  (* C14, libtest: in the whole document every suite-result line states totals that agree with the entries before it:
     passed = ok lines, ignored = ignored lines, failed <= failed lines (the difference being the retried step
     failures), and the verdict is ok iff failed = 0 — for EVERY event list *)
  Theorem libtest_totals_agree es : good (libtest_lines has_path es).
  Proof.
    unfold libtest_lines.
    assert (H : forall es w acc, linv w acc -> good acc ->
              let r := fold_left (fun a e => let '(w', o) := lt_handle_w has_path (fst a) e in (w', snd a ++ o)) es (w, acc) in
              linv (fst r) (snd r) /\ good (snd r)).
    { induction es0 as [|e t IH]; intros w acc I G; cbn [fold_left fst snd]; [auto|].
      destruct (handle_inv w acc e I G) as [I' G']. destruct (lt_handle_w has_path w e) as [w' o]. cbn [fst snd] in *.
      exact (IH w' (acc ++ o) I' G'). }
    apply (H es ltw_init []).
    - unfold linv. cbn. auto.
    - intros pre ok p f i post E. destruct pre; discriminate E.
  Qed.
End L.
