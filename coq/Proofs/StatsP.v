(* StatsP.v — proofs about Model/Stats.v against Model/StatsSpec.v (C12, C01). *)
From CV Require Import Model.Base Model.Events Model.Stats Model.StatsSpec Proofs.BaseP.
From Coq Require Import Lia.

Definition b2n (b : bool) : N := if b then 1 else 0.

Lemma count_cons p e es : count p (e :: es) = b2n (p e) + count p es.
Proof. unfold count; cbn [filter]. destruct (p e); cbn [b2n length]; lia. Qed.
Lemma count_nil p : count p [] = 0.
Proof. reflexivity. Qed.

(* the eight stateless counters of a Summarize *)
Record core := mk_core { c_features : N; c_rules : N; c_passed : N; c_skipped : N; c_failed : N; c_retried : N;
                         c_parsing : N; c_hooks : N }.
Definition core_of (s : summ) : core :=
  mk_core (sm_features s) (sm_rules s) (n_passed (sm_steps s)) (n_skipped (sm_steps s)) (n_failed (sm_steps s))
          (n_retried (sm_steps s)) (sm_parsing_errors s) (sm_failed_hooks s).
Definition core_add (a b : core) : core :=
  mk_core (c_features a + c_features b) (c_rules a + c_rules b) (c_passed a + c_passed b) (c_skipped a + c_skipped b)
          (c_failed a + c_failed b) (c_retried a + c_retried b) (c_parsing a + c_parsing b) (c_hooks a + c_hooks b).
(* what ONE event contributes, by its kind alone *)
Definition core_ev (e : ev) : core :=
  mk_core (b2n (is_feat_started e)) (b2n (is_rule_started e)) (b2n (is_step_passed e)) (b2n (is_step_skipped e))
          (b2n (is_step_failed_final e)) (b2n (is_step_failed_retried e)) (b2n (is_parse_err e)) (b2n (is_hook_failed e)).
Definition core_count (es : list ev) : core :=
  mk_core (count is_feat_started es) (count is_rule_started es) (count is_step_passed es) (count is_step_skipped es)
          (count is_step_failed_final es) (count is_step_failed_retried es) (count is_parse_err es) (count is_hook_failed es).

Lemma core_eq a b :
  c_features a = c_features b -> c_rules a = c_rules b -> c_passed a = c_passed b -> c_skipped a = c_skipped b ->
  c_failed a = c_failed b -> c_retried a = c_retried b -> c_parsing a = c_parsing b -> c_hooks a = c_hooks b -> a = b.
Proof. destruct a, b; cbn; intros; subst; reflexivity. Qed.

Section P.
  Variable last_own : N -> option N.
  Notation sm_count := (sm_count last_own).
  Notation sm_handle := (sm_handle last_own).

  Ltac crush := apply core_eq; cbn; lia.

  (* each event adds exactly its own indicator to the stateless counters, whatever the bookkeeping state *)
  Lemma sm_count_core s e : core_of (sm_count s e) = core_add (core_of s) (core_ev e).
  Proof.
    destruct e as [| | | | | | | |f r sc rt x]; try crush.
    destruct x as [|b h|st y|st y|m|]; cbn [Stats.sm_count sm_scenario].
    - crush.
    - destruct h; try crush.
      destruct (hget _ _) as [[| |]|]; crush.
    - unfold sm_step. destruct y as [| | |k].
      + crush.
      + destruct (is_last_own _ _ _); crush.
      + crush.
      + unfold core_ev, is_step_failed_final, is_step_failed_retried; cbn [step_of].
        destruct (is_retried_failure rt k); [destruct (hget _ _)|]; crush.
    - unfold sm_step. destruct y as [| | |k].
      + crush.
      + destruct (is_last_own _ _ _); crush.
      + crush.
      + unfold core_ev, is_step_failed_final, is_step_failed_retried; cbn [step_of].
        destruct (is_retried_failure rt k); [destruct (hget _ _)|]; crush.
    - crush.
    - destruct (hget _ _) as [[| |]|]; crush.
  Qed.

  Lemma sm_count_state s e :
    sm_state (sm_count s e) = match e with EvFinished => FinishedButNotOutput | _ => sm_state s end.
  Proof.
    destruct e as [| | | | | | | |f r sc rt x]; try reflexivity.
    destruct x as [|b h|st y|st y|m|]; cbn [Stats.sm_count sm_scenario]; try reflexivity.
    - destruct h; try reflexivity. destruct (hget _ _) as [[| |]|]; reflexivity.
    - unfold sm_step. destruct y as [| | |k]; try reflexivity.
      + destruct (is_last_own _ _ _); reflexivity.
      + destruct (is_retried_failure rt k); [destruct (hget _ _)|]; reflexivity.
    - unfold sm_step. destruct y as [| | |k]; try reflexivity.
      + destruct (is_last_own _ _ _); reflexivity.
      + destruct (is_retried_failure rt k); [destruct (hget _ _)|]; reflexivity.
    - destruct (hget _ _) as [[| |]|]; reflexivity.
  Qed.

  Definition final_from (s : summ) (es : list mev) : summ := fold_left (fun s e => fst (sm_handle s e)) es s.

  (* replayed events (anything after run-Finished) change nothing at all *)
  Lemma sm_handle_inert s e : sm_state s = FinishedAndOutput -> sm_handle s e = (s, [OEv e]).
  Proof. intros H. unfold Stats.sm_handle. rewrite H. cbv beta iota zeta. rewrite H. reflexivity. Qed.

  Lemma final_from_inert es : forall s, sm_state s = FinishedAndOutput -> final_from s es = s.
  Proof.
    induction es as [|e es IH]; intros s H; cbn; auto.
    rewrite sm_handle_inert by auto. cbn. apply IH; auto.
  Qed.

  Lemma core_add_0 a : core_add a (mk_core 0 0 0 0 0 0 0 0) = a.
  Proof. destruct a; unfold core_add; cbn. f_equal; lia. Qed.
  Lemma core_add_assoc a b c : core_add (core_add a b) c = core_add a (core_add b c).
  Proof. unfold core_add; cbn. f_equal; lia. Qed.
  Lemma core_count_cons e es : core_count (e :: es) = core_add (core_ev e) (core_count es).
  Proof. unfold core_count, core_add, core_ev; cbn [c_features c_rules c_passed c_skipped c_failed c_retried c_parsing c_hooks].
         rewrite !count_cons. reflexivity. Qed.

  Lemma core_ev_finished : core_ev EvFinished = mk_core 0 0 0 0 0 0 0 0.
  Proof. reflexivity. Qed.

  (* while in progress, the stateless counters are the counts over the part of the stream before run-Finished *)
  Lemma final_from_core es : forall s, sm_state s = InProgress ->
    core_of (final_from s es) = core_add (core_of s) (core_count (before_finished (map snd es))).
  Proof.
    induction es as [|e es IH]; intros s H; cbn [final_from fold_left map before_finished].
    - cbn. rewrite core_add_0. reflexivity.
    - fold (final_from (fst (sm_handle s e)) es).
      unfold Stats.sm_handle at 1. rewrite H. rewrite sm_count_state.
      destruct (snd e) eqn:E.
      all: try (rewrite H; cbn [fst]; rewrite IH by (rewrite sm_count_state, H; reflexivity);
                rewrite sm_count_core, core_count_cons, core_add_assoc; reflexivity).
      (* EvFinished *)
      cbn [fst]. rewrite final_from_inert by reflexivity.
      cbn. rewrite core_add_0. reflexivity.
  Qed.

  Theorem sm_final_core es :
    core_of (sm_final last_own es) = core_count (before_finished (map snd es)).
  Proof.
    unfold sm_final. change (fold_left _ es summ_init) with (final_from summ_init es).
    rewrite final_from_core by reflexivity. unfold core_add; cbn. apply core_eq; cbn; lia.
  Qed.

  (* ---- the summary is written exactly once, right after run-Finished ---- *)
  Definition n_writes (ops : list inner_op) : nat :=
    length (filter (fun o => match o with OWrite _ => true | _ => false end) ops).

  Lemma sm_handle_ops s e :
    snd (sm_handle s e) =
      match sm_state s, snd e with
      | InProgress, EvFinished => [OEv e; OWrite (fst (sm_handle s e))]
      | FinishedButNotOutput, _ => [OEv e; OWrite (fst (sm_handle s e))]
      | _, _ => [OEv e]
      end.
  Proof.
    unfold Stats.sm_handle. destruct (sm_state s) eqn:H.
    - rewrite sm_count_state. destruct (snd e); rewrite ?H; cbn [fst snd]; rewrite ?sm_count_state, ?H; reflexivity.
    - cbv beta iota zeta. rewrite H. cbn [fst snd sm_state set_state]. rewrite ?H. reflexivity.
    - cbv beta iota zeta. rewrite H. cbn [fst snd sm_state set_state]. rewrite ?H. reflexivity.
  Qed.

  Lemma sm_handle_state s e :
    sm_state (fst (sm_handle s e)) =
      match sm_state s, snd e with
      | InProgress, EvFinished => FinishedAndOutput
      | InProgress, _ => InProgress
      | _, _ => FinishedAndOutput
      end.
  Proof.
    unfold Stats.sm_handle. destruct (sm_state s) eqn:H.
    - rewrite sm_count_state. destruct (snd e); rewrite ?H; cbn [fst snd]; rewrite ?sm_count_state, ?H; reflexivity.
    - cbv beta iota zeta. rewrite H. cbn [fst snd sm_state set_state]. rewrite ?H. reflexivity.
    - cbv beta iota zeta. rewrite H. cbn [fst snd sm_state set_state]. rewrite ?H. reflexivity.
  Qed.

  Definition all_ops (rs : list (summ * list inner_op)) : list inner_op := flat_map snd rs.

  Lemma run_no_writes_after es : forall s, sm_state s = FinishedAndOutput ->
    n_writes (all_ops (sm_run_from last_own s es)) = 0%nat.
  Proof.
    induction es as [|e es IH]; intros s H; cbn; auto.
    rewrite sm_handle_inert by auto. cbn. apply IH; auto.
  Qed.

  Lemma n_writes_app a b : n_writes (a ++ b) = (n_writes a + n_writes b)%nat.
  Proof. unfold n_writes. rewrite filter_app, app_length. reflexivity. Qed.

  Theorem summary_written_once es : forall s, sm_state s = InProgress ->
    n_writes (all_ops (sm_run_from last_own s es)) = if existsb (fun e => is_finished (snd e)) es then 1%nat else 0%nat.
  Proof.
    induction es as [|e es IH]; intros s H; cbn [sm_run_from all_ops flat_map existsb]; auto.
    rewrite n_writes_app. fold (all_ops (sm_run_from last_own (fst (sm_handle s e)) es)).
    cbn [snd fst]. rewrite sm_handle_ops, H.
    destruct (snd e) eqn:E; cbn [is_finished orb].
    all: try (rewrite IH by (rewrite sm_handle_state, H, E; reflexivity); reflexivity).
    rewrite run_no_writes_after by (rewrite sm_handle_state, H, E; reflexivity). reflexivity.
  Qed.

  (* ...and in the very call that handles run-Finished, directly after forwarding it *)
  Theorem summary_right_after_finished s e :
    sm_state s = InProgress -> snd e = EvFinished ->
    snd (sm_handle s e) = [OEv e; OWrite (fst (sm_handle s e))].
  Proof. intros H E. rewrite sm_handle_ops, H, E. reflexivity. Qed.
End P.

(* ---- C01: the verdict of a Summarize is the declarative one, for EVERY stream, outside K01a ---- *)
Lemma count_pos p es : (0 <? count p es) = existsb p es.
Proof.
  induction es as [|e es IH]; auto. rewrite count_cons. cbn [existsb]. rewrite <- IH.
  destruct (p e); cbn [b2n orb].
  - apply N.ltb_lt. lia.
  - reflexivity.
Qed.

Lemma existsb_or {A} (p q : A -> bool) l : existsb (fun x => p x || q x) l = existsb p l || existsb q l.
Proof.
  induction l as [|x l IH]; auto. cbn. rewrite IH.
  destruct (p x), (q x), (existsb p l), (existsb q l); reflexivity.
Qed.

Theorem sm_verdict last_own es :
  k_hook_in_retried (before_finished (map snd es)) = false ->
  g_has_failed (sm_getters (sm_final last_own es)) = spec_failed (map snd es).
Proof.
  intros K. pose proof (sm_final_core last_own es) as C.
  unfold g_has_failed, sm_getters, spec_failed; cbn [g_failed g_parsing g_hooks].
  set (s := sm_final last_own es) in *. set (b := before_finished (map snd es)) in *.
  assert (n_failed (sm_steps s) = count is_step_failed_final b) as -> by (apply (f_equal c_failed) in C; exact C).
  assert (sm_parsing_errors s = count is_parse_err b) as -> by (apply (f_equal c_parsing) in C; exact C).
  assert (sm_failed_hooks s = count is_hook_failed b) as -> by (apply (f_equal c_hooks) in C; exact C).
  rewrite !count_pos.
  assert (existsb is_hook_failed b = existsb is_hook_failed_final b) as ->.
  { unfold k_hook_in_retried in K. clear C. clearbody b. induction b as [|e b IH]; auto.
    cbn [existsb] in K |- *. apply orb_false_iff in K as [K1 K2]. rewrite IH by exact K2.
    unfold is_hook_failed_final. destruct (is_hook_failed e); cbn [andb orb] in *; [rewrite K1|]; reflexivity. }
  destruct (existsb is_parse_err b), (existsb is_step_failed_final b), (existsb is_hook_failed_final b); reflexivity.
Qed.

(* the known class really refutes the unrestricted statement: witness = probe e3 of DESIGN.md §6 (F3) *)
Lemma sm_verdict_K01a_refuted :
  exists es, g_has_failed (sm_getters (sm_final (fun _ => Some 9) es)) = true /\ spec_failed (map snd es) = false.
Proof.
  exists [(1, EvStarted); (2, EvFeatS 1); (3, EvScen 1 None 2 (Some (0, 1)) ScStarted);
          (4, EvScen 1 None 2 (Some (0, 1)) (ScHook true HStarted));
          (5, EvScen 1 None 2 (Some (0, 1)) (ScHook true (HFailed 7)));
          (6, EvScen 1 None 2 (Some (0, 1)) ScFinished);
          (7, EvScen 1 None 2 (Some (1, 0)) ScStarted);
          (8, EvScen 1 None 2 (Some (1, 0)) (ScHook true HStarted));
          (9, EvScen 1 None 2 (Some (1, 0)) (ScHook true HPassed));
          (10, EvScen 1 None 2 (Some (1, 0)) (ScStep 9 StStarted));
          (11, EvScen 1 None 2 (Some (1, 0)) (ScStep 9 StPassed));
          (12, EvScen 1 None 2 (Some (1, 0)) ScFinished); (13, EvFeatF 1); (14, EvFinished)].
  vm_compute. split; reflexivity.
Qed.
