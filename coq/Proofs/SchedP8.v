(* SchedP8.v — the retry budget: in every run, a scenario is started at most 1 + (its retries) times; hence the
   total number of attempts of a run is bounded by the input alone (the loop cannot dispatch forever). *)
From CV Require Import Model.Base Model.Events Model.Sched
  Proofs.BaseP Proofs.SchedP Proofs.SchedP2 Proofs.SchedP3 Proofs.SchedP4 Proofs.SchedP5 Proofs.SchedP7.
From Coq Require Import Permutation Lia.

Definition sumN {A} (f : A -> N) (l : list A) : N := fold_right (fun a acc => f a + acc) 0 l.
Lemma sumN_app {A} (f : A -> N) a b : sumN f (a ++ b) = sumN f a + sumN f b.
Proof. induction a as [|x a IH]; cbn [sumN fold_right app]; [reflexivity|]. fold (sumN f (a ++ b)). fold (sumN f a). rewrite IH. lia. Qed.
Lemma sumN_cons {A} (f : A -> N) x l : sumN f (x :: l) = f x + sumN f l.
Proof. reflexivity. Qed.
Lemma sumN_perm {A} (f : A -> N) a b : Permutation a b -> sumN f a = sumN f b.
Proof. induction 1 as [|x a b H IH|x y a|a b c H1 IH1 H2 IH2]; rewrite ?sumN_cons; try lia; reflexivity. Qed.
Lemma sumN_map {A B} (g : A -> B) (f : B -> N) l : sumN f (map g l) = sumN (fun a => f (g a)) l.
Proof. induction l as [|x l IH]; [reflexivity|]. cbn [map]. rewrite !sumN_cons, IH. reflexivity. Qed.

Lemma sumN_ext {A} (f g : A -> N) l : (forall a, f a = g a) -> sumN f l = sumN g l.
Proof. intros H. induction l as [|x l IH]; [reflexivity|]. rewrite !sumN_cons, IH, H. reflexivity. Qed.

Section Budget.
  Variable sel : N -> bool.                        (* the scenarios counted: one id, or all *)

  Definition left_of (e : entry) : N := match e_retr e with Some (_, l) => l | None => 0 end.
  Definition wq (e : entry) : N := if sel (e_s e) then 1 + left_of e else 0.
  Definition wr (ep : entry * phase) : N :=
    if sel (e_s (fst ep)) then match snd ep with Dispatched => 1 + left_of (fst ep) | Opened => left_of (fst ep) | Ended => 0 end
    else 0.
  Definition sw (e : ev) : N := match e with EvScen _ _ s _ ScStarted => if sel s then 1 else 0 | _ => 0 end.
  Definition starts (tr : list ev) : N := sumN sw tr.
  Definition wsc (sc : sscen) : N :=
    if sel (ss_id sc) then 1 + match ss_retry sc with Some (l, _) => l | None => 0 end else 0.
  Definition bl (l : label) : N := match l with LFeature F => sumN wsc (sf_scens F) | _ => 0 end.
  Definition budget (ls : list label) : N := sumN bl ls.

  Definition pot (s : st) : N := sumN wq (qS s ++ qC s) + sumN wr (running s).

  Lemma starts_app a b : starts (a ++ b) = starts a + starts b.
  Proof. apply sumN_app. Qed.
  Lemma starts_one e : starts [e] = sw e.
  Proof. unfold starts. rewrite sumN_cons. cbn [sumN fold_right]. lia. Qed.
  Lemma starts_nil : starts [] = 0.
  Proof. reflexivity. Qed.
  Lemma starts_brk o : all_brk o -> starts o = 0.
  Proof.
    induction 1 as [|e t He Ht IH]; [reflexivity|]. unfold starts in *. rewrite sumN_cons, IH.
    destruct e; try reflexivity. discriminate He.
  Qed.

  Lemma wr_new b : sumN wr (map (fun e => (e, Dispatched)) b) = sumN wq b.
  Proof. induction b as [|e b IH]; [reflexivity|]. cbn [map]. rewrite !sumN_cons, IH. reflexivity. Qed.

  Lemma loop_top_pot s : pot (fst (loop_top s)) = pot s.
  Proof.
    unfold loop_top. set (n := match flow s with Break => Some 0%nat | Cont k => k end).
    pose proof (get_perm n s) as GP. destruct (get n s) as [[[batch qs] qc] md].
    destruct (is_nil (running s) && is_nil batch) eqn:IDLE.
    - apply andb_prop in IDLE as [I1 I2]. apply is_nil_true in I2. subst batch. cbn [app] in GP.
      destruct (pdone s && _); unfold pot, upd; cbn [fst qS qC running]; rewrite (sumN_perm wq _ _ GP); reflexivity.
    - destruct (start_scenarios _ _ _) as [[o fc] rc]. unfold pot, upd. cbn [fst qS qC running].
      rewrite (sumN_perm wq _ _ GP), !sumN_app, wr_new. lia.
  Qed.

  Lemma wq_entry_of F sc : wq (entry_of F sc) = wsc sc.
  Proof.
    unfold wq, wsc, left_of, entry_of. cbn [e_s e_retr]. destruct (sel (ss_id sc)); [|reflexivity].
    destruct (ss_retry sc) as [[l d]|]; reflexivity.
  Qed.

  Lemma wr_mid l1 e p l2 : sumN wr (l1 ++ (e, p) :: l2) = sumN wr l1 + wr (e, p) + sumN wr l2.
  Proof. rewrite sumN_app, sumN_cons. lia. Qed.

  Lemma wr_ended e : wr (e, Ended) = 0.
  Proof. unfold wr. cbn [fst snd]. destruct (sel (e_s e)); reflexivity. Qed.

  Lemma step_budget c s l s' o : step c s l = Some (s', o) -> starts o + pot s' <= pot s + budget [l].
  Proof.
    intros ST. assert (BL : budget [l] = bl l) by (unfold budget; rewrite sumN_cons; cbn [sumN fold_right]; lia).
    rewrite BL. clear BL. destruct l as [F|id| | |k|k x|k failed|d]; cbn [step] in ST.
    - destruct (perrs s); [discriminate|]. inversion ST; subst. rewrite starts_nil. cbn [bl].
      destruct (insert_feature_frame F s) as (E1 & _). unfold pot. rewrite E1.
      fold (queue (insert_feature F s)). rewrite <- (sumN_perm wq _ _ (insert_feature_queue F s)).
      rewrite sumN_app, sumN_map. unfold queue.
      rewrite (sumN_ext _ _ _ (wq_entry_of F)). lia.
    - destruct (perrs s); [discriminate|]. destruct (pf s) as [[[[a b] c0] d] e]. inversion ST; subst.
      rewrite starts_one. unfold pot. cbn [qS qC running sw bl]. lia.
    - destruct (pdone s); [discriminate|]. destruct (pf s) as [[[[a b] c0] d] e]. inversion ST; subst.
      rewrite starts_one. unfold pot. cbn [qS qC running sw bl]. lia.
    - destruct (pc s) eqn:PC.
      + set (s0 := mk_st (qS s) (qC s) (pdone s) (perrs s) (flow s) (running s) (msgs s) (fcount s) (rcount s)
                         (pf s) (now s) NotBegun true) in *.
        pose proof (loop_top_pot s0) as LP. pose proof (loop_top_brk s0) as LB.
        destruct (loop_top s0) as [s1 o1]. inversion ST; subst. cbn [fst snd] in *.
        change (EvStarted :: o1) with ([EvStarted] ++ o1). rewrite starts_app, starts_one, (starts_brk _ LB), LP.
        unfold pot, s0. cbn [qS qC running sw bl]. lia.
      + destruct (remove_ended (running s)) as [r|] eqn:RE; [|discriminate].
        pose proof (drain_brk (cf_fail_fast c) (msgs s) (add_slot (flow s)) (fcount s) (rcount s)) as DB.
        destruct (drain (cf_fail_fast c) (msgs s) (add_slot (flow s)) (fcount s) (rcount s)) as [[[o1 fl] fc] rc].
        set (s1 := upd s (qS s) (qC s) fl r [] fc rc (now s) Awaiting) in *.
        pose proof (loop_top_pot s1) as LP. pose proof (loop_top_brk s1) as LB.
        destruct (loop_top s1) as [s2 o2]. inversion ST; subst. cbn [fst snd] in *.
        rewrite starts_app, (starts_brk _ DB), (starts_brk _ LB), LP. unfold pot, s1, upd. cbn [qS qC running].
        destruct (remove_ended_shape _ _ RE) as (e0 & l1 & l2 & -> & ->). rewrite wr_mid, !sumN_app.
        rewrite wr_ended. cbn [bl]. lia.
      + pose proof (loop_top_pot s) as LP. pose proof (loop_top_brk s) as LB.
        destruct (loop_top s) as [s2 o2]. inversion ST; subst. cbn [fst snd] in *.
        rewrite (starts_brk _ LB), LP. cbn [bl]. lia.
      + discriminate.
    - destruct (set_phase k Dispatched Opened (running s)) as [[e r]|] eqn:SP; [|discriminate]. inversion ST; subst.
      destruct (set_phase_shape _ _ _ _ _ _ SP) as (l1 & l2 & RUN & -> & _ & _).
      unfold pot, upd. cbn [qS qC running]. rewrite RUN, !wr_mid, starts_one. unfold scen_ev, wr. cbn [sw bl fst snd].
      destruct (sel (e_s e)); lia.
    - destruct (is_middle x) eqn:MI; [|discriminate].
      destruct (find_open k (running s)) as [e|] eqn:FO; [|discriminate]. inversion ST; subst.
      rewrite starts_one. unfold scen_ev. cbn [sw bl]. destruct x; try discriminate MI; lia.
    - destruct (set_phase k Opened Ended (running s)) as [[e r]|] eqn:SP; [|discriminate].
      destruct (set_phase_shape _ _ _ _ _ _ SP) as (l1 & l2 & RUN & -> & _ & _).
      assert (Q : forall e', next_try e failed (now s) = Some e' -> wq e' = wr (e, Opened)).
      { intros e' NT. destruct (next_try_some _ _ _ _ NT) as (c0 & l0 & RE & LP & RE' & _ & _ & ES & _).
        unfold wq, wr, left_of. cbn [fst snd]. rewrite ES, RE, RE'. destruct (sel (e_s e)); lia. }
      destruct (next_try e failed (now s)) as [e'|] eqn:NT.
      + specialize (Q e' eq_refl). destruct (e_serial e'); inversion ST; subst; unfold pot, upd; cbn [qS qC running];
          rewrite RUN, !wr_mid, ?sumN_app, ?sumN_cons, Q, starts_one; unfold scen_ev; cbn [sw bl];
          rewrite wr_ended; destruct (sel (e_s e)); lia.
      + inversion ST; subst. unfold pot, upd. cbn [qS qC running]. rewrite RUN, !wr_mid.
        rewrite starts_one, wr_ended. unfold scen_ev. cbn [sw bl]. destruct (sel (e_s e)); lia.
    - inversion ST; subst. rewrite starts_nil. unfold pot, upd. cbn [qS qC running bl]. lia.
  Qed.
  Lemma exec_from_budget c : forall ls s s' o,
    exec_from c s ls = Some (s', o) -> starts o + pot s' <= pot s + budget ls.
  Proof.
    induction ls as [|l t IH]; intros s s' o H; cbn [exec_from] in H.
    - inversion H; subst. rewrite starts_nil. unfold budget. cbn [sumN fold_right]. lia.
    - destruct (step c s l) as [[s1 o1]|] eqn:S1; [|discriminate].
      destruct (exec_from c s1 t) as [[s2 o2]|] eqn:S2; [|discriminate]. inversion H; subst.
      pose proof (step_budget _ _ _ _ _ S1) as B1. pose proof (IH _ _ _ S2) as B2.
      assert (BL : budget [l] = bl l) by (unfold budget; rewrite sumN_cons; cbn [sumN fold_right]; lia).
      rewrite BL in B1. rewrite starts_app. unfold budget in *. rewrite sumN_cons. lia.
  Qed.

  (* the attempts a run starts (of the selected scenarios) never exceed what the input allows:
     one attempt plus the retries of each supplied scenario *)
  Theorem attempts_bounded c ls s tr : exec c ls = Some (s, tr) -> starts tr <= budget ls.
  Proof.
    intros H. pose proof (exec_from_budget c ls _ _ _ H) as B. unfold pot at 2 in B. unfold init_st in B.
    cbn [qS qC running app sumN fold_right] in B. lia.
  Qed.
End Budget.

(* per scenario: at most 1 + retries attempts, for every schedule *)
Definition starts_of (x : N) (tr : list ev) : N := starts (N.eqb x) tr.
Definition budget_of (x : N) (ls : list label) : N := budget (N.eqb x) ls.
Theorem attempts_per_scenario_bounded c ls s tr x :
  exec c ls = Some (s, tr) -> starts_of x tr <= budget_of x ls.
Proof. apply attempts_bounded. Qed.

(* the whole run: the number of attempts is bounded by the input alone *)
Theorem attempts_total_bounded c ls s tr :
  exec c ls = Some (s, tr) -> starts (fun _ => true) tr <= budget (fun _ => true) ls.
Proof. apply attempts_bounded. Qed.

(* with distinct scenario ids the budget of a scenario is exactly 1 + its retries *)
Lemma budget_of_single x F sc pre post a b :
  sf_scens F = a ++ sc :: b -> ss_id sc = x ->
  (forall sc', In sc' (a ++ b) -> ss_id sc' <> x) ->
  (forall l, In l (pre ++ post) -> bl (N.eqb x) l = 0) ->
  budget_of x (pre ++ LFeature F :: post) = 1 + match ss_retry sc with Some (l, _) => l | None => 0 end.
Proof.
  intros SC ID OTH Z. unfold budget_of, budget. rewrite sumN_app, sumN_cons.
  assert (Z0 : forall l, (forall y, In y l -> bl (N.eqb x) y = 0) -> sumN (bl (N.eqb x)) l = 0).
  { induction l as [|y l IH]; intros H; [reflexivity|]. rewrite sumN_cons, (H y (or_introl eq_refl)), IH; [reflexivity|].
    intros z Hz. apply H. right. exact Hz. }
  rewrite (Z0 pre), (Z0 post); try (intros y Hy; apply Z; apply in_or_app; auto).
  cbn [bl]. rewrite SC, sumN_app, sumN_cons.
  assert (W0 : forall l, (forall y, In y l -> ss_id y <> x) -> sumN (wsc (N.eqb x)) l = 0).
  { induction l as [|y l IH]; intros H; [reflexivity|]. rewrite sumN_cons, IH; [|intros z Hz; apply H; right; exact Hz].
    unfold wsc. specialize (H y (or_introl eq_refl)). apply not_eq_sym in H. apply N.eqb_neq in H. rewrite H. reflexivity. }
  rewrite (W0 a), (W0 b); try (intros y Hy; apply OTH; apply in_or_app; auto).
  unfold wsc. rewrite ID, N.eqb_refl. lia.
Qed.

