(* AttemptP.v — proofs about Model/Attempt.v against Model/AttemptSpec.v (C02, C09, C10). *)
From CV Require Import Model.Base Model.Events Model.Attempt Model.AttemptSpec Proofs.BaseP.
From Coq Require Import Lia.

Lemma errk_eqb_refl k : errk_eqb k k = true.
Proof. destruct k; cbn; auto. apply N.eqb_refl. Qed.
Lemma stepev_eqb_refl e : stepev_eqb e e = true.
Proof. destruct e; cbn; auto. apply errk_eqb_refl. Qed.
Lemma hookev_eqb_refl e : hookev_eqb e e = true.
Proof. destruct e; cbn; auto. apply N.eqb_refl. Qed.
Lemma scev_eqb_refl e : scev_eqb e e = true.
Proof.
  destruct e; cbn; auto; rewrite ?N.eqb_refl, ?stepev_eqb_refl, ?hookev_eqb_refl, ?Bool.eqb_reflx; auto.
Qed.

Lemma step_ev_eqb bg st a b : scev_eqb (step_ev bg st a) (step_ev bg st b) = stepev_eqb a b.
Proof. destruct bg; cbn; rewrite N.eqb_refl; reflexivity. Qed.

(* ---------- what one step / a list of steps appends to the event log ---------- *)
Definition decl (bg : bool) (l : list (N * step_outcome)) : list (bool * N) := map (fun s => (bg, fst s)) l.

(* the deferred Failed event of a failure, if any *)
Definition deferred (f : failure) : list scev :=
  match f with
  | FBeforeHook _ p => [ScHook true (HFailed p)]
  | FSkipped _ => []
  | FStep _ bg st k => [step_ev bg st (StFailed k)]
  end.
Definition not_before (f : failure) : Prop := match f with FBeforeHook _ _ => False | _ => True end.

Lemma run_step_spec i bg a wo s :
  match run_step i bg a wo s with
  | (a', inl _) => a_evs a' = a_evs a ++ [step_ev bg (fst s) StStarted; step_ev bg (fst s) StPassed]
  | (a', inr f) =>
    not_before f /\
    match f with
    | FSkipped _ => a_evs a' = a_evs a ++ [step_ev bg (fst s) StStarted; step_ev bg (fst s) StSkipped]
    | FStep _ bg' st _ => bg' = bg /\ st = fst s /\ a_evs a' = a_evs a ++ [step_ev bg (fst s) StStarted]
    | FBeforeHook _ _ => False
    end
  end.
Proof.
  unfold run_step. destruct s as [st o]; cbn [fst snd].
  destruct o as [| |pan].
  - cbn. repeat split; try exact I; rewrite <- ?app_assoc; reflexivity.
  - cbn. repeat split; try exact I; reflexivity.
  - destruct wo as [w|].
    + destruct pan; cbn; repeat split; try exact I; rewrite <- ?app_assoc; reflexivity.
    + destruct (ai_world i); cbn.
      * destruct pan; cbn; repeat split; try exact I; rewrite <- ?app_assoc; reflexivity.
      * repeat split; try exact I; reflexivity.
      * repeat split; try exact I; reflexivity.
Qed.

(* parsing a declared step whose two events are Started/Passed continues with the rest *)
Lemma parse_passed bg st d rest :
  parse_steps ((bg, st) :: d) (step_ev bg st StStarted :: step_ev bg st StPassed :: rest) = parse_steps d rest.
Proof. cbn [parse_steps]. rewrite !scev_eqb_refl. reflexivity. Qed.
Lemma parse_skipped bg st d rest :
  parse_steps ((bg, st) :: d) (step_ev bg st StStarted :: step_ev bg st StSkipped :: rest) = Some rest.
Proof. cbn [parse_steps]. rewrite scev_eqb_refl, step_ev_eqb. cbn [stepev_eqb]. rewrite scev_eqb_refl. reflexivity. Qed.
Lemma parse_failed bg st k d rest :
  parse_steps ((bg, st) :: d) (step_ev bg st StStarted :: step_ev bg st (StFailed k) :: rest) = Some rest.
Proof.
  cbn [parse_steps]. rewrite scev_eqb_refl, !step_ev_eqb. cbn [stepev_eqb].
  destruct bg; cbn; rewrite N.eqb_refl; reflexivity.
Qed.

Lemma run_steps_spec i bg l : forall a wo,
  exists d, a_evs (fst (run_steps i bg a wo l)) = a_evs a ++ d /\
  match snd (run_steps i bg a wo l) with
  | inl _ => forall d' rest, parse_steps (decl bg l ++ d') (d ++ rest) = parse_steps d' rest
  | inr f => not_before f /\ forall d' rest, parse_steps (decl bg l ++ d') (d ++ deferred f ++ rest) = Some rest
  end.
Proof.
  induction l as [|s l IH]; intros a wo; cbn [run_steps].
  - exists []. rewrite app_nil_r. split; [reflexivity | cbn; intros; reflexivity].
  - pose proof (run_step_spec i bg a wo s) as S.
    destruct (run_step i bg a wo s) as [a' [w|f]].
    + destruct (IH a' (Some w)) as (d & E & P). rewrite S in E.
      exists ([step_ev bg (fst s) StStarted; step_ev bg (fst s) StPassed] ++ d). split.
      * rewrite E, <- app_assoc. reflexivity.
      * destruct (snd (run_steps i bg a' (Some w) l)) as [wo'|f].
        -- intros d' rest. cbn [decl map app]. rewrite parse_passed. apply P.
        -- destruct P as [NB P]. split; auto. intros d' rest. cbn [decl map app]. rewrite parse_passed. apply P.
    + destruct S as [NB S]. cbn [fst snd]. destruct f as [|w|w bg' st k]; [contradiction| |].
      * eexists. split; [exact S|]. split; auto. intros d' rest. cbn [decl map app deferred]. apply parse_skipped.
      * destruct S as (-> & -> & S). eexists. split; [exact S|]. split; auto.
        intros d' rest. cbn [decl map app deferred]. apply parse_failed.
Qed.

(* threading the three `try_fold`s: invariant "events so far = prefix ++ d, and d parses against the declared
   steps handled so far" *)
Definition phase_inv (pre : list scev) (dl : list (bool * N)) (r : acc * (option world + failure)) : Prop :=
  exists d, a_evs (fst r) = pre ++ d /\
  match snd r with
  | inl _ => forall d' rest, parse_steps (dl ++ d') (d ++ rest) = parse_steps d' rest
  | inr f => not_before f /\ forall d' rest, parse_steps (dl ++ d') (d ++ deferred f ++ rest) = Some rest
  end.

Lemma bind_steps_inv i bg l pre dl r :
  phase_inv pre dl r -> phase_inv pre (dl ++ decl bg l) (bind_steps i bg l r).
Proof.
  intros (d & E & P). destruct r as [a [wo|f]]; cbn [bind_steps fst snd] in *.
  - destruct (run_steps_spec i bg l a wo) as (d2 & E2 & P2).
    exists (d ++ d2). split; [rewrite E2, E, app_assoc; reflexivity|].
    destruct (snd (run_steps i bg a wo l)) as [wo'|f].
    + intros d' rest. rewrite <- !app_assoc. rewrite P. apply P2.
    + destruct P2 as [NB P2]. split; auto. intros d' rest. rewrite <- !app_assoc. rewrite P. apply P2.
  - exists d. split; auto. destruct P as [NB P]. split; auto.
    intros d' rest. rewrite <- app_assoc. apply P.
Qed.

Definition all_decl (i : attempt_in) : list (bool * N) :=
  decl true (ai_fbg i ++ ai_rbg i) ++ decl false (ai_steps i).

Lemma all_decl_eq i : all_decl i = ([] ++ decl true (ai_fbg i)) ++ decl true (ai_rbg i) ++ decl false (ai_steps i).
Proof. unfold all_decl, decl. rewrite map_app, <- app_assoc. reflexivity. Qed.

Definition after_evs (h : option (option N)) : list scev :=
  match h with
  | Some hk => [ScHook false HStarted; ScHook false (match hk with Some p => HFailed p | None => HPassed end)]
  | None => []
  end.

Lemma parse_after_ok (h : option (option N)) : parse_after (is_some h) (after_evs h ++ [ScFinished]) = true.
Proof. destruct h as [[p|]|]; reflexivity. Qed.

Definition deferred_of (r : option world + failure) : list scev :=
  match r with inr f => deferred f | inl _ => [] end.

(* the shape of the whole event list: what the phases emitted, the deferred Failed event,
   the after-hook pair, Finished *)
Lemma events_shape i :
  ao_events (run_attempt i) =
  a_evs (fst (phases i)) ++ deferred_of (snd (phases i)) ++ after_evs (ai_after i) ++ [ScFinished].
Proof.
  unfold run_attempt. destruct (phases i) as [a [wo|f]]; cbn [fst snd deferred_of].
  - destruct (ai_after i) as [[p|]|]; cbn; rewrite <- ?app_assoc; reflexivity.
  - destruct f as [w p|w|w bg st k]; destruct (ai_after i) as [[q|]|]; cbn; rewrite <- ?app_assoc; reflexivity.
Qed.

Lemma before_cases i :
  let rb := run_before i (mk_acc [ScStarted] []) in
  (ai_before i = None /\ phase_inv [ScStarted] [] rb) \/
  (ai_before i <> None /\ phase_inv [ScStarted; ScHook true HStarted; ScHook true HPassed] [] rb) \/
  (ai_before i <> None /\ exists a w p, rb = (a, inr (FBeforeHook w p)) /\ a_evs a = [ScStarted; ScHook true HStarted]).
Proof.
  unfold run_before. destruct (ai_before i) as [hook|].
  - right. destruct (ai_world i).
    + destruct hook as [p|].
      * right. split; [discriminate|]. eexists _, _, _. split; reflexivity.
      * left. split; [discriminate|]. exists []. cbn. split; [reflexivity | intros; reflexivity].
    + right. split; [discriminate|]. eexists _, _, _. split; reflexivity.
    + right. split; [discriminate|]. eexists _, _, _. split; reflexivity.
  - left. split; auto. exists []. cbn. split; [reflexivity | intros; reflexivity].
Qed.

Lemma bind_steps_failed i bg l a f : bind_steps i bg l (a, inr f) = (a, inr f).
Proof. reflexivity. Qed.

(* once the step phase has been parsed, the rest is the after-hook pair and Finished *)
Lemma wf_tail i pre r :
  phase_inv pre (all_decl i) r ->
  exists rest, a_evs (fst r) ++ deferred_of (snd r) ++ after_evs (ai_after i) ++ [ScFinished] = pre ++ rest /\
               (match parse_steps (all_decl i) rest with
                | Some r2 => parse_after (is_some (ai_after i)) r2
                | None => false
                end) = true.
Proof.
  intros (d & E & P). destruct r as [a [wo|f]]; cbn [fst snd deferred_of] in *.
  - exists (d ++ after_evs (ai_after i) ++ [ScFinished]). rewrite E, <- app_assoc. split; [reflexivity|].
    specialize (P [] (after_evs (ai_after i) ++ [ScFinished])). rewrite app_nil_r in P. rewrite P.
    cbn [parse_steps]. apply parse_after_ok.
  - destruct P as [NB P].
    exists (d ++ deferred f ++ after_evs (ai_after i) ++ [ScFinished]). rewrite E, <- app_assoc. split; [reflexivity|].
    specialize (P [] (after_evs (ai_after i) ++ [ScFinished])). rewrite app_nil_r in P. rewrite P.
    apply parse_after_ok.
Qed.

(* C02: whatever the outcomes, the events of an attempt form the canonical sequence *)
Theorem attempt_wf i :
  wf_events (is_some (ai_before i)) (is_some (ai_after i)) (all_decl i) (ao_events (run_attempt i)) = true.
Proof.
  rewrite events_shape. unfold phases.
  destruct (before_cases i) as [[HB PI] | [[HB PI] | [HB (a & w & p & E & Ea)]]].
  - apply (bind_steps_inv i true (ai_fbg i)) in PI.
    apply (bind_steps_inv i true (ai_rbg i)) in PI.
    apply (bind_steps_inv i false (ai_steps i)) in PI.
    rewrite <- app_assoc, <- all_decl_eq in PI.
    destruct (wf_tail i _ _ PI) as (rest & -> & W). rewrite HB. cbn [is_some app wf_events]. exact W.
  - apply (bind_steps_inv i true (ai_fbg i)) in PI.
    apply (bind_steps_inv i true (ai_rbg i)) in PI.
    apply (bind_steps_inv i false (ai_steps i)) in PI.
    rewrite <- app_assoc, <- all_decl_eq in PI.
    destruct (wf_tail i _ _ PI) as (rest & -> & W).
    destruct (ai_before i); [|congruence]. cbn [is_some app wf_events]. exact W.
  - rewrite E, !bind_steps_failed. cbn [fst snd deferred_of deferred]. rewrite Ea.
    destruct (ai_before i); [|congruence]. cbn [is_some app wf_events]. apply parse_after_ok.
Qed.

(* ---------- callbacks: the after hook runs exactly once iff set, and last (C09) ---------- *)
Definition no_after (cs : list callback) : Prop := existsb is_after cs = false.

Lemma no_after_app a b : no_after a -> no_after b -> no_after (a ++ b).
Proof. unfold no_after. rewrite existsb_app. intros -> ->. reflexivity. Qed.

Lemma run_step_no_after i bg a wo s : no_after (a_calls a) -> no_after (a_calls (fst (run_step i bg a wo s))).
Proof.
  intros H. unfold run_step. destruct s as [st o]; cbn [fst snd]. destruct o as [| |pan]; cbn; auto.
  destruct wo as [w|].
  - destruct pan; cbn; apply no_after_app; auto; reflexivity.
  - destruct (ai_world i); cbn.
    + destruct pan; cbn; rewrite <- app_assoc; apply no_after_app; auto; reflexivity.
    + apply no_after_app; auto; reflexivity.
    + apply no_after_app; auto; reflexivity.
Qed.

Lemma run_steps_no_after i bg l : forall a wo, no_after (a_calls a) -> no_after (a_calls (fst (run_steps i bg a wo l))).
Proof.
  induction l as [|s l IH]; intros a wo H; cbn [run_steps]; auto.
  pose proof (run_step_no_after i bg a wo s H) as H1.
  destruct (run_step i bg a wo s) as [a' [w|f]]; cbn [fst] in *; auto.
Qed.

Lemma bind_steps_no_after i bg l r : no_after (a_calls (fst r)) -> no_after (a_calls (fst (bind_steps i bg l r))).
Proof. destruct r as [a [wo|f]]; cbn [bind_steps fst]; auto. apply run_steps_no_after. Qed.

Lemma run_before_no_after i : no_after (a_calls (fst (run_before i (mk_acc [ScStarted] [])))).
Proof.
  unfold run_before. destruct (ai_before i) as [hook|]; [|reflexivity].
  destruct (ai_world i); [destruct hook|..]; reflexivity.
Qed.

Lemma phases_no_after i : no_after (a_calls (fst (phases i))).
Proof. unfold phases. repeat apply bind_steps_no_after. apply run_before_no_after. Qed.

Definition final_reason (r : option world + failure) : reason :=
  match r with inl _ => RStepPassed | inr f => failure_reason f end.
Definition final_world_of (r : option world + failure) : option world :=
  match r with inl wo => wo | inr f => failure_world f end.

Lemma calls_shape i :
  ao_calls (run_attempt i) =
  a_calls (fst (phases i)) ++
  match ai_after i with Some _ => [CAfter (final_reason (snd (phases i))) (final_world_of (snd (phases i)))] | None => [] end.
Proof.
  unfold run_attempt. destruct (phases i) as [a [wo|f]]; cbn [fst snd final_reason final_world_of].
  - destruct (ai_after i) as [[p|]|]; cbn; rewrite ?app_nil_r; reflexivity.
  - destruct f as [w p|w|w bg st k]; destruct (ai_after i) as [[q|]|]; cbn; rewrite ?app_nil_r; reflexivity.
Qed.

Theorem after_hook_once_and_last i :
  match ai_after i with
  | Some _ => exists cs r w, ao_calls (run_attempt i) = cs ++ [CAfter r w] /\ existsb is_after cs = false
  | None => existsb is_after (ao_calls (run_attempt i)) = false
  end.
Proof.
  rewrite calls_shape. pose proof (phases_no_after i) as H. destruct (ai_after i).
  - eexists _, _, _. split; [reflexivity | exact H].
  - rewrite app_nil_r. exact H.
Qed.

(* ---------- panics are turned into the Failed event carrying the payload (C10) ---------- *)
Lemma step_panic_payload i bg a w st p :
  snd (run_step i bg a (Some w) (st, OMatch (Some p))) = inr (FStep (Some (w ++ [st])) bg st (EPanic p)).
Proof. reflexivity. Qed.

Lemma step_world_failure_payload i bg a st pan :
  ai_world i <> WOk ->
  snd (run_step i bg a None (st, OMatch pan)) = inr (FStep None bg st (EPanic (world_fail_payload (ai_world i)))).
Proof. intros H. unfold run_step; cbn [fst snd]. destruct (ai_world i); [congruence|reflexivity|reflexivity]. Qed.

Lemma step_nomatch_skipped i bg a wo st :
  run_step i bg a wo (st, ONoMatch) = (emit (emit a (step_ev bg st StStarted)) (step_ev bg st StSkipped), inr (FSkipped wo)).
Proof. reflexivity. Qed.

Lemma step_ambiguous_failed i bg a wo st :
  run_step i bg a wo (st, OAmbiguous) = (emit a (step_ev bg st StStarted), inr (FStep wo bg st EAmbiguous)).
Proof. reflexivity. Qed.

(* the deferred failure event is in the attempt's events, before the after-hook pair and Finished *)
Theorem failure_is_reported i f :
  snd (phases i) = inr f ->
  exists pre, ao_events (run_attempt i) = pre ++ deferred f ++ after_evs (ai_after i) ++ [ScFinished].
Proof. intros H. rewrite events_shape, H. eexists. reflexivity. Qed.

(* an attempt is failed iff a step or the before hook panicked (ambiguity and World failure included)
   or the after hook panicked; a skipped step does not fail it *)
Theorem is_failed_spec i :
  ao_failed (run_attempt i) =
  (match snd (phases i) with inr (FSkipped _) | inl _ => false | inr _ => true end
   || match ai_after i with Some (Some _) => true | _ => false end).
Proof.
  unfold run_attempt. destruct (phases i) as [a [wo|f]]; cbn [fst snd].
  - destruct (ai_after i) as [[p|]|]; reflexivity.
  - destruct f; destruct (ai_after i) as [[q|]|]; reflexivity.
Qed.

(* a retry is requested exactly when the attempt failed and the budget is not exhausted, with the
   counters moved by one (C05) *)
Theorem retry_spec i :
  ao_retry (run_attempt i) =
  match ai_retr i with
  | Some (cur, lft) => if ao_failed (run_attempt i) && (0 <? lft) then Some (cur + 1, lft - 1) else None
  | None => None
  end.
Proof.
  unfold run_attempt. destruct (phases i) as [a [wo|f]]; cbn [fst snd].
  - destruct (ai_after i) as [[p|]|]; destruct (ai_retr i) as [[c l]|]; reflexivity.
  - destruct f; destruct (ai_after i) as [[q|]|]; destruct (ai_retr i) as [[c l]|]; reflexivity.
Qed.
