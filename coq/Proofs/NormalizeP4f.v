(* NormalizeP4f.v — C11 "sequential", part 6: how the tables of the contract automaton evolve along a run
   (which event creates / closes a key), and what is pending in the buffer. *)
From CV Require Import Proofs.SchedP5.
From CV Require Import Model.Base Model.Events Model.Contract Model.Normalize
  Proofs.BaseP Proofs.NormalizeP Proofs.NormalizeP2 Proofs.NormalizeP3 Proofs.NormalizeP4 Proofs.NormalizeP4b
  Proofs.NormalizeP4c Proofs.NormalizeP4d Proofs.NormalizeP4e.
From Coq Require Import Lia Permutation.

Definition ev_startA (k : atkey) : ev := match k with (f, ro, sc, rt) => EvScen f ro sc rt ScStarted end.
Definition ev_finA (k : atkey) : ev := match k with (f, ro, sc, rt) => EvScen f ro sc rt ScFinished end.
Definition ev_startR (k : rkey) : ev := EvRuleS (fst k) (snd k).
Definition ev_finR (k : rkey) : ev := EvRuleF (fst k) (snd k).

(* one step, seen from one key of one table: nothing happens, or the key is created, or it is closed *)
Definition step_shape {K} (eqb : K -> K -> bool) (tbl : cstate -> list (K * status)) (start fin : K -> ev) : Prop :=
  forall seq c e c' k, cstep seq c e = Some c' ->
    lookup eqb k (tbl c') = lookup eqb k (tbl c) \/
    (e = start k /\ lookup eqb k (tbl c) = None /\ lookup eqb k (tbl c') = Some Open) \/
    (e = fin k /\ lookup eqb k (tbl c) = Some Open /\ lookup eqb k (tbl c') = Some Closed).

Lemma step_shape_atts : step_shape atkey_eqb c_atts ev_startA ev_finA.
Proof.
  intros seq c e c' k. unfold cstep. destruct (c_finished c); [discriminate|]. intros H.
  destruct e as [| | | |f|f|f r|f r|f ro sc rt x]; try (apply guard_some in H as [_ <-]; left; reflexivity);
    try (inversion H; subst; left; reflexivity).
  destruct x; apply guard_some in H as [G <-]; try (left; reflexivity); cbn [set_catts c_atts].
  - destruct (atkey_dec k (f, ro, sc, rt)) as [->|NE].
    + right. left. split; [reflexivity|].
      apply andb_prop in G as [G _]. apply andb_prop in G as [G _]. apply andb_prop in G as [G _]. apply andb_prop in G as [_ G].
      split; [apply is_absent_none; exact G|apply (lookup_setk_same atkey_eqb atkey_eqb_spec)].
    + left. apply (lookup_setk_other atkey_eqb atkey_eqb_spec). exact NE.
  - destruct (atkey_dec k (f, ro, sc, rt)) as [->|NE].
    + right. right. split; [reflexivity|]. apply andb_prop in G as [_ G].
      split; [apply is_open_some; exact G|apply (lookup_setk_same atkey_eqb atkey_eqb_spec)].
    + left. apply (lookup_setk_other atkey_eqb atkey_eqb_spec). exact NE.
Qed.

Lemma step_shape_rules : step_shape rkey_eqb c_rules ev_startR ev_finR.
Proof.
  intros seq c e c' k. unfold cstep. destruct (c_finished c); [discriminate|]. intros H.
  destruct e as [| | | |f|f|f r|f r|f ro sc rt x]; try (apply guard_some in H as [_ <-]; left; reflexivity);
    try (inversion H; subst; left; reflexivity).
  - apply guard_some in H as [G <-]. cbn [set_crules c_rules]. destruct (rkey_dec k (f, r)) as [->|NE].
    + right. left. split; [reflexivity|]. apply andb_prop in G as [G _]. apply andb_prop in G as [_ G].
      split; [apply is_absent_none; exact G|apply (lookup_setk_same rkey_eqb rkey_eqb_spec)].
    + left. apply (lookup_setk_other rkey_eqb rkey_eqb_spec). exact NE.
  - apply guard_some in H as [G <-]. cbn [set_crules c_rules]. destruct (rkey_dec k (f, r)) as [->|NE].
    + right. right. split; [reflexivity|]. apply andb_prop in G as [G _].
      split; [apply is_open_some; exact G|apply (lookup_setk_same rkey_eqb rkey_eqb_spec)].
    + left. apply (lookup_setk_other rkey_eqb rkey_eqb_spec). exact NE.
  - destruct x; apply guard_some in H as [_ <-]; left; reflexivity.
Qed.

Lemma step_shape_feats : step_shape N.eqb c_feats EvFeatS EvFeatF.
Proof.
  intros seq c e c' k. unfold cstep. destruct (c_finished c); [discriminate|]. intros H.
  destruct e as [| | | |f|f|f r|f r|f ro sc rt x]; try (apply guard_some in H as [_ <-]; left; reflexivity);
    try (inversion H; subst; left; reflexivity).
  - apply guard_some in H as [G <-]. cbn [set_cfeats c_feats]. destruct (N.eq_dec k f) as [->|NE].
    + right. left. split; [reflexivity|]. apply andb_prop in G as [G _]. apply andb_prop in G as [_ G].
      split; [apply is_absent_none; exact G|apply (lookup_setk_same N.eqb N.eqb_eq)].
    + left. apply (lookup_setk_other N.eqb N.eqb_eq). exact NE.
  - apply guard_some in H as [G <-]. cbn [set_cfeats c_feats]. destruct (N.eq_dec k f) as [->|NE].
    + right. right. split; [reflexivity|]. apply andb_prop in G as [G _]. apply andb_prop in G as [G _].
      split; [apply is_open_some; exact G|apply (lookup_setk_same N.eqb N.eqb_eq)].
    + left. apply (lookup_setk_other N.eqb N.eqb_eq). exact NE.
  - destruct x; apply guard_some in H as [_ <-]; left; reflexivity.
Qed.

Definition step_start {K} (eqb : K -> K -> bool) (tbl : cstate -> list (K * status)) (start : K -> ev) : Prop :=
  forall seq c c' k, cstep seq c (start k) = Some c' -> lookup eqb k (tbl c') = Some Open.
Definition step_fin {K} (eqb : K -> K -> bool) (tbl : cstate -> list (K * status)) (fin : K -> ev) : Prop :=
  forall seq c c' k, cstep seq c (fin k) = Some c' -> lookup eqb k (tbl c') = Some Closed.

Lemma step_start_atts : step_start atkey_eqb c_atts ev_startA.
Proof.
  intros seq c c' [[[f ro] sc] rt]. unfold cstep, ev_startA. destruct (c_finished c); [discriminate|]. intros H.
  apply guard_some in H as [_ <-]. apply (lookup_setk_same atkey_eqb atkey_eqb_spec).
Qed.
Lemma step_fin_atts : step_fin atkey_eqb c_atts ev_finA.
Proof.
  intros seq c c' [[[f ro] sc] rt]. unfold cstep, ev_finA. destruct (c_finished c); [discriminate|]. intros H.
  apply guard_some in H as [_ <-]. apply (lookup_setk_same atkey_eqb atkey_eqb_spec).
Qed.
Lemma step_start_rules : step_start rkey_eqb c_rules ev_startR.
Proof.
  intros seq c c' [f r]. unfold cstep, ev_startR. cbn [fst snd]. destruct (c_finished c); [discriminate|]. intros H.
  apply guard_some in H as [_ <-]. apply (lookup_setk_same rkey_eqb rkey_eqb_spec).
Qed.
Lemma step_start_feats : step_start N.eqb c_feats EvFeatS.
Proof.
  intros seq c c' f. unfold cstep. destruct (c_finished c); [discriminate|]. intros H.
  apply guard_some in H as [_ <-]. apply (lookup_setk_same N.eqb N.eqb_eq).
Qed.

Section Mono.
  Context {K : Type} (eqb : K -> K -> bool) (tbl : cstate -> list (K * status)) (start fin : K -> ev).
  Hypothesis STEP : step_shape eqb tbl start fin.
  Hypothesis START : step_start eqb tbl start.

  Lemma crun_key_back seq : forall l c c' k, crun seq c l = Some c' ->
    lookup eqb k (tbl c') <> None -> lookup eqb k (tbl c) <> None \/ In (start k) l.
  Proof.
    induction l as [|e l IH]; intros c c' k H L; cbn [crun] in H; [inversion H; subst; left; exact L|].
    destruct (cstep seq c e) as [c1|] eqn:S; [|discriminate].
    destruct (IH c1 c' k H L) as [X|X]; [|right; right; exact X].
    destruct (STEP seq c e c1 k S) as [E|[(E & _)|(_ & E & _)]].
    - left. rewrite <- E. exact X.
    - right. left. exact E.
    - left. rewrite E. discriminate.
  Qed.
  Lemma crun_key_persist seq : forall l c c' k, crun seq c l = Some c' ->
    lookup eqb k (tbl c) <> None -> lookup eqb k (tbl c') <> None.
  Proof.
    induction l as [|e l IH]; intros c c' k H L; cbn [crun] in H; [inversion H; subst; exact L|].
    destruct (cstep seq c e) as [c1|] eqn:S; [|discriminate]. apply (IH c1 c' k H).
    destruct (STEP seq c e c1 k S) as [E|[(_ & _ & E)|(_ & _ & E)]]; rewrite E; [exact L|discriminate|discriminate].
  Qed.
  Lemma crun_key_fwd seq : forall l c c' k, crun seq c l = Some c' -> In (start k) l -> lookup eqb k (tbl c') <> None.
  Proof.
    induction l as [|e l IH]; intros c c' k H IN; [destruct IN|]. cbn [crun] in H.
    destruct (cstep seq c e) as [c1|] eqn:S; [|discriminate]. destruct IN as [->|IN]; [|exact (IH c1 c' k H IN)].
    apply (crun_key_persist seq l c1 c' k H). rewrite (START seq c c1 k S). discriminate.
  Qed.

  (* closing *)
  Hypothesis FIN : step_fin eqb tbl fin.
  Lemma crun_closed_persist seq : forall l c c' k, crun seq c l = Some c' ->
    lookup eqb k (tbl c) = Some Closed -> lookup eqb k (tbl c') = Some Closed.
  Proof.
    induction l as [|e l IH]; intros c c' k H L; cbn [crun] in H; [inversion H; subst; exact L|].
    destruct (cstep seq c e) as [c1|] eqn:S; [|discriminate]. apply (IH c1 c' k H).
    destruct (STEP seq c e c1 k S) as [E|[(_ & E & _)|(_ & E & _)]]; [rewrite E; exact L|congruence|congruence].
  Qed.
  Lemma crun_closed_back seq : forall l c c' k, crun seq c l = Some c' ->
    lookup eqb k (tbl c') = Some Closed -> lookup eqb k (tbl c) = Some Closed \/ In (fin k) l.
  Proof.
    induction l as [|e l IH]; intros c c' k H L; cbn [crun] in H; [inversion H; subst; left; exact L|].
    destruct (cstep seq c e) as [c1|] eqn:S; [|discriminate].
    destruct (IH c1 c' k H L) as [X|X]; [|right; right; exact X].
    destruct (STEP seq c e c1 k S) as [E|[(_ & _ & E)|(E & _)]].
    - left. rewrite <- E. exact X.
    - congruence.
    - right. left. exact E.
  Qed.
  Lemma crun_closed_fwd seq : forall l c c' k, crun seq c l = Some c' -> In (fin k) l -> lookup eqb k (tbl c') = Some Closed.
  Proof.
    induction l as [|e l IH]; intros c c' k H IN; [destruct IN|]. cbn [crun] in H.
    destruct (cstep seq c e) as [c1|] eqn:S; [|discriminate]. destruct IN as [->|IN]; [|exact (IH c1 c' k H IN)].
    apply (crun_closed_persist seq l c1 c' k H). exact (FIN seq c c1 k S).
  Qed.
End Mono.
