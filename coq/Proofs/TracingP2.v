(* TracingP2.v — the log-forwarding protocol WITH the Started events (Model/TracingStart.v):
   1. the layer projects onto the base LTS (so every theorem of TracingP.v carries over);
   2. THE CLAUSE for steps and Before hooks: a delivered log that was emitted in a non-after span x is delivered AFTER
      the Started event of x (and, by logs_before_result, before x's result);
   3. THE REFUTATION for After hooks (K20a): a log of an After-hook span is delivered BEFORE the hook's Started event;
   4. non-vacuity examples. *)
From CV Require Import Model.Base Model.Tracing Model.TracingStart Proofs.BaseP Proofs.TracingP.
From Coq Require Import Lia.

(* ---------------------------------------------------------------------------------------------------------------- *)
(* 0. projections and list utilities                                                                                *)
(* ---------------------------------------------------------------------------------------------------------------- *)
Definition base_labels (ls : list tlabel2) : list tlabel :=
  flat_map (fun l => match l with LBase b => [b] | LStart _ => [] end) ls.
Definition base_outs (os : list tout2) : list tout :=
  flat_map (fun o => match o with OBase b => [b] | OStart _ => [] end) os.

Lemma base_labels_app a b : base_labels (a ++ b) = base_labels a ++ base_labels b.
Proof. unfold base_labels. apply flat_map_app. Qed.
Lemma base_outs_app a b : base_outs (a ++ b) = base_outs a ++ base_outs b.
Proof. unfold base_outs. apply flat_map_app. Qed.
Lemma base_outs_map o : base_outs (map OBase o) = o.
Proof. induction o as [|x o IH]; [reflexivity|]. cbn. f_equal. exact IH. Qed.

Lemma in_base_labels b ls : In b (base_labels ls) <-> In (LBase b) ls.
Proof.
  unfold base_labels. rewrite in_flat_map. split.
  - intros ([b'|x] & Hin & Hb); cbn in Hb; [|contradiction]. destruct Hb as [->|[]]. exact Hin.
  - intros Hin. exists (LBase b). split; [exact Hin|left; reflexivity].
Qed.
Lemma in_base_outs o os : In o (base_outs os) <-> In (OBase o) os.
Proof.
  unfold base_outs. rewrite in_flat_map. split.
  - intros ([o'|x] & Hin & Ho); cbn in Ho; [|contradiction]. destruct Ho as [->|[]]. exact Hin.
  - intros Hin. exists (OBase o). split; [exact Hin|left; reflexivity].
Qed.

Lemma split_app {A} (a : list A) x b : forall l1 l2, a ++ x :: b = l1 ++ l2 ->
  (exists b0, l1 = a ++ x :: b0 /\ b = b0 ++ l2) \/ (exists a', a = l1 ++ a' /\ l2 = a' ++ x :: b).
Proof.
  induction a as [|z a IH]; intros l1 l2 E.
  - destruct l1 as [|y l1]; cbn in E.
    + right. exists []. split; [reflexivity|]. symmetry. exact E.
    + inversion E; subst. left. exists l1. split; reflexivity.
  - destruct l1 as [|y l1]; cbn in E.
    + right. exists (z :: a). split; [reflexivity|]. symmetry. exact E.
    + inversion E as [[Ezy E']]. subst y. destruct (IH _ _ E') as [(b0 & -> & ->)|(a' & -> & ->)].
      * left. exists b0. split; reflexivity.
      * right. exists a'. split; reflexivity.
Qed.

Lemma NoDup_map_inj {A B} (f : A -> B) : forall l x y,
  NoDup (map f l) -> In x l -> In y l -> f x = f y -> x = y.
Proof.
  induction l as [|z l IH]; intros x y ND Hx Hy E; [contradiction|].
  cbn in ND. inversion ND as [|? ? Hnin ND']; subst.
  destruct Hx as [->|Hx], Hy as [->|Hy].
  - reflexivity.
  - exfalso. apply Hnin. rewrite E. apply in_map. exact Hy.
  - exfalso. apply Hnin. rewrite <- E. apply in_map. exact Hx.
  - eapply IH; eauto.
Qed.

(* the (scenario, message) key of a log: what the delivered `TLog` output shows *)
Definition log_key (l : log) : N * N := (l_scen l, l_msg l).

(* ---------------------------------------------------------------------------------------------------------------- *)
(* 1. projection onto the base LTS                                                                                  *)
(* ---------------------------------------------------------------------------------------------------------------- *)
Lemma tstep2_base is_after s l s' o : tstep2 is_after s l = Some (s', o) ->
  match l with
  | LBase b => tstep (t2_base s) b = Some (t2_base s', base_outs o) /\ t2_started s' = t2_started s
  | LStart x => t2_base s' = t2_base s /\ o = [OStart x] /\ t2_started s' = x :: t2_started s
  end.
Proof.
  intros H. destruct l as [b|x]; cbn [tstep2] in H.
  - destruct (match b with TEmit _ _ x => is_after x || memN x (t2_started s) | TResult x => memN x (t2_started s) | _ => true end);
      [|discriminate].
    destruct (tstep (t2_base s) b) as [[s0 o0]|]; [|discriminate]. inversion H; subst. cbn [t2_base t2_started].
    rewrite base_outs_map. split; reflexivity.
  - destruct (memN x (t2_started s)); [discriminate|].
    destruct (is_after x).
    + destruct (memN x (t_released (t2_base s))); [|discriminate]. inversion H; subst. cbn. auto.
    + destruct (memN x (t_closed (t2_base s))); [discriminate|]. inversion H; subst. cbn. auto.
Qed.

Theorem texec2_projects is_after : forall ls s s' o,
  texec2 is_after s ls = Some (s', o) ->
  texec (t2_base s) (base_labels ls) = Some (t2_base s', base_outs o).
Proof.
  induction ls as [|l t IH]; intros s s' o H; cbn [texec2] in H.
  - inversion H; subst. reflexivity.
  - destruct (tstep2 is_after s l) as [[s1 o1]|] eqn:S1; [|discriminate].
    destruct (texec2 is_after s1 t) as [[s2 o2]|] eqn:S2; [|discriminate]. inversion H; subst.
    apply IH in S2. apply tstep2_base in S1. rewrite base_outs_app. destruct l as [b|x].
    + destruct S1 as [S1 _]. cbn [base_labels flat_map app]. cbn [texec]. rewrite S1.
      fold (base_labels t). rewrite S2. reflexivity.
    + destruct S1 as (EB & -> & _). cbn [base_labels flat_map app]. fold (base_labels t).
      rewrite <- EB. rewrite S2. reflexivity.
Qed.

(* the statement asked for: whole runs *)
Corollary projection is_after ls2 s2 out2 :
  texec2 is_after tinit2 ls2 = Some (s2, out2) ->
  texec tinit (base_labels ls2) = Some (t2_base s2, base_outs out2).
Proof. intros H. exact (texec2_projects is_after ls2 tinit2 s2 out2 H). Qed.

(* ---- the theorems of TracingP.v, for the layer ---- *)
Corollary logs_before_result2 is_after ls1 x s1 out1 sc m :
  texec2 is_after tinit2 ls1 = Some (s1, out1) ->
  (exists s2 o, tstep2 is_after s1 (LBase (TResult x)) = Some (s2, o)) ->
  In (LBase (TEmit sc m x)) ls1 ->
  In (OBase (TLog sc m)) out1.
Proof.
  intros H (s2 & o & R) HE. apply in_base_outs.
  eapply logs_before_result; [exact (projection _ _ _ _ H) | | apply in_base_labels; exact HE].
  apply tstep2_base in R. destruct R as [R _]. eauto.
Qed.

Corollary logs_exactly_once_in_order2 is_after ls s out :
  texec2 is_after tinit2 ls = Some (s, out) ->
  logs_of (base_outs out) ++ map as_out (t_logs (t2_base s)) = map as_out (emitted (base_labels ls)).
Proof. intros H. apply logs_exactly_once_in_order. exact (projection _ _ _ _ H). Qed.

Corollary texec2_base_inv is_after ls s out :
  texec2 is_after tinit2 ls = Some (s, out) -> inv (base_labels ls) (t2_base s) (base_outs out).
Proof. intros H. exact (texec_inv _ [] tinit [] _ _ init_inv (projection _ _ _ _ H)). Qed.

(* ---------------------------------------------------------------------------------------------------------------- *)
(* 2. THE CLAUSE: delivered after the Started event (steps and Before hooks)                                        *)
(* ---------------------------------------------------------------------------------------------------------------- *)

(* what one base step does to the queue and which logs it delivers *)
Lemma tstep_logs s l s' o : spans_ok s -> tstep s l = Some (s', o) ->
  (forall sc m, In (TLog sc m) o -> exists lg, In lg (t_logs s) /\ l_scen lg = sc /\ l_msg lg = m) /\
  (forall lg, In lg (t_logs s') -> In lg (t_logs s) \/ l = TEmit (l_scen lg) (l_msg lg) (l_span lg)).
Proof.
  intros OK H. destruct l as [sc0 m0 x|x|x| |x]; cbn [tstep] in H.
  - destruct (memN x (t_closed s)); [discriminate|]. inversion H; subst. cbn [t_logs]. split.
    + intros sc m [].
    + intros lg Hl. apply in_app_or in Hl as [Hl|[<-|[]]]; [left; exact Hl|right; reflexivity].
  - destruct (memN x (t_closed s)); [discriminate|]. inversion H; subst. cbn [t_logs]. split.
    + intros sc m [].
    + intros lg Hl. left. exact Hl.
  - inversion H; subst. cbn [t_logs]. split.
    + intros sc m [].
    + intros lg Hl. left. exact Hl.
  - assert (LT : (length (t_logs s) < S (length (t_logs s)))%nat) by lia.
    destruct (fwd_loop_spec (S (length (t_logs s))) s OK LT) as (_ & _ & _ & E & O).
    destruct (fwd_loop (S (length (t_logs s))) s) as [s2 o2]. inversion H; subst. cbn [fst snd] in E, O. split.
    + intros sc m Hin. rewrite O in Hin. apply in_map_iff in Hin as (lg & Elg & Hlg).
      inversion Elg; subst. exists lg. auto.
    + intros lg Hl. rewrite E in Hl. contradiction.
  - destruct (memN x (t_released s)); [|discriminate]. inversion H; subst. split.
    + intros sc m [Hd|[]]. discriminate.
    + intros lg Hl. left. exact Hl.
Qed.

Section Clause.
  Variable is_after : N -> bool.

  Definition inv2 (ls : list tlabel2) (s : tstate2) (out : list tout2) : Prop :=
    (* the base invariant of TracingP.v *)
    inv (base_labels ls) (t2_base s) (base_outs out) /\
    (* a queued log was emitted by a label of the run, and if its span is not an After-hook span, the span has started *)
    (forall lg, In lg (t_logs (t2_base s)) ->
       In (LBase (TEmit (l_scen lg) (l_msg lg) (l_span lg))) ls /\
       (is_after (l_span lg) = false -> memN (l_span lg) (t2_started s) = true)) /\
    (* the Started event of every started span is out *)
    (forall x, memN x (t2_started s) = true -> In (OStart x) out) /\
    (* every delivered log was emitted in some span whose Started event (unless an After-hook span) precedes it *)
    (forall a sc m b, out = a ++ OBase (TLog sc m) :: b ->
       exists x, In (LBase (TEmit sc m x)) ls /\ (is_after x = false -> In (OStart x) a)).

  Lemma init_inv2 : inv2 [] tinit2 [].
  Proof.
    split; [exact init_inv|]. split; [|split].
    - cbn. intros lg [].
    - cbn. intros x Hx. discriminate.
    - intros a sc m b E. destruct a; discriminate.
  Qed.

  Lemma tstep2_inv ls s out l s' o :
    inv2 ls s out -> tstep2 is_after s l = Some (s', o) -> inv2 (ls ++ [l]) s' (out ++ o).
  Proof.
    intros (I & A & B & C) H. pose proof (tstep2_base _ _ _ _ _ H) as P. destruct l as [b|x].
    - (* a base step *)
      destruct P as [ST SD].
      assert (OKb : match b with TEmit _ _ x => is_after x || memN x (t2_started s) = true | _ => True end).
      { cbn [tstep2] in H. destruct b; try exact Logic.I.
        destruct (is_after span || memN span (t2_started s)); [reflexivity|discriminate]. }
      assert (Eo : o = map OBase (base_outs o)).
      { cbn [tstep2] in H.
        destruct (match b with TEmit _ _ x => is_after x || memN x (t2_started s) | TResult x => memN x (t2_started s) | _ => true end);
          [|discriminate].
        destruct (tstep (t2_base s) b) as [[s0 o0]|]; [|discriminate]. inversion H; subst. rewrite base_outs_map. reflexivity. }
      destruct (tstep_logs _ _ _ _ (proj1 I) ST) as [TL TQ].
      split; [|split; [|split]].
      + rewrite base_labels_app, base_outs_app. cbn [base_labels flat_map app]. eapply tstep_inv; eauto.
      + intros lg Hl. destruct (TQ lg Hl) as [Hq|Eb].
        * destruct (A lg Hq) as [A1 A2]. split; [apply in_or_app; left; exact A1|]. rewrite SD. exact A2.
        * split; [apply in_or_app; right; left; rewrite Eb; reflexivity|].
          intros NA. rewrite SD. rewrite Eb in OKb. rewrite NA in OKb. exact OKb.
      + intros x Hx. rewrite SD in Hx. apply in_or_app. left. apply B. exact Hx.
      + intros a sc m b0 E. symmetry in E. apply split_app in E as [(b1 & E1 & _)|(a' & -> & E2)].
        * destruct (C _ _ _ _ E1) as (x & X1 & X2). exists x. split; [apply in_or_app; left; exact X1|exact X2].
        * assert (Hin : In (TLog sc m) (base_outs o)).
          { apply in_base_outs. rewrite E2. apply in_or_app. right. left. reflexivity. }
          destruct (TL _ _ Hin) as (lg & Hq & <- & <-). destruct (A lg Hq) as [A1 A2].
          exists (l_span lg). split; [apply in_or_app; left; exact A1|].
          intros NA. apply in_or_app. left. apply B. apply A2. exact NA.
    - (* a Started event *)
      destruct P as (EB & -> & SD).
      split; [|split; [|split]].
      + rewrite base_labels_app, base_outs_app. cbn. rewrite !app_nil_r, EB. exact I.
      + intros lg Hl. rewrite EB in Hl. destruct (A lg Hl) as [A1 A2]. split; [apply in_or_app; left; exact A1|].
        intros NA. rewrite SD.
        change (memN (l_span lg) (x :: t2_started s)) with ((l_span lg =? x) || memN (l_span lg) (t2_started s)).
        rewrite (A2 NA). apply orb_true_r.
      + intros y Hy. rewrite SD in Hy.
        change (memN y (x :: t2_started s)) with ((y =? x) || memN y (t2_started s)) in Hy. apply orb_prop in Hy as [Hy|Hy].
        * apply N.eqb_eq in Hy. subst y. apply in_or_app. right. left. reflexivity.
        * apply in_or_app. left. apply B. exact Hy.
      + intros a sc m b0 E. symmetry in E. apply split_app in E as [(b1 & E1 & _)|(a' & -> & E2)].
        * destruct (C _ _ _ _ E1) as (y & X1 & X2). exists y. split; [apply in_or_app; left; exact X1|exact X2].
        * exfalso. destruct a' as [|z a']; [discriminate|]. inversion E2 as [[Ez E3]]. destruct a'; discriminate.
  Qed.

  Lemma texec2_inv : forall ls2 ls1 s out s' o,
    inv2 ls1 s out -> texec2 is_after s ls2 = Some (s', o) -> inv2 (ls1 ++ ls2) s' (out ++ o).
  Proof.
    induction ls2 as [|l t IH]; intros ls1 s out s' o I H; cbn [texec2] in H.
    - inversion H; subst. rewrite !app_nil_r. exact I.
    - destruct (tstep2 is_after s l) as [[s1 o1]|] eqn:S1; [|discriminate].
      destruct (texec2 is_after s1 t) as [[s2 o2]|] eqn:S2; [|discriminate]. inversion H; subst.
      replace (ls1 ++ l :: t) with ((ls1 ++ [l]) ++ t) by (rewrite <- app_assoc; reflexivity).
      rewrite app_assoc. eapply IH; [eapply tstep2_inv; eauto | exact S2].
  Qed.

  (* without any uniqueness hypothesis: every delivered log has AN emitting span whose Started event precedes it *)
  Theorem delivered_log_has_started_emitter ls2 s2 out2 a sc m b :
    texec2 is_after tinit2 ls2 = Some (s2, out2) ->
    out2 = a ++ OBase (TLog sc m) :: b ->
    exists x, In (LBase (TEmit sc m x)) ls2 /\ (is_after x = false -> In (OStart x) a).
  Proof.
    intros H E. pose proof (texec2_inv ls2 [] tinit2 [] s2 out2 init_inv2 H) as (_ & _ & _ & C).
    cbn [app] in C. exact (C _ _ _ _ E).
  Qed.

  (* THE CLAUSE (steps and Before hooks): messages are unique; the log (sc, m) was emitted in the non-after span x;
     then wherever it is delivered, the Started event of x has been emitted before *)
  Theorem log_delivered_after_started ls2 s2 out2 a sc m b x :
    texec2 is_after tinit2 ls2 = Some (s2, out2) ->
    NoDup (map log_key (emitted (base_labels ls2))) ->
    In (LBase (TEmit sc m x)) ls2 ->
    is_after x = false ->
    out2 = a ++ OBase (TLog sc m) :: b ->
    In (OStart x) a.
  Proof.
    intros H ND HE NA E.
    destruct (delivered_log_has_started_emitter _ _ _ _ _ _ _ H E) as (y & Y1 & Y2).
    assert (EQ : mk_log sc m x = mk_log sc m y).
    { apply (NoDup_map_inj log_key (emitted (base_labels ls2))); [exact ND| | |reflexivity].
      - unfold emitted. apply in_flat_map. exists (TEmit sc m x). split; [apply in_base_labels; exact HE|left; reflexivity].
      - unfold emitted. apply in_flat_map. exists (TEmit sc m y). split; [apply in_base_labels; exact Y1|left; reflexivity]. }
    inversion EQ; subst y. exact (Y2 NA).
  Qed.

  (* the whole clause: when the result of a step / Before hook x is about to be emitted, each of its logs has been
     delivered, at a position AFTER the Started event of x — and the result event comes after all of that *)
  Theorem log_between_started_and_result ls1 s1 out1 x sc m s2 o :
    texec2 is_after tinit2 ls1 = Some (s1, out1) ->
    tstep2 is_after s1 (LBase (TResult x)) = Some (s2, o) ->
    NoDup (map log_key (emitted (base_labels ls1))) ->
    In (LBase (TEmit sc m x)) ls1 ->
    is_after x = false ->
    o = [OBase (TRes x)] /\
    exists a b, out1 = a ++ OBase (TLog sc m) :: b /\ In (OStart x) a.
  Proof.
    intros H R ND HE NA. split.
    - cbn [tstep2 tstep] in R. destruct (memN x (t2_started s1)); [|discriminate].
      destruct (memN x (t_released (t2_base s1))); [|discriminate]. inversion R; reflexivity.
    - assert (HD : In (OBase (TLog sc m)) out1) by (eapply logs_before_result2; eauto).
      apply in_split in HD as (a & b & E). exists a, b. split; [exact E|].
      eapply log_delivered_after_started; eauto.
  Qed.
End Clause.

(* ---------------------------------------------------------------------------------------------------------------- *)
(* 2b. THE CLAUSE, positional formulation (no uniqueness hypothesis): the k-th delivered log IS the k-th emitted    *)
(*     log (same scenario, same message), and if the span that k-th emission happened in is not an After-hook span, *)
(*     its Started event precedes the delivery                                                                      *)
(* ---------------------------------------------------------------------------------------------------------------- *)
Lemma map_eq_split {A B} (f : A -> B) : forall l a y b, map f l = a ++ y :: b ->
  exists l1 x l2, l = l1 ++ x :: l2 /\ a = map f l1 /\ y = f x /\ b = map f l2.
Proof.
  induction l as [|z l IH]; intros a y b E.
  - destruct a; discriminate.
  - destruct a as [|a0 a]; cbn in E; inversion E as [[E0 E1]].
    + exists [], z, l. auto.
    + destruct (IH _ _ _ E1) as (l1 & x & l2 & -> & -> & -> & ->). exists (z :: l1), x, l2. auto.
Qed.

Lemma nth_error_mid {A} (p : list A) x r : nth_error (p ++ x :: r) (length p) = Some x.
Proof. induction p as [|z p IH]; [reflexivity|exact IH]. Qed.

Lemma nth_error_app_some {A} (l r : list A) k x : nth_error l k = Some x -> nth_error (l ++ r) k = Some x.
Proof. intros H. rewrite nth_error_app1; [exact H|]. apply nth_error_Some. congruence. Qed.

Lemma tstep2_base_out is_after s b s' o : tstep2 is_after s (LBase b) = Some (s', o) -> o = map OBase (base_outs o).
Proof.
  intros H. cbn [tstep2] in H.
  destruct (match b with TEmit _ _ x => is_after x || memN x (t2_started s) | TResult x => memN x (t2_started s) | _ => true end);
    [|discriminate].
  destruct (tstep (t2_base s) b) as [[s0 o0]|]; [|discriminate]. inversion H; subst. rewrite base_outs_map. reflexivity.
Qed.

(* a base step either is a forwarder run (delivers the whole queue, in order) or delivers nothing and appends what it emits *)
Lemma tstep_queue s l s' o : spans_ok s -> tstep s l = Some (s', o) ->
  (o = map as_out (t_logs s) /\ t_logs s' = [] /\ emitted [l] = []) \/
  (logs_of o = [] /\ (forall sc m, ~ In (TLog sc m) o) /\ t_logs s' = t_logs s ++ emitted [l]).
Proof.
  intros OK H. destruct l as [sc0 m0 x|x|x| |x]; cbn [tstep] in H.
  - right. destruct (memN x (t_closed s)); [discriminate|]. inversion H; subst. cbn. split; [reflexivity|]. split; [intros sc m []|reflexivity].
  - right. destruct (memN x (t_closed s)); [discriminate|]. inversion H; subst. cbn. rewrite app_nil_r. split; [reflexivity|]. split; [intros sc m []|reflexivity].
  - right. inversion H; subst. cbn. rewrite app_nil_r. split; [reflexivity|]. split; [intros sc m []|reflexivity].
  - left. assert (LT : (length (t_logs s) < S (length (t_logs s)))%nat) by lia.
    destruct (fwd_loop_spec (S (length (t_logs s))) s OK LT) as (_ & _ & _ & E & O).
    destruct (fwd_loop (S (length (t_logs s))) s) as [s2 o2]. inversion H; subst. cbn [fst snd] in E, O.
    split; [exact O|]. split; [exact E|reflexivity].
  - right. destruct (memN x (t_released s)); [|discriminate]. inversion H; subst. cbn. rewrite app_nil_r. split; [reflexivity|].
    split; [intros sc m [Hd|[]]; discriminate|reflexivity].
Qed.

Section Positional.
  Variable is_after : N -> bool.

  Definition pos_ok (ls : list tlabel2) (out : list tout2) : Prop :=
    forall a sc m b, out = a ++ OBase (TLog sc m) :: b ->
      exists lg, nth_error (emitted (base_labels ls)) (length (logs_of (base_outs a))) = Some lg /\
                 l_scen lg = sc /\ l_msg lg = m /\
                 (is_after (l_span lg) = false -> In (OStart (l_span lg)) a).

  Definition inv3 (ls : list tlabel2) (s : tstate2) (out : list tout2) : Prop :=
    inv2 is_after ls s out /\
    (* the queue is exactly the not yet delivered suffix of the emissions (with their spans) *)
    (exists pre, emitted (base_labels ls) = pre ++ t_logs (t2_base s) /\
                 length pre = length (logs_of (base_outs out))) /\
    pos_ok ls out.

  Lemma init_inv3 : inv3 [] tinit2 [].
  Proof.
    split; [apply init_inv2|]. split; [exists []; split; reflexivity|].
    intros a sc m b E. destruct a; discriminate.
  Qed.

  Lemma pos_ok_old ls out l a sc m b1 :
    pos_ok ls out -> out = a ++ OBase (TLog sc m) :: b1 ->
    exists lg, nth_error (emitted (base_labels (ls ++ [l]))) (length (logs_of (base_outs a))) = Some lg /\
               l_scen lg = sc /\ l_msg lg = m /\ (is_after (l_span lg) = false -> In (OStart (l_span lg)) a).
  Proof.
    intros C E1. destruct (C _ _ _ _ E1) as (lg & N1 & rest). exists lg. split; [|exact rest].
    rewrite base_labels_app, emitted_app. apply nth_error_app_some. exact N1.
  Qed.

  Lemma tstep2_inv3 ls s out l s' o :
    inv3 ls s out -> tstep2 is_after s l = Some (s', o) -> inv3 (ls ++ [l]) s' (out ++ o).
  Proof.
    intros (I2 & (pre & EP & LP) & C) H. pose proof (tstep2_inv is_after _ _ _ _ _ _ I2 H) as I2'.
    split; [exact I2'|]. destruct I2 as (I & A & B & _). pose proof (tstep2_base _ _ _ _ _ H) as P. destruct l as [b|x].
    - destruct P as [ST SD]. pose proof (tstep2_base_out _ _ _ _ _ H) as Eo.
      destruct (tstep_queue _ _ _ _ (proj1 I) ST) as [(EO & EQ & EE)|(LO & NO & EQ)].
      + (* a forwarder run *)
        split.
        * exists (pre ++ t_logs (t2_base s)). rewrite base_labels_app, emitted_app. cbn [base_labels flat_map app].
          rewrite EE, app_nil_r, EQ, app_nil_r. split; [exact EP|].
          rewrite base_outs_app, logs_of_app, !app_length, EO, logs_of_map, map_length, LP. reflexivity.
        * intros a sc m b0 E. symmetry in E. apply split_app in E as [(b1 & E1 & _)|(a' & -> & E2)].
          -- eapply pos_ok_old; eauto.
          -- rewrite Eo, EO, map_map in E2. apply map_eq_split in E2 as (q1 & lg & q2 & Eq & Ea & Ey & _).
             unfold as_out in Ey. inversion Ey; subst sc m. exists lg. split; [|split; [reflexivity|split; [reflexivity|]]].
             ++ rewrite base_labels_app, emitted_app. cbn [base_labels flat_map app]. rewrite EE, app_nil_r, EP, Eq.
                rewrite base_outs_app, logs_of_app, app_length, <- LP, Ea.
                rewrite <- (map_map (fun l => TLog (l_scen l) (l_msg l)) OBase), base_outs_map.
                change (fun l : log => TLog (l_scen l) (l_msg l)) with as_out. rewrite logs_of_map, map_length.
                rewrite app_assoc, <- app_length. apply nth_error_mid.
             ++ intros NA. apply in_or_app. left. apply B. apply (A lg); [|exact NA].
                rewrite Eq. apply in_or_app. right. left. reflexivity.
      + (* any other base step *)
        split.
        * exists pre. rewrite base_labels_app, emitted_app. cbn [base_labels flat_map app].
          rewrite EP, EQ, app_assoc. split; [reflexivity|].
          rewrite base_outs_app, logs_of_app, LO, app_nil_r. exact LP.
        * intros a sc m b0 E. symmetry in E. apply split_app in E as [(b1 & E1 & _)|(a' & -> & E2)].
          -- eapply pos_ok_old; eauto.
          -- exfalso. apply (NO sc m). apply in_base_outs. rewrite E2. apply in_or_app. right. left. reflexivity.
    - destruct P as (EB & -> & SD). split.
      + exists pre. rewrite base_labels_app, base_outs_app. cbn [base_labels base_outs flat_map app].
        rewrite !app_nil_r, EB. split; [exact EP|exact LP].
      + intros a sc m b0 E. symmetry in E. apply split_app in E as [(b1 & E1 & _)|(a' & -> & E2)].
        * eapply pos_ok_old; eauto.
        * exfalso. destruct a' as [|z a']; [discriminate|]. inversion E2 as [[Ez E3]]. destruct a'; discriminate.
  Qed.

  Lemma texec2_inv3 : forall ls2 ls1 s out s' o,
    inv3 ls1 s out -> texec2 is_after s ls2 = Some (s', o) -> inv3 (ls1 ++ ls2) s' (out ++ o).
  Proof.
    induction ls2 as [|l t IH]; intros ls1 s out s' o I H; cbn [texec2] in H.
    - inversion H; subst. rewrite !app_nil_r. exact I.
    - destruct (tstep2 is_after s l) as [[s1 o1]|] eqn:S1; [|discriminate].
      destruct (texec2 is_after s1 t) as [[s2 o2]|] eqn:S2; [|discriminate]. inversion H; subst.
      replace (ls1 ++ l :: t) with ((ls1 ++ [l]) ++ t) by (rewrite <- app_assoc; reflexivity).
      rewrite app_assoc. eapply IH; [eapply tstep2_inv3; eauto | exact S2].
  Qed.

  (* THE CLAUSE, positional: the log delivered after k earlier deliveries is the k-th emission of the run — `emitted`
     keeps the span each log was emitted in — and the Started event of that span, unless it is an After-hook span,
     is in the output before the delivery. No uniqueness of messages is assumed. *)
  Theorem kth_delivered_log_after_started_of_kth_emission ls2 s2 out2 a sc m b :
    texec2 is_after tinit2 ls2 = Some (s2, out2) ->
    out2 = a ++ OBase (TLog sc m) :: b ->
    exists lg, nth_error (emitted (base_labels ls2)) (length (logs_of (base_outs a))) = Some lg /\
               l_scen lg = sc /\ l_msg lg = m /\
               (is_after (l_span lg) = false -> In (OStart (l_span lg)) a).
  Proof.
    intros H E. pose proof (texec2_inv3 ls2 [] tinit2 [] s2 out2 init_inv3 H) as (_ & _ & C).
    cbn [app] in C. exact (C _ _ _ _ E).
  Qed.
End Positional.

(* ---------------------------------------------------------------------------------------------------------------- *)
(* 3. THE REFUTATION for After hooks (K20a)                                                                         *)
(* ---------------------------------------------------------------------------------------------------------------- *)
Theorem after_hook_logs_precede_started_refuted :
  exists is_after ls2 s2 out2 x sc m a b,
    texec2 is_after tinit2 ls2 = Some (s2, out2) /\ is_after x = true /\
    In (LBase (TEmit sc m x)) ls2 /\ out2 = a ++ OBase (TLog sc m) :: b /\ ~ In (OStart x) a /\ In (OStart x) b.
Proof.
  exists (fun x => x =? 7),
         [LBase (TEmit 11 1 7); LBase (TClose 7); LBase (TSub 7); LBase TFwd; LBase TFwd; LStart 7; LBase (TResult 7)],
         (mk_ts2 (mk_ts [] [] [] [] [7] [7]) [7]),
         [OBase (TLog 11 1); OStart 7; OBase (TRes 7)],
         7, 11, 1, [], [OStart 7; OBase (TRes 7)].
  split; [vm_compute; reflexivity|]. split; [reflexivity|]. split; [left; reflexivity|].
  split; [reflexivity|]. split; [intros []|left; reflexivity].
Qed.

(* the same run is rejected if the span is NOT an After-hook span: the log cannot be emitted before Started *)
Example non_after_emit_before_started_rejected :
  texec2 (fun _ => false) tinit2
    [LBase (TEmit 11 1 7); LBase (TClose 7); LBase (TSub 7); LBase TFwd; LBase TFwd; LStart 7; LBase (TResult 7)] = None.
Proof. vm_compute. reflexivity. Qed.

(* ---------------------------------------------------------------------------------------------------------------- *)
(* 4. non-vacuity: a Before-hook span 2 and a step span 3 (both non-after), and an After-hook span 7                *)
(* ---------------------------------------------------------------------------------------------------------------- *)
Definition ex_after (x : N) : bool := x =? 7.
Definition ex_run : list tlabel2 :=
  [ LStart 2; LBase (TEmit 11 1 2); LBase (TEmit 11 2 2); LBase TFwd; LBase (TEmit 11 3 2);
    LBase (TClose 2); LBase (TSub 2); LBase TFwd; LBase TFwd; LBase (TResult 2);
    LStart 3; LBase (TEmit 11 4 3); LBase (TClose 3); LBase (TSub 3); LBase TFwd; LBase TFwd; LBase (TResult 3);
    LBase (TEmit 11 5 7); LBase (TClose 7); LBase (TSub 7); LBase TFwd; LBase TFwd; LStart 7; LBase (TResult 7) ].
Definition ex_out : list tout2 :=
  [ OStart 2; OBase (TLog 11 1); OBase (TLog 11 2); OBase (TLog 11 3); OBase (TRes 2);
    OStart 3; OBase (TLog 11 4); OBase (TRes 3);
    OBase (TLog 11 5); OStart 7; OBase (TRes 7) ].

Example ex_run_runs :
  match texec2 ex_after tinit2 ex_run with Some (_, out) => out | None => [] end = ex_out.
Proof. vm_compute. reflexivity. Qed.

Example ex_run_unique_messages : NoDup (map log_key (emitted (base_labels ex_run))).
Proof.
  vm_compute. repeat (constructor; [cbn; intros H; repeat (destruct H as [H|H]; [discriminate|]); exact H|]). constructor.
Qed.

(* the hypotheses of the clause hold for the log (11, 3) of the Before-hook span 2 and (11, 4) of the step span 3, and
   its conclusion is the non-trivial fact that OStart 2 / OStart 3 occur in the prefix *)
Example ex_clause_before_hook :
  exists s2, texec2 ex_after tinit2 ex_run = Some (s2, ex_out) /\
    In (LBase (TEmit 11 3 2)) ex_run /\ ex_after 2 = false /\
    ex_out = [OStart 2; OBase (TLog 11 1); OBase (TLog 11 2)] ++ OBase (TLog 11 3) ::
             [OBase (TRes 2); OStart 3; OBase (TLog 11 4); OBase (TRes 3); OBase (TLog 11 5); OStart 7; OBase (TRes 7)] /\
    In (OStart 2) [OStart 2; OBase (TLog 11 1); OBase (TLog 11 2)].
Proof.
  eexists. split; [vm_compute; reflexivity|]. split; [cbn; tauto|]. split; [reflexivity|]. split; [reflexivity|].
  left; reflexivity.
Qed.

Example ex_clause_step :
  forall s2 a b, texec2 ex_after tinit2 ex_run = Some (s2, a ++ OBase (TLog 11 4) :: b) -> In (OStart 3) a.
Proof.
  intros s2 a b H.
  eapply (log_delivered_after_started ex_after ex_run s2 _ a 11 4 b 3 H ex_run_unique_messages); [cbn; tauto|reflexivity|reflexivity].
Qed.

(* the After-hook log (11, 5) of the same run is delivered BEFORE OStart 7 *)
Example ex_after_hook_log_precedes_started :
  ex_out = [OStart 2; OBase (TLog 11 1); OBase (TLog 11 2); OBase (TLog 11 3); OBase (TRes 2);
            OStart 3; OBase (TLog 11 4); OBase (TRes 3)] ++ OBase (TLog 11 5) :: [OStart 7; OBase (TRes 7)] /\
  ~ In (OStart 7) [OStart 2; OBase (TLog 11 1); OBase (TLog 11 2); OBase (TLog 11 3); OBase (TRes 2);
                   OStart 3; OBase (TLog 11 4); OBase (TRes 3)].
Proof.
  split; [reflexivity|]. cbn. intros H. repeat (destruct H as [H|H]; [discriminate|]). exact H.
Qed.

Print Assumptions projection.
Print Assumptions logs_before_result2.
Print Assumptions logs_exactly_once_in_order2.
Print Assumptions log_delivered_after_started.
Print Assumptions delivered_log_has_started_emitter.
Print Assumptions log_between_started_and_result.
Print Assumptions kth_delivered_log_after_started_of_kth_emission.
Print Assumptions after_hook_logs_precede_started_refuted.
