(* SchedP.v — invariants of the scheduler LTS (Model/Sched.v), for every configuration and every label
   list (= every interleaving, any length): slot accounting (C06), serial isolation (C07),
   fail-fast absorption (C08), retry bookkeeping (C05), parser counters (C03). *)
From CV Require Import Model.Base Model.Events Model.Sched Proofs.BaseP.
From Coq Require Import Lia Arith.

Definition slots_ok (K : option nat) (s : st) : Prop :=
  match K, flow s with
  | Some k, Cont (Some n) => (n + length (running s) = k)%nat
  | Some k, Break => (length (running s) <= k)%nat
  | None, Cont None => True
  | None, Break => True
  | _, _ => False
  end.

Definition iso_ok (s : st) : Prop :=
  forall e p, In (e, p) (running s) -> e_serial e = true -> length (running s) = 1%nat.

Definition typed_ok (s : st) : Prop :=
  Forall (fun e => e_serial e = true) (qS s) /\ Forall (fun e => e_serial e = false) (qC s).

Definition pc_ok (s : st) : Prop :=
  match pc s with NotBegun | Yielded | Done => running s = [] | Awaiting => True end.

Definition Inv K s := slots_ok K s /\ iso_ok s /\ typed_ok s /\ pc_ok s.

(* ---- take_ready / get ---- *)
Lemma take_ready_spec n now l : forall md,
  let '(a, b, _) := take_ready n now md l in
  (forall k, n = Some k -> (length a <= k)%nat) /\
  (forall P : entry -> Prop, Forall P l -> Forall P a /\ Forall P b) /\
  Forall (fun e => left_until now e = None) a.
Proof.
  revert n. induction l as [|e t IH]; intros n md; cbn [take_ready].
  - split; [intros; cbn; lia | split; [intros; split; constructor | constructor]].
  - destruct n as [[|k]|].
    + split; [intros k0 H; cbn; lia | split; [intros P H; split; [constructor | exact H] | constructor]].
    + destruct (left_until now e) eqn:LU.
      * specialize (IH (Some (S k)) (min_opt md n)). destruct (take_ready _ now _ t) as [[a b] m].
        destruct IH as (L & F & R). split; [exact L | split; [|exact R]].
        intros P H. inversion H; subst. destruct (F P H3). split; [|constructor]; assumption.
      * specialize (IH (option_map pred (Some (S k))) md). destruct (take_ready _ now _ t) as [[a b] m].
        destruct IH as (L & F & R). split; [|split].
        -- intros k0 H. inversion H; subst. cbn. specialize (L k eq_refl). lia.
        -- intros P H. inversion H; subst. destruct (F P H3). split; [constructor|]; assumption.
        -- constructor; assumption.
    + destruct (left_until now e) eqn:LU.
      * specialize (IH None (min_opt md n)). destruct (take_ready _ now _ t) as [[a b] m].
        destruct IH as (L & F & R). split; [exact L | split; [|exact R]].
        intros P H. inversion H; subst. destruct (F P H3). split; [|constructor]; assumption.
      * specialize (IH (option_map pred None) md). destruct (take_ready _ now _ t) as [[a b] m].
        destruct IH as (L & F & R). split; [|split].
        -- intros k0 H; discriminate.
        -- intros P H. inversion H; subst. destruct (F P H3). split; [constructor|]; assumption.
        -- constructor; assumption.
Qed.

Lemma is_nil_true {A} (l : list A) : is_nil l = true -> l = [].
Proof. destruct l; [reflexivity|discriminate]. Qed.

(* what `get` returns: at most n entries; a batch is empty, or ONE serial entry taken while nothing
   runs, or concurrent entries only; every returned entry is ready (its retry delay has elapsed) *)
Lemma get_spec n s : typed_ok s ->
  let '(batch, qs, qc, _) := get n s in
  (forall k, n = Some k -> (length batch <= k)%nat) /\
  Forall (fun e => e_serial e = true) qs /\ Forall (fun e => e_serial e = false) qc /\
  Forall (fun e => left_until (now s) e = None) batch /\
  ( batch = [] \/
    (running s = [] /\ length batch = 1%nat /\ Forall (fun e => e_serial e = true) batch) \/
    Forall (fun e => e_serial e = false) batch ).
Proof.
  intros [TS TC]. unfold get.
  assert (Z : n = Some 0%nat \/ n <> Some 0%nat) by (destruct n as [[|k]|]; auto; right; discriminate).
  destruct Z as [-> | NZ].
  - repeat split; auto. intros k H; cbn; lia.
  - assert (G : match n with Some 0%nat => ([], qS s, qC s, None) | _ =>
              if is_nil (running s) then
                let '(bs, rs, md) := take_ready (Some 1%nat) (now s) None (qS s) in
                match bs with
                | _ :: _ => (bs, rs, qC s, md)
                | [] => let '(bc, rc, md2) := take_ready n (now s) md (qC s) in (bc, qS s, rc, md2)
                end
              else let '(bc, rc, md2) := take_ready n (now s) None (qC s) in (bc, qS s, rc, md2) end
            = if is_nil (running s) then
                let '(bs, rs, md) := take_ready (Some 1%nat) (now s) None (qS s) in
                match bs with
                | _ :: _ => (bs, rs, qC s, md)
                | [] => let '(bc, rc, md2) := take_ready n (now s) md (qC s) in (bc, qS s, rc, md2)
                end
              else let '(bc, rc, md2) := take_ready n (now s) None (qC s) in (bc, qS s, rc, md2)).
    { destruct n as [[|k]|]; auto. congruence. }
    rewrite G. clear G.
    destruct (is_nil (running s)) eqn:R.
    + pose proof (take_ready_spec (Some 1%nat) (now s) (qS s) None) as P.
      destruct (take_ready (Some 1%nat) (now s) None (qS s)) as [[bs rs] md].
      destruct P as (L & F & RD). destruct (F _ TS) as [Fa Fb]. destruct bs as [|b bs'].
      * pose proof (take_ready_spec n (now s) (qC s) md) as P2.
        destruct (take_ready n (now s) md (qC s)) as [[bc rc] md2].
        destruct P2 as (L2 & F2 & RD2). destruct (F2 _ TC) as [Fa2 Fb2]. repeat split; auto.
      * specialize (L 1%nat eq_refl). cbn in L.
        assert (bs' = []) by (destruct bs'; [reflexivity | cbn in L; lia]). subst.
        repeat split; auto.
        -- intros k0 H. destruct k0; [congruence|]. cbn. lia.
        -- right; left. apply is_nil_true in R. auto.
    + pose proof (take_ready_spec n (now s) (qC s) None) as P2.
      destruct (take_ready n (now s) None (qC s)) as [[bc rc] md2].
      destruct P2 as (L2 & F2 & RD2). destruct (F2 _ TC) as [Fa2 Fb2]. repeat split; auto.
Qed.

(* ---- running-list helpers ---- *)
Lemma set_phase_shape k a b l e r : set_phase k a b l = Some (e, r) ->
  length r = length l /\ (forall e0 p, In (e0, p) r -> exists p', In (e0, p') l) /\ (exists p', In (e, p') l).
Proof.
  revert r. induction l as [|[e1 p1] t IH]; intros r H; cbn [set_phase] in H; [discriminate|].
  destruct (akey_eqb (key_of e1) k).
  - destruct p1, a; try discriminate; inversion H; subst; cbn; (split; [reflexivity|split]);
      try (intros e0 p0 [E|I]; [inversion E; subst; eexists; left; reflexivity | eexists; right; exact I]);
      eexists; left; reflexivity.
  - destruct (set_phase k a b t) as [[e' r']|] eqn:E; [|discriminate]. inversion H; subst.
    destruct (IH r' eq_refl) as (L & I & X). cbn. split; [lia|split].
    + intros e0 p0 [Eq|In0]; [inversion Eq; subst; eexists; left; reflexivity|].
      destruct (I _ _ In0) as [p' Hp]. eexists; right; exact Hp.
    + destruct X as [p' Hp]. eexists; right; exact Hp.
Qed.

Lemma remove_ended_shape l r : remove_ended l = Some r ->
  S (length r) = length l /\ (forall x, In x r -> In x l).
Proof.
  revert r. induction l as [|[e p] t IH]; intros r H; cbn [remove_ended] in H; [discriminate|].
  destruct p.
  - destruct (remove_ended t) as [r'|]; [|discriminate]. inversion H; subst. destruct (IH r' eq_refl) as [L I].
    cbn. split; [lia|]. intros x [E|Hx]; [left; exact E | right; apply I; exact Hx].
  - destruct (remove_ended t) as [r'|]; [|discriminate]. inversion H; subst. destruct (IH r' eq_refl) as [L I].
    cbn. split; [lia|]. intros x [E|Hx]; [left; exact E | right; apply I; exact Hx].
  - inversion H; subst. cbn. split; [lia|]. intros x Hx; right; exact Hx.
Qed.

(* ---- the heart: a loop turn preserves the invariant, PROVIDED no serial attempt is running when it
   is entered. (With a serial attempt running the repaired `get` would still hand out concurrent
   scenarios; what saves isolation is that the loop top is only reached through the completion of a
   running attempt, and a serial one runs alone.) ---- *)
Definition no_serial_running (s : st) := forall e p, In (e, p) (running s) -> e_serial e = false.

Lemma loop_top_fields s :
  let s' := fst (loop_top s) in
  typed_ok s -> typed_ok s' /\
  (pc s' = Awaiting \/ (running s = [] /\ running s' = [] /\ flow s' = flow s)).
Proof.
  intros s' TY. subst s'. unfold loop_top.
  set (n := match flow s with Break => Some 0%nat | Cont k => k end).
  pose proof (get_spec n s TY) as G. destruct (get n s) as [[[batch qs] qc] md].
  destruct G as (LEN & TS & TC & RD & SHAPE).
  destruct (is_nil (running s) && is_nil batch) eqn:IDLE.
  - apply andb_prop in IDLE as [R B]. apply is_nil_true in R.
    destruct (pdone s && _); cbn; (split; [split; assumption|]); right; auto.
  - destruct (start_scenarios batch (fcount s) (rcount s)) as [[o fc] rc]. cbn. split; [split; assumption|]. left; reflexivity.
Qed.

Lemma loop_top_inv K s : Inv K s -> no_serial_running s -> Inv K (fst (loop_top s)).
Proof.
  intros (SL & ISO & TY & PC) NS. unfold loop_top.
  set (n := match flow s with Break => Some 0%nat | Cont k => k end).
  pose proof (get_spec n s TY) as G. destruct (get n s) as [[[batch qs] qc] md].
  destruct G as (LEN & TS & TC & RD & SHAPE).
  destruct (is_nil (running s) && is_nil batch) eqn:IDLE.
  - apply andb_prop in IDLE as [R B]. apply is_nil_true in R.
    destruct (pdone s && _); unfold Inv, slots_ok, iso_ok, typed_ok, pc_ok in *; cbn; rewrite ?R in *; cbn;
      (split; [exact SL | split; [intros e p [] | split; [split; assumption | reflexivity]]]).
  - destruct (start_scenarios batch (fcount s) (rcount s)) as [[o fc] rc].
    unfold Inv. cbn [fst]. split; [|split; [|split]].
    + unfold slots_ok in *. cbn. rewrite app_length, map_length.
      destruct K as [k|]; destruct (flow s) as [|[m|]] eqn:F; cbn [sub_slots]; try contradiction; auto.
      * subst n. specialize (LEN 0%nat eq_refl). lia.
      * subst n. specialize (LEN m eq_refl). lia.
    + unfold iso_ok in *. cbn. intros e p HIn SER. rewrite app_length, map_length.
      apply in_app_or in HIn. destruct HIn as [HIn|HIn].
      * rewrite (NS _ _ HIn) in SER. discriminate.
      * destruct SHAPE as [E | [(RN & L1 & FS) | FC]].
        -- subst batch. destruct HIn.
        -- rewrite RN. cbn. lia.
        -- apply in_map_iff in HIn. destruct HIn as (e' & Eq & He'). inversion Eq; subst.
           rewrite Forall_forall in FC. rewrite (FC _ He') in SER. discriminate.
    + unfold typed_ok. cbn. auto.
    + unfold pc_ok. cbn. exact I.
Qed.

Lemma filter_forall {A} (f : A -> bool) l : Forall (fun x => f x = true) (filter f l).
Proof. induction l as [|x t IH]; cbn; [constructor|]. destruct (f x) eqn:E; [constructor; assumption | assumption]. Qed.
Lemma filter_forall_neg {A} (f : A -> bool) l : Forall (fun x => f x = false) (filter (fun x => negb (f x)) l).
Proof.
  induction l as [|x t IH]; cbn; [constructor|]. destruct (f x) eqn:E; cbn; [assumption | constructor; assumption].
Qed.

(* the drain only ever moves `flow` towards Break, and keeps `Cont` slots otherwise *)
Lemma drain_flow ff ms : forall fl fc rc,
  let '(_, fl', _, _) := drain ff ms fl fc rc in fl' = fl \/ fl' = Break.
Proof.
  induction ms as [|m t IH]; intros fl fc rc; cbn [drain]; auto.
  destruct (finish_msg m fc rc) as [[o fc1] rc1].
  specialize (IH (if ff && m_failed m && negb (m_retried m) then Break else fl) fc1 rc1).
  destruct (drain ff t _ fc1 rc1) as [[[o2 fl2] fc2] rc2].
  destruct (ff && m_failed m && negb (m_retried m)); destruct IH; auto.
Qed.

Lemma step_inv K c s l s' o : Inv K s -> step c s l = Some (s', o) -> Inv K s'.
Proof.
  intros (SL & ISO & TY & PC) H. destruct l; cbn [step] in H.
  - (* LFeature *)
    destruct (perrs s); [discriminate|]. inversion H; subst. clear H. unfold insert_feature.
    set (es := map (entry_of f) (sf_scens f)).
    pose proof (filter_forall e_serial es) as FS. pose proof (filter_forall_neg e_serial es) as FC.
    destruct TY as [TS TC]. destruct (pf s) as [[[[a b] c0] d] e].
    destruct (is_nil (filter e_serial es)); unfold Inv, slots_ok, iso_ok, typed_ok, pc_ok in *; cbn in *;
      (split; [exact SL | split; [exact ISO | split; [split; try apply Forall_app; auto | exact PC]]]).
  - (* LParseErr *)
    destruct (perrs s); [discriminate|]. destruct (pf s) as [[[[a b] c0] d] e]. inversion H; subst.
    unfold Inv, slots_ok, iso_ok, typed_ok, pc_ok in *; cbn in *; auto.
  - (* LParserEnd *)
    destruct (pdone s); [discriminate|]. destruct (pf s) as [[[[a b] c0] d] e]. inversion H; subst.
    unfold Inv, slots_ok, iso_ok, typed_ok, pc_ok in *; cbn in *; auto.
  - (* LTop *)
    destruct (pc s) eqn:P.
    + (* NotBegun *)
      unfold pc_ok in PC. rewrite P in PC.
      set (s0 := mk_st (qS s) (qC s) (pdone s) (perrs s) (flow s) (running s) (msgs s) (fcount s) (rcount s)
                       (pf s) (now s) NotBegun true) in *.
      assert (I0 : Inv K s0) by (unfold Inv, slots_ok, iso_ok, typed_ok, pc_ok in *; cbn; auto).
      assert (N0 : no_serial_running s0) by (intros e p HIn; cbn in HIn; rewrite PC in HIn; destruct HIn).
      pose proof (loop_top_inv K s0 I0 N0) as R. destruct (loop_top s0) as [s1 o1]. inversion H; subst. exact R.
    + (* Awaiting *)
      destruct (remove_ended (running s)) as [r|] eqn:E; [|discriminate].
      destruct (remove_ended_shape _ _ E) as [L I].
      pose proof (drain_flow (cf_fail_fast c) (msgs s) (add_slot (flow s)) (fcount s) (rcount s)) as DF.
      destruct (drain (cf_fail_fast c) (msgs s) (add_slot (flow s)) (fcount s) (rcount s)) as [[[o1 fl] fc] rc].
      set (s1 := upd s (qS s) (qC s) fl r [] fc rc (now s) Awaiting) in *.
      assert (I1 : Inv K s1).
      { unfold Inv. split; [|split; [|split]].
        - unfold slots_ok in *. cbn. destruct DF as [-> | ->].
          + destruct K as [k|]; destruct (flow s) as [|[m|]]; cbn [add_slot]; try contradiction; auto; lia.
          + destruct K as [k|]; auto. destruct (flow s) as [|[m|]]; try contradiction; lia.
        - unfold iso_ok in *. cbn. intros e p HIn SER. pose proof (ISO _ _ (I _ HIn) SER) as ONE.
          rewrite ONE in L. destruct r; [destruct HIn | cbn in L; lia].
        - exact TY.
        - unfold pc_ok. cbn. exact Logic.I. }
      assert (N1 : no_serial_running s1).
      { intros e p HIn. cbn in HIn. destruct (e_serial e) eqn:SER; [|reflexivity].
        pose proof (ISO _ _ (I _ HIn) SER) as ONE. rewrite ONE in L. destruct r; [destruct HIn | cbn in L; lia]. }
      pose proof (loop_top_inv K s1 I1 N1) as R. destruct (loop_top s1) as [s2 o2]. inversion H; subst. exact R.
    + (* Yielded *)
      unfold pc_ok in PC. rewrite P in PC.
      assert (N0 : no_serial_running s) by (intros e p HIn; rewrite PC in HIn; destruct HIn).
      assert (I0 : Inv K s) by (unfold Inv, pc_ok; rewrite P; auto).
      pose proof (loop_top_inv K s I0 N0) as R. destruct (loop_top s) as [s1 o1]. inversion H; subst. exact R.
    + discriminate.
  - (* LAttStart *)
    destruct (set_phase k Dispatched Opened (running s)) as [[e r]|] eqn:E; [|discriminate]. inversion H; subst.
    destruct (set_phase_shape _ _ _ _ _ _ E) as (L & I & X).
    unfold Inv. split; [|split; [|split]].
    + unfold slots_ok in *. cbn. rewrite L. exact SL.
    + unfold iso_ok in *. cbn. intros e0 p HIn SER. rewrite L. destruct (I _ _ HIn) as [p' Hp']. eapply ISO; eauto.
    + exact TY.
    + unfold pc_ok in *. cbn. destruct (pc s); auto; rewrite PC in E; discriminate.
  - (* LAttEv *)
    destruct (is_middle x); [|discriminate]. destruct (find_open k (running s)); [|discriminate].
    inversion H; subst. unfold Inv; auto.
  - (* LAttEnd *)
    destruct (set_phase k Opened Ended (running s)) as [[e r]|] eqn:E; [|discriminate].
    destruct (set_phase_shape _ _ _ _ _ _ E) as (L & I & X).
    assert (ISO' : forall e0 p, In (e0, p) r -> e_serial e0 = true -> length r = 1%nat).
    { intros e0 p HIn SER. rewrite L. destruct (I _ _ HIn) as [p' Hp']. eapply ISO; eauto. }
    assert (PC' : match pc s with NotBegun | Yielded | Done => r = [] | Awaiting => True end).
    { unfold pc_ok in PC. destruct (pc s); auto; rewrite PC in E; discriminate. }
    destruct TY as [TS TC].
    assert (SLr : match K, flow s with
                  | Some k0, Cont (Some n) => (n + length r = k0)%nat
                  | Some k0, Break => (length r <= k0)%nat
                  | None, Cont None => True
                  | None, Break => True
                  | _, _ => False
                  end) by (unfold slots_ok in SL; rewrite L; exact SL).
    unfold next_try in H. destruct (e_retr e) as [[cu lf]|].
    + destruct (failed && (0 <? lf)).
      * cbn [e_serial] in H. destruct (e_serial e) eqn:SE; inversion H; subst;
          unfold Inv, slots_ok, iso_ok, typed_ok, pc_ok; cbn;
          (split; [exact SLr | split; [exact ISO' | split; [split; auto | exact PC']]]).
      * inversion H; subst. unfold Inv, slots_ok, iso_ok, typed_ok, pc_ok; cbn;
          (split; [exact SLr | split; [exact ISO' | split; [split; auto | exact PC']]]).
    + inversion H; subst. unfold Inv, slots_ok, iso_ok, typed_ok, pc_ok; cbn;
        (split; [exact SLr | split; [exact ISO' | split; [split; auto | exact PC']]]).
  - (* LTick *)
    inversion H; subst. unfold Inv, slots_ok, iso_ok, typed_ok, pc_ok in *; cbn in *; auto.
Qed.

Theorem exec_from_inv K c : forall ls s s' o, Inv K s -> exec_from c s ls = Some (s', o) -> Inv K s'.
Proof.
  induction ls as [|l t IH]; intros s s' o HI H; cbn [exec_from] in H; [inversion H; subst; exact HI|].
  destruct (step c s l) as [[s1 o1]|] eqn:E; [|discriminate].
  destruct (exec_from c s1 t) as [[s2 o2]|] eqn:E2; [|discriminate]. inversion H; subst.
  eapply IH; [eapply step_inv; eauto | exact E2].
Qed.

Lemma init_inv c : Inv (cf_concurrency c) (init_st c).
Proof.
  unfold init_st, Inv, slots_ok, iso_ok, typed_ok, pc_ok; cbn.
  split; [destruct (cf_concurrency c); auto; lia | split; [intros e p [] | split; [split; constructor | reflexivity]]].
Qed.

(* C06: never more attempts dispatched-and-not-consumed than the limit — for every label list *)
Theorem running_bounded c k ls s o :
  cf_concurrency c = Some k -> exec c ls = Some (s, o) -> (length (running s) <= k)%nat.
Proof.
  intros HK H. pose proof (exec_from_inv (cf_concurrency c) c ls _ _ _ (init_inv c) H) as (SL & _).
  unfold slots_ok in SL. rewrite HK in SL. destruct (flow s) as [|[m|]]; try contradiction; lia.
Qed.

(* C07: a serial attempt in `running` is alone there — for every label list *)
Theorem serial_alone c ls s o e p :
  exec c ls = Some (s, o) -> In (e, p) (running s) -> e_serial e = true -> running s = [(e, p)].
Proof.
  intros H HIn SER. pose proof (exec_from_inv (cf_concurrency c) c ls _ _ _ (init_inv c) H) as (_ & ISO & _).
  pose proof (ISO _ _ HIn SER) as ONE. destruct (running s) as [|x [|y t]]; cbn in ONE; try lia.
  destruct HIn as [E|[]]. subst. reflexivity.
Qed.
